// Package message: deterministic stand-in for Themis Secure Message (encrypt mode). NOT secure.
//
//	shared = SHA256( BE32bytes( peerPub^d mod p ) )          (toy Diffie-Hellman, p = 2^255-19, g = 2)
//	header = 20 26 04 26 | LE32(52 + len msg)
//	iv     = 12 random bytes
//	tag    = SHA256(shared | header | iv | msg)                (32 bytes)
//	ct     = msg XOR SHA256-counter-stream(shared, iv)         (as in package cell)
//	out    = header | iv | tag | ct                            (overhead 52: 32-byte key -> 84 bytes)
package message

import (
	"crypto/rand"
	"crypto/sha256"
	"crypto/subtle"
	"encoding/binary"
	"math/big"

	"github.com/cossacklabs/themis/gothemis/errors"
	"github.com/cossacklabs/themis/gothemis/keys"
)

var (
	ErrEncryptMessage    = errors.New("failed to encrypt message")
	ErrDecryptMessage    = errors.New("failed to decrypt message")
	ErrSignMessage       = errors.New("failed to sign message")
	ErrVerifyMessage     = errors.New("failed to verify message")
	ErrProcessMessage    = errors.New("failed to process message")
	ErrGetOutputSize     = errors.New("failed to get output size")
	ErrMissingMessage    = errors.NewWithCode(errors.InvalidParameter, "empty message for Secure Cell")
	ErrMissingPublicKey  = errors.NewWithCode(errors.InvalidParameter, "empty peer public key for Secure Message")
	ErrMissingPrivateKey = errors.NewWithCode(errors.InvalidParameter, "empty private key for Secure Message")
	ErrOutOfMemory       = errors.NewWithCode(errors.NoMemory, "Secure Message cannot allocate enough memory")
	ErrOverflow          = ErrOutOfMemory
)

type SecureMessage struct {
	private    *keys.PrivateKey
	peerPublic *keys.PublicKey
}

func New(private *keys.PrivateKey, peerPublic *keys.PublicKey) *SecureMessage {
	return &SecureMessage{private, peerPublic}
}

func (sm *SecureMessage) shared() ([]byte, error) {
	if sm.private == nil || len(sm.private.Value) == 0 {
		return nil, ErrMissingPrivateKey
	}
	if sm.peerPublic == nil || len(sm.peerPublic.Value) == 0 {
		return nil, ErrMissingPublicKey
	}
	pb, ok := keys.Unpack(keys.PrivTag, sm.private.Value)
	if !ok || pb[0] != 0 {
		return nil, ErrProcessMessage
	}
	ub, ok := keys.Unpack(keys.PubTag, sm.peerPublic.Value)
	if !ok || ub[0] != 2 {
		return nil, ErrProcessMessage
	}
	d := new(big.Int).SetBytes(pb[1:])
	y := new(big.Int).SetBytes(ub[1:])
	s := new(big.Int).Exp(y, d, keys.P)
	var buf [32]byte
	s.FillBytes(buf[:])
	h := sha256.Sum256(buf[:])
	return h[:], nil
}

const (
	headerLen = 8
	ivLen     = 12
	tagLen    = 32
	// Overhead is the number of bytes added by Wrap.
	Overhead = headerLen + ivLen + tagLen
)

var magic = []byte{0x20, 0x26, 0x04, 0x26}

func xorStream(k, iv, in []byte) []byte {
	out := make([]byte, len(in))
	var ctr [4]byte
	for i := 0; i*32 < len(in); i++ {
		binary.LittleEndian.PutUint32(ctr[:], uint32(i))
		h := sha256.New()
		h.Write(k)
		h.Write(iv)
		h.Write(ctr[:])
		blk := h.Sum(nil)
		for j := 0; j < 32 && i*32+j < len(in); j++ {
			out[i*32+j] = in[i*32+j] ^ blk[j]
		}
	}
	return out
}

func tagOf(k, header, iv, msg []byte) []byte {
	h := sha256.New()
	h.Write(k)
	h.Write(header)
	h.Write(iv)
	h.Write(msg)
	return h.Sum(nil)
}

// WrapWithIV is the deterministic core of Wrap.
func (sm *SecureMessage) WrapWithIV(message, iv []byte) ([]byte, error) {
	if len(message) == 0 {
		return nil, ErrMissingMessage
	}
	if uint64(len(message)) >= 1<<32 {
		return nil, ErrOverflow
	}
	k, err := sm.shared()
	if err != nil {
		return nil, err
	}
	out := make([]byte, headerLen, Overhead+len(message))
	copy(out, magic)
	binary.LittleEndian.PutUint32(out[4:8], uint32(Overhead+len(message)))
	t := tagOf(k, out[:headerLen], iv, message)
	out = append(out, iv...)
	out = append(out, t...)
	out = append(out, xorStream(k, iv, message)...)
	return out[:len(out):len(out)], nil
}

func (sm *SecureMessage) Wrap(message []byte) ([]byte, error) {
	iv := make([]byte, ivLen)
	if _, err := rand.Read(iv); err != nil {
		return nil, ErrEncryptMessage
	}
	return sm.WrapWithIV(message, iv)
}

func (sm *SecureMessage) Unwrap(message []byte) ([]byte, error) {
	if len(message) == 0 {
		return nil, ErrMissingMessage
	}
	k, err := sm.shared()
	if err != nil {
		return nil, err
	}
	if len(message) <= Overhead || string(message[:4]) != string(magic) ||
		uint64(binary.LittleEndian.Uint32(message[4:8])) != uint64(len(message)) || uint64(len(message)-Overhead) >= 1<<32 {
		return nil, ErrDecryptMessage
	}
	iv := message[headerLen : headerLen+ivLen]
	msg := xorStream(k, iv, message[Overhead:])
	t := tagOf(k, message[:headerLen], iv, msg)
	if subtle.ConstantTimeCompare(t, message[headerLen+ivLen:Overhead]) != 1 {
		return nil, ErrDecryptMessage
	}
	return msg, nil
}

func (sm *SecureMessage) Sign(message []byte) ([]byte, error)   { return nil, ErrSignMessage }
func (sm *SecureMessage) Verify(message []byte) ([]byte, error) { return nil, ErrVerifyMessage }
