package errors

import "fmt"

type ThemisErrorCode int

const (
	Success          ThemisErrorCode = 0
	Fail             ThemisErrorCode = 11
	InvalidParameter ThemisErrorCode = 12
	NoMemory         ThemisErrorCode = 13
	BufferTooSmall   ThemisErrorCode = 14
	DataCorrupt      ThemisErrorCode = 15
	InvalidSignature ThemisErrorCode = 16
	NotSupported     ThemisErrorCode = 17
)

type ThemisError struct {
	msg  string
	code ThemisErrorCode
}

func (e *ThemisError) Error() string         { return e.msg }
func (e *ThemisError) Code() ThemisErrorCode { return e.code }
func New(description string) *ThemisError    { return &ThemisError{msg: description, code: Fail} }
func NewWithCode(code ThemisErrorCode, description string) *ThemisError {
	return &ThemisError{msg: description, code: code}
}

type ThemisCallbackError struct{ msg string }

func (e *ThemisCallbackError) Error() string { return e.msg }
func NewCallbackError(msg string) *ThemisCallbackError {
	return &ThemisCallbackError{msg: fmt.Sprint(msg)}
}
