// Package cell: deterministic stand-in for Themis Secure Cell (Seal mode). NOT secure.
//
//	k      = SHA256(key)
//	header = 00 01 01 40 | LE32(12) | LE32(16) | LE32(len msg)
//	iv     = 12 random bytes
//	stream = SHA256(k|iv|LE32(0)) | SHA256(k|iv|LE32(1)) | ...
//	ct     = msg XOR stream
//	tag    = SHA256(k | LE64(len ctx) | ctx | header | iv | msg)[0:16]
//	out    = header | iv | tag | ct                       (overhead 44, like Themis)
//
// Unseal recomputes the tag from the decrypted message, so everything it accepts is literally an
// output of seal for the returned message (this is what the Lean model proves about it).
package cell

import (
	"crypto/rand"
	"crypto/sha256"
	"crypto/subtle"
	"encoding/binary"

	"github.com/cossacklabs/themis/gothemis/errors"
	"github.com/cossacklabs/themis/gothemis/keys"
)

var (
	ErrGetOutputSize     = errors.New("failed to get output size")
	ErrEncryptData       = errors.New("failed to protect data")
	ErrDecryptData       = errors.New("failed to unprotect data")
	ErrInvalidMode       = errors.NewWithCode(errors.InvalidParameter, "invalid Secure Cell mode specified")
	ErrMissingKey        = errors.NewWithCode(errors.InvalidParameter, "empty symmetric key for Secure Cell")
	ErrMissingPassphrase = errors.NewWithCode(errors.InvalidParameter, "empty passphrase for Secure Cell")
	ErrMissingMessage    = errors.NewWithCode(errors.InvalidParameter, "empty message for Secure Cell")
	ErrMissingToken      = errors.NewWithCode(errors.InvalidParameter, "authentication token is required in Token Protect mode")
	ErrMissingContext    = errors.NewWithCode(errors.InvalidParameter, "associated context is required in Context Imprint mode")
	ErrOutOfMemory       = errors.NewWithCode(errors.NoMemory, "Secure Cell cannot allocate enough memory")
	ErrOverflow          = ErrOutOfMemory
)

const (
	ModeSeal = iota
	ModeTokenProtect
	ModeContextImprint
)
const (
	CELL_MODE_SEAL            = ModeSeal
	CELL_MODE_TOKEN_PROTECT   = ModeTokenProtect
	CELL_MODE_CONTEXT_IMPRINT = ModeContextImprint
)

const (
	headerLen = 16
	ivLen     = 12
	tagLen    = 16
	// Overhead is the number of bytes added by seal.
	Overhead = headerLen + ivLen + tagLen
)

var magic = []byte{0x00, 0x01, 0x01, 0x40}

func xorStream(k, iv, in []byte) []byte {
	out := make([]byte, len(in))
	var ctr [4]byte
	for i := 0; i*32 < len(in); i++ {
		binary.LittleEndian.PutUint32(ctr[:], uint32(i))
		h := sha256.New()
		h.Write(k)
		h.Write(iv)
		h.Write(ctr[:])
		blk := h.Sum(nil)
		for j := 0; j < 32 && i*32+j < len(in); j++ {
			out[i*32+j] = in[i*32+j] ^ blk[j]
		}
	}
	return out
}

func tagOf(k, ctx, header, iv, msg []byte) []byte {
	h := sha256.New()
	h.Write(k)
	var l [8]byte
	binary.LittleEndian.PutUint64(l[:], uint64(len(ctx)))
	h.Write(l[:])
	h.Write(ctx)
	h.Write(header)
	h.Write(iv)
	h.Write(msg)
	return h.Sum(nil)[:tagLen]
}

// SealWithIV is the deterministic core of seal.
func SealWithIV(key, msg, ctx, iv []byte) ([]byte, error) {
	if len(key) == 0 {
		return nil, ErrMissingKey
	}
	if len(msg) == 0 {
		return nil, ErrMissingMessage
	}
	if uint64(len(msg)) >= 1<<32 {
		return nil, ErrOverflow
	}
	k := sha256.Sum256(key)
	out := make([]byte, headerLen, Overhead+len(msg))
	copy(out, magic)
	binary.LittleEndian.PutUint32(out[4:8], ivLen)
	binary.LittleEndian.PutUint32(out[8:12], tagLen)
	binary.LittleEndian.PutUint32(out[12:16], uint32(len(msg)))
	t := tagOf(k[:], ctx, out[:headerLen], iv, msg)
	out = append(out, iv...)
	out = append(out, t...)
	out = append(out, xorStream(k[:], iv, msg)...)
	return out[:len(out):len(out)], nil
}

func seal(key, msg, ctx []byte) ([]byte, error) {
	iv := make([]byte, ivLen)
	if _, err := rand.Read(iv); err != nil {
		return nil, ErrEncryptData
	}
	return SealWithIV(key, msg, ctx, iv)
}

func unseal(key, data, ctx []byte) ([]byte, error) {
	if len(key) == 0 {
		return nil, ErrMissingKey
	}
	if len(data) == 0 {
		return nil, ErrMissingMessage
	}
	if len(data) <= Overhead || string(data[:4]) != string(magic) ||
		binary.LittleEndian.Uint32(data[4:8]) != ivLen || binary.LittleEndian.Uint32(data[8:12]) != tagLen ||
		uint64(binary.LittleEndian.Uint32(data[12:16])) != uint64(len(data)-Overhead) || uint64(len(data)-Overhead) >= 1<<32 {
		return nil, ErrDecryptData
	}
	k := sha256.Sum256(key)
	iv := data[headerLen : headerLen+ivLen]
	msg := xorStream(k[:], iv, data[Overhead:])
	t := tagOf(k[:], ctx, data[:headerLen], iv, msg)
	if subtle.ConstantTimeCompare(t, data[headerLen+ivLen:Overhead]) != 1 {
		return nil, ErrDecryptData
	}
	return msg, nil
}

type SecureCell struct {
	key  []byte
	mode int
}

func New(key []byte, mode int) *SecureCell { return &SecureCell{key, mode} }

func (sc *SecureCell) Protect(data []byte, context []byte) ([]byte, []byte, error) {
	if sc.mode != ModeSeal {
		return nil, nil, ErrInvalidMode
	}
	out, err := seal(sc.key, data, context)
	return out, nil, err
}

func (sc *SecureCell) Unprotect(protectedData []byte, additionalData []byte, context []byte) ([]byte, error) {
	if sc.mode != ModeSeal {
		return nil, ErrInvalidMode
	}
	return unseal(sc.key, protectedData, context)
}

type SecureCellSeal struct{ key *keys.SymmetricKey }

func SealWithKey(key *keys.SymmetricKey) (*SecureCellSeal, error) {
	if key == nil || len(key.Value) == 0 {
		return nil, ErrMissingKey
	}
	return &SecureCellSeal{key}, nil
}

func (sc *SecureCellSeal) Encrypt(message, context []byte) ([]byte, error) {
	return seal(sc.key.Value, message, context)
}

func (sc *SecureCellSeal) Decrypt(encrypted, context []byte) ([]byte, error) {
	return unseal(sc.key.Value, encrypted, context)
}
