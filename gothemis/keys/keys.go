// Package keys is part of a pure-Go, deterministic stand-in for gothemis used by the
// verification harness only. It is NOT secure. The algorithms are specified so that the Lean
// model (AcraModel/Crypto/Shim.lean) computes exactly the same functions.
//
// Key containers (45 bytes): tag(4) | BE32(45) | SHA256(tag|len|body)[0:4] | body(33).
// Private body: 0x00 | d (32 bytes, big endian).  Public body: 0x02 | (2^d mod p) (32 bytes BE),
// p = 2^255-19.
package keys

import (
	"crypto/rand"
	"crypto/sha256"
	"encoding/binary"
	"math/big"

	"github.com/cossacklabs/themis/gothemis/errors"
)

const (
	TypeEC = iota
	TypeRSA
)
const (
	KEYTYPE_EC  = TypeEC
	KEYTYPE_RSA = TypeRSA
)

var (
	ErrGetKeySize           = errors.New("failed to get needed key sizes")
	ErrGenerateKeypair      = errors.New("failed to generate keypair")
	ErrInvalidType          = errors.NewWithCode(errors.InvalidParameter, "invalid key type specified")
	ErrOutOfMemory          = errors.NewWithCode(errors.NoMemory, "key generator cannot allocate enough memory")
	ErrOverflow             = ErrOutOfMemory
	ErrGetSymmetricKeySize  = errors.New("failed to get symmetric key size")
	ErrGenerateSymmetricKey = errors.New("failed to generate symmetric key")
)

type PrivateKey struct{ Value []byte }
type PublicKey struct{ Value []byte }
type Keypair struct {
	Private *PrivateKey
	Public  *PublicKey
}
type SymmetricKey struct{ Value []byte }

// P is the modulus of the toy key agreement.
var P = new(big.Int).Sub(new(big.Int).Lsh(big.NewInt(1), 255), big.NewInt(19))

const (
	PrivTag = "REC2"
	PubTag  = "UEC2"
)

func check(tag string, body []byte) []byte {
	h := sha256.New()
	h.Write([]byte(tag))
	var l [4]byte
	binary.BigEndian.PutUint32(l[:], uint32(12+len(body)))
	h.Write(l[:])
	h.Write(body)
	return h.Sum(nil)[:4]
}

// Pack builds a key container.
func Pack(tag string, body []byte) []byte {
	out := make([]byte, 12+len(body))
	copy(out, tag)
	binary.BigEndian.PutUint32(out[4:8], uint32(len(out)))
	copy(out[8:12], check(tag, body))
	copy(out[12:], body)
	return out
}

// Unpack validates a key container and returns its body.
func Unpack(tag string, v []byte) ([]byte, bool) {
	if len(v) != 45 || string(v[:4]) != tag || binary.BigEndian.Uint32(v[4:8]) != 45 {
		return nil, false
	}
	if string(v[8:12]) != string(check(tag, v[12:])) {
		return nil, false
	}
	return v[12:], true
}

// PublicFromPrivateBody computes the public body for a private body.
func PublicFromPrivateBody(priv []byte) []byte {
	d := new(big.Int).SetBytes(priv[1:])
	y := new(big.Int).Exp(big.NewInt(2), d, P)
	out := make([]byte, 33)
	out[0] = 2
	y.FillBytes(out[1:])
	return out
}

// NewFromSeed builds a key pair deterministically from 32 bytes.
func NewFromSeed(d []byte) *Keypair {
	priv := append([]byte{0}, d...)
	return &Keypair{Private: &PrivateKey{Value: Pack(PrivTag, priv)}, Public: &PublicKey{Value: Pack(PubTag, PublicFromPrivateBody(priv))}}
}

func New(keytype int) (*Keypair, error) {
	if keytype != TypeEC {
		return nil, ErrInvalidType
	}
	d := make([]byte, 32)
	if _, err := rand.Read(d); err != nil {
		return nil, ErrGenerateKeypair
	}
	return NewFromSeed(d), nil
}

func NewSymmetricKey() (*SymmetricKey, error) {
	b := make([]byte, 32)
	if _, err := rand.Read(b); err != nil {
		return nil, ErrGenerateSymmetricKey
	}
	return &SymmetricKey{Value: b}, nil
}
