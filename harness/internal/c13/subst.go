package c13

import (
	"context"
	"encoding/json"
	"fmt"
	"reflect"
	"strings"

	pg_query "github.com/cossacklabs/pg_query_go/v5"

	"github.com/cossacklabs/acra/encryptor/base/config"
	mysqlenc "github.com/cossacklabs/acra/encryptor/mysql"
	pgenc "github.com/cossacklabs/acra/encryptor/postgresql"
	"github.com/cossacklabs/acra/sqlparser"

	"verifharness/internal/c16"
	"verifharness/internal/core"
	"verifharness/internal/sqlast"
)

func init() {
	// C13.subst <dialect my|myansi> <stmt-hex> <seed> → same <n substituted> | diff … | unparseable | nothing
	// Value substitution as the MySQL query encryptor does it: every value expression of INSERT … VALUES,
	// UPDATE … SET and ON DUPLICATE KEY UPDATE goes through the real encryptor/mysql.UpdateExpressionValue with
	// the real DBDataCoder and an update function that returns new bytes; the statement is printed and parsed
	// again. Judged: (1) the tree changed only at the substituted value nodes, (2) the printed text parses back
	// to exactly the substituted tree.
	core.Register("C13.subst", func(a []string) string {
		c16.SetDialect(a[0])
		return SubstMySQL(string(core.UnHex(a[1])), core.AtoU64(a[2]))
	})
	// C13.pgroundtrip <stmt-hex> → same | diff … | unparseable | deparse-fails | reparse-fails
	// PostgreSQL: the forwarded text comes from pg_query Deparse(Parse s)
	core.Register("C13.pgroundtrip", func(a []string) string {
		return PgRoundTrip(string(core.UnHex(a[0])), 0, false)
	})
	// C13.pgsubst <stmt-hex> <seed> → same <n> | …   (real PgQueryDBDataCoder.Encode on every A_Const of INSERT/UPDATE)
	core.Register("C13.pgsubst", func(a []string) string {
		return PgRoundTrip(string(core.UnHex(a[0])), core.AtoU64(a[1]), true)
	})
}

func newData(rd *core.Rand, old []byte) []byte {
	switch rd.Intn(6) {
	case 0: // binary (not UTF-8) → hex literal
		b := rd.Bytes(1 + rd.Intn(24))
		b[0] = 0xff
		return b
	case 1: // text with every special character
		return []byte("it's \"q\" \\ back\nnl\x00nul %_ \x1a end")
	case 2: // digits (tokenised integer)
		return []byte(fmt.Sprintf("%d", rd.Intn(1000000)))
	case 3: // looks like SQL
		return []byte("x'); drop table t; -- ")
	case 4:
		return []byte(`\x41 starts like a hex prefix`)
	default:
		return append([]byte("enc:"), old...)
	}
}

// SubstMySQL – see the op comment.
func SubstMySQL(stmt string, seed uint64) string {
	rd := core.NewRand(seed)
	p := sqlparser.New(sqlparser.ModeStrict)
	t, err := p.Parse(stmt)
	if err != nil {
		return "unparseable"
	}
	before := canon(sqlast.FromNode(t))
	var exprs []sqlparser.Expr
	switch s := t.(type) {
	case *sqlparser.Insert:
		if rows, ok := s.Rows.(sqlparser.Values); ok {
			for _, row := range rows {
				for _, v := range row {
					exprs = append(exprs, v)
				}
			}
		}
		for _, u := range s.OnDup {
			exprs = append(exprs, u.Expr)
		}
	case *sqlparser.Update:
		for _, u := range s.Exprs {
			exprs = append(exprs, u.Expr)
		}
	}
	if len(exprs) == 0 {
		return "nothing"
	}
	coder := &mysqlenc.DBDataCoder{}
	setting := &config.BasicColumnEncryptionSetting{Name: "a"}
	n := 0
	for _, e := range exprs {
		if rd.Chance(30) {
			continue
		}
		err := mysqlenc.UpdateExpressionValue(context.Background(), e, coder, setting, func(_ context.Context, data []byte) ([]byte, error) {
			return newData(rd, data), nil
		})
		if err == nil {
			n++
		}
	}
	after := canon(sqlast.FromNode(t))
	// (1) only value nodes changed
	if d := diffOutsideValues(before, after, ""); d != "" {
		return "diff substitution-changed-structure " + fmt.Sprintf("%q", d)
	}
	printed := sqlparser.String(t)
	t2, err := p.Parse(printed)
	if err != nil {
		return "reparse-fails " + core.Hex([]byte(printed))
	}
	back := canon(sqlast.FromNode(t2))
	if d := sqlast.FirstDiff(after, back, ""); d != "" {
		return "diff " + fmt.Sprintf("%q", d) + " printed=" + core.Hex([]byte(printed))
	}
	return fmt.Sprintf("same %d", n)
}

// diffOutsideValues: first difference of two trees that is not inside an SQLVal node.
func diffOutsideValues(a, b *sqlast.Tree, path string) string {
	if !a.IsAtom && !b.IsAtom && a.Kind == "SQLVal" && b.Kind == "SQLVal" {
		return ""
	}
	if a.IsAtom != b.IsAtom {
		return path + ": atom vs node"
	}
	if a.IsAtom {
		if string(a.Atom) != string(b.Atom) {
			return fmt.Sprintf("%s: %q vs %q", path, a.Atom, b.Atom)
		}
		return ""
	}
	if a.Kind != b.Kind || len(a.Kids) != len(b.Kids) {
		return fmt.Sprintf("%s: %s/%d vs %s/%d", path, a.Kind, len(a.Kids), b.Kind, len(b.Kids))
	}
	for i := range a.Kids {
		if d := diffOutsideValues(a.Kids[i], b.Kids[i], fmt.Sprintf("%s/%s.%d", path, a.Kind, i)); d != "" {
			return d
		}
	}
	return ""
}

// ---------- PostgreSQL: pg_query ----------

func pgJSON(tree *pg_query.ParseResult) (interface{}, error) {
	b, err := json.Marshal(tree)
	if err != nil {
		return nil, err
	}
	var v interface{}
	if err := json.Unmarshal(b, &v); err != nil {
		return nil, err
	}
	return stripLocations(v), nil
}

func stripLocations(v interface{}) interface{} {
	switch t := v.(type) {
	case map[string]interface{}:
		for k := range t {
			if k == "location" || k == "stmt_location" || k == "stmt_len" || k == "Location" || k == "StmtLocation" || k == "StmtLen" {
				delete(t, k)
				continue
			}
			t[k] = stripLocations(t[k])
		}
	case []interface{}:
		for i := range t {
			t[i] = stripLocations(t[i])
		}
	}
	return v
}

// PgRoundTrip: Parse → (optionally substitute every constant of INSERT/UPDATE through the real coder) → Deparse →
// Parse, trees compared as JSON without location fields.
func PgRoundTrip(stmt string, seed uint64, subst bool) string {
	tree, err := pg_query.Parse(stmt)
	if err != nil {
		return "unparseable"
	}
	n := 0
	if subst {
		rd := core.NewRand(seed)
		coder := &pgenc.PgQueryDBDataCoder{}
		setting := &config.BasicColumnEncryptionSetting{Name: "a"}
		isDML := false
		for _, st := range tree.Stmts {
			if st.Stmt.GetInsertStmt() != nil || st.Stmt.GetUpdateStmt() != nil {
				isDML = true
			}
		}
		if !isDML {
			return "nothing"
		}
		var nodes []*pg_query.Node
		for _, st := range tree.Stmts {
			nodes = append(nodes, st.Stmt)
		}
		_ = pg_query.Walk(func(node *pg_query.Node) (bool, error) {
			if c := node.GetAConst(); c != nil && !c.Isnull && rd.Chance(70) {
				old, err := coder.Decode(c, setting)
				if err != nil {
					return true, nil
				}
				if coder.Encode(c, newData(rd, old), setting) == nil {
					n++
				}
			}
			return true, nil
		}, nodes...)
	}
	j1, err := pgJSON(tree)
	if err != nil {
		return "json-fails"
	}
	text, err := pg_query.Deparse(tree)
	if err != nil {
		return "deparse-fails"
	}
	tree2, err := pg_query.Parse(text)
	if err != nil {
		return "reparse-fails " + core.Hex([]byte(text))
	}
	j2, err := pgJSON(tree2)
	if err != nil {
		return "json-fails"
	}
	if !reflect.DeepEqual(j1, j2) {
		a, _ := json.Marshal(j1)
		b, _ := json.Marshal(j2)
		return "diff " + firstJSONDiff(string(a), string(b)) + " printed=" + core.Hex([]byte(text))
	}
	if subst {
		return fmt.Sprintf("same %d", n)
	}
	return "same"
}

func firstJSONDiff(a, b string) string {
	i := 0
	for i < len(a) && i < len(b) && a[i] == b[i] {
		i++
	}
	lo := i - 60
	if lo < 0 {
		lo = 0
	}
	hi := func(s string) int {
		if i+60 < len(s) {
			return i + 60
		}
		return len(s)
	}
	return strings.ReplaceAll(fmt.Sprintf("%q~%q", a[lo:hi(a)], b[lo:hi(b)]), " ", "_")
}

// PgRoundTripText: result of PgRoundTrip with the printed text readable (diagnostics).
func PgRoundTripText(stmt string) string {
	out := PgRoundTrip(stmt, 0, false)
	return decodePrinted(out)
}

// PgBooleanOperand: decidable class of the known pg_query finding. The statement has a boolean-valued
// expression – AND/OR/NOT, an IS [NOT] NULL / IS TRUE test, or an IN/ANY/ALL sub-select with a test
// expression – as an operand of an operator expression (incl. BETWEEN bounds) or of an IS NULL / IS TRUE test, or an
// AND/OR/NOT as the argument of a CAST (printed with the `::` operator).
// libpg_query's deparser prints such operands without the parentheses they need
// (1 + (b in (select …)) → 1 + b IN (SELECT …); (a or b) is null → a OR b IS NULL).
func PgBooleanOperand(stmt string) bool {
	tree, err := pg_query.Parse(stmt)
	if err != nil {
		return false
	}
	j, err := pgJSON(tree)
	if err != nil {
		return false
	}
	found := false
	isBoolNode := func(v interface{}) bool {
		m, ok := v.(map[string]interface{})
		if !ok {
			return false
		}
		if n, ok := m["Node"].(map[string]interface{}); ok {
			m = n
		}
		for k, x := range m {
			switch k {
			case "BoolExpr", "NullTest", "BooleanTest":
				return true
			case "SubLink":
				if sl, ok := x.(map[string]interface{}); ok && sl["testexpr"] != nil {
					return true
				}
			}
		}
		return false
	}
	isCollateNode := func(v interface{}) bool {
		m, ok := v.(map[string]interface{})
		if !ok {
			return false
		}
		if n, ok := m["Node"].(map[string]interface{}); ok {
			m = n
		}
		_, ok = m["CollateClause"]
		return ok
	}
	var rec func(v interface{})
	rec = func(v interface{}) {
		switch t := v.(type) {
		case map[string]interface{}:
			for k, x := range t {
				if m, ok := x.(map[string]interface{}); ok {
					switch k {
					case "AExpr":
						if isBoolNode(m["lexpr"]) || isBoolNode(m["rexpr"]) {
							found = true
						}
						// a COLLATE clause as operand of an operator: -(a collate c) is deparsed as - a COLLATE c,
						// which PostgreSQL reads as (-a) COLLATE c (found by the thorough tier, same defect)
						if isCollateNode(m["lexpr"]) || isCollateNode(m["rexpr"]) {
							found = true
						}
						// LIKE / ILIKE / SIMILAR / BETWEEN / IN … (kind ≠ AEXPR_OP = 1) with an operator expression as operand
						if kind, _ := m["kind"].(float64); kind != 1 {
							var hasExpr func(y interface{}) bool
							hasExpr = func(y interface{}) bool {
								switch u := y.(type) {
								case map[string]interface{}:
									if _, ok := u["AExpr"]; ok {
										return true
									}
									if isBoolNode(u) {
										return true
									}
									if n, ok := u["Node"]; ok {
										return hasExpr(n)
									}
									if l, ok := u["List"]; ok {
										return hasExpr(l)
									}
									if it, ok := u["items"]; ok {
										return hasExpr(it)
									}
								case []interface{}:
									for _, z := range u {
										if hasExpr(z) {
											return true
										}
									}
								}
								return false
							}
							if hasExpr(m["lexpr"]) || hasExpr(m["rexpr"]) {
								found = true
							}
						}
						// BETWEEN keeps its bounds in a list under rexpr
						if l, ok := m["rexpr"].(map[string]interface{}); ok {
							var scan func(y interface{})
							scan = func(y interface{}) {
								switch u := y.(type) {
								case map[string]interface{}:
									if isBoolNode(u) {
										found = true
									}
									if _, isList := u["List"]; isList || u["Node"] != nil || u["items"] != nil {
										for _, z := range u {
											scan(z)
										}
									}
								case []interface{}:
									for _, z := range u {
										scan(z)
									}
								}
							}
							if _, isList := l["Node"].(map[string]interface{})["List"]; isList {
								scan(l)
							}
						}
					case "TypeCast":
						// CAST(<AND/OR/NOT> AS t) is deparsed as `NOT a::t` – the cast binds to the last operand only
						if a, ok := m["arg"].(map[string]interface{}); ok {
							if n, ok := a["Node"].(map[string]interface{}); ok {
								if _, ok := n["BoolExpr"]; ok {
									found = true
								}
							}
						}
					case "NullTest", "BooleanTest":
						if a, ok := m["arg"].(map[string]interface{}); ok {
							if n, ok := a["Node"].(map[string]interface{}); ok {
								if _, ok := n["BoolExpr"]; ok {
									found = true
								}
								if _, ok := n["AExpr"]; ok {
									found = true
								}
							}
						}
					}
				}
				rec(x)
			}
		case []interface{}:
			for _, x := range t {
				rec(x)
			}
		}
	}
	rec(j)
	return found
}
