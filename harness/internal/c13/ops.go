// Package c13: implementation-side ops, generators and oracles for property C13
// (re-serialised statements parse back to the same structure apart from the substituted values).
package c13

import (
	"fmt"
	"strings"

	"github.com/cossacklabs/acra/sqlparser"
	"github.com/cossacklabs/acra/sqlparser/dialect/mysql"
	"github.com/cossacklabs/acra/sqlparser/dialect/postgresql"

	"verifharness/internal/c16"
	"verifharness/internal/core"
	"verifharness/internal/sqlast"
)

func init() {
	// C13.lit.enc <hex> → hex of the text SQLVal.Format prints for StrVal(b)
	core.Register("C13.lit.enc", func(a []string) string {
		c16.SetDialect("my")
		return core.Hex([]byte(sqlparser.String(sqlparser.NewStrVal(core.UnHex(a[0])))))
	})
	// C13.lit.esc <hex> → hex of the quoted part of what is printed for PgEscapeString(b) (after the E)
	core.Register("C13.lit.esc", func(a []string) string {
		c16.SetDialect("pg")
		s := sqlparser.String(sqlparser.NewPgEscapeString(core.UnHex(a[0])))
		if len(s) == 0 || s[0] != 'E' {
			return "bad-print"
		}
		return core.Hex([]byte(s[1:]))
	})
	// C13.lit.scan <sq|dq|esq> <hex of the input after the opening quote> → ok <value> <rest> | err
	// the real tokenizer on quote+input (MySQL dialect for sq/dq; PostgreSQL E'…' for esq)
	core.Register("C13.lit.scan", func(a []string) string {
		in := core.UnHex(a[1])
		var full string
		var tkn *sqlparser.Tokenizer
		want := sqlparser.SINGLE_QUOTE_STRING
		switch a[0] {
		case "sq":
			full = "'" + string(in)
			tkn = sqlparser.NewStringTokenizerWithDialect(mysql.NewMySQLDialect(), full)
		case "dq":
			full = "\"" + string(in)
			tkn = sqlparser.NewStringTokenizerWithDialect(mysql.NewMySQLDialect(), full)
			want = sqlparser.DOUBLE_QUOTE_STRING
		case "esq":
			full = "E'" + string(in)
			tkn = sqlparser.NewStringTokenizerWithDialect(postgresql.NewPostgreSQLDialect(), full)
			want = sqlparser.PG_ESCAPE_STRING
		default:
			panic("harness: bad quote kind")
		}
		typ, val := tkn.Scan()
		if typ == sqlparser.LEX_ERROR {
			return core.Err
		}
		if typ != want {
			return fmt.Sprintf("other-token %d", typ)
		}
		// the tokenizer has read one character (or EOF) past the token
		consumed := tkn.Position - 1
		if consumed < 0 || consumed > len(full) {
			return fmt.Sprintf("bad-position %d", tkn.Position)
		}
		return "ok " + core.Hex(val) + " " + core.Hex([]byte(full[consumed:]))
	})
	// C13.ident.quote <my|pg> <name-hex> → hex of the text printed for an identifier that was written in quotes
	// (pg: ColIdent with quote mark, printed by writeQuotedID) or that has to be escaped (my: formatIDForDialect;
	// the harness only sends names that need escaping)
	core.Register("C13.ident.quote", func(a []string) string {
		c16.SetDialect(a[0])
		name := string(core.UnHex(a[1]))
		if a[0] == "pg" {
			return core.Hex([]byte(sqlparser.String(sqlparser.NewColIdentWithQuotes(name, '"'))))
		}
		return core.Hex([]byte(sqlparser.String(sqlparser.NewColIdent(name))))
	})
	// C13.ident.scan <my|pg> <hex of the input after the opening quote> → ok <name> <rest> | err
	core.Register("C13.ident.scan", func(a []string) string {
		in := core.UnHex(a[1])
		var full string
		var tkn *sqlparser.Tokenizer
		if a[0] == "pg" {
			full = "\"" + string(in)
			tkn = sqlparser.NewStringTokenizerWithDialect(postgresql.NewPostgreSQLDialect(), full)
		} else {
			full = "`" + string(in)
			tkn = sqlparser.NewStringTokenizerWithDialect(mysql.NewMySQLDialect(), full)
		}
		typ, val := tkn.Scan()
		if typ == sqlparser.LEX_ERROR {
			return core.Err
		}
		if typ != sqlparser.ID && typ != sqlparser.DOUBLE_QUOTE_STRING {
			return fmt.Sprintf("other-token %d", typ)
		}
		consumed := tkn.Position - 1
		if consumed < 0 || consumed > len(full) {
			return fmt.Sprintf("bad-position %d", tkn.Position)
		}
		return "ok " + core.Hex(val) + " " + core.Hex([]byte(full[consumed:]))
	})
	// C13.roundtrip <dialect> <stmt-hex> → same | diff <where> | unparseable | reparse-fails <printed-hex>
	core.Register("C13.roundtrip", func(a []string) string {
		c16.SetDialect(a[0])
		return RoundTrip(string(core.UnHex(a[1])))
	})
}

// RoundTrip: Parse(String(Parse s)) compared structurally (reflection dump) with Parse s.
func RoundTrip(stmt string) string {
	p := sqlparser.New(sqlparser.ModeStrict)
	t1, err := p.Parse(stmt)
	if err != nil {
		return "unparseable"
	}
	d1 := canon(sqlast.FromNode(t1))
	printed := sqlparser.String(t1)
	// printing must not change the tree it prints (Format caches only)
	if d := sqlast.FirstDiff(d1, canon(sqlast.FromNode(t1)), ""); d != "" {
		return "diff printing-mutates-tree " + d
	}
	t2, err := p.Parse(printed)
	if err != nil {
		return "reparse-fails " + core.Hex([]byte(printed))
	}
	d2 := canon(sqlast.FromNode(t2))
	if d := sqlast.FirstDiff(d1, d2, ""); d != "" {
		return "diff " + fmt.Sprintf("%q", d) + " printed=" + core.Hex([]byte(printed))
	}
	// and the printed form is a fixed point
	if again := sqlparser.String(t2); again != printed {
		return "diff not-a-fixed-point printed=" + core.Hex([]byte(printed)) + " again=" + core.Hex([]byte(again))
	}
	return "same"
}

// canon: the normalisations of the structural comparison (three, each described where it is applied). The printer quotes an identifier that is
// a keyword; read back in the PostgreSQL dialect the identifier then carries the quote mark although the
// original did not. An unquoted identifier that needs quoting is a lower-cased keyword (the tokenizer
// lower-cases keywords), and for a name without upper-case letters `"name"` and `name` denote the same
// identifier in PostgreSQL. So the quote mark of ColIdent/TableIdent is ignored exactly when the name has no
// upper-case ASCII letter and consists of letters, digits, `_`, `@` only (names that can be written unquoted).
func canon(t *sqlast.Tree) *sqlast.Tree {
	if t.IsAtom {
		return t
	}
	kids := make([]*sqlast.Tree, len(t.Kids))
	for i, k := range t.Kids {
		kids[i] = canon(k)
	}
	n := &sqlast.Tree{Kind: t.Kind, Kids: kids, Names: t.Names}
	// second normalisation: a named bind variable `:name` (Vitess syntax, not client SQL of either database) is
	// printed as the positional `?` on purpose (SQLVal.Format) and read back as `:v<position>`; placeholders are
	// compared by position, except the mask names `:replacedN`, which are printed as they are.
	if ty, v, ok := n.SQLVal(); ok && ty == c16.ValArg && !strings.HasPrefix(string(v), ":"+sqlparser.ValueMask) {
		kids[1] = &sqlast.Tree{IsAtom: true, Atom: []byte("?")}
	}
	// third normalisation: ORDER BY NULL and ORDER BY rand() are printed without a direction on purpose
	// (Order.Format); ordering by a constant or by a random value has no direction
	if t.Kind == "Order" && len(kids) == 2 && !kids[0].IsAtom {
		if kids[0].Kind == "NullVal" || (kids[0].Kind == "FuncExpr" && funcNameIs(kids[0], "rand")) {
			kids[1] = &sqlast.Tree{IsAtom: true, Atom: []byte("-")}
		}
	}
	nameIdx, quoteIdx := -1, -1
	switch t.Kind {
	case "ColIdent": // val, lowered, quote, unquote
		nameIdx, quoteIdx = 0, 2
	case "TableIdent": // quote, v, lowered
		nameIdx, quoteIdx = 1, 0
	}
	if nameIdx >= 0 && len(kids) > 2 && kids[nameIdx].IsAtom && plainLower(kids[nameIdx].Atom) {
		kids[quoteIdx] = &sqlast.Tree{IsAtom: true, Atom: []byte("0")}
	}
	return n
}

// funcNameIs: FuncExpr{Qualifier, Name ColIdent{val,…}, Distinct, Exprs}
func funcNameIs(f *sqlast.Tree, name string) bool {
	if len(f.Kids) < 2 || f.Kids[1].IsAtom || len(f.Kids[1].Kids) < 1 || !f.Kids[1].Kids[0].IsAtom {
		return false
	}
	return strings.EqualFold(string(f.Kids[1].Kids[0].Atom), name)
}

func plainLower(b []byte) bool {
	if len(b) == 0 {
		return false
	}
	for i, c := range b {
		switch {
		case c >= 'a' && c <= 'z', c == '_', c == '@':
		case c >= '0' && c <= '9' && i > 0:
		default:
			return false
		}
	}
	return true
}
