package c13

// Generators and oracles for the expression fragment (see expr.go).

import (
	"fmt"
	"strings"

	"github.com/cossacklabs/acra/sqlparser"

	"verifharness/internal/core"
)

var exprDialects = []string{"my", "pg"}

// checkParse: one expression text through the real tokenizer + parser and the model's parser; then, for a tree of the
// fragment, the model must call it producible (tie of `parse_producible`) and the real printer + parser must give it
// back (the property itself, `expr_roundtrip`).
func checkParse(r *core.Run, d, text string) *ETree {
	toks := tokenize(d, text, true)
	// hypothesis `AllOk` of `parse_producible`: a number token of the real tokenizer is unsigned and not empty
	for _, tk := range toks {
		for _, pre := range []string{"l:1:", "l:2:", "l:3:"} {
			if strings.HasPrefix(tk, pre) {
				v := tk[len(pre):]
				r.Check(v != "-" && !strings.HasPrefix(v, "2d"), "expr-token-shape", fmt.Sprintf("[%s] the tokenizer produced the number token %s for %s", d, tk, trunc(text)))
			}
		}
	}
	line := fmt.Sprintf("C13.expr.parse %s %s %d %s", d, hexS(text), len(toks), strings.Join(toks, " "))
	impl := r.Impl(line)
	r.Tag("expr-parse:" + firstWordOf(impl))
	for i := 0; i+1 < len(toks); i++ {
		if toks[i] == "s:MOD" && toks[i+1] == "s:'('" {
			// rule function_call_conflict: the keyword MOD used as a function name – outside the fragment
			impl = "outside"
		}
	}
	if impl == "outside" {
		return nil
	}
	r.Diff(line, impl)
	if !strings.HasPrefix(impl, "ok ") {
		return nil
	}
	tree := mustETree(strings.Fields(impl[3:]))
	// token conservation (`parse_keeps_lexemes`): the printed form of what the parser returns holds exactly the literal
	// and identifier tokens of the text, in order – on the real parser / printer / tokenizer and in the model
	if cons := r.Do(fmt.Sprintf("C13.expr.conserve %s %s %d %s", d, hexS(text), len(toks), strings.Join(toks, " "))); strings.HasPrefix(cons, "ok ") {
		if f := strings.SplitN(cons[3:], " | ", 2); len(f) == 2 {
			r.Check(f[0] == f[1], "expr-lexeme-lost", fmt.Sprintf("[%s] %s: the value-carrying tokens read (%s) are not those of the printed form (%s)", d, trunc(text), trunc(f[0]), trunc(f[1])))
		}
	}
	r.Diff("C13.expr.producible "+tree.String(), "yes")
	rt := r.Do("C13.expr.roundtrip " + d + " " + tree.String())
	r.Check(rt == "same", "expr-roundtrip:parsed", fmt.Sprintf("[%s] %s parses to %s; printed and parsed again: %s", d, trunc(text), trunc(tree.String()), trunc(rt)))
	return tree
}

func firstWordOf(s string) string {
	if i := strings.IndexByte(s, ' '); i >= 0 {
		return s[:i]
	}
	return s
}

// checkTree: an arbitrary tree (producible or not) through the real printer / tokenizer / parser and the model.
func checkTree(r *core.Run, d string, t *ETree, litOK bool, tag string) {
	ts := t.String()
	if litOK && minusMinus(t) {
		// `-` printed directly before a negative IntVal gives `--`, a comment: such a tree is not producible (the
		// grammar folds the sign into the IntVal) and the lexeme-level `tokens` of the model does not apply
		litOK = false
		r.Tag("expr-tree:minus-minus")
	}
	r.Do("C13.expr.format " + d + " " + ts)
	if litOK {
		r.Do("C13.expr.tokens " + d + " " + ts)
	}
	prod := r.ModelOnly("C13.expr.producible " + ts)
	r.Tag("expr-tree:" + tag + ":producible=" + prod)
	if !litOK {
		return
	}
	rt := r.Do("C13.expr.roundtrip " + d + " " + ts)
	if prod == "yes" {
		r.Check(rt == "same", "expr-roundtrip:"+tag, fmt.Sprintf("[%s] the producible tree %s is printed as %q and read back as: %s", d, trunc(ts), trunc(sqlparser.String(toAST(t))), trunc(rt)))
	} else {
		r.Tag("expr-nonproducible:" + firstWordOf(rt))
	}
}

// minusMinus: some unary minus is printed directly before a text that starts with `-`.
func minusMinus(t *ETree) bool {
	if t.Kind == "un" && t.Op == sqlparser.UMinusStr && t.Kids[0].Kind != "un" && strings.HasPrefix(sqlparser.String(toAST(t.Kids[0])), "-") {
		return true
	}
	for _, k := range t.Kids {
		if minusMinus(k) {
			return true
		}
	}
	return false
}

// ---------- generators ----------

var exprCols = []string{"a", "b", "c", "d", "x1", "col_2"}
var exprFuncs = []string{"f", "g", "fn1", "coalesce"}

func genLit(rd *core.Rand, d string, wellFormed bool) *ETree {
	switch rd.Intn(9) {
	case 0, 1:
		v := core.Pick(rd, []string{"0", "1", "42", "007", "18446744073709551616"})
		if rd.Chance(25) {
			v = "-" + v
		}
		return &ETree{Kind: "val", Ty: int(sqlparser.IntVal), Val: []byte(v)}
	case 2:
		return &ETree{Kind: "val", Ty: int(sqlparser.FloatVal), Val: []byte(core.Pick(rd, []string{"1.5", "0.25", "1e3", "2.5e-3"}))}
	case 3:
		return &ETree{Kind: "val", Ty: int(sqlparser.HexNum), Val: []byte(core.Pick(rd, []string{"0x1F", "0xab", "0x0"}))}
	case 4:
		return &ETree{Kind: "val", Ty: int(sqlparser.HexVal), Val: []byte(core.Pick(rd, []string{"1F", "abcd", "00"}))}
	case 5:
		return &ETree{Kind: "val", Ty: int(sqlparser.BitVal), Val: []byte(core.Pick(rd, []string{"0", "0101", "1"}))}
	case 6:
		if d == "pg" {
			return &ETree{Kind: "val", Ty: int(sqlparser.PgEscapeString), Val: genStrBytes(rd)}
		}
		fallthrough
	default:
		return &ETree{Kind: "val", Ty: int(sqlparser.StrVal), Val: genStrBytes(rd)}
	}
}

func genStrBytes(rd *core.Rand) []byte {
	n := rd.Intn(6)
	b := make([]byte, n)
	alphabet := []byte("ab x'\"\\%_-(),10\n\x00\xff=")
	for i := range b {
		b[i] = alphabet[rd.Intn(len(alphabet))]
	}
	return b
}

func genLeaf(rd *core.Rand, d string) *ETree {
	switch rd.Intn(10) {
	case 0:
		return &ETree{Kind: "null"}
	case 1:
		return &ETree{Kind: "bool", Op: core.Pick(rd, []string{"0", "1"})}
	case 2, 3, 4:
		return genLit(rd, d, true)
	default:
		return &ETree{Kind: "col", Val: []byte(core.Pick(rd, exprCols))}
	}
}

type opTable struct {
	infix, prefix, postfix []string // operator texts; infix without or/and, prefix without not
	cmp, bin               []string
}

func loadOps(r *core.Run) opTable {
	out := r.ModelOnly("C13.expr.ops")
	var t opTable
	sec := ""
	for _, w := range strings.Fields(out) {
		switch w {
		case "infix", "prefix", "postfix":
			sec = w
			continue
		}
		txt := unKey(w)
		switch sec {
		case "infix":
			t.infix = append(t.infix, txt)
			if fragCmpOps[txt] {
				t.cmp = append(t.cmp, txt)
			} else if fragBinOps[txt] {
				t.bin = append(t.bin, txt)
			} else if txt != "or" && txt != "and" {
				panic("harness: C13: the model lists an infix operator the harness does not know: " + w)
			}
		case "prefix":
			t.prefix = append(t.prefix, txt)
		case "postfix":
			t.postfix = append(t.postfix, txt)
		}
	}
	// the model's table must cover the operator constants of ast.go that the fragment claims
	if len(t.cmp) != len(fragCmpOps) || len(t.bin) != len(fragBinOps) || len(t.prefix) != 7 || len(t.postfix) != 6 {
		panic(fmt.Sprintf("harness: C13: operator table of the model (%d cmp, %d bin, %d prefix, %d postfix) does not match ast.go", len(t.cmp), len(t.bin), len(t.prefix), len(t.postfix)))
	}
	return t
}

// genTree: a random tree; every child is wrapped in a ParenExpr with probability parenPct, so that both producible and
// non-producible trees (and every operator nesting) occur.
func genTree(rd *core.Rand, d string, ops opTable, depth, parenPct int) *ETree {
	if depth <= 0 || rd.Chance(20) {
		return genLeaf(rd, d)
	}
	kid := func() *ETree {
		k := genTree(rd, d, ops, depth-1, parenPct)
		if rd.Chance(parenPct) {
			return &ETree{Kind: "paren", Kids: []*ETree{k}}
		}
		return k
	}
	switch rd.Intn(12) {
	case 0:
		return &ETree{Kind: "and", Kids: []*ETree{kid(), kid()}}
	case 1:
		return &ETree{Kind: "or", Kids: []*ETree{kid(), kid()}}
	case 2:
		return &ETree{Kind: "not", Kids: []*ETree{kid()}}
	case 3:
		return &ETree{Kind: "is", Op: core.Pick(rd, ops.postfix), Kids: []*ETree{kid()}}
	case 4, 5:
		return &ETree{Kind: "cmp", Op: core.Pick(rd, ops.cmp), Kids: []*ETree{kid(), kid()}}
	case 6:
		return &ETree{Kind: "range", Op: core.Pick(rd, []string{"0", "1"}), Kids: []*ETree{kid(), kid(), kid()}}
	case 7, 8, 9:
		return &ETree{Kind: "bin", Op: core.Pick(rd, ops.bin), Kids: []*ETree{kid(), kid()}}
	case 10:
		op := core.Pick(rd, ops.prefix)
		if op == "not" {
			op = "-"
		}
		return &ETree{Kind: "un", Op: op, Kids: []*ETree{kid()}}
	default:
		n := rd.Intn(4)
		t := &ETree{Kind: "func", Val: []byte(core.Pick(rd, exprFuncs))}
		for i := 0; i < n; i++ {
			t.Kids = append(t.Kids, genTree(rd, d, ops, depth-1, parenPct))
		}
		return t
	}
}

// spell prints a tree like the Format methods (no parentheses of its own) but with the spelling variations the
// tokenizer accepts: upper-case keywords, `<>`, `mod`, `&&`, `||`, varying white space.
func spell(rd *core.Rand, t *ETree) string {
	kw := func(s string) string {
		if rd.Chance(40) {
			return strings.ToUpper(s)
		}
		return s
	}
	sp := func() string { return core.Pick(rd, []string{" ", " ", "  ", "\t", "\n"}) }
	symOp := func(op string) string {
		switch op {
		case "!=":
			op = core.Pick(rd, []string{"!=", "<>"})
		case "%":
			if rd.Chance(40) {
				return sp() + kw("mod") + sp()
			}
		case "div", "like", "not like", "regexp", "not regexp":
			return sp() + kw(op) + sp()
		}
		if rd.Chance(30) {
			return op
		}
		return sp() + op + sp()
	}
	k := func(i int) string { return spell(rd, t.Kids[i]) }
	switch t.Kind {
	case "val", "null", "bool", "col":
		return sqlparser.String(toAST(t))
	case "func":
		var a []string
		for i := range t.Kids {
			a = append(a, k(i))
		}
		return string(t.Val) + "(" + strings.Join(a, core.Pick(rd, []string{",", ", ", " , "})) + ")"
	case "paren":
		return "(" + k(0) + ")"
	case "and":
		if rd.Chance(15) {
			return k(0) + " && " + k(1)
		}
		return k(0) + sp() + kw("and") + sp() + k(1)
	case "or":
		if rd.Chance(15) {
			return k(0) + " || " + k(1)
		}
		return k(0) + sp() + kw("or") + sp() + k(1)
	case "not":
		return kw("not") + sp() + k(0)
	case "is":
		return k(0) + sp() + kw(t.Op)
	case "cmp", "bin":
		return k(0) + symOp(t.Op) + k(1)
	case "range":
		op := "between"
		if t.Op == "1" {
			op = "not between"
		}
		return k(0) + sp() + kw(op) + sp() + k(1) + sp() + kw("and") + sp() + k(2)
	case "un":
		op := t.Op
		if strings.HasSuffix(op, " ") {
			return kw(op) + k(0)
		}
		return op + core.Pick(rd, []string{"", " "}) + k(0)
	}
	panic("harness: spell: " + t.Kind)
}

// substTree: replace SQLVal leaves by other SQLVal leaves (a non-IntVal never becomes an IntVal – the hypothesis of
// `producible_subst`; an IntVal may change its sign or its type).
func substTree(rd *core.Rand, d string, t *ETree) (*ETree, int) {
	if t.Kind == "val" {
		for {
			n := genLit(rd, d, true)
			if n.Ty == int(sqlparser.IntVal) && t.Ty != int(sqlparser.IntVal) {
				continue
			}
			return n, 1
		}
	}
	c := &ETree{Kind: t.Kind, Op: t.Op, Ty: t.Ty, Val: t.Val}
	total := 0
	for _, k := range t.Kids {
		nk, n := substTree(rd, d, k)
		c.Kids = append(c.Kids, nk)
		total += n
	}
	return c, total
}

// ---------- the run ----------

func runExprs(r *core.Run) {
	// a stream of its own, derived from the seed: the statement streams of the property keep their sequence
	rd := core.NewRand(r.Seed*0x9E3779B97F4A7C15 + 0xC13E)
	ops := loadOps(r)
	r.Extra["expr_operator_table"] = fmt.Sprintf("%d infix, %d prefix, %d postfix", len(ops.infix), len(ops.prefix), len(ops.postfix))

	// (1) every pair of operators of the regenerated table, both orders: `a op1 b op2 c`, prefix/postfix combinations,
	// with column and with literal operands (sign folding)
	type infixForm struct{ name, pre, post string } // `L <pre> R <post>` – BETWEEN brings its own second operand
	var forms []infixForm
	for _, o := range ops.infix {
		forms = append(forms, infixForm{o, " " + o + " ", ""})
	}
	forms = append(forms, infixForm{"between", " between ", " and e"}, infixForm{"not between", " not between ", " and e"})
	operandSets := [][]string{{"a", "b", "c"}, {"1", "2", "3"}, {"a", "-1", "'x'"}}
	for _, d := range exprDialects {
		for _, f1 := range forms {
			for _, f2 := range forms {
				for si, o := range operandSets {
					if si > 0 && !r.Thorough() && rd.Chance(70) {
						continue
					}
					text := o[0] + f1.pre + o[1] + f1.post + f2.pre + o[2] + f2.post
					r.Begin("pair:"+d+":"+text, true, "stream:expr-pairs", "dialect:"+d)
					checkParse(r, d, text)
				}
			}
			for _, p := range ops.prefix {
				ptxt := p
				if !strings.HasSuffix(p, " ") && (p == "not") {
					ptxt = p + " "
				}
				for _, o := range []string{"a", "1", "-1", "1.5"} {
					for _, text := range []string{
						ptxt + o + f1.pre + "b" + f1.post,
						"b" + f1.pre + ptxt + o + f1.post,
						"b" + f1.pre + "c" + f1.post + " and " + ptxt + o,
					} {
						r.Begin("prefix:"+d+":"+text, true, "stream:expr-pairs", "dialect:"+d)
						checkParse(r, d, text)
					}
				}
			}
			for _, p := range ops.postfix {
				for _, text := range []string{
					"a" + f1.pre + "b" + f1.post + " " + p,
					"a " + p + f1.pre + "b" + f1.post,
				} {
					r.Begin("postfix:"+d+":"+text, true, "stream:expr-pairs", "dialect:"+d)
					checkParse(r, d, text)
				}
			}
		}
		for _, p1 := range ops.prefix {
			s1 := p1
			if p1 == "not" {
				s1 = "not "
			}
			for _, p2 := range ops.prefix {
				s2 := p2
				if p2 == "not" {
					s2 = "not "
				}
				for _, o := range []string{"a", "1", "-1", "1.5", "'x'", "(1)"} {
					for _, text := range []string{s1 + s2 + o, s1 + " " + s2 + " " + o, s1 + " " + s2 + " " + o + " is null", s1 + " " + s2 + " " + o + " is not true = b"} {
						r.Begin("prefix2:"+d+":"+text, true, "stream:expr-pairs", "dialect:"+d)
						checkParse(r, d, text)
					}
				}
			}
			for _, p := range ops.postfix {
				for _, text := range []string{s1 + " a " + p, s1 + " a " + p + " " + p, "a " + p + " " + core.Pick(rd, ops.postfix)} {
					r.Begin("prepost:"+d+":"+text, true, "stream:expr-pairs", "dialect:"+d)
					checkParse(r, d, text)
				}
			}
		}
	}

	// (1b) random chains of three and four operators, optionally with one parenthesised pair and prefix operators
	for i := 0; i < r.N(400, 30000); i++ {
		d := core.Pick(rd, exprDialects)
		n := 3 + rd.Intn(2)
		var sb strings.Builder
		open := -1
		if rd.Chance(40) {
			open = rd.Intn(n)
		}
		for k := 0; k <= n; k++ {
			if k == open {
				sb.WriteString("(")
			}
			if rd.Chance(20) {
				p := core.Pick(rd, ops.prefix)
				sb.WriteString(p)
				if !strings.HasSuffix(p, " ") {
					sb.WriteString(" ")
				}
			}
			sb.WriteString(core.Pick(rd, []string{"a", "b", "1", "-2", "'x'", "null", "true", "f(a, 1)"}))
			if k == open+1 && open >= 0 {
				sb.WriteString(")")
			}
			if rd.Chance(15) {
				sb.WriteString(" " + core.Pick(rd, ops.postfix))
			}
			if k < n {
				f := core.Pick(rd, forms)
				sb.WriteString(f.pre)
				if f.post != "" {
					sb.WriteString(core.Pick(rd, []string{"c", "3", "c + 1"}) + " and ")
				}
			}
		}
		text := sb.String()
		r.Begin("chain:"+d+":"+text, true, "stream:expr-pairs", "dialect:"+d)
		checkParse(r, d, text)
	}

	// (2) grammar-generated trees with random parenthesisation: printed by the real printer and in variant spellings,
	// parsed by both; the trees themselves through printer / tokenizer / round trip
	for i := 0; i < r.N(1500, 60000); i++ {
		d := core.Pick(rd, exprDialects)
		t := genTree(rd, d, ops, 1+rd.Intn(4), core.Pick(rd, []int{0, 20, 50, 90}))
		r.Begin("tree:"+d+":"+t.String(), true, "stream:expr-trees", "dialect:"+d)
		checkTree(r, d, t, true, "generated")
		text := spell(rd, t)
		parsed := checkParse(r, d, text)
		// (3) substitution of SQLVal leaves in a tree the real parser produced
		if parsed != nil {
			st, n := substTree(rd, d, parsed)
			if n > 0 {
				r.Tag("expr-subst")
				prod := r.ModelOnly("C13.expr.producible " + st.String())
				r.Check(prod == "yes", "expr-subst-producible", fmt.Sprintf("[%s] substituting values in %s gives %s, which the model does not call producible", d, trunc(parsed.String()), trunc(st.String())))
				checkTree(r, d, st, true, "substituted")
			}
		}
	}

	// (4) malformed: token-level deletions, duplications and swaps of valid expressions – the model must reject
	// exactly what the real parser rejects
	for i := 0; i < r.N(1500, 40000); i++ {
		d := core.Pick(rd, exprDialects)
		t := genTree(rd, d, ops, 1+rd.Intn(3), core.Pick(rd, []int{0, 30, 60}))
		words := strings.Fields(spaced(t))
		if len(words) < 2 {
			continue
		}
		j := rd.Intn(len(words))
		switch rd.Intn(4) {
		case 0:
			words = append(words[:j:j], words[j+1:]...)
		case 1:
			words = append(words[:j+1:j+1], words[j:]...)
		case 2:
			k := rd.Intn(len(words))
			words[j], words[k] = words[k], words[j]
		default:
			words[j] = core.Pick(rd, []string{"and", "or", "not", "is", "null", "=", "+", "-", "(", ")", ",", "between", "like", "~", "!", "a", "1", "<=>", "binary", "div", "mod", "true"})
		}
		text := strings.Join(words, " ")
		r.Begin("malformed:"+d+":"+text, true, "stream:expr-malformed", "dialect:"+d)
		checkParse(r, d, text)
	}

	// (5) trees with leaves that are not well-formed literals (printer tie only)
	for i := 0; i < r.N(200, 4000); i++ {
		d := core.Pick(rd, exprDialects)
		t := genTree(rd, d, ops, 1+rd.Intn(2), 30)
		bad := &ETree{Kind: "val", Ty: core.Pick(rd, []int{0, 1, 2, 3, 4, 6}), Val: rd.Bytes(rd.Intn(4))}
		t = &ETree{Kind: "bin", Op: "+", Kids: []*ETree{t, bad}}
		r.Begin("rawleaf:"+d+":"+t.String(), true, "stream:expr-trees", "dialect:"+d)
		checkTree(r, d, t, false, "raw-leaf")
	}
}

// spaced prints a tree with a space around every token (string literals without blanks).
func spaced(t *ETree) string {
	k := func(i int) string { return spaced(t.Kids[i]) }
	switch t.Kind {
	case "val":
		if t.Ty == int(sqlparser.StrVal) || t.Ty == int(sqlparser.PgEscapeString) {
			return "'s'"
		}
		return sqlparser.String(toAST(t))
	case "null", "bool", "col":
		return sqlparser.String(toAST(t))
	case "func":
		var a []string
		for i := range t.Kids {
			a = append(a, k(i))
		}
		return string(t.Val) + " ( " + strings.Join(a, " , ") + " )"
	case "paren":
		return "( " + k(0) + " )"
	case "and", "or":
		return k(0) + " " + t.Kind + " " + k(1)
	case "not":
		return "not " + k(0)
	case "is":
		return k(0) + " " + t.Op
	case "cmp", "bin":
		return k(0) + " " + t.Op + " " + k(1)
	case "range":
		op := "between"
		if t.Op == "1" {
			op = "not between"
		}
		return k(0) + " " + op + " " + k(1) + " and " + k(2)
	case "un":
		return t.Op + " " + k(0)
	}
	panic("harness: spaced: " + t.Kind)
}
