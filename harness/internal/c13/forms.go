package c13

// forms.go – systematic statement-form coverage for C13, driven by the table factgen regenerates from the source
// (Generated/SqlForms.lean, read back through the model's `C13.forms.prods` / `C13.forms.paths` ops – the same table
// the theorems `fact_format_prints_all_fields` / `format_keeps_clauses` are about):
//
//   for every statement kind × grammar production × every subset of the production's optional symbols up to a bound
//   (and the full set) a statement text is built from per-symbol fragments, in both dialects, and judged by
//     (1) the structural round-trip oracle  Parse(String(Parse s)) ≡ Parse s            (C13.roundtrip)
//     (2) the clause census                 census(Parse s) = census(Parse(String(Parse s)))   (C13.forms.census)
//   The print path Format takes for the parsed node is computed from the regenerated path conditions; the evidence
//   holds the counts per (kind, path, clause), the paths never reached and the combinations that could not be produced.

import (
	"fmt"
	"sort"
	"strconv"
	"strings"

	"github.com/cossacklabs/acra/sqlparser"

	"verifharness/internal/c16"
	"verifharness/internal/core"
	"verifharness/internal/sqlast"
)

func init() {
	// C13.forms.census <dialect> <stmt-hex> <statement kinds, comma-joined> →
	//   unparseable | reparse-fails | <nodes> same | <nodes> diff <what>
	// <nodes>: every statement node of Parse s in pre-order (the statement itself first), `|`-joined, each
	// `Kind:Field[=hex of a short string value],…` listing its filled fields
	core.Register("C13.forms.census", func(a []string) string {
		c16.SetDialect(a[0])
		p := sqlparser.New(sqlparser.ModeStrict)
		t1, err := p.Parse(string(core.UnHex(a[1])))
		if err != nil {
			return "unparseable"
		}
		kinds := map[string]bool{}
		for _, k := range strings.Split(a[2], ",") {
			kinds[k] = true
		}
		d1 := canon(sqlast.FromNode(t1))
		t2, err := p.Parse(sqlparser.String(t1))
		if err != nil {
			return "reparse-fails"
		}
		d2 := canon(sqlast.FromNode(t2))
		c1, c2 := map[string]int{}, map[string]int{}
		sqlast.Census(d1, c1)
		sqlast.Census(d2, c2)
		var nodes []string
		d1.Walk(func(t *sqlast.Tree, _ []int) {
			if t.IsAtom || t.Names == nil || len(t.Names) != len(t.Kids) || !(kinds[t.Kind] || len(nodes) == 0) {
				return
			}
			var fs []string
			isPresent := map[string]bool{}
			for _, f := range sqlast.PresentFields(t) {
				isPresent[f] = true
			}
			for i, n := range t.Names {
				k := t.Kids[i]
				switch {
				case k.IsAtom && len(k.Atom) > 0 && len(k.Atom) <= 40 && string(k.Atom) != "-":
					// the value of a short string / number field (`!`: not counted as filled – "", false, 0)
					if isPresent[n] {
						fs = append(fs, n+"="+core.Hex(k.Atom))
					} else {
						fs = append(fs, "!"+n+"="+core.Hex(k.Atom))
					}
				case isPresent[n]:
					fs = append(fs, n)
				}
			}
			nodes = append(nodes, t.Kind+":"+strings.Join(fs, ","))
		})
		head := strings.Join(nodes, "|") + " "
		var keys []string
		for k := range c1 {
			keys = append(keys, k)
		}
		for k := range c2 {
			if _, ok := c1[k]; !ok {
				keys = append(keys, k)
			}
		}
		sort.Strings(keys)
		for _, k := range keys {
			if c1[k] != c2[k] {
				return head + fmt.Sprintf("diff %s:%d->%d", k, c1[k], c2[k])
			}
		}
		return head + "same"
	})
}

type formSym struct {
	sym, field string
	nullable   bool
}

type formProd struct {
	kind, rule string
	alt        int
	top        bool
	syms       []formSym
	fields     map[string]string // field → zeroness
}

type formCond struct {
	field, rel string
	vals       []string
}

type formPath struct {
	kind    string
	idx     int
	conds   []formCond
	printed []string
}

func unhexS(s string) string { return string(core.UnHex(s)) }

func parseFormProds(line string) []formProd {
	var out []formProd
	for _, tok := range strings.Fields(line) {
		f := strings.Split(tok, ";")
		if len(f) != 6 {
			panic("harness: C13.forms.prods: bad row " + tok)
		}
		alt, _ := strconv.Atoi(f[2])
		p := formProd{kind: f[0], rule: f[1], alt: alt, top: f[3] == "1", fields: map[string]string{}}
		if f[4] != "-" {
			for _, s := range strings.Split(f[4], ",") {
				x := strings.Split(s, ":")
				p.syms = append(p.syms, formSym{unhexS(x[0]), x[1], x[2] == "1"})
			}
		}
		if f[5] != "-" {
			for _, s := range strings.Split(f[5], ",") {
				x := strings.Split(s, ":")
				p.fields[x[0]] = x[1]
			}
		}
		out = append(out, p)
	}
	return out
}

func parseFormPaths(line string) []formPath {
	var out []formPath
	for _, tok := range strings.Fields(line) {
		f := strings.Split(tok, ";")
		if len(f) != 4 {
			panic("harness: C13.forms.paths: bad row " + tok)
		}
		idx, _ := strconv.Atoi(f[1])
		p := formPath{kind: f[0], idx: idx}
		if f[2] != "-" {
			for _, s := range strings.Split(f[2], ",") {
				x := strings.Split(s, ":")
				c := formCond{field: unhexS(x[0]), rel: x[1]}
				if len(x) > 2 && x[2] != "-" {
					for _, v := range strings.Split(x[2], "+") {
						c.vals = append(c.vals, unhexS(v))
					}
				}
				p.conds = append(p.conds, c)
			}
		}
		if f[3] != "-" {
			p.printed = strings.Split(f[3], ",")
		}
		out = append(out, p)
	}
	return out
}

// pathOf: the first path of the kind whose conditions hold for the node: emptiness of fields, comparisons of a string
// field with the regenerated constants, the dialect switch. Conditions on sub-fields (`ShowTablesOpt.DbName`) and
// opaque ones are not decided (the answer is then "one of them" and the first is taken).
func pathOf(paths []formPath, kind string, present map[string]bool, values map[string]string, dialect string) int {
	all := pathsOf(paths, kind, present, values, dialect)
	if len(all) == 0 {
		return -1
	}
	return all[0]
}

// pathsOf: every path of the kind whose decidable conditions hold (several when they differ in opaque conditions only)
func pathsOf(paths []formPath, kind string, present map[string]bool, values map[string]string, dialect string) []int {
	var out []int
	for _, p := range paths {
		if p.kind != kind {
			continue
		}
		ok := true
		for _, c := range p.conds {
			if strings.Contains(c.field, ".") {
				continue
			}
			in := false
			for _, v := range c.vals {
				in = in || v == values[c.field]
			}
			switch c.rel {
			case "zero":
				ok = ok && !present[c.field]
			case "nonzero":
				ok = ok && present[c.field]
			case "eq":
				ok = ok && in
			case "notin":
				ok = ok && !in
			case "dialect":
				isMy := len(c.vals) > 0 && strings.Contains(strings.ToLower(c.vals[0]), "mysql")
				ok = ok && isMy == strings.HasPrefix(dialect, "my")
			}
		}
		if ok {
			out = append(out, p.idx)
		}
	}
	return out
}

// ---- fragments: sample texts per grammar symbol. A symbol without an entry is a terminal (its lower-cased name,
// or the quoted character) or – when it is a rule of the grammar – reported as not producible.

var formFragments = map[string][]string{
	"openb": {"("}, "closeb": {")"},
	"ID":                               {"foo", "bar1"},
	"comment_opt":                      {"/* c1 */", "/* a */ /* b */"},
	"cache_opt":                        {"sql_no_cache", "sql_cache"},
	"distinct_opt":                     {"distinct"},
	"straight_join_opt":                {"straight_join"},
	"select_expression_list":           {"a, b", "*", "t.a as x, count(*), 'lit'", "a + 1, -b, (c)"},
	"select_expression":                {"a", "*", "t.a as x"},
	"from_opt":                         {"from t", "from t, u", "from t join u on t.a = u.a", "from t as x left join u on x.a = u.a", "from (select a from v) as s"},
	"from_table_opt":                   {"from u", "from u, v as w", "from u join v on u.a = v.a"},
	"where_expression_opt":             {"where a = 1", "where a = 1 and (b < 2 or c is null)", "where a in (1, 2) and b like 'x%'", "where exists (select 1 from v)"},
	"group_by_opt":                     {"group by a", "group by a, b + 1"},
	"having_opt":                       {"having count(*) > 1", "having a = 1 or b = 2"},
	"order_by_opt":                     {"order by a", "order by a desc, b asc"},
	"limit_opt":                        {"limit 5", "limit 5 offset 2", "limit 2, 5", "limit all", "limit all offset 3"},
	"lock_opt":                         {"for update", "lock in share mode"},
	"num_val":                          {"5 values", "value", ":n values"},
	"for_from":                         {"for", "from"},
	"table_name":                       {"t", "db.t"},
	"table_id":                         {"t", "db1"},
	"union_op":                         {"union", "union all", "union distinct"},
	"insert_or_replace":                {"insert", "replace"},
	"ignore_opt":                       {"ignore"},
	"into_table_name":                  {"into t", "t", "into db.t"},
	"opt_partition_clause":             {"partition (p0)", "partition (p0, p1)"},
	"tuple_list":                       {"(1, 'a')", "(1, 'a'), (2, null)", "(default, a + 1)"},
	"ins_column_list":                  {"a, b", "a, t.b"},
	"on_dup_opt":                       {"on duplicate key update a = 1", "on duplicate key update a = values(a), b = b + 1"},
	"returning_opt":                    {"returning a", "returning *", "returning a, b + 1 as c"},
	"update_list":                      {"a = 1", "a = 1, b = 'x'", "t.a = b + 1, c = (select 1 from v)"},
	"table_references":                 {"t", "t, u", "t join u on t.a = u.a", "t as x"},
	"aliased_table_name":               {"t", "t as x", "db.t"},
	"aliased_table_name_list":          {"t", "t, u", "t as x, u"},
	"from_or_using":                    {"from", "using"},
	"set_list":                         {"a = 1", "a = 1, b = 'x'", "names utf8", "autocommit = on"},
	"set_to_list":                      {"search_path to public", "a to 1, 2"},
	"set_operation_scope":              {"session", "global", "local"},
	"set_session_or_global":            {"session", "global"},
	"transaction_chars":                {"isolation level read committed", "read only", "isolation level serializable, read write"},
	"using_in_execute_list":            {"@a", "@a, @b"},
	"row_tuple":                        {"(1, 'a')", "(1)"},
	"column_any_type_list":             {"int", "int, text"},
	"not_exists_opt":                   {"if not exists"},
	"exists_opt":                       {"if exists"},
	"ddl_force_eof":                    {""},
	"force_eof":                        {""},
	"constraint_opt":                   {"unique"},
	"using_opt":                        {"using btree"},
	"sql_id":                           {"a", "idx"},
	"column_list":                      {"a", "a, b"},
	"to_opt":                           {"to", "as"},
	"index_opt":                        {"index", "key"},
	"non_add_drop_or_rename_operation": {"alter", "default", "foo"},
	"alter_object_type":                {"column", "index"},
	"show_session_or_global":           {"session", "global"},
	"show_operation_scope":             {"session", "global", "local"},
	"extended_opt":                     {"extended"},
	"full_opt":                         {"full"},
	"tables_or_processlist":            {"tables", "processlist"},
	"from_database_opt":                {"from db1", "in db1"},
	"like_or_where_opt":                {"like 'a%'", "where a = 1"},
	"vindex_type_opt":                  {"using hash"},
	"vindex_params_opt":                {"with owner = t, a = b"},
	// symbols of the clause, table and expression rules
	"expression":                  {"a", "a = 1", "b + 1", "(a or b)", "not a", "a is null"},
	"value_expression":            {"a", "1", "b + 1", "(a)", "'x'", "f(a)"},
	"condition":                   {"a = 1"},
	"compare":                     {"=", "<", ">=", "!=", "<=>"},
	"col_tuple":                   {"(1, 2)", "(select b from u)", "::list"},
	"like_escape_opt":             {"escape '!'"},
	"is_suffix":                   {"null", "not null", "true", "not false"},
	"as_ci_opt":                   {"as x", "x"},
	"as_opt":                      {"as"},
	"as_opt_id":                   {"as x", "x"},
	"reserved_table_id":           {"u"},
	"reserved_sql_id":             {"b"},
	"partition_list":              {"p0", "p0, p1"},
	"inner_join":                  {"join", "inner join", "cross join"},
	"straight_join":               {"straight_join"},
	"outer_join":                  {"left join", "right outer join", "left outer join"},
	"natural_join":                {"natural join", "natural left join"},
	"table_reference":             {"t", "t as x", "(t, v)"},
	"table_factor":                {"u", "u as y", "(select a from v) as s"},
	"join_condition":              {"on t.a = u.a", "using (a)"},
	"join_condition_opt":          {"on t.a = u.a", "using (a, b)"},
	"on_expression_opt":           {"on t.a = u.a"},
	"index_hint_list":             {"use index (i1)", "ignore index (i1, i2)", "force index (i1)"},
	"subquery":                    {"(select b from u)", "(select b from u where c = 1 limit 1)"},
	"interval_units":              {"day", "hour", "minute_second"},
	"select_expression_list_opt":  {"a, 1", "*"},
	"func_datetime_precision_opt": {"()"},
	"separator_opt":               {"separator ','", "separator 'it''s'"},
	"length_opt":                  {"(10)"},
	"charset_opt":                 {"character set utf8", "charset latin1"},
	"decimal_length_opt":          {"(10)", "(10, 2)"},
	"asc_desc_opt":                {"asc", "desc"},
	"column_name":                 {"a", "t.a", "db.t.a"},
	"when_expression_list":        {"when a = 1 then 'x'", "when a = 1 then 'x' when b then 'y'"},
	"else_expression_opt":         {"else 'z'"},
	"default_opt":                 {"(a)"},
	"expression_opt":              {"a"},
	"convert_type":                {"char(10)", "signed", "decimal(10, 2)", "varchar(10)", "binary(4)", "char(3) character set utf8", "datetime(3)", "json"},
	"match_option":                {"in boolean mode", "in natural language mode", "with query expansion"},
	"expression_list":             {"a, 1", "'x'"},
	"charset":                     {"utf8", "'latin1'"},
	"typecast":                    {"text", "int4"},
	"tuple_expression":            {"(1, 2)", "(a)"},
	"boolean_value":               {"true", "false"},
	"value":                       {"1", "'x'", "1.5", "x'ff'", "?", ":v1", "null"},
	"SINGLE_QUOTE_STRING":         {"'1 day'", "'2 hours'"},
	"DOUBLE_QUOTE_STRING":         {"\"col\""},
	"INTEGRAL":                    {"10", "3"},
	"STRING":                      {"'s'"},
	"string":                      {"'s'"},
	"VALUE_ARG":                   {":v1"},
	"LIST_ARG":                    {"::list"},
	"partition_operation":         {"reorganize partition p0 into (partition p1 values less than (10), partition p2 values less than (maxvalue))"},
}

// symbols whose fragments are statements produced by this generator itself (filled while it runs)
var formStatementSyms = map[string]string{
	"select_statement": "Select",
	"base_select":      "Select",
	"union_lhs":        "Select",
	"union_rhs":        "Select",
	"prepared_query":   "",
}

// clauseContexts: for a rule that builds clause / table / expression nodes, the statement its text is put into
var clauseContexts = map[string][]string{
	"select_expression":        {"select {} from t", "select a, {} from t where b = 1"},
	"table_factor":             {"select a from {}", "select a from t join {} on t.a = 1"},
	"aliased_table_name":       {"select a from {}", "delete from {} where a = 1", "update {} set a = 1"},
	"table_name":               {"select a from {}", "insert into {} (a) values (1)"},
	"column_name":              {"select {} from t", "update t set {} = 1", "select a from t where {} = 1"},
	"join_condition":           {"select a from t left join u {}"},
	"join_condition_opt":       {"select a from t join u {}"},
	"on_expression_opt":        {"select a from t straight_join u {}"},
	"join_table":               {"select a from {}", "update {} set t.a = 1", "delete t from {} where t.a = 1"},
	"index_hint_list":          {"select a from t {}", "select a from t as x {} where a = 1"},
	"expression":               {"select a from t where {}", "select {} from t", "update t set a = 1 where {}", "select a from t group by a having {}"},
	"condition":                {"select a from t where {}", "select a from t join u on {}"},
	"tuple_expression":         {"select a from t where {} = (3, 4)", "select {} from t"},
	"value_expression":         {"select {} from t", "select a from t where {} = 1", "insert into t (a) values ({})", "select a from t order by {}"},
	"column_name_value_expr":   {"select {} from t"},
	"subquery":                 {"select a from t where a in {}", "select {} from t", "select a from t where exists {}"},
	"postgresql_interval":      {"select a + {} from t"},
	"mysql_interval":           {"select a + {} from t", "select date_add(a, {}) from t"},
	"function_call_generic":    {"select {} from t", "select a from t where {} > 1"},
	"function_call_keyword":    {"select {} from t", "update t set a = {}"},
	"function_call_nonkeyword": {"select {} from t", "insert into t (a) values ({})"},
	"function_call_conflict":   {"select {} from t"},
	"convert_type":             {"select cast(a as {}) from t", "select convert(a, {}) from t", "update t set b = cast(a as {})"},
	"when_expression":          {"select case {} end from t", "select case a {} else 0 end from t"},
	"order":                    {"select a from t order by {}", "select a from t order by b, {} limit 1"},
	"limit_opt":                {"select a from t {}", "(select a from t) union (select a from u) {}", "update t set a = 1 {}", "delete from t {}"},
	"update_expression":        {"update t set {}", "update t set {} where a = 1", "insert into t (a) values (1) on duplicate key update {}"},
}

type formGen struct {
	r        *core.Run
	wantKind string // judgeEmbedded: count the nodes of this kind
	kinds    string // the statement kinds of the regenerated table, comma-joined (argument of the census op)
	pools    map[string][]string
	counts   map[string]int
	// bookkeeping for the evidence
	perProd     map[string]int
	unproduced  []string
	missingSyms map[string]bool
	reached     map[string]bool
	notPresent  map[string]int
}

func isTerminal(sym string) bool {
	if strings.HasPrefix(sym, "'") {
		return true
	}
	return sym == strings.ToUpper(sym)
}

func terminalText(sym string) string {
	if strings.HasPrefix(sym, "'") {
		return strings.Trim(sym, "'")
	}
	switch sym {
	case "ID":
		return "foo"
	case "NE":
		return "!="
	case "LE":
		return "<="
	case "GE":
		return ">="
	case "SHIFT_LEFT":
		return "<<"
	case "SHIFT_RIGHT":
		return ">>"
	case "JSON_EXTRACT_OP":
		return "->"
	case "JSON_UNQUOTE_EXTRACT_OP":
		return "->>"
	case "NULL_SAFE_EQUAL":
		return "<=>"
	case "UNDERSCORE_BINARY":
		return "_binary"
	}
	return strings.ToLower(sym)
}

// fragment variants of one symbol (nil, false: none known)
func (g *formGen) fragments(sym, dialect string) ([]string, bool) {
	if _, ok := formStatementSyms[sym]; ok {
		var out []string
		switch sym {
		case "select_statement":
			out = append(out, g.pools["select_statement"]...)
		case "base_select":
			out = append(out, g.pools["base_select"]...)
		case "union_lhs":
			for _, s := range g.pools["select_statement"] {
				out = append(out, s, "("+s+")")
			}
		case "union_rhs":
			for _, s := range g.pools["base_select"] {
				out = append(out, s)
			}
			for _, s := range g.pools["select_statement"] {
				out = append(out, "("+s+")")
			}
		case "prepared_query":
			for _, k := range []string{"base_select", "Insert", "Update", "Delete"} {
				for _, s := range g.pools[k] {
					if strings.HasPrefix(dialect, "my") {
						out = append(out, "'"+strings.ReplaceAll(strings.ReplaceAll(s, `\`, `\\`), "'", "''")+"'")
					} else {
						out = append(out, s)
					}
				}
			}
			out = append(out, "stmt_name")
		}
		return out, len(out) > 0
	}
	if f, ok := formFragments[sym]; ok {
		return f, true
	}
	if isTerminal(sym) {
		return []string{terminalText(sym)}, true
	}
	return nil, false
}

// subsets of {0..n-1} of size ≤ k, plus the full set
func subsetsUpTo(n, k int) [][]int {
	var out [][]int
	var rec func(start int, cur []int)
	rec = func(start int, cur []int) {
		out = append(out, append([]int{}, cur...))
		if len(cur) == k {
			return
		}
		for i := start; i < n; i++ {
			rec(i+1, append(cur, i))
		}
	}
	rec(0, nil)
	if n > k {
		full := make([]int, n)
		for i := range full {
			full[i] = i
		}
		out = append(out, full)
	}
	return out
}

var dmlKinds = map[string]bool{"Select": true, "ParenSelect": true, "Union": true, "Insert": true, "Update": true, "Delete": true}

func runForms(r *core.Run) {
	prods := parseFormProds(r.ModelOnly("C13.forms.prods"))
	paths := parseFormPaths(r.ModelOnly("C13.forms.paths"))
	if len(prods) < 20 || len(paths) < 20 {
		panic(fmt.Sprintf("harness: C13: the model's regenerated statement-form table is too small (%d productions, %d paths)", len(prods), len(paths)))
	}
	g := &formGen{r: r, pools: map[string][]string{}, counts: map[string]int{}, perProd: map[string]int{}, missingSyms: map[string]bool{}, reached: map[string]bool{}, notPresent: map[string]int{}}
	{
		seenK := map[string]bool{}
		var ks []string
		for _, p := range paths {
			if !seenK[p.kind] {
				seenK[p.kind] = true
				ks = append(ks, p.kind)
			}
		}
		g.kinds = strings.Join(ks, ",")
	}
	// seeds for the statement-valued symbols until the generator has produced its own
	g.pools["select_statement"] = []string{"select a from t", "select a from t order by a limit 1"}
	g.pools["base_select"] = []string{"select a from t", "select distinct a, b from t where a = 1 group by a having b > 1"}

	maxSubset := 3
	variants := r.N(3, 6)
	// order: the productions of Select first (their results feed the statement-valued symbols of the others)
	order := []string{"Select"}
	seen := map[string]bool{"Select": true}
	for _, p := range prods {
		if !seen[p.kind] {
			seen[p.kind] = true
			order = append(order, p.kind)
		}
	}
	for _, kind := range order {
		for pi, p := range prods {
			if p.kind != kind {
				continue
			}
			if !p.top && !(p.rule == "base_select") {
				continue // parts of statements (insert_data …) are covered through the statements that splice them
			}
			var opt []int
			for i, s := range p.syms {
				if s.nullable {
					opt = append(opt, i)
				}
			}
			k := maxSubset
			if r.Thorough() || !dmlKinds[kind] {
				if r.Thorough() && dmlKinds[kind] {
					k = len(opt)
				}
			}
			if !dmlKinds[kind] && !r.Thorough() {
				k = 2
			}
			prodKey := fmt.Sprintf("%s/%s.%d#%d", p.kind, p.rule, p.alt, pi)
			for _, sub := range subsetsUpTo(len(opt), k) {
				in := map[int]bool{}
				for _, j := range sub {
					in[opt[j]] = true
				}
				produced := false
				for v := 0; v < variants; v++ {
					for _, d := range []string{"my", "pg"} {
						text, ok := g.build(p, in, v, d)
						if !ok {
							continue
						}
						if g.judge(p, in, text, d, paths, prodKey) {
							produced = true
						}
					}
				}
				if !produced {
					var names []string
					for _, j := range sub {
						names = append(names, p.syms[opt[j]].sym)
					}
					g.unproduced = append(g.unproduced, fmt.Sprintf("%s + {%s}", prodKey, strings.Join(names, ",")))
				}
			}
		}
	}
	// phase 2: the grammar alternatives that build clause, table and expression nodes, put into a statement
	doneAlt := map[string]bool{}
	for pi, p := range prods {
		ctxs, ok := clauseContexts[p.rule]
		if !ok || p.top || p.rule == "base_select" {
			continue
		}
		var shape []string
		for _, s := range p.syms {
			shape = append(shape, s.sym)
		}
		altKey := fmt.Sprintf("%s.%d %s", p.rule, p.alt, strings.Join(shape, " "))
		if doneAlt[altKey] {
			continue
		}
		doneAlt[altKey] = true
		var opt []int
		for i, s := range p.syms {
			if s.nullable {
				opt = append(opt, i)
			}
		}
		prodKey := fmt.Sprintf("%s/%s.%d#%d", p.kind, p.rule, p.alt, pi)
		for _, sub := range subsetsUpTo(len(opt), len(opt)) {
			in := map[int]bool{}
			for _, j := range sub {
				in[opt[j]] = true
			}
			produced := false
			for v := 0; v < variants; v++ {
				for ci, ctx := range ctxs {
					for _, d := range []string{"my", "pg"} {
						if (v+ci)%2 == 1 && !r.Thorough() && len(ctxs) > 2 {
							continue // quick tier: half of the (variant, context) grid
						}
						text, ok := g.build(p, in, v, d)
						if !ok {
							continue
						}
						if g.judgeEmbedded(p, strings.Replace(ctx, "{}", text, 1), d, paths, prodKey) {
							produced = true
						}
					}
				}
			}
			if !produced {
				var names []string
				for _, j := range sub {
					names = append(names, p.syms[opt[j]].sym)
				}
				g.unproduced = append(g.unproduced, fmt.Sprintf("%s + {%s}", prodKey, strings.Join(names, ",")))
			}
		}
	}
	// evidence
	r.Extra["forms_counts_kind_path_clause"] = g.counts
	r.Extra["forms_statements_per_production"] = g.perProd
	var unreached []string
	for _, p := range paths {
		key := fmt.Sprintf("%s/%d", p.kind, p.idx)
		if !g.reached[key] {
			unreached = append(unreached, key)
		}
	}
	r.Extra["forms_paths_not_reached"] = unreached
	// … of which the grammar can reach (some alternative is compatible with the path) and that belong to DML nodes
	{
		noProd := map[string]bool{}
		for _, u := range strings.Fields(r.ModelOnly("C13.forms.unreachable")) {
			noProd[u] = true
		}
		strict := map[string]bool{}
		for _, k := range strings.Fields(r.ModelOnly("C13.forms.strictkinds")) {
			strict[k] = true
		}
		missed := []string{}
		for _, u := range unreached {
			if !noProd[u] && strict[strings.SplitN(u, "/", 2)[0]] {
				missed = append(missed, u)
			}
		}
		r.Extra["forms_dml_paths_reachable_by_grammar_but_not_reached"] = missed
	}
	sort.Strings(g.unproduced)
	dmlUn := 0
	for _, u := range g.unproduced {
		if dmlKinds[strings.SplitN(u, "/", 2)[0]] {
			dmlUn++
		}
	}
	r.Extra["forms_not_produced_count"] = map[string]int{"all": len(g.unproduced), "dml": dmlUn}
	if len(g.unproduced) > 80 {
		r.Extra["forms_not_produced"] = append(append([]string{}, g.unproduced[:80]...), fmt.Sprintf("… %d more", len(g.unproduced)-80))
	} else {
		r.Extra["forms_not_produced"] = g.unproduced
	}
	var miss []string
	for s := range g.missingSyms {
		miss = append(miss, s)
	}
	sort.Strings(miss)
	r.Extra["forms_symbols_without_fragment"] = miss
	r.Extra["forms_clause_put_in_but_absent"] = g.notPresent
	r.Extra["forms_omissions_non_dml"] = strings.Fields(r.ModelOnly("C13.forms.omissions"))
	// the DML kinds must be covered: every print path the grammar can reach and every production
	for _, p := range paths {
		if dmlKinds[p.kind] {
			r.Tag(fmt.Sprintf("forms-path:%s/%d:reached=%v", p.kind, p.idx, g.reached[fmt.Sprintf("%s/%d", p.kind, p.idx)]))
		}
	}
}

// build the statement text of production p with the optional symbols `in`, fragment variant v
func (g *formGen) build(p formProd, in map[int]bool, v int, dialect string) (string, bool) {
	var parts []string
	for i, s := range p.syms {
		if s.nullable && !in[i] {
			continue
		}
		fr, ok := g.fragments(s.sym, dialect)
		if !ok {
			g.missingSyms[s.sym] = true
			return "", false
		}
		// variant 0 takes the first fragment of every symbol; the others pick pseudo-randomly (seeded)
		var t string
		if v == 0 {
			t = fr[0]
		} else if v == 1 {
			t = fr[(i+1)%len(fr)]
		} else {
			t = fr[g.r.Rand.Intn(len(fr))]
		}
		if t != "" {
			parts = append(parts, t)
		}
	}
	return strings.Join(parts, " "), true
}

// judge one text: round trip + census; returns whether the text parsed to a node of the production's kind
func (g *formGen) judge(p formProd, in map[int]bool, text, dialect string, paths []formPath, prodKey string) bool {
	r := g.r
	r.Begin("form:"+dialect+":"+text, true, "stream:forms", "dialect:"+dialect)
	out := r.Impl("C13.forms.census " + dialect + " " + hexS(text) + " " + g.kinds)
	f := strings.Fields(out)
	if len(f) < 2 {
		r.Tag("forms:" + f[0])
		if f[0] == "reparse-fails" {
			// let the round-trip oracle classify it (known finding / DML / non-DML)
			checkRoundTrip(r, dialect, text, "forms")
			return true
		}
		return false
	}
	kind, path := "", -1
	topPresent := map[string]bool{}
	for ni, nd := range strings.Split(f[0], "|") {
		x := strings.SplitN(nd, ":", 2)
		present, values := map[string]bool{}, map[string]string{}
		if len(x) == 2 && x[1] != "" {
			for _, fl := range strings.Split(x[1], ",") {
				absent := strings.HasPrefix(fl, "!")
				fl = strings.TrimPrefix(fl, "!")
				if j := strings.IndexByte(fl, '='); j >= 0 {
					values[fl[:j]] = unhexS(fl[j+1:])
					fl = fl[:j]
				}
				if !absent {
					present[fl] = true
				}
			}
		}
		np := pathOf(paths, x[0], present, values, dialect)
		where := "top"
		if ni == 0 {
			kind, path, topPresent = x[0], np, present
		} else {
			where = "nested"
		}
		for _, q := range pathsOf(paths, x[0], present, values, dialect) {
			g.reached[fmt.Sprintf("%s/%d", x[0], q)] = true
		}
		if x[0] == g.wantKind {
			g.counts[x[0]+"/*"]++
		}
		for fl := range present {
			g.counts[fmt.Sprintf("%s/%d/%s", x[0], np, fl)]++
		}
		g.counts[fmt.Sprintf("%s/%d/(%s statements)", x[0], np, where)]++
	}
	g.perProd[prodKey]++
	r.Tag("forms:parsed", "forms-kind:"+kind)
	if kind == p.kind {
		// the clause the generator put in is there (otherwise the counts above would claim coverage they do not have)
		for i, s := range p.syms {
			if s.nullable && in[i] && s.field != "" && !topPresent[s.field] {
				g.notPresent[fmt.Sprintf("%s:%s(%s)", p.kind, s.sym, s.field)]++
			}
		}
	}
	// (1) structural round trip
	checkRoundTrip(r, dialect, text, "forms")
	// (2) clause census
	if f[1] != "same" {
		what := strings.Join(f[1:], " ")
		if dmlKinds[kind] {
			if !(strings.HasPrefix(dialect, "my") && hasIntervalString(dialect, text)) {
				r.Fail("clause-census:"+kind, fmt.Sprintf("the clauses of Parse(String(Parse s)) differ from those of Parse s [%s, %s path %d]: %s  (%s)", dialect, kind, path, trunc(text), what))
			}
		} else {
			r.Tag("non-dml-census-diff:" + kind)
		}
	}
	// feed the statement-valued symbols
	if dmlKinds[kind] && f[1] == "same" {
		switch {
		case p.rule == "base_select":
			g.addPool("base_select", text)
		case p.kind == "Select" && p.top:
			g.addPool("select_statement", text)
		case p.top:
			g.addPool(p.kind, text)
		}
		if dialect == "pg" && r.Rand.Chance(10) {
			checkPgRoundTrip(r, text, "forms")
		}
		if r.Rand.Chance(15) {
			checkSubst(r, dialect, text)
		}
	}
	return kind == p.kind
}

func (g *formGen) addPool(name, text string) {
	pool := g.pools[name]
	if len(text) > 300 {
		return
	}
	if len(pool) < 24 {
		g.pools[name] = append(pool, text)
		return
	}
	if g.r.Rand.Chance(10) {
		pool[2+g.r.Rand.Intn(len(pool)-2)] = text
	}
}

// judgeEmbedded: a clause production inside a statement context; returns whether the statement parsed and holds a
// node of the production's kind
func (g *formGen) judgeEmbedded(p formProd, text, dialect string, paths []formPath, prodKey string) bool {
	before := g.counts[p.kind+"/*"]
	g.wantKind = p.kind
	g.judge(formProd{kind: "", rule: p.rule, alt: p.alt}, nil, text, dialect, paths, prodKey)
	g.wantKind = ""
	return g.counts[p.kind+"/*"] > before
}
