package c13

import (
	"github.com/cossacklabs/acra/sqlparser"

	"verifharness/internal/c16"
)

// harvest returns the printed text of every expression node of the parsed statement.
func harvest(dialect, stmt string) []string {
	c16.SetDialect(dialect)
	t, err := sqlparser.New(sqlparser.ModeStrict).Parse(stmt)
	if err != nil {
		return nil
	}
	var out []string
	_ = sqlparser.Walk(func(n sqlparser.SQLNode) (bool, error) {
		if e, ok := n.(sqlparser.Expr); ok {
			switch e.(type) {
			case sqlparser.ListArg:
				return true, nil
			}
			if s := sqlparser.String(e); len(s) > 0 && len(s) <= 160 {
				out = append(out, s)
			}
		}
		return true, nil
	}, t)
	return out
}

// hasIntervalString: the statement holds INTERVAL <string literal> <unit> (MySQL form with a string operand).
func hasIntervalString(dialect, stmt string) bool {
	c16.SetDialect(dialect)
	t, err := sqlparser.New(sqlparser.ModeStrict).Parse(stmt)
	if err != nil {
		return false
	}
	found := false
	_ = sqlparser.Walk(func(n sqlparser.SQLNode) (bool, error) {
		if iv, ok := n.(*sqlparser.IntervalExpr); ok && iv.Unit != "" {
			if v, ok := iv.Expr.(*sqlparser.SQLVal); ok && v.Type == sqlparser.StrVal {
				found = true
			}
		}
		return true, nil
	}, t)
	return found
}

// TestTableStatements: the SQL strings of Acra's own parser test tables (shared with the tokenizer check of C14).
func TestTableStatements() []string { return testTableStatements() }
