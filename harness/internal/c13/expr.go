package c13

// Expression fragment of C13 (lean/AcraModel/Sql/Expr.lean): the model's printer and precedence-climbing parser
// against the real goyacc parser, printer and tokenizer, in both dialects.
//
//	C13.expr.parse <dialect> <text-hex> <n> tok…   the real parser on `select 1 from t where <text>` – the tree restricted
//	                                               to the fragment (`ok <tree>`), `err`, or `outside` (a node kind or field
//	                                               outside the fragment); the model parses the token list, which the harness
//	                                               obtains from the real Tokenizer
//	C13.expr.format <dialect> <tree>               sqlparser.String of the tree built from real AST nodes
//	C13.expr.tokens <dialect> <tree>               the real Tokenizer on that text
//	C13.expr.roundtrip <dialect> <tree>            Parse(String(tree)) compared with the tree: same | diff <tree> | err
//
// Trees travel in the prefix form described in lean/Driver/C13Expr.lean.

import (
	"fmt"
	"strconv"
	"strings"

	"github.com/cossacklabs/acra/sqlparser"
	"github.com/cossacklabs/acra/sqlparser/dialect/mysql"
	"github.com/cossacklabs/acra/sqlparser/dialect/postgresql"

	"verifharness/internal/c16"
	"verifharness/internal/core"
	"verifharness/internal/sqlast"
)

// ETree is the model's Expr.
type ETree struct {
	Kind string // val null bool col func paren and or not is cmp range bin un
	Op   string // operator text of ast.go (is, cmp, bin, un); "1"/"0" for bool and range
	Ty   int
	Val  []byte // val: value; col, func: name
	Kids []*ETree
}

func opKey(s string) string { return strings.ReplaceAll(s, " ", "_") }

var opTexts = []string{
	sqlparser.EqualStr, sqlparser.LessThanStr, sqlparser.GreaterThanStr, sqlparser.LessEqualStr, sqlparser.GreaterEqualStr,
	sqlparser.NotEqualStr, sqlparser.NullSafeEqualStr, sqlparser.LikeStr, sqlparser.NotLikeStr, sqlparser.RegexpStr, sqlparser.NotRegexpStr,
	sqlparser.IsNullStr, sqlparser.IsNotNullStr, sqlparser.IsTrueStr, sqlparser.IsNotTrueStr, sqlparser.IsFalseStr, sqlparser.IsNotFalseStr,
	sqlparser.BitAndStr, sqlparser.BitOrStr, sqlparser.BitXorStr, sqlparser.PlusStr, sqlparser.MinusStr, sqlparser.MultStr, sqlparser.DivStr,
	sqlparser.IntDivStr, sqlparser.ModStr, sqlparser.ShiftLeftStr, sqlparser.ShiftRightStr,
	sqlparser.UPlusStr, sqlparser.UMinusStr, sqlparser.TildaStr, sqlparser.BangStr, sqlparser.BinaryStr, sqlparser.UBinaryStr,
}

// unKey: the operator text of a protocol key (an unknown key stands for itself: the real printer prints whatever
// the Operator field holds)
func unKey(k string) string {
	for _, t := range opTexts {
		if opKey(t) == k {
			return t
		}
	}
	return k
}

func (t *ETree) write(sb *strings.Builder) {
	if sb.Len() > 0 {
		sb.WriteByte(' ')
	}
	switch t.Kind {
	case "val":
		fmt.Fprintf(sb, "val %d %s", t.Ty, core.Hex(t.Val))
	case "null":
		sb.WriteString("null")
	case "bool", "range":
		sb.WriteString(t.Kind + " " + t.Op)
	case "col":
		sb.WriteString("col " + core.Hex(t.Val))
	case "func":
		fmt.Fprintf(sb, "func %s %d", core.Hex(t.Val), len(t.Kids))
	case "paren", "and", "or", "not":
		sb.WriteString(t.Kind)
	case "is", "cmp", "bin", "un":
		sb.WriteString(t.Kind + " " + opKey(t.Op))
	default:
		panic("harness: bad ETree kind " + t.Kind)
	}
	for _, k := range t.Kids {
		k.write(sb)
	}
}

func (t *ETree) String() string {
	var sb strings.Builder
	t.write(&sb)
	return sb.String()
}

func readETree(toks []string) (*ETree, []string, bool) {
	if len(toks) == 0 {
		return nil, nil, false
	}
	t := &ETree{Kind: toks[0]}
	rest := toks[1:]
	n := 0
	switch t.Kind {
	case "val":
		if len(rest) < 2 {
			return nil, nil, false
		}
		ty, err := strconv.Atoi(rest[0])
		if err != nil {
			return nil, nil, false
		}
		t.Ty, t.Val, rest = ty, core.UnHex(rest[1]), rest[2:]
	case "null":
	case "bool":
		if len(rest) < 1 {
			return nil, nil, false
		}
		t.Op, rest = rest[0], rest[1:]
	case "col":
		if len(rest) < 1 {
			return nil, nil, false
		}
		t.Val, rest = core.UnHex(rest[0]), rest[1:]
	case "func":
		if len(rest) < 2 {
			return nil, nil, false
		}
		k, err := strconv.Atoi(rest[1])
		if err != nil {
			return nil, nil, false
		}
		t.Val, n, rest = core.UnHex(rest[0]), k, rest[2:]
	case "paren", "not":
		n = 1
	case "and", "or":
		n = 2
	case "is", "un":
		if len(rest) < 1 {
			return nil, nil, false
		}
		t.Op, n, rest = unKey(rest[0]), 1, rest[1:]
	case "cmp", "bin":
		if len(rest) < 1 {
			return nil, nil, false
		}
		t.Op, n, rest = unKey(rest[0]), 2, rest[1:]
	case "range":
		if len(rest) < 1 {
			return nil, nil, false
		}
		t.Op, n, rest = rest[0], 3, rest[1:]
	default:
		return nil, nil, false
	}
	for i := 0; i < n; i++ {
		k, r, ok := readETree(rest)
		if !ok {
			return nil, nil, false
		}
		t.Kids = append(t.Kids, k)
		rest = r
	}
	return t, rest, true
}

func mustETree(toks []string) *ETree {
	t, rest, ok := readETree(toks)
	if !ok || len(rest) != 0 {
		panic("harness: unreadable expression tree: " + strings.Join(toks, " "))
	}
	return t
}

// toAST builds the real AST.
func toAST(t *ETree) sqlparser.Expr {
	switch t.Kind {
	case "val":
		return &sqlparser.SQLVal{Type: sqlparser.ValType(t.Ty), Val: append([]byte{}, t.Val...)}
	case "null":
		return &sqlparser.NullVal{}
	case "bool":
		return sqlparser.BoolVal(t.Op == "1")
	case "col":
		return &sqlparser.ColName{Name: sqlparser.NewColIdent(string(t.Val))}
	case "func":
		var ex sqlparser.SelectExprs
		for _, k := range t.Kids {
			ex = append(ex, &sqlparser.AliasedExpr{Expr: toAST(k)})
		}
		return &sqlparser.FuncExpr{Name: sqlparser.NewColIdent(string(t.Val)), Exprs: ex}
	case "paren":
		return &sqlparser.ParenExpr{Expr: toAST(t.Kids[0])}
	case "and":
		return &sqlparser.AndExpr{Left: toAST(t.Kids[0]), Right: toAST(t.Kids[1])}
	case "or":
		return &sqlparser.OrExpr{Left: toAST(t.Kids[0]), Right: toAST(t.Kids[1])}
	case "not":
		return &sqlparser.NotExpr{Expr: toAST(t.Kids[0])}
	case "is":
		return &sqlparser.IsExpr{Operator: t.Op, Expr: toAST(t.Kids[0])}
	case "cmp":
		return &sqlparser.ComparisonExpr{Operator: t.Op, Left: toAST(t.Kids[0]), Right: toAST(t.Kids[1])}
	case "range":
		op := sqlparser.BetweenStr
		if t.Op == "1" {
			op = sqlparser.NotBetweenStr
		}
		return &sqlparser.RangeCond{Operator: op, Left: toAST(t.Kids[0]), From: toAST(t.Kids[1]), To: toAST(t.Kids[2])}
	case "bin":
		return &sqlparser.BinaryExpr{Operator: t.Op, Left: toAST(t.Kids[0]), Right: toAST(t.Kids[1])}
	case "un":
		return &sqlparser.UnaryExpr{Operator: t.Op, Expr: toAST(t.Kids[0])}
	}
	panic("harness: bad ETree kind " + t.Kind)
}

var fragCmpOps = map[string]bool{
	sqlparser.EqualStr: true, sqlparser.LessThanStr: true, sqlparser.GreaterThanStr: true, sqlparser.LessEqualStr: true,
	sqlparser.GreaterEqualStr: true, sqlparser.NotEqualStr: true, sqlparser.NullSafeEqualStr: true, sqlparser.LikeStr: true,
	sqlparser.NotLikeStr: true, sqlparser.RegexpStr: true, sqlparser.NotRegexpStr: true,
}

var fragBinOps = map[string]bool{
	sqlparser.BitAndStr: true, sqlparser.BitOrStr: true, sqlparser.BitXorStr: true, sqlparser.PlusStr: true, sqlparser.MinusStr: true,
	sqlparser.MultStr: true, sqlparser.DivStr: true, sqlparser.IntDivStr: true, sqlparser.ModStr: true, sqlparser.ShiftLeftStr: true,
	sqlparser.ShiftRightStr: true,
}

// fromAST restricts the real tree to the fragment; ok = false when a node kind, operator or field is outside it.
func fromAST(e sqlparser.Expr) (*ETree, bool) {
	kids := func(kind, op string, es ...sqlparser.Expr) (*ETree, bool) {
		t := &ETree{Kind: kind, Op: op}
		for _, x := range es {
			k, ok := fromAST(x)
			if !ok {
				return nil, false
			}
			t.Kids = append(t.Kids, k)
		}
		return t, true
	}
	switch n := e.(type) {
	case *sqlparser.SQLVal:
		if len(n.CastType) > 0 || n.Type > sqlparser.PgEscapeString {
			return nil, false
		}
		return &ETree{Kind: "val", Ty: int(n.Type), Val: n.Val}, true
	case *sqlparser.NullVal:
		return &ETree{Kind: "null"}, true
	case sqlparser.BoolVal:
		if n {
			return &ETree{Kind: "bool", Op: "1"}, true
		}
		return &ETree{Kind: "bool", Op: "0"}, true
	case *sqlparser.ColName:
		if !n.Qualifier.IsEmpty() || n.Metadata != nil {
			return nil, false
		}
		// a name written in quotes carries the quote mark: outside the fragment
		if !sqlast.Equal(sqlast.FromNode(n.Name), sqlast.FromNode(sqlparser.NewColIdent(n.Name.String()))) {
			return nil, false
		}
		return &ETree{Kind: "col", Val: []byte(n.Name.String())}, true
	case *sqlparser.FuncExpr:
		if !n.Qualifier.IsEmpty() || n.Distinct {
			return nil, false
		}
		if !sqlast.Equal(sqlast.FromNode(n.Name), sqlast.FromNode(sqlparser.NewColIdent(n.Name.String()))) {
			return nil, false
		}
		t := &ETree{Kind: "func", Val: []byte(n.Name.String())}
		for _, se := range n.Exprs {
			ae, ok := se.(*sqlparser.AliasedExpr)
			if !ok || !ae.As.IsEmpty() {
				return nil, false
			}
			k, ok := fromAST(ae.Expr)
			if !ok {
				return nil, false
			}
			t.Kids = append(t.Kids, k)
		}
		return t, true
	case *sqlparser.ParenExpr:
		return kids("paren", "", n.Expr)
	case *sqlparser.AndExpr:
		return kids("and", "", n.Left, n.Right)
	case *sqlparser.OrExpr:
		return kids("or", "", n.Left, n.Right)
	case *sqlparser.NotExpr:
		return kids("not", "", n.Expr)
	case *sqlparser.IsExpr:
		return kids("is", n.Operator, n.Expr)
	case *sqlparser.ComparisonExpr:
		if n.Escape != nil || !fragCmpOps[n.Operator] {
			return nil, false
		}
		return kids("cmp", n.Operator, n.Left, n.Right)
	case *sqlparser.RangeCond:
		op := "0"
		if n.Operator == sqlparser.NotBetweenStr {
			op = "1"
		} else if n.Operator != sqlparser.BetweenStr {
			return nil, false
		}
		return kids("range", op, n.Left, n.From, n.To)
	case *sqlparser.BinaryExpr:
		if !fragBinOps[n.Operator] {
			return nil, false
		}
		return kids("bin", n.Operator, n.Left, n.Right)
	case *sqlparser.UnaryExpr:
		return kids("un", n.Operator, n.Expr)
	}
	return nil, false
}

// named tokens of the fragment (exported constants of the generated parser) → yacc names
var tokNames = map[int]string{
	sqlparser.OR: "OR", sqlparser.AND: "AND", sqlparser.NOT: "NOT", sqlparser.IS: "IS", sqlparser.NULL: "NULL", sqlparser.TRUE: "TRUE",
	sqlparser.FALSE: "FALSE", sqlparser.BETWEEN: "BETWEEN", sqlparser.LIKE: "LIKE", sqlparser.REGEXP: "REGEXP", sqlparser.LE: "LE",
	sqlparser.GE: "GE", sqlparser.NE: "NE", sqlparser.NULL_SAFE_EQUAL: "NULL_SAFE_EQUAL", sqlparser.SHIFT_LEFT: "SHIFT_LEFT",
	sqlparser.SHIFT_RIGHT: "SHIFT_RIGHT", sqlparser.DIV: "DIV", sqlparser.MOD: "MOD", sqlparser.BINARY: "BINARY",
	sqlparser.UNDERSCORE_BINARY: "UNDERSCORE_BINARY",
}

var litTokTypes = map[int]sqlparser.ValType{
	sqlparser.SINGLE_QUOTE_STRING: sqlparser.StrVal, sqlparser.INTEGRAL: sqlparser.IntVal, sqlparser.FLOAT: sqlparser.FloatVal,
	sqlparser.HEXNUM: sqlparser.HexNum, sqlparser.HEX: sqlparser.HexVal, sqlparser.BIT_LITERAL: sqlparser.BitVal,
	sqlparser.PG_ESCAPE_STRING: sqlparser.PgEscapeString,
}

// tokenize runs the real Tokenizer and renders the tokens in the protocol form (asParserSees: comments skipped, as
// Tokenizer.Lex does for the parser).
func tokenize(dialect, text string, asParserSees bool) []string {
	var tkn *sqlparser.Tokenizer
	if dialect == "pg" {
		tkn = sqlparser.NewStringTokenizerWithDialect(postgresql.NewPostgreSQLDialect(), text)
	} else {
		tkn = sqlparser.NewStringTokenizerWithDialect(mysql.NewMySQLDialect(), text)
	}
	var out []string
	for i := 0; i < 100000; i++ {
		typ, val := tkn.Scan()
		if typ == 0 {
			break
		}
		if typ == sqlparser.COMMENT && asParserSees {
			continue // Tokenizer.Lex skips comments (AllowComments is off for statements)
		}
		switch {
		case typ == sqlparser.ID:
			out = append(out, "i:"+core.Hex(val))
		case typ == sqlparser.DOUBLE_QUOTE_STRING && dialect != "pg":
			out = append(out, fmt.Sprintf("l:%d:%s", sqlparser.StrVal, core.Hex(val)))
		case typ < 256 && typ > 32:
			out = append(out, fmt.Sprintf("s:'%c'", typ))
		default:
			if n, ok := tokNames[typ]; ok {
				out = append(out, "s:"+n)
			} else if ty, ok := litTokTypes[typ]; ok {
				out = append(out, fmt.Sprintf("l:%d:%s", ty, core.Hex(val)))
			} else {
				out = append(out, fmt.Sprintf("x:%d", typ))
			}
		}
		if typ == sqlparser.LEX_ERROR {
			break
		}
	}
	return out
}

// parseWhere parses `select 1 from t where <text>` and returns the WHERE expression.
func parseWhere(text string) (sqlparser.Expr, bool) {
	st, err := sqlparser.New(sqlparser.ModeStrict).Parse("select 1 from t where " + text)
	if err != nil {
		return nil, false
	}
	sel, ok := st.(*sqlparser.Select)
	if !ok || sel.Where == nil || sel.GroupBy != nil || sel.Having != nil || sel.OrderBy != nil || sel.Limit != nil || sel.Lock != "" {
		return nil, false
	}
	return sel.Where.Expr, true
}

func implRoundTrip(t *ETree) string {
	ast := toAST(t)
	before := sqlast.FromNode(ast)
	text := sqlparser.String(ast)
	e, ok := parseWhere(text)
	if !ok {
		return "err"
	}
	if sqlast.Equal(before, sqlast.FromNode(e)) {
		return "same"
	}
	got, ok := fromAST(e)
	if !ok {
		return "diff outside"
	}
	return "diff " + got.String()
}

func init() {
	core.Register("C13.expr.parse", func(a []string) string {
		c16.SetDialect(a[0])
		e, ok := parseWhere(string(core.UnHex(a[1])))
		if !ok {
			return core.Err
		}
		t, ok := fromAST(e)
		if !ok {
			return "outside"
		}
		return "ok " + t.String()
	})
	// C13.expr.conserve <dialect> <text-hex> <n> tok… → ok <value-carrying tokens read> | <… of the printed form> ; err ; outside
	// (token conservation on the fragment: the real parser and printer against `parse_keeps_lexemes` of the model)
	core.Register("C13.expr.conserve", func(a []string) string {
		c16.SetDialect(a[0])
		e, ok := parseWhere(string(core.UnHex(a[1])))
		if !ok {
			return core.Err
		}
		if _, ok := fromAST(e); !ok {
			return "outside"
		}
		carries := func(toks []string) string {
			var out []string
			for _, t := range toks {
				if strings.HasPrefix(t, "l:") || strings.HasPrefix(t, "i:") {
					out = append(out, t)
				}
			}
			if len(out) == 0 {
				return "-"
			}
			return strings.Join(out, ",")
		}
		return "ok " + carries(a[3:]) + " | " + carries(tokenize(a[0], sqlparser.String(e), true))
	})
	core.Register("C13.expr.format", func(a []string) string {
		c16.SetDialect(a[0])
		return "ok " + core.Hex([]byte(sqlparser.String(toAST(mustETree(a[1:])))))
	})
	core.Register("C13.expr.tokens", func(a []string) string {
		c16.SetDialect(a[0])
		return "ok " + strings.Join(tokenize(a[0], sqlparser.String(toAST(mustETree(a[1:]))), false), " ")
	})
	core.Register("C13.expr.roundtrip", func(a []string) string {
		c16.SetDialect(a[0])
		return implRoundTrip(mustETree(a[1:]))
	})
}
