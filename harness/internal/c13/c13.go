// Package c13: implementation-side ops, generators and oracles for property C13.
package c13
