package c13

// grammar.go – statements derived FROM the regenerated grammar table (Generated/SqlGrammar.lean, read back through the
// model op `C13.grammar.alts` – the table `grammar_uses_every_operand` / `derivation_keeps_lexemes` are about):
//
//   for every alternative of every rule reachable from the DML statements, a statement is derived that contains the
//   alternative: the alternative's symbols are expanded to their shortest sentences, every nullable symbol of the
//   alternative is instantiated both empty and non-empty (none, each one alone, all of them), and the result is put
//   into the shortest derivation from a statement rule down to the alternative's rule. Every lexeme-carrying token
//   gets a text of its own (c1, c2 … 101, 102 … 's1' …), so that a lost lexeme is visible in the token multiset.
//   A new alternative in sql.y is covered automatically – nothing here names a rule of the grammar apart from the
//   sample texts of the token classes.
//
// Oracles: the structural round trip and the token conservation (checkRoundTrip → checkLexemes), both dialects.
// Evidence: alternatives that never gave a parseable statement (the action's own checks, dialect restrictions,
// precedence) are listed.

import (
	"fmt"
	"os"
	"sort"
	"strconv"
	"strings"

	"verifharness/internal/core"
)

type gramSym struct {
	name, cls string
}

type gramAlt struct {
	rule string
	idx  int
	syms []gramSym
	flow map[int]bool
}

type grammarTable struct {
	alts  map[string][]*gramAlt
	order []string
	// shortest sentence per rule (number of tokens) and the alternative that gives it
	minLen map[string]int
	minAlt map[string]*gramAlt
	// shortest NON-EMPTY sentence per rule
	posLen map[string]int
	posAlt map[string]*gramAlt
	posSym map[string]int // for an alternative whose symbols are all nullable: the one made non-empty
	// contexts: rule → its occurrences on right-hand sides (nearest to a statement rule first); `parent` is the one
	// that gave a parseable statement (found while the generator runs, rules nearest to the statements first)
	depth  map[string]int
	occurs map[string][]*gramCtx
	parent map[string]*gramCtx
	// text of the first identifier of the next statement ("" = a fresh name)
	firstID string
}

type gramCtx struct {
	alt *gramAlt
	pos int
}

func parseGrammarAlts(line string) *grammarTable {
	g := &grammarTable{alts: map[string][]*gramAlt{}}
	for _, tok := range strings.Fields(line) {
		f := strings.Split(tok, ";")
		if len(f) != 4 {
			panic("harness: C13.grammar.alts: bad row " + tok)
		}
		a := &gramAlt{rule: unhexS(f[0]), flow: map[int]bool{}}
		a.idx, _ = strconv.Atoi(f[1])
		if f[2] != "-" {
			for _, s := range strings.Split(f[2], ",") {
				x := strings.Split(s, ":")
				a.syms = append(a.syms, gramSym{unhexS(x[0]), x[1]})
			}
		}
		if f[3] != "-" {
			for _, s := range strings.Split(f[3], ",") {
				k, _ := strconv.Atoi(s)
				a.flow[k] = true
			}
		}
		if _, seen := g.alts[a.rule]; !seen {
			g.order = append(g.order, a.rule)
		}
		g.alts[a.rule] = append(g.alts[a.rule], a)
	}
	return g
}

func (g *grammarTable) isRule(s gramSym) bool { return s.cls == "sem" || s.cls == "void" }

const gInf = 1 << 30

func (g *grammarTable) analyse(roots []string) {
	g.minLen, g.minAlt = map[string]int{}, map[string]*gramAlt{}
	// cost of a token when a shortest sentence is chosen: lexeme-carrying tokens are CHEAPER than keywords, so that the
	// operands of the derived statements are identifiers and literals (`c1 not ilike c2 escape c3`, not `true not ilike
	// true escape true`) and a lost operand shows in the token multiset; the plain classes (a bare identifier, an
	// integer, a single-quoted string) are preferred over the dialect-specific ones (quoted identifiers, E'…', x'…')
	tokCost := func(s gramSym) int {
		if s.cls != "lex" {
			return 10
		}
		switch s.name {
		case "ID":
			return 8
		case "INTEGRAL", "SINGLE_QUOTE_STRING":
			return 9
		}
		return 11
	}
	lenOf := func(s gramSym, tbl map[string]int) int {
		if !g.isRule(s) {
			return tokCost(s)
		}
		if v, ok := tbl[s.name]; ok {
			return v
		}
		return gInf
	}
	// shortest sentences: rounds; a value is only ever replaced by a strictly smaller one (keeps the choice well-founded)
	for changed := true; changed; {
		changed = false
		snapshot := map[string]int{}
		for k, v := range g.minLen {
			snapshot[k] = v
		}
		for _, r := range g.order {
			for _, a := range g.alts[r] {
				sum := 0
				for _, s := range a.syms {
					l := lenOf(s, snapshot)
					if l >= gInf {
						sum = gInf
						break
					}
					sum += l
				}
				if cur, ok := g.minLen[r]; sum < gInf && (!ok || sum < cur) {
					g.minLen[r], g.minAlt[r] = sum, a
					changed = true
				}
			}
		}
	}
	// shortest non-empty sentences
	g.posLen, g.posAlt, g.posSym = map[string]int{}, map[string]*gramAlt{}, map[string]int{}
	posOf := func(s gramSym, tbl map[string]int) int {
		if !g.isRule(s) {
			return tokCost(s)
		}
		if v, ok := tbl[s.name]; ok {
			return v
		}
		return gInf
	}
	for changed := true; changed; {
		changed = false
		snapshot := map[string]int{}
		for k, v := range g.posLen {
			snapshot[k] = v
		}
		for _, r := range g.order {
			for _, a := range g.alts[r] {
				sum, ok := 0, true
				for _, s := range a.syms {
					l := lenOf(s, g.minLen)
					if l >= gInf {
						ok = false
						break
					}
					sum += l
				}
				if !ok {
					continue
				}
				which := -1
				if sum == 0 {
					// all symbols nullable: make the cheapest one non-empty
					best := gInf
					for i, s := range a.syms {
						if p := posOf(s, snapshot); p < best {
							best, which = p, i
						}
					}
					sum = best
				}
				if cur, has := g.posLen[r]; sum < gInf && sum > 0 && (!has || sum < cur) {
					g.posLen[r], g.posAlt[r] = sum, a
					g.posSym[r+"#"+strconv.Itoa(a.idx)] = which
					changed = true
				}
			}
		}
	}
	// contexts: every occurrence of a rule on a right-hand side, nearest to a statement rule first
	g.depth = map[string]int{}
	queue := append([]string{}, roots...)
	for _, r := range roots {
		g.depth[r] = 0
	}
	for len(queue) > 0 {
		r := queue[0]
		queue = queue[1:]
		for _, a := range g.alts[r] {
			for _, s := range a.syms {
				if _, seen := g.depth[s.name]; g.isRule(s) && !seen {
					g.depth[s.name] = g.depth[r] + 1
					queue = append(queue, s.name)
				}
			}
		}
	}
	g.occurs = map[string][]*gramCtx{}
	for _, r := range g.order {
		if _, ok := g.depth[r]; !ok {
			continue
		}
		for _, a := range g.alts[r] {
			for i, s := range a.syms {
				if g.isRule(s) && s.name != r {
					g.occurs[s.name] = append(g.occurs[s.name], &gramCtx{a, i})
				}
			}
		}
	}
	for r := range g.occurs {
		occ := g.occurs[r]
		sort.SliceStable(occ, func(i, j int) bool {
			di, dj := g.depth[occ[i].alt.rule], g.depth[occ[j].alt.rule]
			if di != dj {
				return di < dj
			}
			return len(occ[i].alt.syms) < len(occ[j].alt.syms)
		})
	}
	g.parent = map[string]*gramCtx{}
}

func (g *grammarTable) nullable(s gramSym) bool {
	if !g.isRule(s) {
		return false
	}
	l, ok := g.minLen[s.name]
	return ok && l == 0
}

// lexText: sample texts of the lexeme-carrying token classes – every instance a text of its own
type lexCounter struct {
	n int
	// firstID: text of the first identifier (second attempt for alternatives whose action checks the word, e.g.
	// `next value for t`)
	firstID string
}

func (c *lexCounter) text(tok string) string {
	c.n++
	switch tok {
	case "ID":
		if c.firstID != "" {
			t := c.firstID
			c.firstID = ""
			return t
		}
		return "c" + strconv.Itoa(c.n)
	case "INTEGRAL":
		return strconv.Itoa(100 + c.n)
	case "FLOAT":
		return strconv.Itoa(c.n) + ".5"
	case "HEXNUM":
		return fmt.Sprintf("0x%02x", c.n)
	case "HEX":
		return fmt.Sprintf("x'%02x'", c.n)
	case "BIT_LITERAL":
		return "b'" + strconv.FormatInt(int64(c.n), 2) + "'"
	case "SINGLE_QUOTE_STRING":
		return "'s" + strconv.Itoa(c.n) + "'"
	case "DOUBLE_QUOTE_STRING":
		return "\"d" + strconv.Itoa(c.n) + "\""
	case "BACK_QUOTE_STRING":
		return "`b" + strconv.Itoa(c.n) + "`"
	case "PG_ESCAPE_STRING":
		return "E'e" + strconv.Itoa(c.n) + "'"
	case "VALUE_ARG":
		return "?"
	case "LIST_ARG":
		return "::l" + strconv.Itoa(c.n)
	case "DOLLAR_SIGN":
		return "$" + strconv.Itoa(1+c.n%9)
	case "COMMENT":
		return "/* k" + strconv.Itoa(c.n) + " */"
	}
	return strings.ToLower(tok)
}

func (g *grammarTable) tokenText(s gramSym, c *lexCounter) string {
	if s.cls == "lex" {
		return c.text(s.name)
	}
	return terminalText(s.name)
}

// expandMin / expandPos: the shortest (non-empty) sentence of a symbol
func (g *grammarTable) expandMin(s gramSym, c *lexCounter, out *[]string, depth int) bool {
	if !g.isRule(s) {
		*out = append(*out, g.tokenText(s, c))
		return true
	}
	a := g.minAlt[s.name]
	if a == nil || depth > 200 {
		return false
	}
	for _, k := range a.syms {
		if !g.expandMin(k, c, out, depth+1) {
			return false
		}
	}
	return true
}

func (g *grammarTable) expandPos(s gramSym, c *lexCounter, out *[]string, depth int) bool {
	if !g.isRule(s) {
		*out = append(*out, g.tokenText(s, c))
		return true
	}
	a := g.posAlt[s.name]
	if a == nil || depth > 200 {
		return false
	}
	which := g.posSym[s.name+"#"+strconv.Itoa(a.idx)]
	for i, k := range a.syms {
		ok := true
		if i == which {
			ok = g.expandPos(k, c, out, depth+1)
		} else {
			ok = g.expandMin(k, c, out, depth+1)
		}
		if !ok {
			return false
		}
	}
	return true
}

// sentence of one alternative: nullable symbols in `full` are non-empty, the others empty; position `hole` (≥ 0) is
// replaced by the given tokens
func (g *grammarTable) altSentence(a *gramAlt, full map[int]bool, hole int, inner []string, c *lexCounter, out *[]string) bool {
	for i, s := range a.syms {
		switch {
		case i == hole:
			*out = append(*out, inner...)
		case g.nullable(s) && full[i]:
			if !g.expandPos(s, c, out, 0) {
				return false
			}
		case g.nullable(s):
		default:
			if !g.expandMin(s, c, out, 0) {
				return false
			}
		}
	}
	return true
}

// statement: the alternative's sentence wrapped into the shortest derivation from a statement rule
func (g *grammarTable) statement(a *gramAlt, full map[int]bool) (string, bool) {
	c := &lexCounter{firstID: g.firstID}
	var cur []string
	if !g.altSentence(a, full, -1, nil, c, &cur) {
		return "", false
	}
	rule := a.rule
	for depth := 0; depth < 100; depth++ {
		ctx := g.parent[rule]
		if ctx == nil {
			break
		}
		var next []string
		if !g.altSentence(ctx.alt, nil, ctx.pos, cur, c, &next) {
			return "", false
		}
		cur, rule = next, ctx.alt.rule
	}
	return strings.Join(cur, " "), true
}

func runGrammar(r *core.Run) {
	g := parseGrammarAlts(r.ModelOnly("C13.grammar.alts"))
	roots := strings.Fields(r.ModelOnly("C13.grammar.roots"))
	if len(g.order) < 100 || len(roots) < 4 {
		panic(fmt.Sprintf("harness: C13: the model's regenerated grammar table is too small (%d rules, %d roots)", len(g.order), len(roots)))
	}
	if ok := r.ModelOnly("C13.grammar.tableok"); ok != "true" {
		r.Note("the finite check of the grammar table fails in the model (C13.grammar.tableok = %s): a grammar action ignores an operand", ok)
	}
	g.analyse(roots)
	isRoot := map[string]bool{}
	for _, x := range roots {
		isRoot[x] = true
	}
	total, produced := 0, 0
	var never, noContext []string
	perRule := map[string]int{}
	parses := func(text string) bool {
		for _, d := range []string{"my", "pg"} {
			if strings.HasPrefix(r.Impl("C13.lexemes "+d+" "+hexS(text)), "ok ") {
				return true
			}
		}
		return false
	}
	// rules nearest to the statement rules first: their context is fixed before the rules below them need it
	rules := append([]string{}, g.order...)
	sort.SliceStable(rules, func(i, j int) bool {
		di, oki := g.depth[rules[i]]
		dj, okj := g.depth[rules[j]]
		if oki != okj {
			return oki
		}
		return di < dj
	})
	for _, rule := range rules {
		if _, reachable := g.depth[rule]; !reachable {
			continue
		}
		if !isRoot[rule] {
			// find a context in which the rule's shortest (non-empty) sentence parses
			var probe *gramAlt
			if a := g.posAlt[rule]; a != nil {
				probe = a
			} else {
				probe = g.minAlt[rule]
			}
			found := false
			for k2, ctx := range append(append([]*gramCtx{}, g.occurs[rule]...), g.occurs[rule]...) {
				k := k2 % (len(g.occurs[rule]) + 1)
				if k2 >= len(g.occurs[rule]) {
					// second round: the first identifier is the word `value` (rule num_val checks it)
					g.firstID = "value"
					k = k2 - len(g.occurs[rule])
				}
				if k >= 12 {
					continue
				}
				if !isRoot[ctx.alt.rule] && g.parent[ctx.alt.rule] == nil {
					continue
				}
				g.parent[rule] = ctx
				full := map[int]bool{}
				if probe != nil {
					if w, ok := g.posSym[rule+"#"+strconv.Itoa(probe.idx)]; ok && w >= 0 {
						full[w] = true
					}
					r.Begin("grammar-probe:"+rule+":"+strconv.Itoa(k), false, "stream:grammar-probe")
					text, ok := g.statement(probe, full)
					if os.Getenv("VERIF_C13_DEBUG") != "" {
						fmt.Fprintf(os.Stderr, "probe %s #%d via %s.%d: %q\n", rule, k, ctx.alt.rule, ctx.alt.idx, text)
					}
					if ok && parses(text) {
						found = true
						break
					}
				}
			}
			g.firstID = ""
			if !found {
				delete(g.parent, rule)
				noContext = append(noContext, rule)
				continue
			}
		}
		for _, a := range g.alts[rule] {
			var opt []int
			for i, s := range a.syms {
				if g.nullable(s) {
					opt = append(opt, i)
				}
			}
			// none, each one alone, all
			variants := []map[int]bool{{}}
			for _, i := range opt {
				variants = append(variants, map[int]bool{i: true})
			}
			if len(opt) > 1 {
				all := map[int]bool{}
				for _, i := range opt {
					all[i] = true
				}
				variants = append(variants, all)
				if r.Thorough() {
					// every pair
					for x := 0; x < len(opt); x++ {
						for y := x + 1; y < len(opt); y++ {
							variants = append(variants, map[int]bool{opt[x]: true, opt[y]: true})
						}
					}
				}
			}
			altProduced := false
			for _, full := range variants {
				text, ok := g.statement(a, full)
				if !ok || text == "" {
					continue
				}
				total++
				if os.Getenv("VERIF_C13_DEBUG") != "" {
					fmt.Fprintf(os.Stderr, "stmt %s.%d: %q\n", rule, a.idx, text)
				}
				for _, d := range []string{"my", "pg"} {
					r.Begin("grammar:"+d+":"+text, true, "stream:grammar-derived", "dialect:"+d)
					if checkRoundTrip(r, d, text, "grammar") {
						altProduced = true
						produced++
						perRule[rule]++
					}
				}
			}
			if !altProduced && g.firstID == "" {
				g.firstID = "value"
				for _, full := range variants {
					if text, ok := g.statement(a, full); ok && text != "" {
						for _, d := range []string{"my", "pg"} {
							r.Begin("grammar:"+d+":"+text, true, "stream:grammar-derived", "dialect:"+d)
							if checkRoundTrip(r, d, text, "grammar") {
								altProduced = true
								produced++
								perRule[rule]++
							}
						}
					}
				}
				g.firstID = ""
			}
			if !altProduced {
				var ss []string
				for _, s := range a.syms {
					ss = append(ss, s.name)
				}
				never = append(never, fmt.Sprintf("%s.%d: %s", rule, a.idx, strings.Join(ss, " ")))
			}
		}
	}
	sort.Strings(noContext)
	r.Extra["grammar_rules_without_parseable_context"] = noContext
	sort.Strings(never)
	r.Extra["grammar_alternatives"] = map[string]int{"statements_derived": total, "parsed_statement_dialect_pairs": produced, "alternatives_never_parsed": len(never)}
	r.Extra["grammar_alternatives_never_parsed"] = never
	r.Extra["grammar_statements_per_rule"] = perRule
}
