package c13

import (
	"fmt"
	"go/ast"
	"go/parser"
	"go/token"
	"os"
	"path/filepath"
	"sort"
	"strconv"
	"strings"

	"verifharness/internal/c16"
	"verifharness/internal/core"
)

func init() { core.RegisterProp("C13", run) }

func repoDir() string {
	if d := os.Getenv("VERIF_REPO"); d != "" {
		return d
	}
	return "/repo"
}

// testTableStatements collects the SQL strings of Acra's own parser test tables
// (sqlparser/*_test.go: fields input/output/in/query/sql and []string tables) by parsing the Go source.
func testTableStatements() []string {
	dir := filepath.Join(repoDir(), "sqlparser")
	files, _ := filepath.Glob(filepath.Join(dir, "*_test.go"))
	sort.Strings(files)
	seen := map[string]bool{}
	var out []string
	add := func(s string) {
		if len(s) < 6 || len(s) > 4000 || seen[s] {
			return
		}
		seen[s] = true
		out = append(out, s)
	}
	var strOf func(e ast.Expr) (string, bool)
	strOf = func(e ast.Expr) (string, bool) {
		switch t := e.(type) {
		case *ast.BasicLit:
			if t.Kind == token.STRING {
				s, err := strconv.Unquote(t.Value)
				return s, err == nil
			}
		case *ast.BinaryExpr:
			if t.Op == token.ADD {
				a, ok1 := strOf(t.X)
				b, ok2 := strOf(t.Y)
				return a + b, ok1 && ok2
			}
		case *ast.ParenExpr:
			return strOf(t.X)
		}
		return "", false
	}
	fset := token.NewFileSet()
	for _, f := range files {
		af, err := parser.ParseFile(fset, f, nil, 0)
		if err != nil {
			continue
		}
		ast.Inspect(af, func(n ast.Node) bool {
			switch t := n.(type) {
			case *ast.KeyValueExpr:
				if k, ok := t.Key.(*ast.Ident); ok {
					switch k.Name {
					case "input", "output", "in", "query", "sql", "outstmt", "out", "Query":
						if s, ok := strOf(t.Value); ok {
							add(s)
						}
					}
				}
			case *ast.CompositeLit:
				if at, ok := t.Type.(*ast.ArrayType); ok {
					if id, ok := at.Elt.(*ast.Ident); ok && id.Name == "string" {
						for _, el := range t.Elts {
							if s, ok := strOf(el); ok {
								add(s)
							}
						}
					}
				}
				// positional struct entries {"sql", "expected"}
				if t.Type == nil {
					for _, el := range t.Elts {
						if s, ok := strOf(el); ok && looksLikeSQL(s) {
							add(s)
						}
					}
				}
			}
			return true
		})
	}
	return out
}

func looksLikeSQL(s string) bool {
	l := strings.ToLower(strings.TrimSpace(s))
	for _, p := range []string{"select", "insert", "update", "delete", "replace", "set ", "create", "alter", "drop", "show", "(select", "prepare", "execute", "/*"} {
		if strings.HasPrefix(l, p) {
			return true
		}
	}
	return false
}

var dialects = []string{"my", "pg", "myansi"}

func hexS(s string) string { return core.Hex([]byte(s)) }

// diffClass: a decidable class of the input for a structural difference – the kind of statement.
func stmtKind(stmt string) string {
	l := strings.ToLower(strings.TrimSpace(stmt))
	for strings.HasPrefix(l, "(") || strings.HasPrefix(l, "/*") {
		if strings.HasPrefix(l, "/*") {
			if i := strings.Index(l, "*/"); i >= 0 {
				l = strings.TrimSpace(l[i+2:])
				continue
			}
			break
		}
		l = strings.TrimSpace(l[1:])
	}
	if i := strings.IndexAny(l, " \t\n("); i > 0 {
		l = l[:i]
	}
	switch l {
	case "select", "insert", "update", "delete", "replace":
		return "dml"
	case "create", "alter", "drop", "rename", "truncate":
		return "ddl"
	}
	return "other:" + l
}

func checkRoundTrip(r *core.Run, dialect, stmt, source string) bool {
	out := r.Impl("C13.roundtrip " + dialect + " " + hexS(stmt))
	word := out
	if i := strings.IndexByte(out, ' '); i >= 0 {
		word = out[:i]
	}
	r.Tag("roundtrip:"+word, "source:"+source)
	switch word {
	case "same":
		checkLexemes(r, dialect, stmt, source)
		return true
	case "unparseable":
		return false
	}
	checkLexemes(r, dialect, stmt, source)
	kind := stmtKind(stmt)
	if word == "reparse-fails" && strings.HasPrefix(dialect, "my") && hasIntervalString(dialect, stmt) {
		// known: Acra's grammar takes INTERVAL '<string>' only as the PostgreSQL form and rejects it in the MySQL
		// dialect; a MySQL string written in double quotes is accepted and then printed in single quotes
		r.Fail("roundtrip-reparse-fails:mysql-interval-string", fmt.Sprintf("[%s] %s ⇒ %s", dialect, trunc(stmt), trunc(decodePrinted(out))))
		return true
	}
	if kind != "dml" {
		// the property quantifies over data-manipulation statements; DDL, SHOW, EXPLAIN, PREPARE … are printed
		// in a reduced form by design ("otherread", "alter table a")
		r.Tag("non-dml-" + word + ":" + kind)
		return true
	}
	r.Fail("roundtrip-"+word+":"+kind, fmt.Sprintf("Parse(String(Parse s)) ≠ Parse s [%s, %s]: %s  ⇒ %s", dialect, source, trunc(stmt), trunc(decodePrinted(out))))
	return true
}

// checkSubst: value substitution through the real encryptor code, then print and re-parse.
func checkSubst(r *core.Run, dialect, stmt string) {
	var out string
	if dialect == "pg" {
		out = r.Impl(fmt.Sprintf("C13.pgsubst %s %d", hexS(stmt), r.Rand.Intn(1<<30)))
	} else {
		out = r.Impl(fmt.Sprintf("C13.subst %s %s %d", dialect, hexS(stmt), r.Rand.Intn(1<<30)))
	}
	word := out
	if i := strings.IndexByte(out, ' '); i >= 0 {
		word = out[:i]
	}
	r.Tag("subst:" + word + ":" + dialect)
	switch word {
	case "same", "unparseable", "nothing":
		return
	}
	if dialect == "pg" && (word == "diff" || word == "reparse-fails") && PgBooleanOperand(stmt) {
		r.Fail("pgroundtrip:boolean-operand-parentheses", fmt.Sprintf("%s ⇒ %s", trunc(stmt), trunc(decodePrinted(out))))
		return
	}
	r.Fail("subst-"+word+":"+dialect, fmt.Sprintf("after value substitution the printed statement does not parse back to the substituted tree [%s]: %s ⇒ %s", dialect, trunc(stmt), trunc(decodePrinted(out))))
}

func checkPgRoundTrip(r *core.Run, stmt, source string) {
	out := r.Impl("C13.pgroundtrip " + hexS(stmt))
	word := out
	if i := strings.IndexByte(out, ' '); i >= 0 {
		word = out[:i]
	}
	r.Tag("pgroundtrip:" + word)
	switch word {
	case "same", "unparseable":
		return
	}
	if stmtKind(stmt) != "dml" {
		r.Tag("pg-non-dml-" + word)
		return
	}
	if (word == "diff" || word == "reparse-fails") && PgBooleanOperand(stmt) {
		r.Fail("pgroundtrip:boolean-operand-parentheses", fmt.Sprintf("%s ⇒ %s", trunc(stmt), trunc(decodePrinted(out))))
		return
	}
	r.Fail("pgroundtrip-"+word, fmt.Sprintf("pg_query: Parse(Deparse(Parse s)) ≠ Parse s [%s]: %s ⇒ %s", source, trunc(stmt), trunc(decodePrinted(out))))
}

func decodePrinted(out string) string {
	// make the hex parts of the op's answer readable
	f := strings.Fields(out)
	for i, w := range f {
		for _, p := range []string{"printed=", "again="} {
			if strings.HasPrefix(w, p) {
				f[i] = p + strconv.Quote(string(core.UnHex(w[len(p):])))
			}
		}
	}
	if len(f) == 2 && f[0] == "reparse-fails" {
		f[1] = strconv.Quote(string(core.UnHex(f[1])))
	}
	return strings.Join(f, " ")
}

func trunc(s string) string {
	if len(s) > 400 {
		return s[:400] + "…"
	}
	return s
}

func run(r *core.Run) {
	r.Rule = "literal codec: byte strings (random over all 256 values, boundary: every escaped byte, the \\x prefix, quotes, long) through the real printer and tokenizer vs the model; statements: Acra's own parser test tables (read from sqlparser/*_test.go), one template per clause/expression form × literal spellings × dialects, and text splices of printed sub-expressions into every expression position; a case is non-trivial when the statement parses; distinct by text; expression fragment: every ordered pair of infix operators of the model's regenerated operator table (`a op1 b op2 c`, BETWEEN included), every prefix/postfix operator against every infix one and against each other, with column, literal and signed operands, in both dialects; random trees with random parenthesisation (0/20/50/90 % of the children wrapped) through the real printer, tokenizer and parser and the model's; variant spellings (upper case, <>, mod, &&, ||, white space); value substitution in parsed trees; token-level mutations as malformed stream; grammar-derived statements: for every alternative of every rule of sql.y reachable from the DML statements (regenerated table) a statement containing it, every nullable symbol of the alternative empty and non-empty, every lexeme token with a text of its own; on every parseable statement of every stream the token-conservation oracle (every literal / identifier / placeholder lexeme of the text re-appears in String(Parse s), multisets, pinned exemptions)"
	runLexemeCorpus(r)
	runLiterals(r)
	runIdents(r)
	runExprs(r)
	runSelects(r)
	runStatements(r)
	runForms(r)
	runGrammar(r)
}

// lexemeWitnesses: statements that lost a lexeme on the pinned tree (regression corpus of the token-conservation
// oracle, run first): unary minus in front of an integer literal with a type cast built a new literal without the cast
// (`-5::int4` was re-serialised as `-5`) – repaired, repo-patches/131.
var lexemeWitnesses = []string{
	"select -5::int4 from t",
	"select - -5::int4 from t",
	"select a from t where b > -1::numeric and c = +2::int8",
	"update t set a = -3::int2 where b = 1",
	"insert into t (a) values (-7::bigint)",
}

func runLexemeCorpus(r *core.Run) {
	for _, w := range lexemeWitnesses {
		for _, d := range []string{"pg", "my"} {
			r.Begin("lexeme-corpus:"+d+":"+w, true, "stream:corpus", "dialect:"+d)
			checkRoundTrip(r, d, w, "corpus")
		}
	}
}

// ---------- literal codec ----------

func runLiterals(r *core.Run) {
	rd := r.Rand
	var vals [][]byte
	// boundary: each single byte, the escaped ones in pairs, the \x prefix family
	for b := 0; b < 256; b++ {
		vals = append(vals, []byte{byte(b)})
	}
	specials := []byte{0, 8, 9, 10, 13, 26, '"', '\'', '\\', 'x', 'X', '0', 'n', 'Z', 0xff, 'a', '%', '_'}
	for _, a := range specials {
		for _, b := range specials {
			vals = append(vals, []byte{a, b}, []byte{'\\', a, b}, []byte{a, '\\', 'x', b}, []byte{'\\', 'x', a, b})
		}
	}
	vals = append(vals, []byte{}, []byte(`\x`), []byte(`\X41`), []byte(`\x41`), []byte(`a\x41`), []byte(`\\x41`), []byte(`''`), []byte(`'`), []byte(`\`), []byte(`\\`), []byte(`\'`))
	for i := 0; i < r.N(400, 20000); i++ {
		n := rd.Intn(40)
		if rd.Chance(5) {
			n = 200 + rd.Intn(400)
		}
		b := make([]byte, n)
		for j := range b {
			if rd.Chance(40) {
				b[j] = core.Pick(rd, specials)
			} else {
				b[j] = byte(rd.Intn(256))
			}
		}
		vals = append(vals, b)
	}
	suffixes := []string{"", " ", ")", ", 'next'", " and b = 'x'", "\n", ";", "a"}
	for _, v := range vals {
		r.Begin("lit:"+core.Hex(v), true, "stream:structured", "literal:roundtrip")
		enc := core.UnHex(r.Do("C13.lit.enc " + core.Hex(v)))
		if !r.Check(len(enc) >= 2 && enc[0] == '\'' && enc[len(enc)-1] == '\'', "literal-print-shape", fmt.Sprintf("printed literal is not quoted: %q", enc)) {
			continue
		}
		suf := core.Pick(rd, suffixes)
		in := append(append([]byte{}, enc[1:]...), suf...)
		got := r.Do("C13.lit.scan sq " + core.Hex(in))
		want := "ok " + core.Hex(v) + " " + core.Hex([]byte(suf))
		r.Check(got == want, "literal-roundtrip", fmt.Sprintf("scan(print(%q)+%q) = %s, want %s", v, suf, got, want))
		// PostgreSQL escape string
		esc := core.UnHex(r.Do("C13.lit.esc " + core.Hex(v)))
		if r.Check(len(esc) >= 2 && esc[0] == '\'', "estring-print-shape", fmt.Sprintf("printed E-string is not quoted: %q", esc)) {
			in := append(append([]byte{}, esc[1:]...), suf...)
			got := r.Do("C13.lit.scan esq " + core.Hex(in))
			r.Check(got == want, "estring-roundtrip", fmt.Sprintf("scan(E+print(%q)+%q) = %s, want %s", v, suf, got, want))
		}
	}
	// decoder on arbitrary inputs (malformed: unterminated, dangling backslash, doubled quotes, \x anywhere)
	alphabet := []byte{'\'', '"', '\\', 'x', 'X', 'a', '0', 'n', 'Z', '\n', 0xc3, ' '}
	var ins [][]byte
	maxLen := 4
	if r.Thorough() {
		maxLen = 5
	}
	var gen func(cur []byte)
	gen = func(cur []byte) {
		ins = append(ins, append([]byte{}, cur...))
		if len(cur) == maxLen {
			return
		}
		for _, c := range alphabet {
			gen(append(cur, c))
		}
	}
	gen(nil)
	for i := 0; i < r.N(300, 5000); i++ {
		n := 5 + rd.Intn(20)
		b := make([]byte, n)
		for j := range b {
			b[j] = core.Pick(rd, alphabet)
		}
		ins = append(ins, b)
	}
	for _, in := range ins {
		r.Begin("scan:"+core.Hex(in), len(in) > 0, "stream:malformed", "literal:scan")
		for _, q := range []string{"sq", "dq", "esq"} {
			got := r.Do("C13.lit.scan " + q + " " + core.Hex(in))
			r.Check(got != core.Panic, "literal-scan-panic", "tokenizer panics on "+q+" "+core.Hex(in))
		}
	}
	r.Extra["literal_values"] = len(vals)
	r.Extra["scanner_inputs"] = len(ins)
}

// ---------- quoted identifiers ----------

func runIdents(r *core.Run) {
	rd := r.Rand
	alphabet := []byte{'`', '"', 'a', 'B', ' ', '.', '\\', '\'', '1', '_', '%', '-'}
	// identifiers are valid UTF-8 (MySQL's formatIDForDialect iterates runes: an invalid byte would become U+FFFD)
	names := [][]byte{[]byte("é"), []byte("naïve col"), []byte("`é`"), []byte("日本\"語")}
	for _, a := range alphabet {
		names = append(names, []byte{a})
		for _, b := range alphabet {
			names = append(names, []byte{a, b}, []byte{'x', a, b, 'y'})
		}
	}
	for i := 0; i < r.N(300, 10000); i++ {
		n := 1 + rd.Intn(12)
		b := make([]byte, n)
		for j := range b {
			b[j] = core.Pick(rd, alphabet)
		}
		names = append(names, b)
	}
	suffixes := []string{"", " ", ".x", ", b", ")", "\n"}
	for _, name := range names {
		for _, d := range []string{"my", "pg"} {
			// MySQL: only names the printer has to escape are printed in quotes (a plain name is printed bare)
			if d == "my" && plainName(name) {
				continue
			}
			r.Begin("ident:"+d+":"+core.Hex(name), true, "stream:structured", "ident:roundtrip")
			q := core.UnHex(r.Do("C13.ident.quote " + d + " " + core.Hex(name)))
			if !r.Check(len(q) >= 2, "ident-print-shape", fmt.Sprintf("identifier %q printed as %q", name, q)) {
				continue
			}
			suf := core.Pick(rd, suffixes)
			in := append(append([]byte{}, q[1:]...), suf...)
			got := r.Do("C13.ident.scan " + d + " " + core.Hex(in))
			want := "ok " + core.Hex(name) + " " + core.Hex([]byte(suf))
			r.Check(got == want, "ident-roundtrip", fmt.Sprintf("[%s] scan(print(%q)+%q) = %s, want %s", d, name, suf, got, want))
		}
	}
	// scanner on arbitrary inputs
	for i := 0; i < r.N(300, 8000); i++ {
		n := rd.Intn(10)
		b := make([]byte, n)
		for j := range b {
			b[j] = core.Pick(rd, alphabet)
		}
		r.Begin("identscan:"+core.Hex(b), n > 0, "stream:malformed", "ident:scan")
		r.Do("C13.ident.scan my " + core.Hex(b))
		r.Do("C13.ident.scan pg " + core.Hex(b))
	}
}

func plainName(b []byte) bool {
	for i, c := range b {
		switch {
		case c >= 'a' && c <= 'z', c >= 'A' && c <= 'Z', c == '_', c == '@':
		case c >= '0' && c <= '9' && i > 0:
		default:
			return false
		}
	}
	return len(b) > 0
}

// ---------- statements ----------

// expression-position templates for splicing
var spliceTemplates = []string{
	"select {E} from t",
	"select a from t where {E}",
	"select a from t where b = {E} and c < ({E})",
	"select a from t where not {E} or {E}",
	"select a from t order by {E} desc",
	"select a from t group by {E} having {E}",
	"select f({E}, {E}) from t",
	"select case when {E} then {E} else {E} end from t",
	"select a from t where b in ({E}, {E})",
	"select a from t where b between {E} and {E}",
	"select -{E}, ~{E} from t",
	"select {E} + {E} * {E} from t",
	"select {E} * ({E} + {E}) from t",
	"select a from t where {E} is null",
	"select a from t where {E} like {E}",
	"update t set a = {E}, b = {E} where {E}",
	"insert into t (a, b) values ({E}, {E})",
	"delete from t where {E}",
	"select a from t join u on {E} where {E}",
	"select a from t limit {E}",
}

// corpus: failing inputs of the defects found on the pinned tree (fixed or known), run first on every run
var corpus = []struct{ dialect, stmt string }{
	{"pg", `select "a""a" from t where "b""c"."d""e" = 1`},
	{"pg", `select "T"."a""a" from "T"`},
	{"my", "select group_concat(a separator 'it''s') from t"},
	{"my", `select group_concat(a order by b separator '\\ \' x') from t`},
	{"my", `select a from t where b > now() - interval "1" hour`},
	{"pg", "select 1 + (b in (select c from u)) from t"},
	{"pg", "update t set b = 2 * (b > all (select c from u)) where c = 1"},
	{"pg", "select a from t where (a or b) is null"},
	{"pg", "select a from t where b between (b = 1 or c = 2) and 5"},
	{"pg", "select a from t order by null desc"},
	// fixed (repo-patches/70): the length of VARCHAR(n) in CAST / CONVERT was dropped by the grammar
	{"my", "select cast(a as varchar(10)) from t"},
	{"pg", "select convert(a, varchar(10)) from t"},
	// known (pg_query deparser): an AND/OR/NOT as the argument of a CAST
	{"pg", "select cast(not a as int4) from t"},
	// the seeded change C13-3: multi-table DELETE with RETURNING
	{"pg", "delete from t using u where t.a = u.a returning t.a"},
	{"my", "delete t from t join u on t.a = u.a where u.b = 1 returning t.a"},
}

func runStatements(r *core.Run) {
	rd := r.Rand
	for i, w := range corpus {
		r.Begin(fmt.Sprintf("corpus-%d", i), true, "stream:corpus")
		if checkRoundTrip(r, w.dialect, w.stmt, "corpus") {
			checkSubst(r, w.dialect, w.stmt)
			if w.dialect == "pg" {
				checkPgRoundTrip(r, w.stmt, "corpus")
			}
		}
	}
	// (a) Acra's own tables
	table := testTableStatements()
	if len(table) < 400 {
		panic(fmt.Sprintf("harness: C13: only %d statements extracted from %s/sqlparser/*_test.go", len(table), repoDir()))
	}
	r.Extra["test_table_statements"] = len(table)
	parsed := 0
	var pool []string // printed expressions harvested for splicing
	for _, s := range table {
		for _, d := range dialects {
			r.Begin("table:"+d+":"+s, true, "stream:structured", "dialect:"+d)
			if checkRoundTrip(r, d, s, "test-table") {
				parsed++
				if stmtKind(s) == "dml" {
					checkSubst(r, d, s)
					if d == "pg" {
						checkPgRoundTrip(r, s, "test-table")
					}
				}
				if d != "myansi" && len(pool) < 4000 {
					pool = append(pool, harvest(d, s)...)
				}
			}
		}
	}
	if parsed < 800 {
		panic(fmt.Sprintf("harness: C13: only %d (statement, dialect) pairs of the test tables parse", parsed))
	}
	// (b) templates of C16 (one per clause / literal position) with every spelling
	for _, d := range dialects {
		for _, t := range append(append([]c16.Template{}, c16.Templates...), c16.SpecialTemplates...) {
			if t.Dialect != "" && !strings.HasPrefix(d, strings.TrimSuffix(t.Dialect, "!")) {
				continue
			}
			for k := 0; k < r.N(3, 12); k++ {
				stmt, _, _ := c16.Instantiate(t, d, rd, nil)
				r.Begin("tpl:"+d+":"+stmt, true, "stream:structured", "dialect:"+d, "pos:"+t.Pos)
				if checkRoundTrip(r, d, stmt, "template") {
					if len(pool) < 6000 {
						pool = append(pool, harvest(d, stmt)...)
					}
					checkSubst(r, d, stmt)
					if d == "pg" {
						checkPgRoundTrip(r, stmt, "template")
					}
				}
			}
		}
	}
	// (b2) substitution-heavy: INSERT / UPDATE / REPLACE forms with every literal spelling
	var writes []c16.Template
	for _, t := range c16.Templates {
		if strings.HasPrefix(t.Text, "insert") || strings.HasPrefix(t.Text, "update") || strings.HasPrefix(t.Text, "replace") {
			writes = append(writes, t)
		}
	}
	for i := 0; i < r.N(600, 20000); i++ {
		t := core.Pick(rd, writes)
		d := core.Pick(rd, dialects)
		if t.Dialect != "" && !strings.HasPrefix(d, strings.TrimSuffix(t.Dialect, "!")) {
			continue
		}
		stmt, _, _ := c16.Instantiate(t, d, rd, nil)
		r.Begin("subst:"+d+":"+stmt, true, "stream:structured", "dialect:"+d, "pos:"+t.Pos)
		checkSubst(r, d, stmt)
	}
	// (c) splices: printed sub-expressions of accepted statements into every expression position
	pool = dedup(pool)
	r.Extra["splice_pool"] = len(pool)
	if len(pool) < 100 {
		panic("harness: C13: splice pool too small")
	}
	for i := 0; i < r.N(1500, 60000); i++ {
		t := core.Pick(rd, spliceTemplates)
		var sb strings.Builder
		rest := t
		for {
			j := strings.Index(rest, "{E}")
			if j < 0 {
				sb.WriteString(rest)
				break
			}
			sb.WriteString(rest[:j])
			e := core.Pick(rd, pool)
			depth := rd.Intn(3)
			for k := 0; k < depth; k++ {
				// nest: combine with another pooled expression through an operator, with or without parentheses
				op := core.Pick(rd, []string{" + ", " * ", " - ", " / ", " and ", " or ", " = ", " < ", " | ", " & ", " % ", " div "})
				o := core.Pick(rd, pool)
				switch rd.Intn(4) {
				case 0:
					e = e + op + o
				case 1:
					e = "(" + e + ")" + op + o
				case 2:
					e = e + op + "(" + o + ")"
				default:
					e = "not " + e
				}
			}
			sb.WriteString(e)
			rest = rest[j+3:]
		}
		stmt := sb.String()
		d := core.Pick(rd, []string{"my", "pg"})
		r.Begin("splice:"+d+":"+stmt, true, "stream:structured", "dialect:"+d)
		if checkRoundTrip(r, d, stmt, "splice") {
			if strings.HasPrefix(stmt, "update") || strings.HasPrefix(stmt, "insert") {
				checkSubst(r, d, stmt)
			}
			if d == "pg" && i%4 == 0 {
				checkPgRoundTrip(r, stmt, "splice")
			}
		}
	}
}

func dedup(xs []string) []string {
	seen := map[string]bool{}
	var out []string
	for _, x := range xs {
		if !seen[x] {
			seen[x] = true
			out = append(out, x)
		}
	}
	return out
}
