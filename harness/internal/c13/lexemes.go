package c13

// lexemes.go – the TOKEN-CONSERVATION oracle of C13: every value-carrying lexeme of the statement received (string /
// number / hex / bit literal, placeholder, identifier – as Acra's own tokenizer reads them) re-appears in the
// re-serialised statement String(Parse(s)), compared as multisets (INSERT … SET is printed in column-list form: the same
// lexemes in another order). It is the dynamic twin of Props/C13 `derivation_keeps_lexemes` (Sql/Grammar.lean: no
// derivation loses a lexeme it reads, given that every grammar action uses every operand) and `parse_keeps_lexemes`
// (Sql/ExprTokens.lean: the expression parser). A grammar action that ignores a right-hand-side symbol (the ESCAPE
// operand of NOT ILIKE, ON DUPLICATE KEY UPDATE after INSERT … SET) loses its lexemes at parse time; the tree is
// self-consistent, print and re-parse agree – only the comparison with the ORIGINAL token stream shows it.
//
//	C13.lexemes <dialect> <stmt-hex>   →  unparseable | ok <kind> <n lexemes read> <missing: class:hex,… | ->
//	C13.expr.conserve <dialect> <text-hex> <n> tok…  →  the same for the expression fragment, in the model's token
//	                                      alphabet, compared with the model (parse, print, tokens of the printed form)

import (
	"fmt"
	"sort"
	"strings"

	"github.com/cossacklabs/acra/sqlparser"

	"verifharness/internal/c16"
	"verifharness/internal/core"
)

// lexClass: the class of a value-carrying token ("" for keywords, operators, punctuation, comments)
func lexClass(typ int) string {
	switch typ {
	case sqlparser.ID:
		return "id"
	case sqlparser.SINGLE_QUOTE_STRING:
		return "str"
	case sqlparser.DOUBLE_QUOTE_STRING:
		return "dq"
	case sqlparser.BACK_QUOTE_STRING:
		return "bq"
	case sqlparser.PG_ESCAPE_STRING:
		return "estr"
	case sqlparser.INTEGRAL:
		return "int"
	case sqlparser.FLOAT:
		return "float"
	case sqlparser.HEXNUM:
		return "hexnum"
	case sqlparser.HEX:
		return "hex"
	case sqlparser.BIT_LITERAL:
		return "bit"
	case sqlparser.VALUE_ARG:
		return "arg"
	case sqlparser.LIST_ARG:
		return "listarg"
	case sqlparser.DOLLAR_SIGN:
		return "dollar"
	case sqlparser.COMMENT:
		return "comment"
	}
	return ""
}

type lexeme struct {
	class string
	val   string
}

// lexemesOf: the value-carrying tokens of a text, by the real tokenizer of the current default dialect
func lexemesOf(text string) (out []lexeme, ok bool) {
	tkn := sqlparser.NewStringTokenizer(text)
	limit := len(text) + 2
	for i := 0; i < limit; i++ {
		typ, val := tkn.Scan()
		if typ == 0 {
			return out, true
		}
		if typ == sqlparser.LEX_ERROR {
			return out, false
		}
		if c := lexClass(typ); c != "" {
			v := string(val)
			if c == "arg" && !strings.HasPrefix(v, ":"+sqlparser.ValueMask) {
				// placeholders are compared by count: `?` is read as `:v<n>`, a named bind variable `:name` (Vitess syntax)
				// is printed as the positional `?` on purpose (SQLVal.Format) – the second normalisation of `canon`
				v = "?"
			}
			out = append(out, lexeme{c, v})
		}
	}
	return out, false
}

// compatible: the classes a lexeme of class c may come back in. Each mapping is a normalisation of Acra's printer that
// leaves the VALUE untouched: a string is printed in single quotes whatever quotes it came in (MySQL "x" → 'x'); an
// identifier is printed bare, or in the dialect's identifier quotes when it needs them (`x` → x, x → `x` for a keyword,
// PostgreSQL "x" → "x" or x). A single-quoted string never counts as an identifier or the other way round.
var compatible = map[string][]string{
	"id":  {"id", "bq", "dq"},
	"bq":  {"bq", "id", "dq"},
	"dq":  {"dq", "str", "id", "bq"},
	"str": {"str"},
}

// missingLexemes: the multiset difference in − out (exact class first, then the compatible classes)
func missingLexemes(in, out []lexeme) []lexeme {
	have := map[lexeme]int{}
	for _, l := range out {
		have[l]++
	}
	var rest, miss []lexeme
	for _, l := range in {
		if have[l] > 0 {
			have[l]--
			continue
		}
		rest = append(rest, l)
	}
	for _, l := range rest {
		found := false
		for _, c := range compatible[l.class] {
			k := lexeme{c, l.val}
			if have[k] > 0 {
				have[k]--
				found = true
				break
			}
		}
		if !found && l.class == "str" && have[lexeme{"id", l.val}] > 0 {
			// a single-quoted string that comes back as a bare word: reported as such (only a character-set name may)
			have[lexeme{"id", l.val}]--
			miss = append(miss, lexeme{"str>id", l.val})
			continue
		}
		if !found {
			miss = append(miss, l)
		}
	}
	return miss
}

func init() {
	core.Register("C13.lexemes", func(a []string) string {
		c16.SetDialect(a[0])
		stmt := string(core.UnHex(a[1]))
		p := sqlparser.New(sqlparser.ModeStrict)
		t, err := p.Parse(stmt)
		if err != nil {
			return "unparseable"
		}
		in, ok := lexemesOf(stmt)
		if !ok {
			return "unparseable"
		}
		printed := sqlparser.String(t)
		out, ok := lexemesOf(printed)
		if !ok {
			return "ok " + kindOfStmt(t) + " " + fmt.Sprint(len(in)) + " printed-does-not-tokenize"
		}
		miss := missingLexemes(in, out)
		if len(miss) == 0 {
			return fmt.Sprintf("ok %s %d -", kindOfStmt(t), len(in))
		}
		var ms []string
		for _, m := range miss {
			ms = append(ms, m.class+":"+core.Hex([]byte(m.val)))
		}
		sort.Strings(ms)
		return fmt.Sprintf("ok %s %d %s printed=%s", kindOfStmt(t), len(in), strings.Join(ms, ","), core.Hex([]byte(printed)))
	})
}

func kindOfStmt(t sqlparser.Statement) string {
	s := fmt.Sprintf("%T", t)
	return strings.TrimPrefix(s, "*sqlparser.")
}

// lexemeExemptions: lexemes that the re-serialised statement may lack, each a decidable class with its reason – the
// pinned counterpart of `Sql/Grammar.lean: exempt` (Props/C13 `fact_grammar_exemptions`). Anything else that is missing
// is a failure of the property.
//
//	comment                   comments are not part of the statement's meaning; Acra keeps the leading ones of DML only
//	insert-column-qualifier   `insert into t (t.a) …`: the qualifier of a column of the INSERT column list
//	                          (ins_column_list alternatives 2 and 4 of sql.y drop it; MySQL requires it to be the target)
//	charset-name-quotes       a character-set / collation name written as a string after COLLATE, USING, CHARSET or
//	                          CHARACTER SET is kept as a name and printed bare (`collate 'latin1'` → `collate latin1`): the
//	                          value is there, only its quotes are not (rule `charset: ID | string`)
//	next-value-keyword        `select next value for t`: the word VALUE (an identifier token that rule num_val checks to be
//	                          exactly `value`) is printed as the count `1 values`
func exemptLexeme(stmt string, kind string, m lexeme, all []lexeme) string {
	if m.class == "comment" {
		return "comment"
	}
	if kind == "Insert" && (m.class == "id" || m.class == "dq" || m.class == "bq" || m.class == "str") && insertColumnQualifier(stmt, m.val) {
		return "insert-column-qualifier"
	}
	if m.class == "str>id" && precededBy(stmt, sqlparser.SINGLE_QUOTE_STRING, m.val, sqlparser.COLLATE, sqlparser.USING, sqlparser.CHARSET, sqlparser.SET) {
		return "charset-name-quotes"
	}
	if m.class == "id" && strings.EqualFold(m.val, "value") && precededBy(stmt, sqlparser.ID, m.val, sqlparser.NEXT) {
		return "next-value-keyword"
	}
	return ""
}

// precededBy: the statement has a token (typ, val) directly after one of the given tokens
func precededBy(stmt string, typ int, val string, before ...int) bool {
	tkn := sqlparser.NewStringTokenizer(stmt)
	prev := 0
	for i := 0; i < len(stmt)+2; i++ {
		t, v := tkn.Scan()
		if t == 0 || t == sqlparser.LEX_ERROR {
			return false
		}
		if t == typ && string(v) == val {
			for _, b := range before {
				if prev == b {
					return true
				}
			}
		}
		prev = t
	}
	return false
}

// insertColumnQualifier: `name` occurs as the qualifier `name .` of a column of an INSERT / REPLACE: inside a
// parenthesised list before VALUES / SELECT / SET (the column list), or in front of an assignment target of the
// SET form (`insert into t set t.a = 1` – printed as `insert into t(a) values (1)`), before ON DUPLICATE KEY UPDATE
func insertColumnQualifier(stmt, name string) bool {
	tkn := sqlparser.NewStringTokenizer(stmt)
	depth, inSet, started := 0, false, false
	type tk struct {
		typ int
		val string
	}
	var prev tk
	for i := 0; i < len(stmt)+2; i++ {
		typ, val := tkn.Scan()
		if typ == 0 || typ == sqlparser.LEX_ERROR {
			return false
		}
		switch {
		case typ == sqlparser.INSERT || typ == sqlparser.REPLACE:
			started = true
		case typ == '(':
			depth++
		case typ == ')':
			depth--
		case typ == sqlparser.SET && depth == 0:
			inSet = true
		case (typ == sqlparser.VALUES || typ == sqlparser.SELECT || typ == sqlparser.ON) && depth == 0:
			return false
		case typ == '.':
			if started && prev.val == name && lexClass(prev.typ) != "" && ((depth == 1 && !inSet) || (depth == 0 && inSet)) {
				return true
			}
		}
		prev = tk{typ, string(val)}
	}
	return false
}

var dmlStmtKinds = map[string]bool{"Select": true, "ParenSelect": true, "Union": true, "Insert": true, "Update": true, "Delete": true}

// checkLexemes: the token-conservation oracle on one statement
func checkLexemes(r *core.Run, dialect, stmt, source string) {
	out := r.Impl("C13.lexemes " + dialect + " " + hexS(stmt))
	f := strings.Fields(out)
	if len(f) < 4 || f[0] != "ok" {
		r.Tag("lexemes:" + f[0])
		return
	}
	kind := f[1]
	if f[3] == "-" {
		r.Tag("lexemes:kept")
		return
	}
	if !dmlStmtKinds[kind] {
		// DDL, SHOW, SET, PREPARE … are printed in a reduced form by design
		r.Tag("lexemes:non-dml-missing:" + kind)
		return
	}
	if f[3] == "printed-does-not-tokenize" {
		r.Fail("lexeme-lost:"+kind, fmt.Sprintf("the re-serialised statement does not tokenize [%s, %s]: %s", dialect, source, trunc(stmt)))
		return
	}
	var lost []string
	for _, e := range strings.Split(f[3], ",") {
		x := strings.SplitN(e, ":", 2)
		m := lexeme{x[0], string(core.UnHex(x[1]))}
		if ex := exemptLexeme(stmt, kind, m, nil); ex != "" {
			r.Tag("lexemes:exempt:" + ex)
			continue
		}
		lost = append(lost, fmt.Sprintf("%s %q", m.class, m.val))
	}
	if len(lost) == 0 {
		return
	}
	printed := ""
	if len(f) > 4 && strings.HasPrefix(f[4], "printed=") {
		printed = string(core.UnHex(f[4][len("printed="):]))
	}
	r.Fail("lexeme-lost:"+kind, fmt.Sprintf("String(Parse s) lacks lexemes of s [%s, %s]: %s  ⇒  %s   (lost: %s)", dialect, source, trunc(stmt), trunc(printed), strings.Join(lost, ", ")))
}
