package c13

// sel.go – the SELECT core of C13 (lean/AcraModel/Sql/Select.lean, theorem `select_roundtrip`): the model's printer and
// parser against the real goyacc parser, printer and tokenizer, in both dialects.
//
//	C13.sel.parse <dialect> <text-hex> <n> tok…   the real parser on the text: `ok <tree>`, `err`, or `outside` (a field or
//	                                              node outside the core); the model parses the token list (real Tokenizer)
//	C13.sel.tokens <dialect> <tree>               the real Tokenizer on sqlparser.String of the statement built from real
//	                                              AST nodes; the model's `stoks`
//	C13.sel.roundtrip <dialect> <tree>            Parse(String(ast)) compared with ast: same | diff <tree> | err
//	C13.sel.ok <tree>                             (model only) the executable `Sel.okB`
//
// Trees travel in the prefix form described in lean/Driver/C13Sel.lean.

import (
	"fmt"
	"strconv"
	"strings"

	"github.com/cossacklabs/acra/sqlparser"

	"verifharness/internal/c16"
	"verifharness/internal/core"
	"verifharness/internal/sqlast"
)

type selTbl struct {
	Name, As string
}

type selJoin struct {
	Kind string // inner straight left right natural
	R    selTbl
	On   *ETree
}

type selTRef struct {
	Base  selTbl
	Joins []selJoin
}

type selItem struct {
	Star bool
	E    *ETree
	As   string
}

type selOrd struct {
	E    *ETree
	Desc bool
}

type SelTree struct {
	Distinct bool
	Items    []selItem
	From     []selTRef
	Where    *ETree
	GroupBy  []*ETree
	Having   *ETree
	OrderBy  []selOrd
	LimKind  int // 0 none, 1 count, 2 count offset, 3 offset, count
	LimA     *ETree
	LimB     *ETree
}

func (t selTbl) String() string {
	if t.As == "" {
		return "tb0 " + hexS(t.Name)
	}
	return "tb1 " + hexS(t.Name) + " " + hexS(t.As)
}

func optE(tag string, e *ETree) string {
	if e == nil {
		return tag + "0"
	}
	return tag + "1 " + e.String()
}

func (s *SelTree) String() string {
	var w []string
	b := "0"
	if s.Distinct {
		b = "1"
	}
	w = append(w, "sel", b, strconv.Itoa(len(s.Items)))
	for _, it := range s.Items {
		switch {
		case it.Star:
			w = append(w, "star")
		case it.As == "":
			w = append(w, "it0 "+it.E.String())
		default:
			w = append(w, "it1 "+hexS(it.As)+" "+it.E.String())
		}
	}
	w = append(w, strconv.Itoa(len(s.From)))
	for _, tr := range s.From {
		w = append(w, "tr", tr.Base.String(), strconv.Itoa(len(tr.Joins)))
		for _, j := range tr.Joins {
			w = append(w, "j", j.Kind, j.R.String(), optE("n", j.On))
		}
	}
	w = append(w, optE("w", s.Where), strconv.Itoa(len(s.GroupBy)))
	for _, g := range s.GroupBy {
		w = append(w, g.String())
	}
	w = append(w, optE("h", s.Having), strconv.Itoa(len(s.OrderBy)))
	for _, o := range s.OrderBy {
		d := "0"
		if o.Desc {
			d = "1"
		}
		w = append(w, "o", d, o.E.String())
	}
	switch s.LimKind {
	case 0:
		w = append(w, "l0")
	case 1:
		w = append(w, "l1", s.LimA.String())
	default:
		w = append(w, "l"+strconv.Itoa(s.LimKind), s.LimA.String(), s.LimB.String())
	}
	return strings.Join(w, " ")
}

type selReader struct {
	toks []string
	bad  bool
}

func (r *selReader) next() string {
	if len(r.toks) == 0 {
		r.bad = true
		return ""
	}
	t := r.toks[0]
	r.toks = r.toks[1:]
	return t
}

func (r *selReader) num() int {
	n, err := strconv.Atoi(r.next())
	if err != nil || n < 0 || n > 1000 {
		r.bad = true
		return 0
	}
	return n
}

func (r *selReader) expr() *ETree {
	t, rest, ok := readETree(r.toks)
	if !ok {
		r.bad = true
		return &ETree{Kind: "null"}
	}
	r.toks = rest
	return t
}

func (r *selReader) opt(tag string) *ETree {
	switch r.next() {
	case tag + "0":
		return nil
	case tag + "1":
		return r.expr()
	}
	r.bad = true
	return nil
}

func (r *selReader) tbl() selTbl {
	switch r.next() {
	case "tb0":
		return selTbl{Name: unhexS(r.next())}
	case "tb1":
		n := unhexS(r.next())
		return selTbl{Name: n, As: unhexS(r.next())}
	}
	r.bad = true
	return selTbl{}
}

func readSelTree(toks []string) (*SelTree, bool) {
	r := &selReader{toks: toks}
	if r.next() != "sel" {
		return nil, false
	}
	s := &SelTree{Distinct: r.next() == "1"}
	for i, n := 0, r.num(); i < n && !r.bad; i++ {
		switch r.next() {
		case "star":
			s.Items = append(s.Items, selItem{Star: true})
		case "it0":
			s.Items = append(s.Items, selItem{E: r.expr()})
		case "it1":
			a := unhexS(r.next())
			s.Items = append(s.Items, selItem{E: r.expr(), As: a})
		default:
			r.bad = true
		}
	}
	for i, n := 0, r.num(); i < n && !r.bad; i++ {
		if r.next() != "tr" {
			r.bad = true
			break
		}
		tr := selTRef{Base: r.tbl()}
		for k, m := 0, r.num(); k < m && !r.bad; k++ {
			if r.next() != "j" {
				r.bad = true
				break
			}
			j := selJoin{Kind: r.next()}
			j.R = r.tbl()
			j.On = r.opt("n")
			tr.Joins = append(tr.Joins, j)
		}
		s.From = append(s.From, tr)
	}
	s.Where = r.opt("w")
	for i, n := 0, r.num(); i < n && !r.bad; i++ {
		s.GroupBy = append(s.GroupBy, r.expr())
	}
	s.Having = r.opt("h")
	for i, n := 0, r.num(); i < n && !r.bad; i++ {
		if r.next() != "o" {
			r.bad = true
			break
		}
		d := r.next() == "1"
		s.OrderBy = append(s.OrderBy, selOrd{E: r.expr(), Desc: d})
	}
	switch r.next() {
	case "l0":
	case "l1":
		s.LimKind, s.LimA = 1, r.expr()
	case "l2":
		s.LimKind, s.LimA = 2, r.expr()
		s.LimB = r.expr()
	case "l3":
		s.LimKind, s.LimA = 3, r.expr()
		s.LimB = r.expr()
	default:
		r.bad = true
	}
	if r.bad || len(r.toks) != 0 {
		return nil, false
	}
	return s, true
}

func mustSelTree(toks []string) *SelTree {
	s, ok := readSelTree(toks)
	if !ok {
		panic("harness: unreadable SELECT tree: " + strings.Join(toks, " "))
	}
	return s
}

var joinStrs = map[string]string{
	"inner": sqlparser.JoinStr, "straight": sqlparser.StraightJoinStr, "left": sqlparser.LeftJoinStr, "right": sqlparser.RightJoinStr,
	"natural": sqlparser.NaturalJoinStr,
}

func (t selTbl) ast() *sqlparser.AliasedTableExpr {
	a := &sqlparser.AliasedTableExpr{Expr: sqlparser.TableName{Name: sqlparser.NewTableIdent(t.Name)}}
	if t.As != "" {
		a.As = sqlparser.NewTableIdent(t.As)
	}
	return a
}

// toSelectAST builds the real AST of the statement.
func toSelectAST(s *SelTree) *sqlparser.Select {
	sel := &sqlparser.Select{}
	if s.Distinct {
		sel.Distinct = sqlparser.DistinctStr
	}
	for _, it := range s.Items {
		if it.Star {
			sel.SelectExprs = append(sel.SelectExprs, &sqlparser.StarExpr{})
			continue
		}
		ae := &sqlparser.AliasedExpr{Expr: toAST(it.E)}
		if it.As != "" {
			ae.As = sqlparser.NewColIdent(it.As)
		}
		sel.SelectExprs = append(sel.SelectExprs, ae)
	}
	for _, tr := range s.From {
		var cur sqlparser.TableExpr = tr.Base.ast()
		for _, j := range tr.Joins {
			jt := &sqlparser.JoinTableExpr{LeftExpr: cur, Join: joinStrs[j.Kind], RightExpr: j.R.ast()}
			if j.On != nil {
				jt.Condition.On = toAST(j.On)
			}
			cur = jt
		}
		sel.From = append(sel.From, cur)
	}
	if s.Where != nil {
		sel.Where = sqlparser.NewWhere(sqlparser.WhereStr, toAST(s.Where))
	}
	for _, g := range s.GroupBy {
		sel.GroupBy = append(sel.GroupBy, toAST(g))
	}
	if s.Having != nil {
		sel.Having = sqlparser.NewWhere(sqlparser.HavingStr, toAST(s.Having))
	}
	for _, o := range s.OrderBy {
		d := sqlparser.AscScr
		if o.Desc {
			d = sqlparser.DescScr
		}
		sel.OrderBy = append(sel.OrderBy, &sqlparser.Order{Expr: toAST(o.E), Direction: d})
	}
	switch s.LimKind {
	case 1:
		sel.Limit = &sqlparser.Limit{Rowcount: toAST(s.LimA), Type: sqlparser.LimitTypeLimitOnly}
	case 2:
		sel.Limit = &sqlparser.Limit{Rowcount: toAST(s.LimA), Offset: toAST(s.LimB), Type: sqlparser.LimitTypeLimitAndOffset}
	case 3:
		sel.Limit = &sqlparser.Limit{Offset: toAST(s.LimA), Rowcount: toAST(s.LimB), Type: sqlparser.LimitTypeCommaSeparated}
	}
	return sel
}

func plainTableIdent(id sqlparser.TableIdent) bool {
	return sqlast.Equal(sqlast.FromNode(id), sqlast.FromNode(sqlparser.NewTableIdent(id.String())))
}

func plainColIdent(id sqlparser.ColIdent) bool {
	return sqlast.Equal(sqlast.FromNode(id), sqlast.FromNode(sqlparser.NewColIdent(id.String())))
}

func fromTbl(te sqlparser.TableExpr) (selTbl, bool) {
	a, ok := te.(*sqlparser.AliasedTableExpr)
	if !ok || len(a.Partitions) != 0 || a.Hints != nil {
		return selTbl{}, false
	}
	tn, ok := a.Expr.(sqlparser.TableName)
	if !ok || !tn.Qualifier.IsEmpty() || tn.Name.IsEmpty() || !plainTableIdent(tn.Name) || !plainTableIdent(a.As) {
		return selTbl{}, false
	}
	return selTbl{Name: tn.Name.String(), As: a.As.String()}, true
}

// fromSelectAST restricts the real tree to the core; ok = false when something is outside it.
func fromSelectAST(st sqlparser.Statement) (*SelTree, bool) {
	sel, ok := st.(*sqlparser.Select)
	if !ok || sel.Cache != "" || len(sel.Comments) != 0 || sel.Hints != "" || sel.Lock != "" {
		return nil, false
	}
	s := &SelTree{}
	switch sel.Distinct {
	case "":
	case sqlparser.DistinctStr:
		s.Distinct = true
	default:
		return nil, false
	}
	for _, se := range sel.SelectExprs {
		switch x := se.(type) {
		case *sqlparser.StarExpr:
			if !x.TableName.IsEmpty() {
				return nil, false
			}
			s.Items = append(s.Items, selItem{Star: true})
		case *sqlparser.AliasedExpr:
			e, ok := fromAST(x.Expr)
			if !ok || !plainColIdent(x.As) {
				return nil, false
			}
			s.Items = append(s.Items, selItem{E: e, As: x.As.String()})
		default:
			return nil, false
		}
	}
	for _, te := range sel.From {
		// unwind the left-deep chain
		var joins []selJoin
		cur := te
		for {
			jt, isJoin := cur.(*sqlparser.JoinTableExpr)
			if !isJoin {
				break
			}
			kind := ""
			for k, v := range joinStrs {
				if v == jt.Join {
					kind = k
				}
			}
			rt, ok := fromTbl(jt.RightExpr)
			if kind == "" || !ok || jt.Condition.Using != nil {
				return nil, false
			}
			j := selJoin{Kind: kind, R: rt}
			if jt.Condition.On != nil {
				e, ok := fromAST(jt.Condition.On)
				if !ok {
					return nil, false
				}
				j.On = e
			}
			joins = append([]selJoin{j}, joins...)
			cur = jt.LeftExpr
		}
		base, ok := fromTbl(cur)
		if !ok {
			return nil, false
		}
		s.From = append(s.From, selTRef{Base: base, Joins: joins})
	}
	conv := func(w *sqlparser.Where, typ string) (*ETree, bool) {
		if w == nil {
			return nil, true
		}
		if w.Type != typ || w.Expr == nil {
			return nil, false
		}
		return fromAST(w.Expr)
	}
	if s.Where, ok = conv(sel.Where, sqlparser.WhereStr); !ok {
		return nil, false
	}
	if s.Having, ok = conv(sel.Having, sqlparser.HavingStr); !ok {
		return nil, false
	}
	for _, g := range sel.GroupBy {
		e, ok := fromAST(g)
		if !ok {
			return nil, false
		}
		s.GroupBy = append(s.GroupBy, e)
	}
	for _, o := range sel.OrderBy {
		e, ok := fromAST(o.Expr)
		if !ok || (o.Direction != sqlparser.AscScr && o.Direction != sqlparser.DescScr) {
			return nil, false
		}
		s.OrderBy = append(s.OrderBy, selOrd{E: e, Desc: o.Direction == sqlparser.DescScr})
	}
	if l := sel.Limit; l != nil {
		get := func(e sqlparser.Expr) (*ETree, bool) {
			if e == nil {
				return nil, false
			}
			return fromAST(e)
		}
		var ok1, ok2 bool
		switch l.Type {
		case sqlparser.LimitTypeLimitOnly:
			s.LimKind = 1
			s.LimA, ok1 = get(l.Rowcount)
			ok2 = l.Offset == nil
		case sqlparser.LimitTypeLimitAndOffset:
			s.LimKind = 2
			s.LimA, ok1 = get(l.Rowcount)
			s.LimB, ok2 = get(l.Offset)
		case sqlparser.LimitTypeCommaSeparated:
			s.LimKind = 3
			s.LimA, ok1 = get(l.Offset)
			s.LimB, ok2 = get(l.Rowcount)
		}
		if !ok1 || !ok2 {
			return nil, false
		}
	}
	return s, true
}

var selKwNames = map[int]string{
	sqlparser.SELECT: "select", sqlparser.DISTINCT: "distinct", sqlparser.FROM: "from", sqlparser.WHERE: "where", sqlparser.GROUP: "group",
	sqlparser.BY: "by", sqlparser.HAVING: "having", sqlparser.ORDER: "order", sqlparser.LIMIT: "limit", sqlparser.OFFSET: "offset",
	sqlparser.AS: "as", sqlparser.JOIN: "join", sqlparser.LEFT: "left", sqlparser.RIGHT: "right", sqlparser.NATURAL: "natural",
	sqlparser.STRAIGHT_JOIN: "straight_join", sqlparser.ON: "on", sqlparser.ASC: "asc", sqlparser.DESC: "desc",
}

// tokenizeSel: the real Tokenizer on a statement text, clause keywords as `k:<word>`, the rest as for expressions
func tokenizeSel(dialect, text string) []string {
	c16.SetDialect(dialect)
	tkn := sqlparser.NewStringTokenizer(text)
	var raw []int
	for i := 0; i < len(text)+2; i++ {
		typ, _ := tkn.Scan()
		if typ == 0 {
			break
		}
		if typ == sqlparser.COMMENT {
			continue
		}
		raw = append(raw, typ)
		if typ == sqlparser.LEX_ERROR {
			break
		}
	}
	toks := tokenize(dialect, text, true)
	if len(toks) != len(raw) {
		return toks
	}
	for i, typ := range raw {
		if n, ok := selKwNames[typ]; ok {
			toks[i] = "k:" + n
		}
	}
	return toks
}

func init() {
	core.Register("C13.sel.parse", func(a []string) string {
		c16.SetDialect(a[0])
		st, err := sqlparser.New(sqlparser.ModeStrict).Parse(string(core.UnHex(a[1])))
		if err != nil {
			return core.Err
		}
		s, ok := fromSelectAST(st)
		if !ok {
			return "outside"
		}
		return "ok " + s.String()
	})
	core.Register("C13.sel.tokens", func(a []string) string {
		c16.SetDialect(a[0])
		return "ok " + strings.Join(tokenizeSel(a[0], sqlparser.String(toSelectAST(mustSelTree(a[1:])))), " ")
	})
	core.Register("C13.sel.roundtrip", func(a []string) string {
		c16.SetDialect(a[0])
		ast := toSelectAST(mustSelTree(a[1:]))
		before := sqlast.FromNode(ast)
		st, err := sqlparser.New(sqlparser.ModeStrict).Parse(sqlparser.String(ast))
		if err != nil {
			return "err"
		}
		if sqlast.Equal(before, sqlast.FromNode(st)) {
			return "same"
		}
		got, ok := fromSelectAST(st)
		if !ok {
			return "diff outside"
		}
		return "diff " + got.String()
	})
}

// ---------- generator ----------

var selTables = []string{"t", "u", "v1", "orders", "tbl_2"}
var selAliases = []string{"x", "y", "z1", "al"}

func genSelExpr(rd *core.Rand, d string, ops opTable) *ETree {
	for {
		t := genTree(rd, d, ops, 1+rd.Intn(3), core.Pick(rd, []int{20, 50, 90}))
		if !minusMinus(t) {
			return t
		}
	}
}

func genSel(rd *core.Rand, d string, ops opTable, wellFormed bool) *SelTree {
	s := &SelTree{Distinct: rd.Chance(25)}
	tbl := func() selTbl {
		t := selTbl{Name: core.Pick(rd, selTables)}
		if rd.Chance(35) {
			t.As = core.Pick(rd, selAliases)
		}
		return t
	}
	for i, n := 0, 1+rd.Intn(3); i < n; i++ {
		if rd.Chance(15) {
			s.Items = append(s.Items, selItem{Star: true})
			continue
		}
		it := selItem{E: genSelExpr(rd, d, ops)}
		if rd.Chance(30) {
			it.As = core.Pick(rd, selAliases)
		}
		s.Items = append(s.Items, it)
	}
	for i, n := 0, 1+rd.Intn(2); i < n; i++ {
		tr := selTRef{Base: tbl()}
		for k, m := 0, rd.Intn(3); k < m; k++ {
			j := selJoin{Kind: core.Pick(rd, []string{"inner", "straight", "left", "right", "natural"}), R: tbl()}
			withOn := false
			switch j.Kind {
			case "inner", "straight":
				withOn = rd.Chance(60)
			case "left", "right":
				withOn = true
			}
			if !wellFormed && rd.Chance(30) {
				withOn = !withOn
			}
			if withOn {
				j.On = genSelExpr(rd, d, ops)
			}
			tr.Joins = append(tr.Joins, j)
		}
		s.From = append(s.From, tr)
	}
	if rd.Chance(60) {
		s.Where = genSelExpr(rd, d, ops)
	}
	for i, n := 0, rd.Intn(3); i < n && rd.Chance(60); i++ {
		s.GroupBy = append(s.GroupBy, genSelExpr(rd, d, ops))
	}
	if rd.Chance(30) {
		s.Having = genSelExpr(rd, d, ops)
	}
	for i, n := 0, rd.Intn(3); i < n && rd.Chance(60); i++ {
		e := genSelExpr(rd, d, ops)
		if !wellFormed && rd.Chance(30) {
			// ORDER BY NULL / rand(): Order.Format prints them without the direction
			e = core.Pick(rd, []*ETree{{Kind: "null"}, {Kind: "func", Val: []byte("rand")}, {Kind: "func", Val: []byte("RAND"), Kids: []*ETree{{Kind: "col", Val: []byte("a")}}}})
		}
		s.OrderBy = append(s.OrderBy, selOrd{E: e, Desc: rd.Bool()})
	}
	maxKind := 3
	if d == "pg" {
		maxKind = 2 // `limit m, n` is MySQL only (the grammar action rejects it in the PostgreSQL dialect)
	}
	s.LimKind = rd.Intn(maxKind + 1)
	lim := func() *ETree {
		return &ETree{Kind: "val", Ty: int(sqlparser.IntVal), Val: []byte(strconv.Itoa(rd.Intn(100)))}
	}
	if s.LimKind >= 1 {
		s.LimA = lim()
	}
	if s.LimKind >= 2 {
		s.LimB = lim()
	}
	return s
}

func checkSel(r *core.Run, d string, s *SelTree, tag string) {
	ts := s.String()
	ok := r.ModelOnly("C13.sel.ok " + ts)
	r.Tag("select-core:" + tag + ":ok=" + ok)
	// printing: the real printer + tokenizer against the model's token sequence
	r.Do("C13.sel.tokens " + d + " " + ts)
	rtLine := "C13.sel.roundtrip " + d + " " + ts
	rt := r.Impl(rtLine)
	if ok == "yes" || rt != "diff outside" {
		// an ill-formed tree (an outer join without ON, a natural join with one …) may be printed as a text that the real
		// grammar reads as a statement OUTSIDE the core (`a left join b natural join c on e` nests to the right); the
		// model's parser covers the core only – nothing to compare then
		r.Diff(rtLine, rt)
	} else {
		r.Tag("select-core-not-ok:reparsed-outside-the-core")
	}
	if ok != "yes" {
		r.Tag("select-core-not-ok:" + firstWordOf(rt))
		return
	}
	text := sqlparser.String(toSelectAST(s))
	r.Check(rt == "same", "select-roundtrip:"+tag, fmt.Sprintf("[%s] the well-formed statement %s is printed as %q and read back as: %s", d, trunc(ts), trunc(text), trunc(rt)))
	// parsing: the printed text through the real tokenizer + parser and the model's parser
	toks := tokenizeSel(d, text)
	line := fmt.Sprintf("C13.sel.parse %s %s %d %s", d, hexS(text), len(toks), strings.Join(toks, " "))
	impl := r.Do(line)
	r.Check(impl == "ok "+ts, "select-parse:"+tag, fmt.Sprintf("[%s] %q is parsed to %s, printed from %s", d, trunc(text), trunc(impl), trunc(ts)))
	// and the token conservation / structural oracles of the statement level
	checkRoundTrip(r, d, text, "select-core")
}

func runSelects(r *core.Run) {
	ops := loadOps(r)
	rd := r.Rand
	col := func(n string) *ETree { return &ETree{Kind: "col", Val: []byte(n)} }
	num := func(n string) *ETree { return &ETree{Kind: "val", Ty: int(sqlparser.IntVal), Val: []byte(n)} }
	eq := func(a, b *ETree) *ETree { return &ETree{Kind: "cmp", Op: "=", Kids: []*ETree{a, b}} }
	// every subset of the optional clauses × every join kind × the LIMIT spellings
	for _, d := range exprDialects {
		for mask := 0; mask < 32; mask++ {
			for ki, kind := range []string{"", "inner", "straight", "left", "right", "natural"} {
				for lim := 0; lim <= 3; lim++ {
					if (lim == 3 && d == "pg") || (!r.Thorough() && (mask+ki+lim)%3 != 0 && mask != 31) {
						continue
					}
					s := &SelTree{Distinct: mask&16 != 0, Items: []selItem{{E: col("a"), As: "x"}, {Star: true}, {E: &ETree{Kind: "func", Val: []byte("f"), Kids: []*ETree{col("b"), num("1")}}}}}
					tr := selTRef{Base: selTbl{Name: "t"}}
					if kind != "" {
						j := selJoin{Kind: kind, R: selTbl{Name: "u", As: "v"}}
						if kind == "left" || kind == "right" || (kind == "inner" && mask&1 != 0) {
							j.On = eq(col("a"), col("b"))
						}
						tr.Joins = append(tr.Joins, j, selJoin{Kind: "inner", R: selTbl{Name: "w"}})
					}
					s.From = []selTRef{tr, {Base: selTbl{Name: "z", As: "y"}}}
					if mask&1 != 0 {
						s.Where = &ETree{Kind: "and", Kids: []*ETree{eq(col("a"), num("1")), {Kind: "paren", Kids: []*ETree{{Kind: "or", Kids: []*ETree{col("b"), {Kind: "is", Op: "is null", Kids: []*ETree{col("c")}}}}}}}}
					}
					if mask&2 != 0 {
						s.GroupBy = []*ETree{col("a"), {Kind: "bin", Op: "+", Kids: []*ETree{col("b"), num("1")}}}
					}
					if mask&4 != 0 {
						s.Having = &ETree{Kind: "cmp", Op: ">", Kids: []*ETree{{Kind: "func", Val: []byte("c"), Kids: []*ETree{col("a")}}, num("2")}}
					}
					if mask&8 != 0 {
						s.OrderBy = []selOrd{{E: col("a"), Desc: true}, {E: col("b")}}
					}
					s.LimKind = lim
					if lim >= 1 {
						s.LimA = num("5")
					}
					if lim >= 2 {
						s.LimB = num("2")
					}
					r.Begin("select-core:"+d+":"+s.String(), true, "stream:structured", "dialect:"+d)
					checkSel(r, d, s, "clauses")
				}
			}
		}
	}
	// random statements; one in five with a join condition where the grammar has none (or the other way round)
	n := r.N(400, 20000)
	for i := 0; i < n; i++ {
		d := exprDialects[i%2]
		s := genSel(rd, d, ops, i%5 != 0)
		r.Begin("select-core:"+d+":"+s.String(), true, "stream:structured", "dialect:"+d)
		checkSel(r, d, s, "random")
	}
}
