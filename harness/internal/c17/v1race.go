package c17

import (
	"bytes"
	"context"
	"crypto/sha256"
	"fmt"
	"os"
	"os/exec"
	"path/filepath"
	"regexp"
	"runtime/debug"
	"strings"
	"syscall"
	"time"

	"verifharness/internal/c17/v1race"
	"verifharness/internal/core"
)

// The v1 shared-handle sub-run under the Go race detector.
//
// Data-race freedom of the v1 key store's LRU cache (in-place zeroize on eviction vs. readers of the
// cached slice) is a runtime fact that outcome comparison sees only by luck. `check` has no
// per-property build step, so the C17 run builds the race binary itself: `go build -race` of the small
// command harness/cmd/vhrace (the workload of the op `C17.v1race`, package c17/v1race) against the same
// Acra tree the running harness was linked with (the module replacement is read from the running
// binary's build info, so VERIF_REPO is honoured), then runs it as a child process:
// 8 goroutines, cache size 2, 8 clients, bounded rounds and time. "WARNING: DATA RACE" / exit code 66
// is the failure class `v1-shared-handle-data-race`.
//
// The Go build cache makes the build incremental (-trimpath: cache entries are shared between /repo and
// scratch copies). Measured on the 16-core sandbox under load: cold ≈ 3 min, after a change in
// keystore/lru ≈ 16 s, unchanged ≈ 2 s. The quick tier therefore gives the build 60 s and falls back to
// the probabilistic in-process check (and says so in the evidence) when that is not enough; the thorough
// tier waits up to 20 min. The build and the child run in the background while the other modes execute.

const (
	raceGoroutines = 8
	raceCacheSize  = 2
	raceClients    = 8
)

func init() {
	// the same workload in-process (no race detector): `C17.v1race <seed> <goroutines> <cache> <clients> <rounds> <ms>`
	core.Register("C17.v1race", func(a []string) string {
		if len(a) != 6 {
			return "bad-args"
		}
		return v1race.Run(v1race.Config{Seed: core.AtoU64(a[0]), Goroutines: core.Atoi(a[1]), CacheSize: core.Atoi(a[2]),
			Clients: core.Atoi(a[3]), Rounds: core.Atoi(a[4]), Budget: time.Duration(core.Atoi(a[5])) * time.Millisecond})
	})
}

type raceJob struct {
	done    chan struct{}
	line    string
	mode    string // "race-detector" | "fallback"
	reason  string // why the fallback
	buildS  float64
	runS    float64
	stdout  string
	stderr  string
	exit    int
	command string
}

// acraReplacement returns the directories the running binary's modules were replaced with.
func replacements() (acra, themis string) {
	bi, ok := debug.ReadBuildInfo()
	if !ok {
		return "", ""
	}
	for _, d := range bi.Deps {
		if d.Replace == nil {
			continue
		}
		switch d.Path {
		case "github.com/cossacklabs/acra":
			acra = d.Replace.Path
		case "github.com/cossacklabs/themis/gothemis":
			themis = d.Replace.Path
		}
	}
	return
}

func goEnv() []string {
	env := []string{}
	for _, e := range os.Environ() {
		k := strings.SplitN(e, "=", 2)[0]
		switch k {
		case "GOFLAGS", "GOPROXY", "GOSUMDB", "GOTOOLCHAIN", "CGO_ENABLED", "GOMEMLIMIT", "GORACE":
			continue
		}
		env = append(env, e)
	}
	return append(env, "GOFLAGS=-mod=mod", "GOPROXY=off", "GOSUMDB=off", "GOTOOLCHAIN=local", "CGO_ENABLED=1")
}

// runBounded runs cmd in its own process group and kills the whole group on timeout.
func runBounded(cmd *exec.Cmd, timeout time.Duration) (stdout, stderr string, exit int, timedOut bool, err error) {
	var so, se bytes.Buffer
	cmd.Stdout, cmd.Stderr = &so, &se
	cmd.SysProcAttr = &syscall.SysProcAttr{Setpgid: true}
	if err = cmd.Start(); err != nil {
		return "", "", -1, false, err
	}
	ch := make(chan error, 1)
	go func() { ch <- cmd.Wait() }()
	select {
	case <-time.After(timeout):
		syscall.Kill(-cmd.Process.Pid, syscall.SIGKILL)
		<-ch
		return so.String(), se.String(), -1, true, nil
	case werr := <-ch:
		exit = 0
		if werr != nil {
			if ee, ok := werr.(*exec.ExitError); ok {
				exit = ee.ExitCode()
			} else {
				return so.String(), se.String(), -1, false, werr
			}
		}
		return so.String(), se.String(), exit, false, nil
	}
}

var replaceLine = regexp.MustCompile(`(?m)^replace\s+(\S+)\s+=>\s+(\S+)\s*$`)

// startV1Race starts the race build + run in the background.
func startV1Race(r *core.Run) *raceJob {
	rounds, budget := 1000, 15*time.Second
	buildTimeout := 60 * time.Second
	if r.Thorough() {
		rounds, budget, buildTimeout = 6000, 60*time.Second, 20*time.Minute
	}
	j := &raceJob{done: make(chan struct{})}
	j.line = fmt.Sprintf("C17.v1race %d %d %d %d %d %d", r.Seed, raceGoroutines, raceCacheSize, raceClients, rounds, budget.Milliseconds())
	go func() {
		defer close(j.done)
		j.mode = "fallback"
		harness := filepath.Join(r.Dir, "harness")
		build := filepath.Join(r.Dir, ".build")
		gomod, err := os.ReadFile(filepath.Join(harness, "go.mod"))
		if err != nil {
			j.reason = "harness/go.mod not readable: " + err.Error()
			return
		}
		if _, err := exec.LookPath("go"); err != nil {
			j.reason = "no go toolchain in PATH"
			return
		}
		acra, themis := replacements()
		if acra == "" {
			j.reason = "the running harness binary carries no module replacement for github.com/cossacklabs/acra (build info unavailable)"
			return
		}
		if themis == "" {
			themis = "../gothemis"
		}
		if !filepath.IsAbs(themis) {
			themis = filepath.Join(harness, themis)
		}
		// the module file of the race build: harness/go.mod with the replacements of the running binary
		mod := replaceLine.ReplaceAllStringFunc(string(gomod), func(l string) string {
			m := replaceLine.FindStringSubmatch(l)
			switch m[1] {
			case "github.com/cossacklabs/acra":
				return "replace " + m[1] + " => " + acra
			case "github.com/cossacklabs/themis/gothemis":
				return "replace " + m[1] + " => " + themis
			}
			return l
		})
		tag := fmt.Sprintf("%x", sha256.Sum256([]byte(acra)))[:10]
		os.MkdirAll(build, 0o755)
		modfile := filepath.Join(build, "c17race-"+tag+".mod")
		if old, err := os.ReadFile(modfile); err != nil || string(old) != mod {
			if err := os.WriteFile(modfile, []byte(mod), 0o644); err != nil {
				j.reason = "cannot write " + modfile + ": " + err.Error()
				return
			}
		}
		if sum, err := os.ReadFile(filepath.Join(harness, "go.sum")); err == nil {
			sumfile := filepath.Join(build, "c17race-"+tag+".sum")
			if old, err := os.ReadFile(sumfile); err != nil || !bytes.Equal(old, sum) {
				os.WriteFile(sumfile, sum, 0o644)
			}
		}
		// leftovers of runs on scratch checkouts that were killed before they could clean up
		for _, pat := range []string{"vh-race-*-*", "c17race-*.mod", "c17race-*.sum"} {
			old, _ := filepath.Glob(filepath.Join(build, pat))
			for _, f := range old {
				if st, err := os.Stat(f); err == nil && time.Since(st.ModTime()) > 2*time.Hour && !strings.Contains(f, "c17race-"+tag+".") {
					os.Remove(f)
				}
			}
		}
		bin := filepath.Join(build, "vh-race")
		scratch := filepath.Clean(acra) != "/repo"
		if scratch {
			// a scratch checkout (VERIF_REPO): private binary, removed afterwards
			bin = filepath.Join(build, fmt.Sprintf("vh-race-%s-%d", tag, os.Getpid()))
			defer os.Remove(bin)
			defer os.Remove(modfile)
			defer os.Remove(filepath.Join(build, "c17race-"+tag+".sum"))
		}
		t0 := time.Now()
		cmd := exec.CommandContext(context.Background(), "go", "build", "-race", "-trimpath", "-modfile="+modfile, "-tags", "verif", "-o", bin, "./cmd/vhrace")
		cmd.Dir = harness
		cmd.Env = goEnv()
		so, se, exit, timedOut, err := runBounded(cmd, buildTimeout)
		j.buildS = time.Since(t0).Seconds()
		switch {
		case err != nil:
			j.reason = "go build -race could not be started: " + err.Error()
			return
		case timedOut:
			j.reason = fmt.Sprintf("go build -race did not finish within %.0f s (cold Go build cache; the thorough tier waits for it and warms the cache)", buildTimeout.Seconds())
			return
		case exit != 0:
			j.reason = "go build -race failed (no race-detector support in this toolchain/platform?): " + lastLines(so+se, 6)
			return
		}
		j.command = fmt.Sprintf("cd harness && go build -race -trimpath -tags verif -o ../.build/vh-race ./cmd/vhrace && GORACE=halt_on_error=1 ../.build/vh-race %s", j.line)
		t1 := time.Now()
		run := exec.Command(bin, strings.Fields(j.line)...)
		run.Env = append(goEnv(), "GORACE=halt_on_error=1 exitcode=66")
		so, se, exit, timedOut, err = runBounded(run, budget+90*time.Second)
		j.runS = time.Since(t1).Seconds()
		if err != nil {
			j.reason = "race binary could not be started: " + err.Error()
			return
		}
		j.mode = "race-detector"
		j.stdout, j.stderr, j.exit = strings.TrimSpace(so), se, exit
		if timedOut {
			j.exit = -2
		}
	}()
	return j
}

func lastLines(s string, n int) string {
	ls := strings.Split(strings.TrimSpace(s), "\n")
	if len(ls) > n {
		ls = ls[len(ls)-n:]
	}
	return strings.Join(ls, " | ")
}

// raceReport extracts the first race report (accesses and their top frames) from the child's stderr.
func raceReport(stderr string) string {
	i := strings.Index(stderr, "WARNING: DATA RACE")
	if i < 0 {
		return lastLines(stderr, 8)
	}
	var keep []string
	for _, l := range strings.Split(stderr[i:], "\n") {
		t := strings.TrimSpace(l)
		if t == "" || strings.HasPrefix(t, "====") {
			if len(keep) > 30 {
				break
			}
			continue
		}
		// drop file:line+offset lines of frames, keep the function names and the access headers
		if strings.HasPrefix(t, "/") || strings.Contains(t, ".go:") && !strings.Contains(t, "()") {
			continue
		}
		keep = append(keep, t)
		if len(keep) >= 40 {
			break
		}
	}
	return strings.Join(keep, " | ")
}

// finish waits for the background job, runs the in-process (probabilistic) variant of the same
// workload and judges both.
func (j *raceJob) finish(r *core.Run) {
	<-j.done
	r.Begin("v1race:"+j.line, true, "mode:v1-race")
	// in-process, without the race detector: every key returned must still be complete and correct
	raced := j.mode == "race-detector" && (j.exit == 66 || strings.Contains(j.stderr, "WARNING: DATA RACE"))
	out := "(not run: the race-detector child returned " + j.stdout + ")"
	if j.mode != "race-detector" || j.exit != 0 || !strings.HasPrefix(j.stdout, "ok ") {
		// the same workload in a plain child process: the probabilistic check when there is no race binary, and
		// the replayable op line of a failure otherwise
		out = r.ImplIsolated(j.line, 120*time.Second)
		judgeV1(r, out, raceCacheSize)
	}
	info := map[string]any{"mode": j.mode, "op": j.line, "build_s": round1(j.buildS), "run_s": round1(j.runS)}
	if j.mode != "race-detector" {
		r.Tag("v1race:fallback-probabilistic")
		info["fallback_reason"] = j.reason
		r.Note("v1 shared-handle sub-run: NO race-detector run this time (%s); only the probabilistic in-process check ran (%s)", j.reason, out)
		r.Extra["v1race"] = info
		return
	}
	r.Tag("v1race:race-detector")
	info["child_exit"] = j.exit
	info["child_out"] = j.stdout
	info["reproduce"] = j.command
	r.Extra["v1race"] = info
	switch {
	case raced:
		r.Fail("v1-shared-handle-data-race", fmt.Sprintf("data race in the shared v1 key store (cache size %d, %d goroutines, %d clients; race-detector build, exit %d): %s   [reproduce: %s]",
			raceCacheSize, raceGoroutines, raceClients, j.exit, raceReport(j.stderr), j.command))
	case j.exit == -2:
		r.Fail("v1-shared-handle-hang", "the race-detector run of the shared v1 key store did not terminate within its time bound: "+lastLines(j.stderr, 6))
	case j.exit != 0:
		// the Go runtime aborts on some races by itself (concurrent map access, …)
		r.Fail("v1-shared-handle-crash", fmt.Sprintf("the race-detector run of the shared v1 key store crashed (exit %d): %s", j.exit, lastLines(j.stderr, 10)))
	default:
		r.Check(strings.HasPrefix(j.stdout, "ok "), "v1-concurrent-read",
			fmt.Sprintf("shared v1 key store under the race detector returned a wrong or incomplete key: %s", j.stdout))
		r.Note("v1 shared-handle sub-run under the Go race detector: no data race, %s (build %.1f s, run %.1f s)", j.stdout, j.buildS, j.runS)
	}
}

func round1(f float64) float64 { return float64(int(f*10+0.5)) / 10 }
