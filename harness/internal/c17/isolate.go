package c17

import (
	"encoding/hex"
	"encoding/json"
	"fmt"
	"strings"
	"time"

	"verifharness/internal/core"
)

// Free-running goroutines on a key store whose locking is broken can bring the Go runtime down
// ("fatal error: concurrent map writes" cannot be recovered). Such a crash must be an oracle failure,
// not an aborted harness run: the free-running mode therefore executes in child processes
// (`vh exec-op`, op `C17.freeBatch`), a batch of scenarios per child; when a batch dies its
// scenarios are re-run one per child to name the one that crashes.

type checker interface {
	Check(ok bool, class, desc string) bool
	Fail(class, desc string)
}

type collector struct{ fails [][2]string }

func (c *collector) Fail(class, desc string) { c.fails = append(c.fails, [2]string{class, desc}) }
func (c *collector) Check(ok bool, class, desc string) bool {
	if !ok {
		c.Fail(class, desc)
	}
	return ok
}

type scenWire struct {
	Rings   [][][2]int `json:"r"`
	Missing []bool     `json:"m"`
	Dir     bool       `json:"d"`
	Paths   []int      `json:"p"`
	Ops     []string   `json:"o"`
}

func (sc scenario) wire() scenWire {
	w := scenWire{Missing: sc.missing, Dir: sc.dir}
	for _, r := range sc.rings {
		ks := [][2]int{}
		for _, k := range r {
			c := 0
			if k.current {
				c = 1
			}
			ks = append(ks, [2]int{k.state, c})
		}
		w.Rings = append(w.Rings, ks)
	}
	for _, t := range sc.threads {
		var ops []string
		for _, o := range t.ops {
			ops = append(ops, o.String())
		}
		s := "-"
		if len(ops) > 0 {
			s = strings.Join(ops, "+")
		}
		w.Paths = append(w.Paths, t.path)
		w.Ops = append(w.Ops, s)
	}
	return w
}

func (w scenWire) scenario() scenario {
	sc := scenario{missing: w.Missing, dir: w.Dir}
	for _, r := range w.Rings {
		ks := []initKey{}
		for _, k := range r {
			ks = append(ks, initKey{state: k[0], current: k[1] == 1})
		}
		sc.rings = append(sc.rings, ks)
	}
	for i, p := range w.Paths {
		sc.threads = append(sc.threads, threadSpec{path: p, ops: parseOps(w.Ops[i])})
	}
	return sc
}

type freeResult struct {
	Line  string      `json:"l"`
	Impl  string      `json:"i"`
	Calls int         `json:"c"`
	Fails [][2]string `json:"f"`
}

func init() {
	// C17.freeBatch <hex(json [scenario…])>  →  hex(json [result…])
	core.Register("C17.freeBatch", func(a []string) string {
		if len(a) != 1 {
			return "bad-args"
		}
		raw, err := hex.DecodeString(a[0])
		if err != nil {
			return "bad-args"
		}
		var ws []scenWire
		if err := json.Unmarshal(raw, &ws); err != nil {
			return "bad-args"
		}
		var out []freeResult
		for _, w := range ws {
			o := runScenario(w.scenario(), nil, false)
			c := &collector{}
			judge(c, o)
			out = append(out, freeResult{Line: o.line, Impl: o.impl, Calls: len(o.trace), Fails: c.fails})
		}
		b, _ := json.Marshal(out)
		return "ok " + hex.EncodeToString(b)
	})
}

func freeLine(scs []scenario) string {
	var ws []scenWire
	for _, sc := range scs {
		ws = append(ws, sc.wire())
	}
	b, _ := json.Marshal(ws)
	return "C17.freeBatch " + hex.EncodeToString(b)
}

func decodeFree(res string, n int) ([]freeResult, bool) {
	if !strings.HasPrefix(res, "ok ") {
		return nil, false
	}
	raw, err := hex.DecodeString(strings.TrimPrefix(res, "ok "))
	if err != nil {
		return nil, false
	}
	var out []freeResult
	if json.Unmarshal(raw, &out) != nil || len(out) != n {
		return nil, false
	}
	return out, true
}

// runFreeIsolated runs the scenarios with free-running goroutines in child processes and feeds the
// outcomes to the model comparison and the oracles of the parent run.
func runFreeIsolated(r *core.Run, scs []scenario, keys []string) {
	const batch = 150 // one child per 150 scenarios (quick tier: a single child)
	report := func(sc scenario, key string, fr freeResult) {
		r.Begin(key, fr.Calls > 0, "mode:free")
		tagCreation(r, sc)
		r.Diff(fr.Line, fr.Impl)
		for _, f := range fr.Fails {
			r.Fail(f[0], f[1])
		}
	}
	for lo := 0; lo < len(scs); lo += batch {
		hi := lo + batch
		if hi > len(scs) {
			hi = len(scs)
		}
		res := core.ExecIsolated(freeLine(scs[lo:hi]), 120*time.Second)
		if frs, ok := decodeFree(res, hi-lo); ok {
			for i, fr := range frs {
				report(scs[lo+i], keys[lo+i], fr)
			}
			continue
		}
		// the child died (or hung): one child per scenario to find the culprit
		for i := lo; i < hi; i++ {
			line := freeLine(scs[i : i+1])
			one := ""
			for attempt := 0; attempt < 3; attempt++ { // a race does not strike every time
				one = core.ExecIsolated(line, 60*time.Second)
				if _, ok := decodeFree(one, 1); !ok {
					break
				}
			}
			if frs, ok := decodeFree(one, 1); ok {
				report(scs[i], keys[i], frs[0])
				continue
			}
			r.Begin(keys[i], true, "mode:free")
			r.ImplIsolated(line, 60*time.Second) // recorded for the replay file
			r.Fail("free-run-crash", fmt.Sprintf("free-running handles on one back end crashed or hung the process (outcome %q) in scenario %s", trunc(one, 80), scs[i].key()))
		}
	}
}

func trunc(s string, n int) string {
	if len(s) > n {
		return s[:n] + "…"
	}
	return s
}
