package c17

import (
	"fmt"
	"os"
	"runtime"
	"strings"
	"sync"

	"github.com/cossacklabs/acra/keystore/v2/keystore/api"
	"github.com/cossacklabs/acra/keystore/v2/keystore/filesystem/backend"
	backendAPI "github.com/cossacklabs/acra/keystore/v2/keystore/filesystem/backend/api"

)

type opSpec struct {
	kind byte // A C S D R O (O = OpenKeyRingRW: a fresh handle object on the thread's ring path, creating the ring when missing)
	seq  int
	st   int
	data int
}

func (o opSpec) String() string {
	switch o.kind {
	case 'A':
		return fmt.Sprintf("A%d", o.data)
	case 'C':
		return fmt.Sprintf("C%d", o.seq)
	case 'S':
		return fmt.Sprintf("S%d.%d", o.seq, o.st)
	case 'D':
		return fmt.Sprintf("D%d", o.seq)
	case 'O':
		return "O"
	}
	return "R"
}

type threadSpec struct {
	path int
	ops  []opSpec
}

type initKey struct {
	state   int // final state to drive the key into (1 = leave pre-active)
	current bool
}

type scenario struct {
	rings   [][]initKey // initial keys per ring
	threads []threadSpec
	dir     bool // directory back end (one DirectoryBackend per handle on a shared directory) instead of in-memory
	missing []bool // per ring: the ring file does not exist at the start (its threads begin with 'O' or only read)
}

func (sc scenario) isMissing(p int) bool { return p < len(sc.missing) && sc.missing[p] }

// preopened says whether the harness opens the thread's ring handle before the traced run starts:
// writers whose program does not itself begin with OpenKeyRingRW.
func (t threadSpec) preopened() bool {
	for _, o := range t.ops {
		if o.kind != 'R' {
			return t.ops[0].kind != 'O'
		}
	}
	return false
}

func (sc scenario) key() string {
	var sb strings.Builder
	for p, r := range sc.rings {
		if sc.isMissing(p) {
			sb.WriteString("[MISSING]")
			continue
		}
		sb.WriteString("[")
		for _, k := range r {
			fmt.Fprintf(&sb, "%d%v ", k.state, k.current)
		}
		sb.WriteString("]")
	}
	for _, t := range sc.threads {
		fmt.Fprintf(&sb, "|%d:", t.path)
		for _, o := range t.ops {
			sb.WriteString(o.String() + "+")
		}
	}
	if sc.dir {
		sb.WriteString(" dir")
	}
	return sb.String()
}

type outcome struct {
	line     string // op line for the model (C17.replay …)
	impl     string // rendering of what the implementation did
	trace    []rec
	results  [][]bool
	finals   []absRing
	initial  []absRing
	factors  []int
	deadlock bool
	skipped  bool // procs mode: the children could not all be started in time (machine overloaded): no verdict
	panics   []string
	w        *world
	sc       scenario
}

// path to seed mapping: fixed keys (the model never sees them)
var (
	encKey = []byte("verif-c17-master-encryption-key!")
	sigKey = []byte("verif-c17-master-signature--key!")
)

func ringPath(i int) string { return fmt.Sprintf("client/c%d/storage-sym", i) }

// statePath gives the SetState steps from pre-active to the wanted state
func statePath(st int) []int {
	switch st {
	case 2:
		return []int{2}
	case 3:
		return []int{2, 3}
	case 4:
		return []int{4}
	case 5:
		return []int{5}
	}
	return nil
}

func material(id int) []byte {
	b := make([]byte, 32)
	copy(b, fmt.Sprintf("C17-key-material-%08d-abcdefghij", id))
	return b
}

var errNotOpen = fmt.Errorf("ring handle not open")

// runScenario executes the scenario on the real key store. script != nil selects the deterministic
// scheduler (choices at decision points), script == nil lets the goroutines run freely.
func runScenario(sc scenario, script []int, deterministic bool) *outcome {
	paths := make([]string, len(sc.rings))
	for i := range paths {
		paths[i] = ringPath(i)
	}
	w := newWorld(encKey, sigKey, paths)
	out := &outcome{w: w, sc: sc}

	var dirRoot string
	var shared backendAPI.Backend
	newInner := func() backendAPI.Backend {
		if !sc.dir {
			return shared
		}
		b, err := backend.CreateDirectoryBackend(dirRoot)
		if err != nil {
			panic("harness: " + err.Error())
		}
		return b
	}
	if sc.dir {
		tmp, err := os.MkdirTemp("", "verif-c17-")
		if err != nil {
			panic("harness: " + err.Error())
		}
		defer os.RemoveAll(tmp)
		dirRoot = tmp + "/ks"
	} else {
		shared = backend.NewInMemory()
	}

	// --- setup (not traced): create the rings with their initial keys
	setupInner := newInner()
	setup := w.open(setupInner)
	nextID := 1
	for p, keys := range sc.rings {
		if sc.isMissing(p) {
			continue
		}
		ring, err := setup.OpenKeyRingRW(paths[p])
		if err != nil {
			panic("harness: setup open: " + err.Error())
		}
		for _, k := range keys {
			mat := material(nextID)
			w.register(nextID, mat)
			nextID++
			seq, err := ring.AddKey(symDescription(mat))
			if err != nil {
				panic("harness: setup add: " + err.Error())
			}
			for _, st := range statePath(k.state) {
				if err := ring.SetState(seq, api.KeyState(st)); err != nil {
					panic("harness: setup state: " + err.Error())
				}
			}
			if k.current {
				if err := ring.SetCurrent(seq); err != nil {
					panic("harness: setup current: " + err.Error())
				}
			}
		}
	}
	readRing := func(p int) absRing {
		data, err := setupInner.Get(paths[p] + ".keyring")
		if err == backendAPI.ErrNotExist {
			return absRing{missing: true, current: -1}
		}
		if err != nil {
			panic("harness: read ring: " + err.Error())
		}
		r, ok := w.decode(paths[p], data)
		if !ok {
			panic("harness: stored ring does not verify")
		}
		return r
	}
	for p := range sc.rings {
		out.initial = append(out.initial, readRing(p))
	}
	for _, t := range sc.threads {
		for _, o := range t.ops {
			if o.kind == 'A' {
				w.register(o.data, material(o.data))
			}
		}
	}

	// --- handles
	tr := &tracer{}
	var ctl *controller
	if deterministic {
		ctl = newController(script)
	}
	type handle struct {
		tb   *tracedBackend
		ks   api.MutableKeyStore
		ring api.MutableKeyRing
	}
	hs := make([]*handle, len(sc.threads))
	for i, t := range sc.threads {
		tb := &tracedBackend{tid: i, inner: newInner(), tr: tr}
		h := &handle{tb: tb, ks: w.open(tb)}
		if t.preopened() {
			ring, err := h.ks.OpenKeyRingRW(paths[t.path])
			if err != nil {
				panic("harness: open: " + err.Error())
			}
			h.ring = ring
		}
		hs[i] = h
	}
	tr.on = true
	for _, h := range hs {
		h.tb.ctl = ctl
	}

	// --- run
	out.results = make([][]bool, len(sc.threads))
	var wg sync.WaitGroup
	var pmu sync.Mutex
	for i := range sc.threads {
		wg.Add(1)
		go func(i int) {
			defer wg.Done()
			defer func() {
				// a Go panic inside the key store must not take the harness down: it is an outcome
				if p := recover(); p != nil {
					pmu.Lock()
					out.panics = append(out.panics, fmt.Sprintf("thread %d: %v", i, p))
					pmu.Unlock()
					if ctl != nil {
						ctl.finished(i)
					}
				}
			}()
			t := sc.threads[i]
			h := hs[i]
			for k, o := range t.ops {
				var err error
				h.tb.op = k
				switch {
				case o.kind == 'O':
					var ring api.MutableKeyRing
					ring, err = h.ks.OpenKeyRingRW(paths[t.path])
					if err == nil {
						h.ring = ring
					}
				case o.kind == 'R':
					_, err = h.ks.OpenKeyRing(paths[t.path])
				case h.ring == nil:
					err = errNotOpen
				case o.kind == 'A':
					_, err = h.ring.AddKey(symDescription(material(o.data)))
				case o.kind == 'C':
					err = h.ring.SetCurrent(o.seq)
				case o.kind == 'S':
					err = h.ring.SetState(o.seq, api.KeyState(o.st))
				case o.kind == 'D':
					err = h.ring.DestroyKey(o.seq)
				}
				out.results[i] = append(out.results[i], err == nil)
				if ctl == nil {
					runtime.Gosched()
				}
			}
			if ctl != nil {
				ctl.finished(i)
			}
		}(i)
	}
	if ctl != nil {
		if !ctl.loop(len(sc.threads)) {
			out.deadlock = true
			return out // goroutines leak; the run is reported as a failure
		}
		out.factors = ctl.factors
	}
	wg.Wait()
	tr.on = false
	out.trace = tr.recs
	for p := range sc.rings {
		out.finals = append(out.finals, readRing(p))
	}

	out.render()
	return out
}

// render builds the model op line (from the recorded schedule) and the implementation's rendering.
func (out *outcome) render() {
	sc, w := out.sc, out.w
	var line strings.Builder
	fmt.Fprintf(&line, "C17.replay %d", len(sc.rings))
	for _, r := range out.initial {
		line.WriteString(" " + r.String())
	}
	fmt.Fprintf(&line, " %d", len(sc.threads))
	for _, t := range sc.threads {
		var ops []string
		for _, o := range t.ops {
			ops = append(ops, o.String())
		}
		os := "-"
		if len(ops) > 0 {
			os = strings.Join(ops, "+")
		}
		fmt.Fprintf(&line, " %d|%s|%s", t.path, out.initial[t.path].String(), os)
	}
	var sched, calls []string
	for _, rc := range out.trace {
		sched = append(sched, fmt.Sprint(rc.tid))
		calls = append(calls, w.renderCall(rc))
	}
	if len(sched) == 0 {
		line.WriteString(" -")
	} else {
		line.WriteString(" " + strings.Join(sched, ","))
	}
	out.line = line.String()
	var impl strings.Builder
	impl.WriteString("T ")
	if len(calls) == 0 {
		impl.WriteString("-")
	} else {
		impl.WriteString(strings.Join(calls, "/"))
	}
	impl.WriteString(" final")
	for _, r := range out.finals {
		impl.WriteString(" " + r.String())
	}
	impl.WriteString(" res")
	for _, rs := range out.results {
		s := ""
		for _, ok := range rs {
			if ok {
				s += "1"
			} else {
				s += "0"
			}
		}
		if s == "" {
			s = "-"
		}
		impl.WriteString(" " + s)
	}
	out.impl = impl.String()
}

func (w *world) renderCall(rc rec) string {
	switch rc.kind {
	case "L", "U", "RL", "RU":
		return fmt.Sprintf("%d%s", rc.tid, rc.kind)
	case "G":
		p := w.pathID(rc.path)
		if !rc.ok {
			return fmt.Sprintf("%dG%d=MISSING", rc.tid, p)
		}
		r, ok := w.decode(w.paths[p], rc.data)
		if !ok {
			return fmt.Sprintf("%dG%d=UNVERIFIED", rc.tid, p)
		}
		return fmt.Sprintf("%dG%d=%s", rc.tid, p, r.String())
	case "P":
		p := w.pathID(rc.path)
		r, ok := w.decode(w.paths[p], rc.data)
		res := "ok"
		if !rc.ok {
			res = "fail"
		}
		if !ok {
			return fmt.Sprintf("%dP%d=UNVERIFIED=%s", rc.tid, p, res)
		}
		return fmt.Sprintf("%dP%d=%s=%s", rc.tid, p, r.String(), res)
	case "N":
		return fmt.Sprintf("%dN%d", rc.tid, w.pathID(rc.path))
	}
	return fmt.Sprintf("%d?%s", rc.tid, rc.kind)
}

// judge is the direct oracle on the implementation's observations (independent of the model).
func judge(r checker, o *outcome) {
	desc := func(what string) string { return what + " in scenario " + o.sc.key() }
	if o.deadlock {
		r.Fail("deadlock", desc("no thread could proceed"))
		return
	}
	if len(o.panics) > 0 {
		r.Fail("thread-panic", desc("the key store panicked: "+strings.Join(o.panics, "; ")))
		return
	}
	// 1. lock discipline and completeness of everything read
	writer, readers := -1, map[int]bool{}
	renames := map[int]int{}
	creations := map[int]int{} // the thread's last Get said ErrNotExist and it renames: openKeyRing creates the ring
	sawMissing := map[int]bool{}
	lastPut := map[int]absRing{}
	stored := map[int]int{} // keys in the stored ring, per path
	for p, r := range o.initial {
		stored[p] = len(r.keys)
	}
	for _, rc := range o.trace {
		switch rc.kind {
		case "L":
			r.Check(writer < 0 && len(readers) == 0, "lock-not-exclusive", desc(fmt.Sprintf("thread %d got the exclusive lock while it was held", rc.tid)))
			writer = rc.tid
		case "U":
			writer = -1
			sawMissing[rc.tid] = false
		case "RL":
			r.Check(writer < 0, "rlock-during-write", desc(fmt.Sprintf("thread %d got the shared lock during a write", rc.tid)))
			readers[rc.tid] = true
		case "RU":
			delete(readers, rc.tid)
		case "G":
			r.Check(writer == rc.tid || readers[rc.tid], "get-unlocked", desc("Get outside a lock"))
			if rc.ok {
				_, ok := o.w.decode(o.w.paths[o.w.pathID(rc.path)], rc.data)
				r.Check(ok, "partial-read", desc(fmt.Sprintf("thread %d read a key ring that does not verify (partial or foreign write)", rc.tid)))
			}
			sawMissing[rc.tid] = !rc.ok
		case "P", "N":
			r.Check(writer == rc.tid, "write-unlocked", desc("Put/Rename without the exclusive lock"))
			p := o.w.pathID(rc.path)
			if rc.kind == "P" && p >= 0 {
				if ring, ok := o.w.decode(o.w.paths[p], rc.data); ok {
					lastPut[rc.tid] = ring
				}
			}
			if rc.kind == "N" && rc.ok {
				renames[rc.tid]++
				if sawMissing[rc.tid] {
					creations[rc.tid]++
					sawMissing[rc.tid] = false
				}
				// no operation of these scenarios removes keys: a rename never replaces the stored ring by a shorter one
				// (a create that overwrites a ring another handle has created and filled in the meantime does)
				if p >= 0 {
					n := len(lastPut[rc.tid].keys)
					r.Check(n >= stored[p], "stored-ring-shrunk", desc(fmt.Sprintf("thread %d renamed a ring with %d keys (%s) over the stored ring %d, which had %d keys", rc.tid, n, lastPut[rc.tid], p, stored[p])))
					stored[p] = n
				}
			}
		}
	}
	// 2. exactly once: one rename per successful writing operation, none for failed ones
	for i, t := range o.sc.threads {
		okWrites := 0
		for k, op := range t.ops {
			if op.kind != 'R' && op.kind != 'O' && k < len(o.results[i]) && o.results[i][k] {
				okWrites++
			}
		}
		// OpenKeyRingRW renames only when it creates the ring (its Get under the exclusive lock said ErrNotExist)
		r.Check(renames[i] == okWrites+creations[i], "commit-count", desc(fmt.Sprintf("thread %d: %d successful writes and %d ring creations but %d renames", i, okWrites, creations[i], renames[i])))
	}
	// 3. final state vs the successful operations
	for p, fin := range o.finals {
		opened := false
		for i, t := range o.sc.threads {
			for k, op := range t.ops {
				if t.path == p && op.kind == 'O' && k < len(o.results[i]) && o.results[i][k] {
					opened = true
				}
			}
		}
		r.Check(!fin.missing || (o.initial[p].missing && !opened), "ring-missing", desc(fmt.Sprintf("ring %d does not exist at the end although it existed or a successful OpenKeyRingRW created it", p)))
		count := map[int]int{}
		last := 0
		for idx, k := range fin.keys {
			count[k.data]++
			r.Check(k.data != 0 || k.state == 6, "data-wiped-without-destroy", desc(fmt.Sprintf("ring %d key %d has lost its key material but is not in state destroyed: %s (effect of a failed or half-applied operation)", p, k.seq, fin)))
			r.Check(k.data >= 0, "undecryptable-key", desc(fmt.Sprintf("ring %d key %d does not decrypt under its own context", p, k.seq)))
			if idx > 0 {
				r.Check(k.seq > last, "seqnum-order", desc(fmt.Sprintf("ring %d: sequence numbers not strictly increasing: %s", p, fin)))
			}
			last = k.seq
		}
		destroyed := map[int]bool{}
		for i, t := range o.sc.threads {
			if t.path != p {
				continue
			}
			for k, op := range t.ops {
				if op.kind == 'D' && k < len(o.results[i]) && o.results[i][k] {
					destroyed[op.seq] = true
				}
			}
		}
		for i, t := range o.sc.threads {
			if t.path != p {
				continue
			}
			for k, op := range t.ops {
				ok := k < len(o.results[i]) && o.results[i][k]
				switch op.kind {
				case 'A':
					if ok {
						// the key must be there exactly once, unless a successful DestroyKey erased its material afterwards
						r.Check(count[op.data] == 1 || (count[op.data] == 0 && len(destroyed) > 0), "lost-update", desc(fmt.Sprintf("successful AddKey(%d) appears %d times in the final ring %s", op.data, count[op.data], fin)))
					} else {
						r.Check(count[op.data] == 0, "failed-op-effect", desc(fmt.Sprintf("failed AddKey(%d) left a key in the final ring %s", op.data, fin)))
					}
				}
			}
		}
		for _, k := range fin.keys {
			if destroyed[k.seq] {
				r.Check(k.state == 6 && k.data == 0, "destroy-lost", desc(fmt.Sprintf("successful DestroyKey(%d) not reflected in the final ring %s", k.seq, fin)))
			}
		}
		// initial keys never vanish (no operation removes keys)
		r.Check(len(fin.keys) >= len(o.initial[p].keys), "keys-vanished", desc("final ring has fewer keys than the initial one"))
		if fin.current != -1 {
			found := false
			for _, k := range fin.keys {
				found = found || k.seq == fin.current
			}
			r.Check(found, "dangling-current", desc(fmt.Sprintf("current marker %d names no key in %s", fin.current, fin)))
		}
	}
	// 4. the history as a whole: some sequential order of the operations explains results and final rings
	judgeLinearizable(r, o)
}
