package c17

import (
	"context"
	"fmt"
	"sort"
	"strings"
	"sync"
	"time"

	keystoreV1 "github.com/cossacklabs/acra/keystore"
	"github.com/cossacklabs/acra/keystore/v2/keystore/api"
	"github.com/cossacklabs/acra/keystore/v2/keystore/asn1"
	"github.com/cossacklabs/acra/keystore/v2/keystore/crypto"
	"github.com/cossacklabs/acra/keystore/v2/keystore/filesystem"
	backendAPI "github.com/cossacklabs/acra/keystore/v2/keystore/filesystem/backend/api"
	"github.com/cossacklabs/acra/keystore/v2/keystore/signature"
)

// ---------- trace of back-end calls in their global order ----------

type rec struct {
	tid  int
	op   int // index of the operation (in the handle's program) that made the call
	kind string // L U RL RU G P N
	path string
	data []byte
	ok   bool
}

type tracer struct {
	mu   sync.Mutex
	recs []rec
	on   bool
}

func (t *tracer) add(r rec) {
	t.mu.Lock()
	if t.on {
		t.recs = append(t.recs, r)
	}
	t.mu.Unlock()
}

// ---------- deterministic scheduler: every back-end call waits for a grant ----------

type event struct {
	tid      int
	kind     string
	finished bool
	grant    chan struct{}
}

type controller struct {
	events  chan event
	script  []int // choice at the k-th decision point with more than one enabled thread
	factors []int // observed branching factor at each decision point
	writer  int
	readers int
}

func newController(script []int) *controller {
	return &controller{events: make(chan event, 64), script: script, writer: -1}
}

func (c *controller) arrive(tid int, kind string) {
	g := make(chan struct{})
	c.events <- event{tid: tid, kind: kind, grant: g}
	<-g
}

func (c *controller) finished(tid int) { c.events <- event{tid: tid, finished: true} }

func (c *controller) enabled(kind string) bool {
	switch kind {
	case "L":
		return c.writer < 0 && c.readers == 0
	case "RL":
		return c.writer < 0
	}
	return true
}

// loop runs until all `live` threads have finished; returns false on deadlock.
func (c *controller) loop(live int) bool {
	pending := map[int]event{}
	for live > 0 {
		for len(pending) < live {
			ev := <-c.events
			if ev.finished {
				live--
			} else {
				pending[ev.tid] = ev
			}
		}
		if live == 0 {
			break
		}
		var en []int
		for tid, ev := range pending {
			if c.enabled(ev.kind) {
				en = append(en, tid)
			}
		}
		sort.Ints(en)
		if len(en) == 0 {
			return false
		}
		pick := en[0]
		if len(en) > 1 {
			k := len(c.factors)
			ch := 0
			if k < len(c.script) {
				ch = c.script[k] % len(en)
			}
			c.factors = append(c.factors, len(en))
			pick = en[ch]
		}
		ev := pending[pick]
		switch ev.kind {
		case "L":
			c.writer = pick
		case "U":
			c.writer = -1
		case "RL":
			c.readers++
		case "RU":
			c.readers--
		}
		delete(pending, pick)
		close(ev.grant)
	}
	return true
}

// ---------- instrumented back end ----------

type tracedBackend struct {
	tid   int
	op    int // set by the handle's goroutine before each operation
	inner backendAPI.Backend
	tr    *tracer
	ctl   *controller
}

func (b *tracedBackend) gate(kind string) {
	if b.ctl != nil {
		b.ctl.arrive(b.tid, kind)
	}
}

func (b *tracedBackend) Lock() error {
	b.gate("L")
	err := b.inner.Lock()
	if err == nil {
		b.tr.add(rec{tid: b.tid, op: b.op, kind: "L"})
	}
	return err
}
func (b *tracedBackend) Unlock() error {
	b.gate("U")
	b.tr.add(rec{tid: b.tid, op: b.op, kind: "U"})
	return b.inner.Unlock()
}
func (b *tracedBackend) RLock() error {
	b.gate("RL")
	err := b.inner.RLock()
	if err == nil {
		b.tr.add(rec{tid: b.tid, op: b.op, kind: "RL"})
	}
	return err
}
func (b *tracedBackend) RUnlock() error {
	b.gate("RU")
	b.tr.add(rec{tid: b.tid, op: b.op, kind: "RU"})
	return b.inner.RUnlock()
}
func (b *tracedBackend) Get(path string) ([]byte, error) {
	b.gate("G")
	d, err := b.inner.Get(path)
	cp := append([]byte{}, d...)
	b.tr.add(rec{tid: b.tid, op: b.op, kind: "G", path: path, data: cp, ok: err == nil})
	return d, err
}
func (b *tracedBackend) Put(path string, data []byte) error {
	b.gate("P")
	cp := append([]byte{}, data...)
	err := b.inner.Put(path, data)
	b.tr.add(rec{tid: b.tid, op: b.op, kind: "P", path: path, data: cp, ok: err == nil})
	return err
}
func (b *tracedBackend) Rename(oldpath, newpath string) error {
	b.gate("N")
	err := b.inner.Rename(oldpath, newpath)
	b.tr.add(rec{tid: b.tid, op: b.op, kind: "N", path: newpath, ok: err == nil})
	return err
}
func (b *tracedBackend) RenameNX(oldpath, newpath string) error {
	b.gate("N")
	err := b.inner.RenameNX(oldpath, newpath)
	b.tr.add(rec{tid: b.tid, op: b.op, kind: "NX", path: newpath, ok: err == nil})
	return err
}
func (b *tracedBackend) ListAll() ([]string, error) { return b.inner.ListAll() }
func (b *tracedBackend) Close() error               { return nil }

// ---------- the world: keys, rings, abstract view ----------

type world struct {
	encKey, sigKey []byte
	paths          []string          // ring paths; index = model path id
	material       map[string]int    // plaintext key material -> abstract data id
	byID           map[int][]byte    // data id -> material
	notary         *signature.Notary // for the oracle: verify what Get returned
}

func newWorld(encKey, sigKey []byte, paths []string) *world {
	suite, err := crypto.NewSCellSuite(encKey, sigKey)
	if err != nil {
		panic("harness: " + err.Error())
	}
	n, err := signature.NewNotary(suite.SignatureAlgorithms)
	if err != nil {
		panic("harness: " + err.Error())
	}
	return &world{encKey: encKey, sigKey: sigKey, paths: paths, material: map[string]int{}, byID: map[int][]byte{}, notary: n}
}

func (w *world) suite() *crypto.KeyStoreSuite {
	s, err := crypto.NewSCellSuite(w.encKey, w.sigKey)
	if err != nil {
		panic("harness: " + err.Error())
	}
	return s
}

func (w *world) open(b backendAPI.Backend) api.MutableKeyStore {
	ks, err := filesystem.CustomKeyStore(b, w.suite())
	if err != nil {
		panic("harness: " + err.Error())
	}
	return ks
}

func (w *world) register(id int, mat []byte) {
	w.material[string(mat)] = id
	w.byID[id] = mat
}

func (w *world) pathID(ringFile string) int {
	p := strings.TrimSuffix(strings.TrimSuffix(ringFile, ".new"), ".keyring")
	for i, q := range w.paths {
		if q == p {
			return i
		}
	}
	return -1
}

var (
	validSince = time.Unix(1600000000, 0).UTC()
	validUntil = time.Unix(1700000000, 0).UTC()
)

func symDescription(mat []byte) api.KeyDescription {
	return api.KeyDescription{ValidSince: validSince, ValidUntil: validUntil,
		Data: []api.KeyData{{Format: api.ThemisSymmetricKeyFormat, SymmetricKey: mat}}}
}

// ringContext is the Secure Cell context the key store uses for symmetric key data of a ring
// (keyStoreContext . keyRingContext . symmetricKeyContext)
func ringContext(path string, seq int) []byte {
	return []byte(fmt.Sprintf("AKSv2 keystore: key ring %s: symmetric key %d", path, seq))
}

func sigContext(path string) []byte {
	return []byte("AKSv2 keystore: key ring signature: " + path)
}

type absKey struct{ seq, state, data int }
type absRing struct {
	keys    []absKey
	current int
	missing bool // the ring file does not exist
}

func (r absRing) String() string {
	if r.missing {
		return "MISSING"
	}
	var ks []string
	for _, k := range r.keys {
		ks = append(ks, fmt.Sprintf("%d.%d.%d", k.seq, k.state, k.data))
	}
	s := "-"
	if len(ks) > 0 {
		s = strings.Join(ks, ",")
	}
	return fmt.Sprintf("%s;%d", s, r.current)
}

// decode verifies a stored ring file (signature under the ring's context) and abstracts it.
// verified=false means the bytes are not a complete, correctly signed ring for that path.
func (w *world) decode(path string, data []byte) (ring absRing, verified bool) {
	c, err := w.notary.Verify(data, sigContext(path))
	if err != nil {
		return absRing{}, false
	}
	kr, err := asn1.UnmarshalKeyRing(c.Payload.Data.FullBytes)
	if err != nil {
		return absRing{}, false
	}
	enc, _ := keystoreV1.NewSCellKeyEncryptor(w.encKey)
	ring.current = kr.Current
	for _, k := range kr.Keys {
		id := 0
		for _, d := range k.Data {
			if len(d.SymmetricKey) != 0 {
				pt, err := enc.Decrypt(context.Background(), d.SymmetricKey, keystoreV1.NewEmptyKeyContext(ringContext(path, k.Seqnum)))
				if err != nil {
					id = -1 // stored key data does not decrypt under its own (ring, seqnum) context
				} else if v, ok := w.material[string(pt)]; ok {
					id = v
				} else {
					id = -2
				}
			}
		}
		ring.keys = append(ring.keys, absKey{k.Seqnum, int(k.State), id})
	}
	return ring, true
}
