// Package v1race is the workload of the op `C17.v1race`: many goroutines ("connections") share ONE
// v1 key-store handle whose key cache is smaller than the set of keys in use, so cache entries are
// evicted – and zeroized in place – all the time while other goroutines look keys up. Every lookup
// must return the complete, correct key.
//
// The package depends on Acra's v1 key store only (not on the harness core), so that the
// race-detector build of it (`harness/cmd/vhrace`, built with `go build -race` by the C17 run) stays
// small. Data-race freedom is not something an outcome comparison can see reliably: the race build
// reports "WARNING: DATA RACE" and exits with code 66.
package v1race

import (
	"bytes"
	"fmt"
	"os"
	"path/filepath"
	"sync"
	"sync/atomic"
	"time"

	"github.com/cossacklabs/acra/keystore"
	"github.com/cossacklabs/acra/keystore/filesystem"
)

// Config of one run. All randomness derives from Seed (one stream per goroutine).
type Config struct {
	Seed       uint64
	Goroutines int
	CacheSize  int
	Clients    int
	Rounds     int           // look-ups per goroutine (two keys per round)
	Budget     time.Duration // wall-clock bound; goroutines stop early when it is used up
}

type rng struct{ s uint64 }

func (r *rng) next() uint64 {
	r.s += 0x9e3779b97f4a7c15
	z := r.s
	z = (z ^ (z >> 30)) * 0xbf58476d1ce4e5b9
	z = (z ^ (z >> 27)) * 0x94d049bb133111eb
	return z ^ (z >> 31)
}
func (r *rng) intn(n int) int { return int(r.next() % uint64(n)) }

// Run executes the workload and returns "ok reads=<n>" or "bad <first wrong key>".
func Run(c Config) string {
	tmp, err := os.MkdirTemp("", "verif-c17race-")
	if err != nil {
		return "harness-error " + err.Error()
	}
	defer os.RemoveAll(tmp)
	dir := filepath.Join(tmp, "ks")
	if err := os.MkdirAll(dir, 0o700); err != nil {
		return "harness-error " + err.Error()
	}
	enc, err := keystore.NewSCellKeyEncryptor([]byte("c17-v1-master-key-0123456789abcd"))
	if err != nil {
		return "harness-error " + err.Error()
	}
	// provision the keys and learn the expected values through a cache-less handle of its own
	setup, err := filesystem.NewFileSystemKeyStoreWithCacheSize(dir, enc, keystore.WithoutCache)
	if err != nil {
		return "harness-error " + err.Error()
	}
	type expect struct{ sym, hmac, priv, pub []byte }
	ids := make([][]byte, c.Clients)
	want := make([]expect, c.Clients)
	for i := range ids {
		ids[i] = []byte(fmt.Sprintf("client%02d", i))
		if err := setup.GenerateDataEncryptionKeys(ids[i]); err != nil {
			return "harness-error " + err.Error()
		}
		if err := setup.GenerateClientIDSymmetricKey(ids[i]); err != nil {
			return "harness-error " + err.Error()
		}
		if err := setup.GenerateHmacKey(ids[i]); err != nil {
			return "harness-error " + err.Error()
		}
		e := &want[i]
		if e.sym, err = setup.GetClientIDSymmetricKey(ids[i]); err != nil {
			return "harness-error " + err.Error()
		}
		if e.hmac, err = setup.GetHMACSecretKey(ids[i]); err != nil {
			return "harness-error " + err.Error()
		}
		p, err := setup.GetServerDecryptionPrivateKey(ids[i])
		if err != nil {
			return "harness-error " + err.Error()
		}
		e.priv = append([]byte{}, p.Value...)
		q, err := setup.GetClientIDEncryptionPublicKey(ids[i])
		if err != nil {
			return "harness-error " + err.Error()
		}
		e.pub = append([]byte{}, q.Value...)
	}

	shared, err := filesystem.NewFileSystemKeyStoreWithCacheSize(dir, enc, c.CacheSize)
	if err != nil {
		return "harness-error " + err.Error()
	}
	deadline := time.Now().Add(c.Budget)
	var reads int64
	var mu sync.Mutex
	var bad []string
	var wg sync.WaitGroup
	for g := 0; g < c.Goroutines; g++ {
		wg.Add(1)
		go func(g int) {
			defer wg.Done()
			rd := &rng{s: c.Seed*1000003 + uint64(g+1)}
			for r := 0; r < c.Rounds; r++ {
				if r%16 == 0 && time.Now().After(deadline) {
					return
				}
				i := rd.intn(c.Clients)
				var got, exp []byte
				var err error
				what := ""
				switch rd.intn(4) {
				case 0:
					got, err = shared.GetClientIDSymmetricKey(ids[i])
					exp, what = want[i].sym, "symmetric"
				case 1:
					got, err = shared.GetHMACSecretKey(ids[i])
					exp, what = want[i].hmac, "hmac"
				case 2:
					p, e2 := shared.GetServerDecryptionPrivateKey(ids[i])
					err = e2
					if p != nil {
						got = p.Value
					}
					exp, what = want[i].priv, "private"
				default:
					p, e2 := shared.GetClientIDEncryptionPublicKey(ids[i])
					err = e2
					if p != nil {
						got = p.Value
					}
					exp, what = want[i].pub, "public"
				}
				atomic.AddInt64(&reads, 1)
				if err != nil || !bytes.Equal(got, exp) {
					mu.Lock()
					bad = append(bad, fmt.Sprintf("%s-key-of-%s:err=%v:got=%x:want=%x", what, ids[i], err != nil, got, exp))
					mu.Unlock()
					return
				}
			}
		}(g)
	}
	wg.Wait()
	if len(bad) > 0 {
		return "bad " + bad[0]
	}
	return fmt.Sprintf("ok reads=%d", atomic.LoadInt64(&reads))
}
