package c17

import (
	"fmt"
	"sync"

	keystoreV1 "github.com/cossacklabs/acra/keystore"
	"github.com/cossacklabs/acra/keystore/v2/keystore/crypto"
	"github.com/cossacklabs/acra/keystore/v2/keystore/filesystem"
	"github.com/cossacklabs/acra/keystore/v2/keystore/filesystem/backend"

	"verifharness/internal/core"
)

// Two handles import a bundle for the SAME, not yet existing ring at the same time. Sequentially
// the second import is refused (ErrKeyRingExists, default delegate). `importKeyRing` checks for
// the ring under a shared lock, creates it under one exclusive lock and writes the keys
// (`txSetKeys`, which carries no optimistic check) under another – so both can succeed and the
// first one's keys vanish. Enumerated over every schedule with the deterministic scheduler.
func runImportRace(r *core.Run) {
	path := "client/race/storage-sym"
	mkBundle := func(id int) []byte {
		src, err := filesystem.NewInMemory(mustSuite(encKey, sigKey))
		if err != nil {
			panic("harness: " + err.Error())
		}
		ring, err := src.OpenKeyRingRW(path)
		if err != nil {
			panic("harness: " + err.Error())
		}
		if _, err := ring.AddKey(symDescription(material(id))); err != nil {
			panic("harness: " + err.Error())
		}
		b, err := src.ExportKeyRings([]string{path}, mustSuite([]byte("import-race-access-enc-key-32byt"), []byte("import-race-access-sig-key-32byt")), keystoreV1.ExportPrivateKeys)
		if err != nil {
			panic("harness: " + err.Error())
		}
		return b
	}
	bundles := [][]byte{mkBundle(10), mkBundle(11)}
	script := []int{}
	schedules, lost := 0, 0
	for {
		w := newWorld(encKey, sigKey, []string{path})
		w.register(10, material(10))
		w.register(11, material(11))
		shared := backend.NewInMemory()
		tr := &tracer{on: true}
		ctl := newController(script)
		res := make([]bool, 2)
		var wg sync.WaitGroup
		for i := 0; i < 2; i++ {
			tb := &tracedBackend{tid: i, inner: shared, tr: tr, ctl: ctl}
			ks := w.open(tb)
			wg.Add(1)
			go func(i int) {
				defer wg.Done()
				_, err := ks.ImportKeyRings(bundles[i], mustSuite([]byte("import-race-access-enc-key-32byt"), []byte("import-race-access-sig-key-32byt")), nil)
				res[i] = err == nil
				ctl.finished(i)
			}(i)
		}
		ok := ctl.loop(2)
		wg.Wait()
		schedules++
		r.Begin(fmt.Sprintf("import-race:%v", script), true, "mode:import-race")
		if !ok {
			r.Fail("deadlock", "import race: no thread could proceed")
			return
		}
		data, err := shared.Get(path + ".keyring")
		if err == nil {
			fin, verified := w.decode(path, data)
			r.Check(verified, "partial-read", "import race: final ring does not verify")
			have := map[int]bool{}
			for _, k := range fin.keys {
				have[k.data] = true
			}
			for i, id := range []int{10, 11} {
				if res[i] && !have[id] {
					lost++
					r.Fail("import-race-lost-update", fmt.Sprintf("two handles imported ring %q at the same time, both imports reported success, the keys of import %d are gone (final ring %s; schedule choices %v)", path, i, fin, script))
				}
			}
		}
		full := make([]int, len(ctl.factors))
		copy(full, script)
		i := len(full) - 1
		for i >= 0 && full[i]+1 >= ctl.factors[i] {
			i--
		}
		if i < 0 {
			break
		}
		script = append(full[:i:i], full[i]+1)
	}
	r.Extra["import_race_schedules"] = schedules
	r.Extra["import_race_lost_updates"] = lost
}

func mustSuite(enc, sig []byte) *crypto.KeyStoreSuite {
	s, err := crypto.NewSCellSuite(enc, sig)
	if err != nil {
		panic("harness: " + err.Error())
	}
	return s
}
