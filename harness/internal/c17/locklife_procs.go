package c17

import (
	"bufio"
	"fmt"
	"io"
	"os"
	"os/exec"
	"path/filepath"
	"strconv"
	"strings"
	"syscall"
	"time"

	"github.com/cossacklabs/acra/keystore/v2/keystore/api"
	"github.com/cossacklabs/acra/keystore/v2/keystore/filesystem"
	"github.com/cossacklabs/acra/keystore/v2/keystore/filesystem/backend"

	"verifharness/internal/core"
)

// The lock file's life cycle with every handle in its OWN operating-system process (think of a long-running
// acra-server, a short `acra-keys` invocation, another service started later – all on one key directory).
// `C17.locklifeP <history> <s>.<dataS> <u>.<dataU>` has the syntax, the result and the model of `C17.locklife`
// (locklife.go); the parent only orchestrates: one `vh exec-op` child per handle, driven line by line through its
// stdin/stdout (op `C17.lifeChild`), the gate and the "lock acquired" signal are files in the scenario's
// temporary directory.

// ---------- child side ----------

var lifeChildState struct {
	be   *gatedBackend
	ks   api.MutableKeyStore
	ring api.MutableKeyRing
	w    *world
}

// fileGate is the child's gate: at the armed Put it creates <base>.reached and waits for <base>.go
func fileGateWait(base string) {
	os.WriteFile(base+".reached", nil, 0o600)
	deadline := time.Now().Add(60 * time.Second)
	for time.Now().Before(deadline) {
		if _, err := os.Stat(base + ".go"); err == nil {
			return
		}
		time.Sleep(200 * time.Microsecond)
	}
}

func init() {
	// C17.lifeChild open <o|p> <root> | close | r | w <data> | ring | add <data> <gate base|-> <acquired file|->
	core.Register("C17.lifeChild", func(a []string) string {
		st := &lifeChildState
		if len(a) == 0 {
			return "bad-args"
		}
		if a[0] != "open" && st.ks == nil {
			return "err:not-open"
		}
		switch a[0] {
		case "open":
			if len(a) != 3 {
				return "bad-args"
			}
			var inner *backend.DirectoryBackend
			var err error
			if a[1] == "o" {
				inner, err = backend.CreateDirectoryBackend(a[2])
			} else {
				inner, err = backend.OpenDirectoryBackend(a[2])
			}
			if err != nil {
				return "err:" + strings.ReplaceAll(err.Error(), " ", "_")
			}
			st.w = newWorld(encKey, sigKey, []string{lockLifeRing})
			st.be = &gatedBackend{inner: inner}
			ks, err := filesystem.CustomKeyStore(st.be, st.w.suite())
			if err != nil {
				return "err:" + strings.ReplaceAll(err.Error(), " ", "_")
			}
			st.ks = ks
			return "ok"
		case "close":
			st.ks.Close()
			st.be, st.ks, st.ring = nil, nil, nil // the process may serve as another handle later
			return "ok"
		case "r":
			st.ks.OpenKeyRing(lockLifeRing)
			return "ok"
		case "w":
			d := core.Atoi(a[1])
			ring, err := st.ks.OpenKeyRingRW(lockLifeRing)
			if err != nil {
				return "err:" + strings.ReplaceAll(err.Error(), " ", "_")
			}
			if _, err := ring.AddKey(symDescription(material(d))); err != nil {
				return "err:" + strings.ReplaceAll(err.Error(), " ", "_")
			}
			return "ok"
		case "ring":
			ring, err := st.ks.OpenKeyRingRW(lockLifeRing)
			if err != nil {
				return "err:" + strings.ReplaceAll(err.Error(), " ", "_")
			}
			st.ring = ring
			return "ok"
		case "add":
			if len(a) != 4 || st.ring == nil {
				return "bad-args"
			}
			d := core.Atoi(a[1])
			if a[2] != "-" {
				st.be.onGate = func() { fileGateWait(a[2]) }
				st.be.reached, st.be.proceed = make(chan struct{}), make(chan struct{})
				close(st.be.proceed) // the file gate does the waiting
				if d == 0 {
					st.be.armedGet.Store(true)
				} else {
					st.be.armed.Store(true)
				}
			}
			if a[3] != "-" {
				st.be.onEnter = func() { os.WriteFile(a[3]+".entered", nil, 0o600) }
				st.be.onAcquire = func() { os.WriteFile(a[3], nil, 0o600) }
			}
			var err error
			if d == 0 {
				_, err = st.ks.OpenKeyRing(lockLifeRing) // a reader: RLock, Get, RUnlock
			} else {
				_, err = st.ring.AddKey(symDescription(material(d)))
			}
			st.be.onGate, st.be.onEnter, st.be.onAcquire = nil, nil, nil
			if err != nil {
				return "res 0"
			}
			return "res 1"
		}
		return "bad-args"
	})
}

// ---------- parent side ----------

type lifeProc struct {
	cmd  *exec.Cmd
	in   io.WriteCloser
	out  *bufio.Reader
	open bool
	ino  uint64
}

// Starting a `vh exec-op` child costs about a second on a loaded machine, so children whose handle has been
// closed are kept and serve as later handles (a process may well open the key store again); handles that are open
// at the same time always live in different processes.
var lifePool []*lifeProc

func takeLifeProc() *lifeProc {
	if n := len(lifePool); n > 0 {
		p := lifePool[n-1]
		lifePool = lifePool[:n-1]
		return p
	}
	return startLifeProc()
}

// warmLifePool starts n children at once.
func warmLifePool(n int) {
	ch := make(chan *lifeProc, n)
	for i := 0; i < n; i++ {
		go func() { ch <- startLifeProc() }()
	}
	for i := 0; i < n; i++ {
		lifePool = append(lifePool, <-ch)
	}
}

func drainLifePool() {
	for _, p := range lifePool {
		p.kill()
	}
	lifePool = nil
}

func startLifeProc() *lifeProc {
	self, err := os.Executable()
	if err != nil {
		panic("harness: " + err.Error())
	}
	cmd := exec.Command(self, "exec-op")
	cmd.Env = append(os.Environ(), "GOMEMLIMIT=1GiB")
	in, err := cmd.StdinPipe()
	if err != nil {
		panic("harness: " + err.Error())
	}
	out, err := cmd.StdoutPipe()
	if err != nil {
		panic("harness: " + err.Error())
	}
	if err := cmd.Start(); err != nil {
		panic("harness: " + err.Error())
	}
	return &lifeProc{cmd: cmd, in: in, out: bufio.NewReader(out)}
}

// send writes one op line; the answer is delivered on the returned channel ("" = the child died)
func (p *lifeProc) send(line string) chan string {
	ch := make(chan string, 1)
	fmt.Fprintln(p.in, line)
	go func() {
		s, err := p.out.ReadString('\n')
		if err != nil {
			ch <- ""
			return
		}
		ch <- strings.TrimSpace(s)
	}()
	return ch
}

func (p *lifeProc) ask(line string) string {
	select {
	case s := <-p.send(line):
		return s
	case <-time.After(120 * time.Second):
		return "timeout"
	}
}

func (p *lifeProc) kill() {
	p.in.Close()
	done := make(chan struct{})
	go func() { p.cmd.Wait(); close(done) }()
	select {
	case <-done:
	case <-time.After(2 * time.Second):
		p.cmd.Process.Kill()
		<-done
	}
}

func runLockLifeProcs(hist, sa, ua string, maxWait time.Duration) lifeResult {
	fail := func(f string, a ...any) lifeResult { return lifeResult{out: "harness-error:" + strings.ReplaceAll(fmt.Sprintf(f, a...), " ", "_")} }
	pair := func(x string) (int, int, bool) {
		f := strings.Split(x, ".")
		if len(f) != 2 {
			return 0, 0, false
		}
		a, e1 := strconv.Atoi(f[0])
		b, e2 := strconv.Atoi(f[1])
		return a, b, e1 == nil && e2 == nil
	}
	s, dS, ok1 := pair(sa)
	u, dU, ok2 := pair(ua)
	if !ok1 || !ok2 || s == u {
		return lifeResult{out: "bad-args"}
	}
	tmp, err := os.MkdirTemp(lifeTmpBase(), "verif-c17lp-")
	if err != nil {
		panic("harness: " + err.Error())
	}
	defer os.RemoveAll(tmp)
	root := filepath.Join(tmp, "ks")
	lockPath := filepath.Join(root, ".lock")
	w := newWorld(encKey, sigKey, []string{lockLifeRing})
	var ps []*lifeProc
	var pins []*os.File
	broken := false // a child misbehaved: do not re-use any process of this case
	defer func() {
		for _, p := range ps {
			if p.open {
				if p.ask("C17.lifeChild close") == "ok" && !broken {
					lifePool = append(lifePool, p)
					continue
				}
				p.kill()
			}
		}
		for _, p := range pins {
			p.Close()
		}
	}()
	get := func(k int) *lifeProc {
		if k < 0 || k >= len(ps) || !ps[k].open {
			return nil
		}
		return ps[k]
	}
	var toks []string
	if hist != "-" {
		toks = strings.Split(hist, ",")
	}
	for _, tok := range toks {
		body := tok[1:]
		switch tok[0] {
		case 'o', 'p':
			p := &lifeProc{}
			*p = *takeLifeProc()
			ps = append(ps, p)
			p.open = true
			if r := p.ask(fmt.Sprintf("C17.lifeChild open %c %s", tok[0], root)); r != "ok" {
				broken = true
				return fail("child open: %s", r)
			}
			pin, err := os.Open(lockPath)
			if err != nil {
				return fail("pin: %v", err)
			}
			pins = append(pins, pin)
			fi, err := pin.Stat()
			if err != nil {
				return fail("stat: %v", err)
			}
			p.ino = uint64(fi.Sys().(*syscall.Stat_t).Ino)
		case 'c':
			k, _ := strconv.Atoi(body)
			p := get(k)
			if p == nil {
				return lifeResult{out: "bad-args"}
			}
			if r := p.ask("C17.lifeChild close"); r != "ok" {
				broken = true
				return fail("child close: %s", r)
			}
			p.open = false
			q := *p
			lifePool = append(lifePool, &q) // the process may serve as a later handle
		case 'r':
			k, _ := strconv.Atoi(body)
			p := get(k)
			if p == nil {
				return lifeResult{out: "bad-args"}
			}
			if r := p.ask("C17.lifeChild r"); r != "ok" {
				return fail("child r: %s", r)
			}
		case 'w':
			k, d, ok := pair(body)
			p := get(k)
			if !ok || p == nil {
				return lifeResult{out: "bad-args"}
			}
			w.register(d, material(d))
			if r := p.ask(fmt.Sprintf("C17.lifeChild w %d", d)); r != "ok" {
				return fail("child w: %s", r)
			}
		default:
			return lifeResult{out: "bad-args"}
		}
	}
	pS, pU := get(s), get(u)
	if pS == nil || pU == nil {
		return lifeResult{out: "bad-args"}
	}
	for _, p := range []*lifeProc{pS, pU} {
		if r := p.ask("C17.lifeChild ring"); r != "ok" {
			return fail("child ring: %s", r)
		}
	}
	readRing := func() (absRing, bool) {
		b, err := backend.OpenDirectoryBackend(root)
		if err != nil {
			return absRing{}, false
		}
		defer b.Close()
		data, err := b.Get(lockLifeRing + ".keyring")
		if err != nil {
			return absRing{}, false
		}
		return w.decode(lockLifeRing, data)
	}
	before, ok := readRing()
	if !ok {
		return fail("ring before the race unreadable")
	}
	for _, d := range []int{dS, dU} {
		if d != 0 {
			w.register(d, material(d))
		}
	}

	res := lifeResult{}
	gate := filepath.Join(tmp, "gate")
	acq := filepath.Join(tmp, "u-acquired")
	exists := func(p string) bool { _, err := os.Stat(p); return err == nil }
	sCh := pS.send(fmt.Sprintf("C17.lifeChild add %d %s -", dS, gate))
	sRes, uRes := "", ""
	sFinished := false
	t0 := time.Now()
	for !exists(gate+".reached") && !sFinished {
		select {
		case sRes = <-sCh:
			sFinished = true
		default:
			if time.Since(t0) > 120*time.Second {
				broken = true
				return lifeResult{out: "timeout s"}
			}
			time.Sleep(200 * time.Microsecond)
		}
	}
	uCh := pU.send(fmt.Sprintf("C17.lifeChild add %d - %s", dU, acq))
	overlap, uFinished := false, false
	if !sFinished {
		t0 = time.Now()
		var tEnter time.Time // when u was first seen inside Lock(): the bounded wait starts there
	wait:
		for {
			if tEnter.IsZero() && exists(acq+".entered") {
				tEnter = time.Now()
			}
			if exists(acq) {
				overlap = true // u's Lock returned while s sits between its Get and its Put
				break
			}
			select {
			case uRes = <-uCh:
				uFinished = true
				overlap = exists(acq)
				break wait
			default:
			}
			if seen, _ := flockWaiterSeen(pS.ino); seen {
				res.waiterSeen = true
				break
			}
			if (!tEnter.IsZero() && time.Since(tEnter) > maxWait) || time.Since(t0) > 10*time.Second {
				break
			}
			time.Sleep(300 * time.Microsecond)
		}
		if overlap && !uFinished {
			select {
			case uRes = <-uCh:
				uFinished = true
			case <-time.After(10 * time.Second):
			}
		}
		res.waited = time.Since(t0)
		res.uFinished = uFinished
		os.WriteFile(gate+".go", nil, 0o600)
	}
	deadline := time.After(120 * time.Second)
	if !sFinished {
		select {
		case sRes = <-sCh:
		case <-deadline:
			broken = true
			return lifeResult{out: "timeout s-finish"}
		}
	}
	if !uFinished {
		select {
		case uRes = <-uCh:
		case <-deadline:
			broken = true
			return lifeResult{out: "timeout u-finish"}
		}
	}
	bit := func(r string) (string, bool) {
		switch r {
		case "res 1":
			return "1", true
		case "res 0":
			return "0", true
		}
		return "", false
	}
	sb, ok1 := bit(sRes)
	ub, ok2 := bit(uRes)
	if !ok1 || !ok2 {
		broken = true
		return fail("child add: s=%q u=%q", sRes, uRes)
	}
	final, ok := readRing()
	fin := "UNVERIFIED"
	if ok {
		fin = final.String()
	}
	ov := 0
	if overlap {
		ov = 1
	}
	var hs []*lifeHandle
	for _, p := range ps {
		hs = append(hs, &lifeHandle{ino: p.ino})
	}
	res.out = fmt.Sprintf("ino %s ring %s overlap=%d res %s %s final %s", lockLifeClasses(hs), before.String(), ov, sb, ub, fin)
	return res
}

func init() {
	// C17.locklifeP <history> <s>.<dataS> <u>.<dataU> – every handle in its own OS process
	core.Register("C17.locklifeP", func(a []string) string {
		if len(a) != 3 {
			return "bad-args"
		}
		lastLife = runLockLifeProcs(a[0], a[1], a[2], 1500*time.Millisecond)
		return lastLife.out
	})
}
