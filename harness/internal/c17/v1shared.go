package c17

import (
	"bytes"
	"fmt"
	"os"
	"path/filepath"
	"sync"

	"github.com/cossacklabs/acra/keystore"
	"github.com/cossacklabs/acra/keystore/filesystem"
	"github.com/cossacklabs/themis/gothemis/keys"

	"verifharness/internal/core"
)

// One v1 key-store handle shared by many goroutines (as AcraServer shares it between connections),
// with cache sizes 1 (constant eviction), unlimited and off: every key returned must be the
// complete, correct key of the generation history. Judged by a direct oracle (the Lean model of the
// v1 store treats every cache operation as atomic, so its prediction is simply "the stored key");
// data-race freedom itself is a runtime fact – build the harness with -race to monitor it.
func runV1Shared(r *core.Run) {
	rd := r.Rand.Fork()
	for _, cacheSize := range []int{1, keystore.InfiniteCacheSize, keystore.WithoutCache} {
		tmp, err := os.MkdirTemp("", "verif-c17v1-")
		if err != nil {
			panic("harness: " + err.Error())
		}
		dir := filepath.Join(tmp, "ks")
		os.MkdirAll(dir, 0o700)
		enc, _ := keystore.NewSCellKeyEncryptor([]byte("c17-v1-master-key-0123456789abcd"))
		ks, err := filesystem.NewFileSystemKeyStoreWithCacheSize(dir, enc, cacheSize)
		if err != nil {
			panic("harness: " + err.Error())
		}
		ids := []string{"client_a", "client_b", "client_c", "client_d"}
		type expect struct{ sym, hmac, priv, pub []byte }
		want := map[string]*expect{}
		for _, id := range ids {
			must(ks.GenerateDataEncryptionKeys([]byte(id)))
			must(ks.GenerateClientIDSymmetricKey([]byte(id)))
			must(ks.GenerateHmacKey([]byte(id)))
		}
		// expectations are read through a second, cache-less handle on the same directory
		ref, err := filesystem.NewFileSystemKeyStoreWithCacheSize(dir, enc, keystore.WithoutCache)
		if err != nil {
			panic("harness: " + err.Error())
		}
		for _, id := range ids {
			e := &expect{}
			e.sym, _ = ref.GetClientIDSymmetricKey([]byte(id))
			e.hmac, _ = ref.GetHMACSecretKey([]byte(id))
			p, _ := ref.GetServerDecryptionPrivateKey([]byte(id))
			e.priv = append([]byte{}, p.Value...)
			q, _ := ref.GetClientIDEncryptionPublicKey([]byte(id))
			e.pub = append([]byte{}, q.Value...)
			want[id] = e
		}
		workers := 8
		iters := r.N(60, 1500)
		var mu sync.Mutex
		var bad []string
		var wg sync.WaitGroup
		seeds := make([]*core.Rand, workers)
		for i := range seeds {
			seeds[i] = rd.Fork()
		}
		for wk := 0; wk < workers; wk++ {
			wg.Add(1)
			go func(wk int) {
				defer wg.Done()
				lr := seeds[wk]
				for it := 0; it < iters; it++ {
					id := core.Pick(lr, ids)
					e := want[id]
					var got, exp []byte
					var err error
					what := ""
					switch lr.Intn(4) {
					case 0:
						got, err = ks.GetClientIDSymmetricKey([]byte(id))
						exp, what = e.sym, "symmetric"
					case 1:
						got, err = ks.GetHMACSecretKey([]byte(id))
						exp, what = e.hmac, "hmac"
					case 2:
						p, e2 := ks.GetServerDecryptionPrivateKey([]byte(id))
						err = e2
						if p != nil {
							got = p.Value
						}
						exp, what = e.priv, "private"
					default:
						p, e2 := ks.GetClientIDEncryptionPublicKey([]byte(id))
						err = e2
						if p != nil {
							got = p.Value
						}
						exp, what = e.pub, "public"
					}
					if err != nil || !bytes.Equal(got, exp) {
						mu.Lock()
						bad = append(bad, fmt.Sprintf("%s key of %s: err=%v got %x want %x", what, id, err, got, exp))
						mu.Unlock()
					}
				}
			}(wk)
		}
		wg.Wait()
		r.Begin(fmt.Sprintf("v1shared:cache%d", cacheSize), true, "mode:v1-shared")
		r.Tag(fmt.Sprintf("v1-shared-reads:%d", workers*iters))
		if len(bad) > 0 {
			r.Fail("v1-concurrent-read", fmt.Sprintf("shared v1 key store (cache size %d) returned a wrong or incomplete key under concurrency: %s (+%d more)", cacheSize, bad[0], len(bad)-1))
		}
		os.RemoveAll(tmp)
	}
}

// runV1Aliasing is the deterministic witness of repo-patches/05 (regression corpus): with a cache of
// size 1 a caller that still holds key A while key B is fetched must keep a correct key A (the cache
// used to share its slices with callers and wipes them on eviction).
func runV1Aliasing(r *core.Run) {
	tmp, err := os.MkdirTemp("", "verif-c17v1a-")
	if err != nil {
		panic("harness: " + err.Error())
	}
	defer os.RemoveAll(tmp)
	dir := filepath.Join(tmp, "ks")
	os.MkdirAll(dir, 0o700)
	enc, _ := keystore.NewSCellKeyEncryptor([]byte("c17-v1-master-key-0123456789abcd"))
	ks, err := filesystem.NewFileSystemKeyStoreWithCacheSize(dir, enc, 1)
	if err != nil {
		panic("harness: " + err.Error())
	}
	a, b := []byte("client_a"), []byte("client_b")
	for _, id := range [][]byte{a, b} {
		must(ks.GenerateDataEncryptionKeys(id))
	}
	ref, _ := filesystem.NewFileSystemKeyStoreWithCacheSize(dir, enc, keystore.WithoutCache)
	wantA, _ := ref.GetClientIDEncryptionPublicKey(a)
	r.Begin("v1alias:public", true, "mode:v1-alias")
	ks.Reset()
	pa, err1 := ks.GetClientIDEncryptionPublicKey(a) // miss: loaded and cached
	_, err2 := ks.GetClientIDEncryptionPublicKey(b)  // evicts a
	ok := err1 == nil && err2 == nil && pa != nil && bytes.Equal(pa.Value, wantA.Value)
	r.Check(ok, "v1-cache-aliasing", fmt.Sprintf("v1 key store, cache size 1: the public key of client_a held by the caller changed to %x after client_b's key was fetched (want %x)", valueOf(pa), wantA.Value))
	r.Begin("v1alias:public-hit", true, "mode:v1-alias")
	pa1, _ := ks.GetClientIDEncryptionPublicKey(a) // miss (b cached) -> cached
	pa2, _ := ks.GetClientIDEncryptionPublicKey(a) // hit
	_, _ = ks.GetClientIDEncryptionPublicKey(b)    // evicts a
	r.Check(pa1 != nil && pa2 != nil && bytes.Equal(pa1.Value, wantA.Value) && bytes.Equal(pa2.Value, wantA.Value), "v1-cache-aliasing",
		fmt.Sprintf("v1 key store, cache size 1: public keys of client_a handed out earlier were wiped by a later eviction: %x / %x", valueOf(pa1), valueOf(pa2)))
}

func valueOf(p *keys.PublicKey) []byte {
	if p == nil {
		return nil
	}
	return p.Value
}

func must(err error) {
	if err != nil {
		panic("harness: " + err.Error())
	}
}
