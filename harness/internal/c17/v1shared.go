package c17

import (
	"bytes"
	"fmt"
	"os"
	"path/filepath"
	"strings"
	"time"

	"github.com/cossacklabs/acra/keystore"
	"github.com/cossacklabs/acra/keystore/filesystem"
	"github.com/cossacklabs/themis/gothemis/keys"

	"verifharness/internal/core"
)

// One v1 key-store handle shared by many goroutines (as AcraServer shares it between connections),
// with cache sizes 1 (constant eviction), unlimited and off: every key returned must be the
// complete, correct key of the generation history. Judged by a direct oracle (the Lean model of the
// v1 store treats every cache operation as atomic, so its prediction is simply "the stored key").
// The workload (package v1race, op `C17.v1race`) runs in a child process: a cache whose locking is
// broken can crash the Go runtime (concurrent map writes), which must be a failure of the property,
// not of the harness. Data-race freedom itself is monitored by the race-detector run (v1race.go).
func runV1Shared(r *core.Run) {
	rd := r.Rand.Fork()
	workers, clients := 8, 4
	iters := r.N(60, 1500)
	for _, cacheSize := range []int{1, keystore.InfiniteCacheSize, keystore.WithoutCache} {
		line := fmt.Sprintf("C17.v1race %d %d %d %d %d %d", rd.U64()%1000000, workers, cacheSize, clients, iters, 60000)
		r.Begin(fmt.Sprintf("v1shared:cache%d", cacheSize), true, "mode:v1-shared")
		r.Tag(fmt.Sprintf("v1-shared-reads:%d", workers*iters))
		judgeV1(r, r.ImplIsolated(line, 120*time.Second), cacheSize)
	}
}

// judgeV1 judges the outcome of one `C17.v1race` execution without the race detector.
func judgeV1(r *core.Run, out string, cacheSize int) {
	switch {
	case strings.HasPrefix(out, "ok "):
	case strings.HasPrefix(out, "bad "):
		r.Fail("v1-concurrent-read", fmt.Sprintf("shared v1 key store (cache size %d) returned a wrong or incomplete key under concurrency: %s", cacheSize, out))
	case strings.HasPrefix(out, "harness-error"):
		panic("harness: v1 shared-handle workload: " + out)
	default:
		// "panic" (the child died: Go runtime fatal error or unrecovered panic), "timeout", "oom"
		r.Fail("v1-shared-handle-crash", fmt.Sprintf("the process using one shared v1 key store (cache size %d) from many goroutines crashed or hung: outcome %q", cacheSize, out))
	}
}

// runV1Aliasing is the deterministic witness of repo-patches/05 (regression corpus): with a cache of
// size 1 a caller that still holds key A while key B is fetched must keep a correct key A (the cache
// used to share its slices with callers and wipes them on eviction).
func runV1Aliasing(r *core.Run) {
	tmp, err := os.MkdirTemp("", "verif-c17v1a-")
	if err != nil {
		panic("harness: " + err.Error())
	}
	defer os.RemoveAll(tmp)
	dir := filepath.Join(tmp, "ks")
	os.MkdirAll(dir, 0o700)
	enc, _ := keystore.NewSCellKeyEncryptor([]byte("c17-v1-master-key-0123456789abcd"))
	ks, err := filesystem.NewFileSystemKeyStoreWithCacheSize(dir, enc, 1)
	if err != nil {
		panic("harness: " + err.Error())
	}
	a, b := []byte("client_a"), []byte("client_b")
	for _, id := range [][]byte{a, b} {
		must(ks.GenerateDataEncryptionKeys(id))
	}
	ref, _ := filesystem.NewFileSystemKeyStoreWithCacheSize(dir, enc, keystore.WithoutCache)
	wantA, _ := ref.GetClientIDEncryptionPublicKey(a)
	r.Begin("v1alias:public", true, "mode:v1-alias")
	ks.Reset()
	pa, err1 := ks.GetClientIDEncryptionPublicKey(a) // miss: loaded and cached
	_, err2 := ks.GetClientIDEncryptionPublicKey(b)  // evicts a
	ok := err1 == nil && err2 == nil && pa != nil && bytes.Equal(pa.Value, wantA.Value)
	r.Check(ok, "v1-cache-aliasing", fmt.Sprintf("v1 key store, cache size 1: the public key of client_a held by the caller changed to %x after client_b's key was fetched (want %x)", valueOf(pa), wantA.Value))
	r.Begin("v1alias:public-hit", true, "mode:v1-alias")
	pa1, _ := ks.GetClientIDEncryptionPublicKey(a) // miss (b cached) -> cached
	pa2, _ := ks.GetClientIDEncryptionPublicKey(a) // hit
	_, _ = ks.GetClientIDEncryptionPublicKey(b)    // evicts a
	r.Check(pa1 != nil && pa2 != nil && bytes.Equal(pa1.Value, wantA.Value) && bytes.Equal(pa2.Value, wantA.Value), "v1-cache-aliasing",
		fmt.Sprintf("v1 key store, cache size 1: public keys of client_a handed out earlier were wiped by a later eviction: %x / %x", valueOf(pa1), valueOf(pa2)))
}

func valueOf(p *keys.PublicKey) []byte {
	if p == nil {
		return nil
	}
	return p.Value
}

func must(err error) {
	if err != nil {
		panic("harness: " + err.Error())
	}
}
