package c17

import (
	"bufio"
	"encoding/hex"
	"fmt"
	"os"
	"os/exec"
	"path/filepath"
	"strconv"
	"strings"
	"sync"
	"time"

	"github.com/cossacklabs/acra/keystore/v2/keystore/api"
	"github.com/cossacklabs/acra/keystore/v2/keystore/filesystem/backend"
	backendAPI "github.com/cossacklabs/acra/keystore/v2/keystore/filesystem/backend/api"

	"verifharness/internal/core"
)

// Separate processes sharing one directory back end. Every child (`vh exec-op` running the op
// `C17.child`) opens its own DirectoryBackend (own flock file descriptor) and appends every back-end
// call it makes to a shared trace file *while it holds the store lock* (Lock is recorded after it
// was acquired, Unlock before it is released), so the file order is the real global order.

type fileTracer struct {
	f   *os.File
	tid int
	op  int // index of the operation being executed
}

func (t *fileTracer) add(kind, path string, data []byte, ok bool) {
	d := "-"
	if len(data) > 0 {
		d = hex.EncodeToString(data)
	}
	p := "-"
	if path != "" {
		p = hex.EncodeToString([]byte(path))
	}
	fmt.Fprintf(t.f, "%d %s %s %s %v %d\n", t.tid, kind, p, d, ok, t.op)
}

type fileTracedBackend struct {
	inner backendAPI.Backend
	t     *fileTracer
	on    bool
}

func (b *fileTracedBackend) rec(kind, path string, data []byte, ok bool) {
	if b.on {
		b.t.add(kind, path, data, ok)
	}
}
func (b *fileTracedBackend) Lock() error {
	err := b.inner.Lock()
	if err == nil {
		b.rec("L", "", nil, true)
	}
	return err
}
func (b *fileTracedBackend) Unlock() error { b.rec("U", "", nil, true); return b.inner.Unlock() }
func (b *fileTracedBackend) RLock() error {
	err := b.inner.RLock()
	if err == nil {
		b.rec("RL", "", nil, true)
	}
	return err
}
func (b *fileTracedBackend) RUnlock() error { b.rec("RU", "", nil, true); return b.inner.RUnlock() }
func (b *fileTracedBackend) Get(path string) ([]byte, error) {
	d, err := b.inner.Get(path)
	b.rec("G", path, d, err == nil)
	return d, err
}
func (b *fileTracedBackend) Put(path string, data []byte) error {
	err := b.inner.Put(path, data)
	b.rec("P", path, data, err == nil)
	return err
}
func (b *fileTracedBackend) Rename(o, n string) error {
	err := b.inner.Rename(o, n)
	b.rec("N", n, nil, err == nil)
	return err
}
func (b *fileTracedBackend) RenameNX(o, n string) error {
	err := b.inner.RenameNX(o, n)
	b.rec("NX", n, nil, err == nil)
	return err
}
func (b *fileTracedBackend) ListAll() ([]string, error) { return b.inner.ListAll() }
func (b *fileTracedBackend) Close() error               { return nil }

func parseOps(s string) []opSpec {
	var ops []opSpec
	if s == "-" {
		return ops
	}
	for _, t := range strings.Split(s, "+") {
		o := opSpec{kind: t[0]}
		body := t[1:]
		switch o.kind {
		case 'A':
			o.data, _ = strconv.Atoi(body)
		case 'C', 'D':
			o.seq, _ = strconv.Atoi(body)
		case 'S':
			f := strings.Split(body, ".")
			o.seq, _ = strconv.Atoi(f[0])
			o.st, _ = strconv.Atoi(f[1])
		}
		ops = append(ops, o)
	}
	return ops
}

func init() {
	// C17.child <dir> <tid> <ring path hex> <ops> <trace file>
	core.Register("C17.child", func(a []string) string {
		dir, trace := a[0], a[4]
		tid := core.Atoi(a[1])
		path := string(core.UnHex(a[2]))
		ops := parseOps(a[3])
		inner, err := backend.CreateDirectoryBackend(dir)
		if err != nil {
			return "child-error:" + err.Error()
		}
		f, err := os.OpenFile(trace, os.O_APPEND|os.O_WRONLY|os.O_CREATE, 0o600)
		if err != nil {
			return "child-error:" + err.Error()
		}
		defer f.Close()
		tb := &fileTracedBackend{inner: inner, t: &fileTracer{f: f, tid: tid}}
		w := newWorld(encKey, sigKey, nil)
		ks := w.open(tb)
		var ring api.MutableKeyRing
		if (threadSpec{ops: ops}).preopened() {
			ring, err = ks.OpenKeyRingRW(path)
			if err != nil {
				return "child-error:" + err.Error()
			}
		}
		// rendezvous: all children have opened their rings before anyone starts
		os.WriteFile(fmt.Sprintf("%s.ready.%d", trace, tid), nil, 0o600)
		deadline := time.Now().Add(20 * time.Second)
		for {
			if _, err := os.Stat(trace + ".go"); err == nil {
				break
			}
			if time.Now().After(deadline) {
				return "child-error:no-go"
			}
			time.Sleep(200 * time.Microsecond)
		}
		tb.on = true
		res := ""
		for k, o := range ops {
			var err error
			tb.t.op = k
			switch {
			case o.kind == 'O':
				var nr api.MutableKeyRing
				nr, err = ks.OpenKeyRingRW(path)
				if err == nil {
					ring = nr
				}
			case o.kind == 'R':
				_, err = ks.OpenKeyRing(path)
			case ring == nil:
				err = errNotOpen
			case o.kind == 'A':
				_, err = ring.AddKey(symDescription(material(o.data)))
			case o.kind == 'C':
				err = ring.SetCurrent(o.seq)
			case o.kind == 'S':
				err = ring.SetState(o.seq, api.KeyState(o.st))
			case o.kind == 'D':
				err = ring.DestroyKey(o.seq)
			}
			if err == nil {
				res += "1"
			} else {
				res += "0"
			}
		}
		if res == "" {
			res = "-"
		}
		return "res:" + res
	})
}

// runProcs runs the scenario with one OS process per thread.
func runProcs(sc scenario) *outcome {
	paths := make([]string, len(sc.rings))
	for i := range paths {
		paths[i] = ringPath(i)
	}
	w := newWorld(encKey, sigKey, paths)
	out := &outcome{w: w, sc: sc}
	tmp, err := os.MkdirTemp("", "verif-c17p-")
	if err != nil {
		panic("harness: " + err.Error())
	}
	defer os.RemoveAll(tmp)
	dir := filepath.Join(tmp, "ks")
	trace := filepath.Join(tmp, "trace")
	setupInner, err := backend.CreateDirectoryBackend(dir)
	if err != nil {
		panic("harness: " + err.Error())
	}
	setup := w.open(setupInner)
	nextID := 1
	for p, keys := range sc.rings {
		if sc.isMissing(p) {
			continue
		}
		ring, err := setup.OpenKeyRingRW(paths[p])
		if err != nil {
			panic("harness: " + err.Error())
		}
		for _, k := range keys {
			mat := material(nextID)
			w.register(nextID, mat)
			nextID++
			seq, err := ring.AddKey(symDescription(mat))
			if err != nil {
				panic("harness: " + err.Error())
			}
			for _, st := range statePath(k.state) {
				ring.SetState(seq, api.KeyState(st))
			}
			if k.current {
				ring.SetCurrent(seq)
			}
		}
	}
	readRing := func(p int) absRing {
		data, err := setupInner.Get(paths[p] + ".keyring")
		if err == backendAPI.ErrNotExist {
			return absRing{missing: true, current: -1}
		}
		if err != nil {
			panic("harness: " + err.Error())
		}
		r, ok := w.decode(paths[p], data)
		if !ok {
			panic("harness: stored ring does not verify")
		}
		return r
	}
	for p := range sc.rings {
		out.initial = append(out.initial, readRing(p))
	}
	for _, t := range sc.threads {
		for _, o := range t.ops {
			if o.kind == 'A' {
				w.register(o.data, material(o.data))
			}
		}
	}
	self, err := os.Executable()
	if err != nil {
		panic("harness: " + err.Error())
	}
	out.results = make([][]bool, len(sc.threads))
	var wg sync.WaitGroup
	var cmdMu sync.Mutex
	var cmds []*exec.Cmd
	failed := make([]string, len(sc.threads))
	for i, t := range sc.threads {
		var ops []string
		for _, o := range t.ops {
			ops = append(ops, o.String())
		}
		os := "-"
		if len(ops) > 0 {
			os = strings.Join(ops, "+")
		}
		line := fmt.Sprintf("C17.child %s %d %s %s %s", dir, i, core.Hex([]byte(paths[t.path])), os, trace)
		wg.Add(1)
		go func(i int, line string) {
			defer wg.Done()
			cmd := exec.Command(self, "exec-op")
			cmd.Stdin = strings.NewReader(line + "\n")
			cmdMu.Lock()
			cmds = append(cmds, cmd)
			cmdMu.Unlock()
			b, err := cmd.Output()
			s := strings.TrimSpace(string(b))
			if err != nil || !strings.HasPrefix(s, "res:") {
				failed[i] = fmt.Sprintf("%v %s", err, s)
				return
			}
			for _, c := range strings.TrimPrefix(s, "res:") {
				if c == '1' {
					out.results[i] = append(out.results[i], true)
				} else if c == '0' {
					out.results[i] = append(out.results[i], false)
				}
			}
		}(i, line)
	}
	// rendezvous: nobody starts before every child has opened its ring (the model gives every handle the
	// initial ring as its snapshot). On a machine too loaded to get all children ready in time the scenario is
	// abandoned WITHOUT a verdict (starting anyway would let late children open their rings after the others'
	// writes – a harness artefact, observed once at load average 100).
	deadline := time.Now().Add(120 * time.Second)
	allReady := false
	for {
		n := 0
		for i := range sc.threads {
			if _, err := os.Stat(fmt.Sprintf("%s.ready.%d", trace, i)); err == nil {
				n++
			}
		}
		if n == len(sc.threads) {
			allReady = true
			break
		}
		if time.Now().After(deadline) {
			break
		}
		time.Sleep(200 * time.Microsecond)
	}
	if !allReady {
		cmdMu.Lock()
		for _, c := range cmds {
			if c.Process != nil {
				c.Process.Kill()
			}
		}
		cmdMu.Unlock()
		wg.Wait()
		out.skipped = true
		return out
	}
	os.WriteFile(trace+".go", nil, 0o600)
	wg.Wait()
	for i, f := range failed {
		if f != "" {
			panic(fmt.Sprintf("harness: child %d failed: %s", i, f))
		}
	}
	// trace file -> records
	if f, err := os.Open(trace); err == nil {
		sc := bufio.NewScanner(f)
		sc.Buffer(make([]byte, 1<<20), 1<<26)
		for sc.Scan() {
			fl := strings.Fields(sc.Text())
			if len(fl) != 6 {
				panic("harness: bad trace line")
			}
			rc := rec{tid: core.Atoi(fl[0]), op: core.Atoi(fl[5]), kind: fl[1], ok: fl[4] == "true"}
			if fl[2] != "-" {
				b, _ := hex.DecodeString(fl[2])
				rc.path = string(b)
			}
			if fl[3] != "-" {
				rc.data, _ = hex.DecodeString(fl[3])
			}
			out.trace = append(out.trace, rc)
		}
		f.Close()
	}
	for p := range sc.rings {
		out.finals = append(out.finals, readRing(p))
	}
	out.render()
	return out
}
