package c17

import (
	"fmt"
	"os"
	"path/filepath"
	"strconv"
	"strings"
	"sync/atomic"
	"syscall"
	"time"

	"github.com/cossacklabs/acra/keystore/v2/keystore/api"
	"github.com/cossacklabs/acra/keystore/v2/keystore/filesystem"
	"github.com/cossacklabs/acra/keystore/v2/keystore/filesystem/backend"
	backendAPI "github.com/cossacklabs/acra/keystore/v2/keystore/filesystem/backend/api"

	"verifharness/internal/core"
)

// The life cycle of the directory back end's lock file (model: KeystoreSec/FileLock.lean).
//
// What `DirectoryBackend.Lock` locks is the inode its handle's descriptor of `<dir>/.lock` refers to, fixed
// when the handle was opened. The op `C17.locklife <history> <s>.<dataS> <u>.<dataU>` runs a history of REAL
// handles (backend.CreateDirectoryBackend / OpenDirectoryBackend + filesystem.CustomKeyStore, closed with
// KeyStore.Close) on one key directory – opens, closes, read cycles, writes – and then lets the handles s and u
// update the same ring at the same time, s being held inside its exclusive section (between its Get and its
// Put). It reports
//
//	ino <inode class of every handle at the time it was opened> ring <ring before the race>
//	overlap=<1: u took the store lock while s was held inside its exclusive section> res <s> <u> final <ring>
//
// which the model predicts from the history and the regenerated Close behaviour. Inode *numbers* never leave
// the op: they are canonicalised to classes in order of first appearance, and every inode seen is pinned by an
// extra read-only descriptor (never flocked) so that the file system cannot re-use its number.
//
// No false alarm, no clock in the verdict: on a tree whose handles share one inode u is blocked inside flock(2)
// for as long as s is held, so "u acquired the lock while s was held" cannot be observed there, however slow the
// machine. s is released as soon as u is SEEN waiting (a blocked FLOCK waiter on the inode in /proc/locks), or
// after a bounded wait when that cannot be observed; a clock only bounds how long the harness waits.

const lockLifeRing = "client/locklife/storage-sym"

// gatedBackend delegates every call to the real directory back end; it only makes the handle observable.
type gatedBackend struct {
	inner    backendAPI.Backend
	armed    atomic.Bool // the next Put reports `reached` and waits for `proceed`
	armedGet atomic.Bool // the same for the next Get (a reader held inside its shared section)
	reached  chan struct{}
	proceed  chan struct{}
	entered  atomic.Int32 // Lock() / RLock() calls started
	acquired atomic.Int32 // Lock() / RLock() calls that returned successfully
	inCS     atomic.Bool  // between a successful Lock() / RLock() and Unlock() / RUnlock()
	// hooks of the separate-process variant (locklife_procs.go): signal through files instead of channels
	onGate    func()
	onEnter   func()
	onAcquire func()
}

func (b *gatedBackend) Lock() error {
	b.entered.Add(1)
	if b.onEnter != nil {
		b.onEnter()
	}
	err := b.inner.Lock()
	if err == nil {
		b.inCS.Store(true)
		b.acquired.Add(1)
		if b.onAcquire != nil {
			b.onAcquire()
		}
	}
	return err
}
func (b *gatedBackend) Unlock() error { b.inCS.Store(false); return b.inner.Unlock() }
func (b *gatedBackend) RLock() error {
	b.entered.Add(1)
	if b.onEnter != nil {
		b.onEnter()
	}
	err := b.inner.RLock()
	if err == nil {
		b.inCS.Store(true)
		b.acquired.Add(1)
		if b.onAcquire != nil {
			b.onAcquire()
		}
	}
	return err
}
func (b *gatedBackend) RUnlock() error { b.inCS.Store(false); return b.inner.RUnlock() }
func (b *gatedBackend) Get(path string) ([]byte, error) {
	if b.armedGet.CompareAndSwap(true, false) {
		close(b.reached)
		if b.onGate != nil {
			b.onGate()
		}
		<-b.proceed
	}
	return b.inner.Get(path)
}
func (b *gatedBackend) Put(path string, data []byte) error {
	if b.armed.CompareAndSwap(true, false) {
		close(b.reached)
		if b.onGate != nil {
			b.onGate()
		}
		<-b.proceed
	}
	return b.inner.Put(path, data)
}
func (b *gatedBackend) Rename(o, n string) error   { return b.inner.Rename(o, n) }
func (b *gatedBackend) RenameNX(o, n string) error { return b.inner.RenameNX(o, n) }
func (b *gatedBackend) ListAll() ([]string, error) { return b.inner.ListAll() }
func (b *gatedBackend) Close() error               { return b.inner.Close() }

// flockWaiterSeen reports whether /proc/locks lists a BLOCKED flock request ("-> FLOCK …") on the inode.
// ok=false: /proc/locks cannot be read (then only the bounded wait applies).
func flockWaiterSeen(ino uint64) (seen, ok bool) {
	b, err := os.ReadFile("/proc/locks")
	if err != nil {
		return false, false
	}
	suffix := ":" + strconv.FormatUint(ino, 10)
	for _, l := range strings.Split(string(b), "\n") {
		f := strings.Fields(l)
		// "<n>: -> FLOCK ADVISORY WRITE <pid> <maj>:<min>:<ino> <start> <end>"
		if len(f) >= 7 && f[1] == "->" && f[2] == "FLOCK" && strings.HasSuffix(f[6], suffix) {
			return true, true
		}
	}
	return false, true
}

// lifeTmpBase: the scenario directories live on tmpfs when there is one – every Put of the directory back end
// fsyncs, which costs tens of milliseconds per call on a busy disk and nothing there; flock(2), inodes and
// /proc/locks are the same VFS machinery on both.
func lifeTmpBase() string {
	if fi, err := os.Stat("/dev/shm"); err == nil && fi.IsDir() {
		if f, err := os.CreateTemp("/dev/shm", "verif-probe-"); err == nil {
			f.Close()
			os.Remove(f.Name())
			return "/dev/shm"
		}
	}
	return ""
}

type lifeHandle struct {
	be   *gatedBackend
	ks   api.MutableKeyStore
	open bool
	ino  uint64
}

type lifeResult struct {
	out        string
	uFinished  bool // u's AddKey returned while s was still held
	waiterSeen bool // s was released because u was seen blocked in flock(2)
	waited     time.Duration
}

func lockLifeClasses(hs []*lifeHandle) string {
	var seen []uint64
	var out []string
	for _, h := range hs {
		k := -1
		for i, x := range seen {
			if x == h.ino {
				k = i
			}
		}
		if k < 0 {
			k = len(seen)
			seen = append(seen, h.ino)
		}
		out = append(out, strconv.Itoa(k))
	}
	if len(out) == 0 {
		return "-"
	}
	return strings.Join(out, ",")
}

// runLockLife executes the op; maxWait bounds how long s is held when u can be seen neither acquiring nor waiting.
func runLockLife(hist, sa, ua string, maxWait time.Duration) lifeResult {
	fail := func(f string, a ...any) lifeResult { return lifeResult{out: "harness-error:" + strings.ReplaceAll(fmt.Sprintf(f, a...), " ", "_")} }
	pair := func(x string) (int, int, bool) {
		f := strings.Split(x, ".")
		if len(f) != 2 {
			return 0, 0, false
		}
		a, e1 := strconv.Atoi(f[0])
		b, e2 := strconv.Atoi(f[1])
		return a, b, e1 == nil && e2 == nil
	}
	s, dS, ok1 := pair(sa)
	u, dU, ok2 := pair(ua)
	if !ok1 || !ok2 || s == u {
		return lifeResult{out: "bad-args"}
	}
	tmp, err := os.MkdirTemp(lifeTmpBase(), "verif-c17l-")
	if err != nil {
		panic("harness: " + err.Error())
	}
	defer os.RemoveAll(tmp)
	root := filepath.Join(tmp, "ks")
	lockPath := filepath.Join(root, ".lock")
	w := newWorld(encKey, sigKey, []string{lockLifeRing})
	var hs []*lifeHandle
	var pins []*os.File
	defer func() {
		for _, h := range hs {
			if h.open {
				h.ks.Close()
			}
		}
		for _, p := range pins {
			p.Close()
		}
	}()
	get := func(k int) *lifeHandle {
		if k < 0 || k >= len(hs) || !hs[k].open {
			return nil
		}
		return hs[k]
	}
	var toks []string
	if hist != "-" {
		toks = strings.Split(hist, ",")
	}
	for _, tok := range toks {
		body := tok[1:]
		switch tok[0] {
		case 'o', 'p':
			var inner *backend.DirectoryBackend
			if tok[0] == 'o' {
				inner, err = backend.CreateDirectoryBackend(root)
			} else {
				inner, err = backend.OpenDirectoryBackend(root)
			}
			if err != nil {
				return fail("open: %v", err)
			}
			be := &gatedBackend{inner: inner}
			ks, err := filesystem.CustomKeyStore(be, w.suite())
			if err != nil {
				return fail("keystore: %v", err)
			}
			// the inode the new handle's descriptor refers to = what the path names right now (the history is
			// sequential); pinned so that its number stays taken
			pin, err := os.Open(lockPath)
			if err != nil {
				return fail("pin: %v", err)
			}
			pins = append(pins, pin)
			fi, err := pin.Stat()
			if err != nil {
				return fail("stat: %v", err)
			}
			st, ok := fi.Sys().(*syscall.Stat_t)
			if !ok {
				return fail("no Stat_t")
			}
			hs = append(hs, &lifeHandle{be: be, ks: ks, open: true, ino: uint64(st.Ino)})
		case 'c':
			k, _ := strconv.Atoi(body)
			h := get(k)
			if h == nil {
				return lifeResult{out: "bad-args"}
			}
			h.ks.Close() // KeyStore.Close → DirectoryBackend.Close → fileLock.Close
			h.open = false
		case 'r':
			k, _ := strconv.Atoi(body)
			h := get(k)
			if h == nil {
				return lifeResult{out: "bad-args"}
			}
			h.ks.OpenKeyRing(lockLifeRing) // RLock, Get, RUnlock (the ring may be missing: same cycle)
		case 'w':
			k, d, ok := pair(body)
			h := get(k)
			if !ok || h == nil {
				return lifeResult{out: "bad-args"}
			}
			ring, err := h.ks.OpenKeyRingRW(lockLifeRing)
			if err != nil {
				return fail("w open: %v", err)
			}
			w.register(d, material(d))
			if _, err := ring.AddKey(symDescription(material(d))); err != nil {
				return fail("w add: %v", err)
			}
		default:
			return lifeResult{out: "bad-args"}
		}
	}
	hS, hU := get(s), get(u)
	if hS == nil || hU == nil {
		return lifeResult{out: "bad-args"}
	}
	ringS, err := hS.ks.OpenKeyRingRW(lockLifeRing)
	if err != nil {
		return fail("s open: %v", err)
	}
	ringU, err := hU.ks.OpenKeyRingRW(lockLifeRing)
	if err != nil {
		return fail("u open: %v", err)
	}
	readRing := func() (absRing, bool) {
		b, err := backend.OpenDirectoryBackend(root)
		if err != nil {
			return absRing{}, false
		}
		defer b.Close()
		data, err := b.Get(lockLifeRing + ".keyring")
		if err != nil {
			return absRing{}, false
		}
		return w.decode(lockLifeRing, data)
	}
	before, ok := readRing()
	if !ok {
		return fail("ring before the race unreadable")
	}
	// data 0 = a reader (OpenKeyRing: RLock, Get, RUnlock); otherwise AddKey of that key
	op := func(h *lifeHandle, ring api.MutableKeyRing, d int) error {
		if d == 0 {
			_, err := h.ks.OpenKeyRing(lockLifeRing)
			return err
		}
		_, err := ring.AddKey(symDescription(material(d)))
		return err
	}
	for _, d := range []int{dS, dU} {
		if d != 0 {
			w.register(d, material(d))
		}
	}

	// --- the race: s is held inside its locked section (a writer between its Get and its Put, a reader before its Get)
	res := lifeResult{}
	hS.be.reached, hS.be.proceed = make(chan struct{}), make(chan struct{})
	if dS == 0 {
		hS.be.armedGet.Store(true)
	} else {
		hS.be.armed.Store(true)
	}
	sDone, uDone := make(chan error, 1), make(chan error, 1)
	go func() { sDone <- op(hS, ringS, dS) }()
	var sErr, uErr error
	sFinished := false
	select {
	case <-hS.be.reached:
	case sErr = <-sDone:
		sFinished = true // never reached its Put (failed before): nothing is held
	case <-time.After(120 * time.Second):
		return lifeResult{out: "timeout s"}
	}
	uAcq0, uEnt0 := hU.be.acquired.Load(), hU.be.entered.Load()
	go func() { uDone <- op(hU, ringU, dU) }()
	overlap := false
	uFinished := false
	if !sFinished {
		t0 := time.Now()
		var tEnter time.Time // when u was first seen inside Lock(): the bounded wait starts there
	wait:
		for {
			if tEnter.IsZero() && hU.be.entered.Load() > uEnt0 {
				tEnter = time.Now()
			}
			if hU.be.acquired.Load() > uAcq0 && hS.be.inCS.Load() {
				overlap = true // u is inside its exclusive section while s is inside its own
				break
			}
			select {
			case uErr = <-uDone:
				uFinished = true
				overlap = hU.be.acquired.Load() > uAcq0
				break wait
			default:
			}
			if seen, _ := flockWaiterSeen(hS.ino); seen {
				res.waiterSeen = true
				break
			}
			if (!tEnter.IsZero() && time.Since(tEnter) > maxWait) || time.Since(t0) > 10*time.Second {
				break
			}
			time.Sleep(300 * time.Microsecond)
		}
		if overlap && !uFinished {
			// let u run to its end while s is still held, so that the consequence (lost update) is deterministic
			select {
			case uErr = <-uDone:
				uFinished = true
			case <-time.After(10 * time.Second):
			}
		}
		res.waited = time.Since(t0)
		res.uFinished = uFinished
		close(hS.be.proceed)
	}
	deadline := time.After(120 * time.Second)
	if !sFinished {
		select {
		case sErr = <-sDone:
		case <-deadline:
			return lifeResult{out: "timeout s-finish"}
		}
	}
	if !uFinished {
		select {
		case uErr = <-uDone:
		case <-deadline:
			return lifeResult{out: "timeout u-finish"}
		}
	}
	final, ok := readRing()
	fin := "UNVERIFIED"
	if ok {
		fin = final.String()
	}
	b2s := func(e error) string {
		if e == nil {
			return "1"
		}
		return "0"
	}
	ov := 0
	if overlap {
		ov = 1
	}
	res.out = fmt.Sprintf("ino %s ring %s overlap=%d res %s %s final %s", lockLifeClasses(hs), before.String(), ov, b2s(sErr), b2s(uErr), fin)
	return res
}

// lastLife keeps the side observations of the most recent C17.locklife op (evidence only; single-threaded use)
var lastLife lifeResult

func init() {
	// C17.locklife <history> <s>.<dataS> <u>.<dataU>
	core.Register("C17.locklife", func(a []string) string {
		if len(a) != 3 {
			return "bad-args"
		}
		lastLife = runLockLife(a[0], a[1], a[2], 400*time.Millisecond)
		return lastLife.out
	})
}

// ---------- generator + oracle ----------

type lifeCase struct {
	hist   []string
	s, u   int
	procs  bool // every handle in its own OS process (locklife_procs.go)
	sReads bool // s is a reader (held before its Get under the shared lock) instead of a writer
	uReads bool
}

func (c lifeCase) line() string {
	h := "-"
	if len(c.hist) > 0 {
		h = strings.Join(c.hist, ",")
	}
	op := "C17.locklife"
	if c.procs {
		op = "C17.locklifeP"
	}
	dS, dU := 90, 91
	if c.sReads {
		dS = 0
	}
	if c.uReads {
		dU = 0
	}
	return fmt.Sprintf("%s %s %d.%d %d.%d", op, h, c.s, dS, c.u, dU)
}

// genLifeCase: a random history of opens / closes / read cycles / writes that leaves at least two handles open,
// and two different open handles as the racing writers.
func genLifeCase(rd *core.Rand) lifeCase {
	c := lifeCase{hist: []string{"o"}}
	open := []int{0}
	n := 1
	nextData := 20
	steps := 2 + rd.Intn(8)
	for i := 0; i < steps; i++ {
		x := rd.Intn(100)
		switch {
		case x < 35 || len(open) == 0:
			c.hist = append(c.hist, core.Pick(rd, []string{"o", "p"}))
			open = append(open, n)
			n++
		case x < 65:
			k := rd.Intn(len(open))
			c.hist = append(c.hist, fmt.Sprintf("c%d", open[k]))
			open = append(open[:k], open[k+1:]...)
		case x < 80:
			c.hist = append(c.hist, fmt.Sprintf("r%d", core.Pick(rd, open)))
		default:
			c.hist = append(c.hist, fmt.Sprintf("w%d.%d", core.Pick(rd, open), nextData))
			nextData++
		}
	}
	for len(open) < 2 {
		c.hist = append(c.hist, core.Pick(rd, []string{"o", "p"}))
		open = append(open, n)
		n++
	}
	i := rd.Intn(len(open))
	j := rd.Intn(len(open) - 1)
	if j >= i {
		j++
	}
	c.s, c.u = open[i], open[j]
	// mostly two writers; also writer vs reader, reader vs writer, and two readers (who MAY overlap)
	switch x := rd.Intn(100); {
	case x < 55:
	case x < 75:
		c.uReads = true
	case x < 95:
		c.sReads = true
	default:
		c.sReads, c.uReads = true, true
	}
	return c
}

// the histories the property is about, run first on every run
func lifeCorpus() []lifeCase {
	return []lifeCase{
		// S open, T opened and closed, U opened afterwards: S and U must still exclude each other
		{hist: []string{"o", "o", "c1", "o"}, s: 0, u: 2},
		{hist: []string{"o", "p", "c1", "p"}, s: 2, u: 0},
		// the same with work in between, and with the first handle of the directory being the one that is closed
		{hist: []string{"o", "w0.20", "o", "r1", "c1", "o", "w2.21"}, s: 0, u: 2},
		{hist: []string{"o", "o", "c0", "o", "c1", "p"}, s: 2, u: 3},
		// every handle closed in between: the next ones start from an existing directory
		{hist: []string{"o", "w0.20", "c0", "o", "p"}, s: 1, u: 2},
		// plain: two handles, nothing closed
		{hist: []string{"o", "o"}, s: 0, u: 1},
		// shared vs exclusive after a handle was closed: a reader must wait for the writer, a writer for the reader;
		// two readers share the lock
		{hist: []string{"o", "w0.20", "o", "c1", "o"}, s: 0, u: 2, uReads: true},
		{hist: []string{"o", "w0.20", "o", "c1", "o"}, s: 0, u: 2, sReads: true},
		{hist: []string{"o", "w0.20", "o", "c1", "o"}, s: 2, u: 0, sReads: true, uReads: true},
	}
}

// judgeLockLife is the oracle on the implementation's answer (independent of the model).
func judgeLockLife(r *core.Run, c lifeCase, out string) {
	desc := func(what string) string { return what + "; op line: " + c.line() + " -> " + out }
	f := strings.Fields(out)
	// ino <classes> ring <ring> overlap=<n> res <s> <u> final <ring>
	if len(f) != 10 || f[0] != "ino" || f[2] != "ring" || f[5] != "res" || f[8] != "final" {
		if strings.HasPrefix(out, "timeout") {
			r.Fail("lockfile-deadlock", desc("handles of one key directory did not finish their updates (deadlock / hang)"))
			return
		}
		panic("harness: C17.locklife: " + out + " on " + c.line())
	}
	kind := func(reads bool) string {
		if reads {
			return "reader (shared lock, held before its Get)"
		}
		return "writer (exclusive lock, held between the Get and the Put of its AddKey)"
	}
	if c.sReads && c.uReads {
		// two shared locks are compatible: nothing to demand of `overlap`
	} else {
		r.Check(f[4] == "overlap=0", "lockfile-exclusion",
			desc(fmt.Sprintf("two handles of ONE key directory were inside conflicting locked sections at the same time: handle %d (%s) got the store lock while handle %d, a %s, was held inside its section", c.u, map[bool]string{true: "reader", false: "writer"}[c.uReads], c.s, kind(c.sReads))))
	}
	if f[9] == "UNVERIFIED" {
		r.Fail("partial-read", desc("the final ring does not verify"))
		return
	}
	count := map[string]int{}
	last := 0
	keys := strings.Split(strings.Split(f[9], ";")[0], ",")
	if keys[0] == "-" {
		keys = nil
	}
	for i, k := range keys {
		p := strings.Split(k, ".")
		seq, _ := strconv.Atoi(p[0])
		count[p[2]]++
		if i > 0 {
			r.Check(seq > last, "seqnum-order", desc("sequence numbers not strictly increasing in the final ring"))
		}
		last = seq
	}
	for i, who := range []struct {
		name  string
		data  string
		reads bool
	}{{"S", "90", c.sReads}, {"U", "91", c.uReads}} {
		if who.reads {
			r.Check(f[6+i] == "1", "partial-read", desc(fmt.Sprintf("reader %s could not read the ring (it exists; a ring that does not verify is a partial or foreign write)", who.name)))
			continue
		}
		if f[6+i] == "1" {
			r.Check(count[who.data] == 1, "lockfile-lost-update",
				desc(fmt.Sprintf("the AddKey of writer %s (handle %d) reported success but its key appears %d times in the final ring", who.name, []int{c.s, c.u}[i], count[who.data])))
		} else {
			r.Check(count[who.data] == 0, "failed-op-effect", desc(fmt.Sprintf("the failed AddKey of writer %s left a key in the final ring", who.name)))
		}
	}
	// keys that were in the ring before the race are still there
	before := strings.Split(strings.Split(f[3], ";")[0], ",")
	if before[0] != "-" {
		for _, k := range before {
			r.Check(count[strings.Split(k, ".")[2]] == 1, "keys-vanished", desc("a key stored before the race is not in the final ring exactly once"))
		}
	}
}

// runLockLifeCases: corpus first, then random histories.
func runLockLifeCases(r *core.Run, rd *core.Rand) {
	cases := lifeCorpus()
	n := r.N(30, 500)
	for i := 0; i < n; i++ {
		cases = append(cases, genLifeCase(rd))
	}
	// the same with one OS process per handle: the S/T/U histories of the corpus, then random ones
	for _, c := range lifeCorpus()[:r.N(1, 3)] {
		c.procs = true
		cases = append(cases, c)
	}
	n = r.N(2, 80)
	for i := 0; i < n; i++ {
		c := genLifeCase(rd)
		c.procs = true
		cases = append(cases, c)
	}
	seenWaiter, finishedWhileHeld := 0, 0
	var waited time.Duration
	spent := map[bool]time.Duration{}
	tWarm := time.Now()
	warmLifePool(3)
	warm := time.Since(tWarm)
	defer drainLifePool()
	for i, c := range cases {
		tCase := time.Now()
		line := c.line()
		closes := 0
		for _, t := range c.hist {
			if t[0] == 'c' {
				closes++
			}
		}
		tags := []string{"mode:locklife"}
		if c.procs {
			tags = []string{"mode:locklife-procs"}
		}
		if closes > 0 {
			tags = append(tags, "locklife:handle-closed-before-race")
		}
		tags = append(tags, "locklife:race-"+map[bool]string{false: "writer", true: "reader"}[c.sReads]+"-held-vs-"+map[bool]string{false: "writer", true: "reader"}[c.uReads])
		r.Begin(fmt.Sprintf("locklife:%s#%d", line, i), true, tags...)
		lastLife = lifeResult{}
		out := r.Do(line) // implementation (recorded for the replay) and model
		res := lastLife
		if res.waiterSeen {
			seenWaiter++
		}
		if res.uFinished {
			finishedWhileHeld++
		}
		waited += res.waited
		if strings.HasPrefix(out, "harness-error") || out == "bad-args" {
			panic("harness: C17.locklife: " + out + " on " + line)
		}
		judgeLockLife(r, c, out)
		spent[c.procs] += time.Since(tCase)
	}
	r.Extra["locklife"] = map[string]any{"cases": len(cases), "in_process_s": spent[false].Seconds(), "separate_processes_s": spent[true].Seconds(), "child_pool_start_s": warm.Seconds(), "released_on_seeing_u_blocked_in_flock": seenWaiter,
		"u_finished_while_s_was_held": finishedWhileHeld, "held_ms_total": waited.Milliseconds()}
}
