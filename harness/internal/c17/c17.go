// Package c17: implementation-side ops, generators and oracles for property C17 (concurrent
// keystore writers never lose each other's updates).
//
// The tie is trace validation: real key-store handles run over an instrumented back end that
// records the global order of back-end calls; the recorded order is the schedule the Lean model
// (KeystoreSec/Concurrent.lean, the model the all-schedules theorems are about) replays, and every
// call, every value read or written, every operation outcome and the final rings must coincide.
package c17

import (
	"fmt"
	"time"

	"verifharness/internal/core"
)

func init() { core.RegisterProp("C17", run) }

// exhaustive runs every schedule of the scenario under the deterministic scheduler.
func exhaustive(r *core.Run, sc scenario, tag string, limit int) int {
	script := []int{}
	n := 0
	for {
		o := runScenario(sc, script, true)
		n++
		r.Begin(sc.key()+fmt.Sprint(script), len(o.trace) > 0, "mode:"+tag)
		tagCreation(r, sc)
		r.Diff(o.line, o.impl)
		judge(r, o)
		if o.deadlock {
			return n
		}
		// next script in depth-first order
		full := make([]int, len(o.factors))
		copy(full, script)
		i := len(full) - 1
		for i >= 0 && full[i]+1 >= o.factors[i] {
			i--
		}
		if i < 0 || (limit > 0 && n >= limit) {
			return n
		}
		script = append(full[:i:i], full[i]+1)
	}
}

// tagCreation marks the cases in which at least two handles race to create the same missing ring.
func tagCreation(r *core.Run, sc scenario) {
	for p := range sc.rings {
		if !sc.isMissing(p) {
			continue
		}
		n := 0
		for _, t := range sc.threads {
			if t.path == p && len(t.ops) > 0 && t.ops[0].kind == 'O' {
				n++
			}
		}
		if n >= 2 {
			r.Tag("ring-creation-race")
			return
		}
		r.Tag("ring-creation")
	}
}

var opAlphabet = []opSpec{
	{kind: 'A'}, {kind: 'C', seq: 1}, {kind: 'C', seq: 2}, {kind: 'S', seq: 1, st: 2}, {kind: 'S', seq: 1, st: 4},
	{kind: 'S', seq: 2, st: 5}, {kind: 'D', seq: 1}, {kind: 'D', seq: 2}, {kind: 'S', seq: 1, st: 3},
}

func genOps(rd *core.Rand, n int, nextData *int, maxSeq int) []opSpec {
	var ops []opSpec
	for i := 0; i < n; i++ {
		o := core.Pick(rd, opAlphabet)
		switch o.kind {
		case 'A':
			o.data = *nextData
			*nextData++
		case 'C', 'D':
			o.seq = 1 + rd.Intn(maxSeq)
		case 'S':
			o.seq = 1 + rd.Intn(maxSeq)
			o.st = 1 + rd.Intn(6)
		}
		ops = append(ops, o)
	}
	return ops
}

func genRing(rd *core.Rand) []initKey {
	n := rd.Intn(3)
	var ks []initKey
	for i := 0; i < n; i++ {
		ks = append(ks, initKey{state: core.Pick(rd, []int{1, 1, 2, 3, 4, 5}), current: rd.Chance(40)})
	}
	return ks
}

func genScenario(rd *core.Rand) scenario {
	sc := scenario{}
	nr := 1 + rd.Intn(2)
	for i := 0; i < nr; i++ {
		sc.rings = append(sc.rings, genRing(rd))
	}
	// ring creation: some rings do not exist yet; their writers begin with OpenKeyRingRW
	sc.missing = make([]bool, nr)
	for i := range sc.missing {
		if rd.Chance(30) {
			sc.missing[i] = true
			sc.rings[i] = nil
		}
	}
	nt := 2 + rd.Intn(2)
	next := 10
	for i := 0; i < nt; i++ {
		t := threadSpec{path: rd.Intn(nr)}
		if rd.Chance(25) {
			for k := 0; k < 1+rd.Intn(3); k++ {
				t.ops = append(t.ops, opSpec{kind: 'R'})
			}
		} else {
			t.ops = genOps(rd, 1+rd.Intn(3), &next, 4)
			if sc.missing[t.path] || rd.Chance(10) {
				t.ops = append([]opSpec{{kind: 'O'}}, t.ops...)
			}
		}
		sc.threads = append(sc.threads, t)
	}
	return sc
}

// regression corpus: the races the property is about
func corpus() []scenario {
	a := func(d int) opSpec { return opSpec{kind: 'A', data: d} }
	o := opSpec{kind: 'O'}
	return []scenario{
		// two writers add to the same empty ring with the same stale snapshot (seqnum collision)
		{rings: [][]initKey{{}}, threads: []threadSpec{{0, []opSpec{a(10)}}, {0, []opSpec{a(11), a(12)}}}},
		// rotate = AddKey + SetCurrent by two handles
		{rings: [][]initKey{{{1, true}}}, threads: []threadSpec{{0, []opSpec{a(10), {kind: 'C', seq: 2}}}, {0, []opSpec{a(11), {kind: 'C', seq: 2}}}}},
		// destroy races with a state change of the same key
		{rings: [][]initKey{{{1, false}, {2, true}}}, threads: []threadSpec{{0, []opSpec{{kind: 'D', seq: 1}}}, {0, []opSpec{{kind: 'S', seq: 1, st: 2}}}, {0, []opSpec{{kind: 'R'}, {kind: 'R'}}}}},
		// writers on different rings and a reader
		{rings: [][]initKey{{{2, true}}, {}}, threads: []threadSpec{{0, []opSpec{a(10)}}, {1, []opSpec{a(11)}}, {1, []opSpec{{kind: 'R'}}}}},
		// same on the directory back end
		{dir: true, rings: [][]initKey{{}}, threads: []threadSpec{{0, []opSpec{a(10), {kind: 'C', seq: 1}}}, {0, []opSpec{a(11), {kind: 'D', seq: 1}}}}},
		// ring creation: two handles open the same not yet existing ring for writing and add a key each
		// (the check-then-create of openKeyRing must be atomic: the loser of the race must find the winner's ring)
		{rings: [][]initKey{nil}, missing: []bool{true}, threads: []threadSpec{{0, []opSpec{o, a(10)}}, {0, []opSpec{o, a(11)}}}},
		// create + add + make current against a bare create, and a reader that may see the ring missing
		{rings: [][]initKey{nil}, missing: []bool{true}, threads: []threadSpec{{0, []opSpec{o, a(10), {kind: 'C', seq: 1}}}, {0, []opSpec{o}}, {0, []opSpec{{kind: 'R'}}}}},
		// the same race on the directory back end (flock)
		{dir: true, rings: [][]initKey{nil}, missing: []bool{true}, threads: []threadSpec{{0, []opSpec{o, a(10)}}, {0, []opSpec{o, a(11)}}}},
		// a rotation overtaken by another one: handle 0 adds key 2; handle 1 (fresh view) performs a whole rotation
		// (adds key 3, makes it current); handle 0's SetCurrent(2), prepared from "current is 1", must fail in every
		// schedule in which it commits after handle 1's – the current marker never falls back to the older key
		{rings: [][]initKey{{{1, true}}}, threads: []threadSpec{{0, []opSpec{a(10), {kind: 'C', seq: 2}}}, {0, []opSpec{o, a(11), {kind: 'C', seq: 3}}}}},
		// the same without a current key at the start, on the directory back end
		{dir: true, rings: [][]initKey{{{1, false}}}, threads: []threadSpec{{0, []opSpec{a(10), {kind: 'C', seq: 2}}}, {0, []opSpec{o, a(11), {kind: 'C', seq: 3}}}}},
		// three writers rotating the same ring
		{rings: [][]initKey{{{2, true}}}, threads: []threadSpec{{0, []opSpec{a(10), {kind: 'C', seq: 2}}}, {0, []opSpec{o, a(11), {kind: 'C', seq: 3}}}, {0, []opSpec{o, {kind: 'C', seq: 1}}}}},
		// re-opening an existing ring writes nothing
		{rings: [][]initKey{{{1, true}}}, threads: []threadSpec{{0, []opSpec{o, a(10)}}, {0, []opSpec{a(11), o}}}},
	}
}

func run(r *core.Run) {
	r.Rule = "scenarios = initial rings (0-2 keys in assorted states, or not yet existing) + 2-3 handles (writers with 1-3 operations from add/setCurrent/setState/destroy, preceded by OpenKeyRingRW when the ring does not exist yet, or readers) on the same or different rings over one shared back end; " +
		"lock-file life cycle (mode locklife): a history of 3-12 opens / closes / read cycles / writes of real directory handles on one key directory, then two of the open handles add a key to the same ring at once, the first being held inside its exclusive section; " +
		"modes: exhaustive (every interleaving of back-end calls under a deterministic scheduler), scripted (random schedule), free (real goroutines), procs (one OS process per handle on a shared directory), v1-shared (8 goroutines reading through one v1 handle with cache size 1 / unlimited / off); " +
		"a case is non-trivial when at least one back-end call was made; distinct by scenario + schedule"
	rd := r.Rand.Fork()
	schedules := 0
	// the race-detector build + run of the v1 shared-handle workload proceeds in the background (v1race.go)
	raceJob := startV1Race(r)
	phase := map[string]float64{}
	t0 := time.Now()
	lap := func(name string) {
		phase[name] = float64(int(time.Since(t0).Seconds()*10+0.5)) / 10
		t0 = time.Now()
	}

	// 0. deterministic witness of the cache aliasing defect (repo-patches/05)
	runV1Aliasing(r)
	// 1. corpus, every schedule
	for _, sc := range corpus() {
		schedules += exhaustive(r, sc, "corpus-exhaustive", 0)
	}

	lap("corpus")
	// 2. exhaustive: two writers, every pair of short programs over the alphabet, every schedule
	pairs := 0
	next := 10
	progs := [][]opSpec{}
	for _, o := range opAlphabet {
		progs = append(progs, []opSpec{o})
	}
	nTwo := r.N(6, 40)
	for i := 0; i < nTwo; i++ {
		progs = append(progs, genOps(rd, 2, &next, 3))
	}
	inits := [][]initKey{{}, {{1, false}}, {{2, true}, {1, false}}}
	budget := r.N(250, 6000)
	for pairs < budget {
		p1 := append([]opSpec{}, core.Pick(rd, progs)...)
		p2 := append([]opSpec{}, core.Pick(rd, progs)...)
		d := 10
		for i := range p1 {
			if p1[i].kind == 'A' {
				p1[i].data = d
				d++
			}
		}
		for i := range p2 {
			if p2[i].kind == 'A' {
				p2[i].data = d
				d++
			}
		}
		sc := scenario{rings: [][]initKey{core.Pick(rd, inits)}, threads: []threadSpec{{0, p1}, {0, p2}}}
		if rd.Chance(25) {
			// the same pair of writers on a ring that does not exist yet: "create + program" vs "create + program"
			sc.rings, sc.missing = [][]initKey{nil}, []bool{true}
			sc.threads[0].ops = append([]opSpec{{kind: 'O'}}, p1...)
			sc.threads[1].ops = append([]opSpec{{kind: 'O'}}, p2...)
		}
		n := exhaustive(r, sc, "exhaustive", 0)
		schedules += n
		pairs += n
	}

	lap("exhaustive")
	// 3. random scenarios under a random script, and free-running goroutines
	n := r.N(120, 3000)
	for i := 0; i < n; i++ {
		sc := genScenario(rd)
		sc.dir = rd.Chance(20)
		script := make([]int, 12)
		for k := range script {
			script[k] = rd.Intn(4)
		}
		o := runScenario(sc, script, true)
		r.Begin(sc.key()+fmt.Sprint(script), len(o.trace) > 0, "mode:scripted")
		tagCreation(r, sc)
		r.Diff(o.line, o.impl)
		judge(r, o)
	}
	lap("scripted")
	n = r.N(120, 3000)
	var freeScs []scenario
	var freeKeys []string
	for i := 0; i < n; i++ {
		sc := genScenario(rd)
		sc.dir = rd.Chance(30)
		freeScs = append(freeScs, sc)
		freeKeys = append(freeKeys, sc.key()+fmt.Sprintf("free%d", i))
	}
	runFreeIsolated(r, freeScs, freeKeys) // in child processes: a runtime crash there is an oracle failure
	lap("free")
	// 4. separate processes sharing one directory back end (flock between processes)
	n = r.N(4, 150)
	for i := 0; i < n; i++ {
		sc := genScenario(rd)
		sc.dir = true
		o := runProcs(sc)
		if o.skipped {
			r.Note("procs scenario %d abandoned without verdict: its child processes were not all ready within 120 s (overloaded machine)", i)
			continue
		}
		r.Begin(sc.key()+fmt.Sprintf("procs%d", i), len(o.trace) > 0, "mode:procs")
		tagCreation(r, sc)
		r.Diff(o.line, o.impl)
		judge(r, o)
	}
	lap("procs")
	// 4b. two concurrent imports of the same new ring, every schedule
	runImportRace(r)
	lap("import-race")
	// 4c. the lock file's life cycle: histories of real handles opened and closed on one directory, then two writers
	runLockLifeCases(r, r.Rand.Fork())
	lap("locklife")
	// 5. one v1 handle shared by many goroutines
	runV1Shared(r)
	lap("v1-shared")
	// 6. the same under the Go race detector (cache size 2, 8 goroutines), built and run as a child process
	raceJob.finish(r)
	lap("v1-race-wait")
	r.Extra["phase_s"] = phase
	r.Extra["schedules_enumerated"] = schedules
	r.Exhaustive = true
	r.Note("exhaustive part: every interleaving (at back-end-call granularity) of each enumerated two-writer scenario was executed on the real key store and replayed through the model")
}
