// Package c17: implementation-side ops, generators and oracles for property C17.
package c17
