package c17

import (
	"fmt"
	"strings"

	"github.com/cossacklabs/acra/keystore/v2/keystore/api"
)

// A linearizability check of the implementation's own history, independent of the Lean model.
//
// History = the completed operations of the scenario (per handle in program order, each with the
// success/failure it returned and – where it made back-end calls – the interval of the global trace it
// spans) + the rings found in the back end afterwards. The history is linearizable iff there is a total
// order of the operations that (a) keeps every handle's program order, (b) never puts an operation
// before one that had already returned when it started (real-time order, from the trace intervals), and
// (c) when the operations are executed one at a time in that order by the *sequential specification*
// below, every operation returns what the implementation returned and the rings at the end are the rings
// found in the back end. The search enumerates the orders (2-3 handles with 1-4 operations: at most a few
// thousand, cut at the first wrong result).
//
// Sequential specification (what api.MutableKeyRing promises, with the optimistic concurrency control of a
// handle written out): a handle has a view of its ring – the ring as of the last time the handle went to
// the store. An operation is prepared from the view (AddKey: next sequence number after the view's last
// key; SetCurrent: "replace the current marker I see"; SetState/DestroyKey: "move the key from the state I
// see", rejected at once when the view has no such key or the transition is not allowed) and takes effect
// on the stored ring only when the stored ring still agrees with what the operation was prepared from
// (sequence number unused; current marker as seen; state as seen). Otherwise it fails WITHOUT effect and
// the view becomes the stored ring. Success stores the new ring, which becomes the view. OpenKeyRingRW
// gives the handle a fresh view and creates the ring (empty) when it does not exist; every other operation
// fails on a ring that does not exist. A read-only open succeeds iff the ring exists and concerns no view.

type linOp struct {
	tid, idx   int
	op         opSpec
	ok         bool
	start, end int // positions of the first / last back-end call of the operation in the global trace; -1: none known
}

type linState struct {
	cur    []absRing // stored rings
	view   []absRing // per handle
	opened []bool
	next   []int // per handle: next operation
}

func cloneRing(r absRing) absRing {
	return absRing{keys: append([]absKey{}, r.keys...), current: r.current, missing: r.missing}
}

func (s *linState) clone() *linState {
	c := &linState{opened: append([]bool{}, s.opened...), next: append([]int{}, s.next...)}
	for _, r := range s.cur {
		c.cur = append(c.cur, cloneRing(r))
	}
	for _, r := range s.view {
		c.view = append(c.view, cloneRing(r))
	}
	return c
}

func ringHas(r absRing, seq int) bool {
	for _, k := range r.keys {
		if k.seq == seq {
			return true
		}
	}
	return false
}

// last key with that sequence number (KeyWithSeqnum searches from the end)
func ringFind(r absRing, seq int) int {
	for i := len(r.keys) - 1; i >= 0; i-- {
		if r.keys[i].seq == seq {
			return i
		}
	}
	return -1
}

func sameRing(a, b absRing) bool {
	if a.missing != b.missing {
		return false
	}
	if a.missing {
		return true
	}
	if a.current != b.current || len(a.keys) != len(b.keys) {
		return false
	}
	for i := range a.keys {
		if a.keys[i] != b.keys[i] {
			return false
		}
	}
	return true
}

// relax names the operation kinds whose optimistic check is switched off (prepared from the stored ring
// instead of the handle's view) – used only to *name* what is wrong with a history that is not linearizable
type relax map[byte]bool

// specExec executes one operation of handle tid on ring path p atomically; returns its result
func specExec(s *linState, tid, p int, op opSpec, rx relax) bool {
	cur := &s.cur[p]
	switch op.kind {
	case 'R':
		return !cur.missing
	case 'O':
		if cur.missing {
			*cur = absRing{current: -1}
		}
		s.view[tid] = cloneRing(*cur)
		s.opened[tid] = true
		return true
	}
	if !s.opened[tid] {
		return false
	}
	view := s.view[tid]
	if rx[op.kind] && !cur.missing {
		view = *cur
	}
	fail := func() bool { // went to the store, optimistic check failed: the view is refreshed
		s.view[tid] = cloneRing(*cur)
		return false
	}
	commit := func() bool {
		s.view[tid] = cloneRing(*cur)
		return true
	}
	switch op.kind {
	case 'A':
		seq := 1
		if n := len(view.keys); n > 0 {
			seq = view.keys[n-1].seq + 1
		}
		if cur.missing {
			return false
		}
		if ringHas(*cur, seq) {
			return fail()
		}
		cur.keys = append(cur.keys, absKey{seq: seq, state: 1, data: op.data})
		return commit()
	case 'C':
		old := view.current
		if cur.missing {
			return false
		}
		if cur.current != old || (old != -1 && !ringHas(*cur, old)) || !ringHas(*cur, op.seq) {
			return fail()
		}
		cur.current = op.seq
		return commit()
	case 'S', 'D':
		st := op.st
		if op.kind == 'D' {
			st = int(api.KeyDestroyed)
		}
		i := ringFind(view, op.seq)
		if i < 0 || !api.KeyStateTransitionValid(api.KeyState(view.keys[i].state), api.KeyState(st)) {
			return false // rejected by the handle, no store access
		}
		if cur.missing {
			return false
		}
		j := ringFind(*cur, op.seq)
		if j < 0 || cur.keys[j].state != view.keys[i].state {
			return fail()
		}
		cur.keys = append([]absKey{}, cur.keys...)
		cur.keys[j].state = st
		if op.kind == 'D' {
			cur.keys[j].data = 0
		}
		return commit()
	}
	return false
}

// history extracts the operations with their trace intervals
func (o *outcome) history() (ops [][]linOp, complete bool) {
	complete = true
	ops = make([][]linOp, len(o.sc.threads))
	for i, t := range o.sc.threads {
		if len(o.results[i]) != len(t.ops) {
			complete = false
		}
		for k, op := range t.ops {
			if k >= len(o.results[i]) {
				break
			}
			ops[i] = append(ops[i], linOp{tid: i, idx: k, op: op, ok: o.results[i][k], start: -1, end: -1})
		}
	}
	for pos, rc := range o.trace {
		if rc.op < 0 || rc.tid >= len(ops) || rc.op >= len(ops[rc.tid]) {
			continue
		}
		l := &ops[rc.tid][rc.op]
		if l.start < 0 {
			l.start = pos
		}
		l.end = pos
	}
	return ops, complete
}

type linResult struct {
	ok     bool
	orders int    // complete orders / prefixes explored
	order  string // a witness order when ok
}

func linearize(o *outcome, rx relax) linResult {
	ops, _ := o.history()
	s0 := &linState{}
	for _, r := range o.initial {
		s0.cur = append(s0.cur, cloneRing(r))
	}
	for _, t := range o.sc.threads {
		s0.view = append(s0.view, cloneRing(o.initial[t.path]))
		s0.opened = append(s0.opened, t.preopened())
		s0.next = append(s0.next, 0)
	}
	res := linResult{}
	var witness []string
	var dfs func(s *linState) bool
	dfs = func(s *linState) bool {
		res.orders++
		if res.orders > 200000 {
			return false
		}
		done := true
		for i := range ops {
			if s.next[i] < len(ops[i]) {
				done = false
			}
		}
		if done {
			for p := range s.cur {
				if !sameRing(s.cur[p], o.finals[p]) {
					return false
				}
			}
			return true
		}
		for i := range ops {
			if s.next[i] >= len(ops[i]) {
				continue
			}
			x := ops[i][s.next[i]]
			// real-time order: x cannot come before a pending operation that had returned before x started
			blocked := false
			if x.start >= 0 {
				for j := range ops {
					if j == i {
						continue
					}
					for k := s.next[j]; k < len(ops[j]); k++ {
						if ops[j][k].end >= 0 {
							if ops[j][k].end < x.start {
								blocked = true
							}
							break // later operations of handle j end later still
						}
					}
				}
			}
			if blocked {
				continue
			}
			n := s.clone()
			if specExec(n, i, o.sc.threads[i].path, x.op, rx) != x.ok {
				continue
			}
			n.next[i]++
			witness = append(witness, fmt.Sprintf("%d:%s", i, x.op))
			if dfs(n) {
				return true
			}
			witness = witness[:len(witness)-1]
		}
		return false
	}
	res.ok = dfs(s0)
	if res.ok {
		res.order = strings.Join(witness, " ")
	}
	return res
}

func (o *outcome) historyString() string {
	ops, _ := o.history()
	var sb strings.Builder
	for i, t := range ops {
		fmt.Fprintf(&sb, " handle %d on ring %d:", i, o.sc.threads[i].path)
		for _, x := range t {
			r := "fail"
			if x.ok {
				r = "ok"
			}
			if x.start >= 0 {
				fmt.Fprintf(&sb, " %s=%s@[%d,%d]", x.op, r, x.start, x.end)
			} else {
				fmt.Fprintf(&sb, " %s=%s", x.op, r)
			}
		}
		sb.WriteString(";")
	}
	sb.WriteString(" initial")
	for _, r := range o.initial {
		sb.WriteString(" " + r.String())
	}
	sb.WriteString(" final")
	for _, r := range o.finals {
		sb.WriteString(" " + r.String())
	}
	return sb.String()
}

// judgeLinearizable: (i) the current marker at the end is the one set by the LAST committed successful
// SetCurrent of the ring (commit = its rename, in trace order); (ii) the history is linearizable. A history
// that is not, but would be if the optimistic check of one kind of operation were switched off, is named
// after that kind: a stale operation succeeded where the specification says it must fail.
func judgeLinearizable(r checker, o *outcome) {
	ops, complete := o.history()
	if !complete || o.deadlock || len(o.panics) > 0 {
		return
	}
	for _, t := range o.sc.threads {
		if t.preopened() && o.initial[t.path].missing {
			return // the harness itself created the ring while opening the handle: initial state not observed
		}
	}
	desc := func(what string) string { return what + " in scenario " + o.sc.key() + ":" + o.historyString() }

	// (i) last committed SetCurrent wins
	lastC := map[int]int{}
	seen := map[int]bool{}
	for _, rc := range o.trace {
		if rc.kind != "N" || !rc.ok || rc.op < 0 || rc.tid >= len(ops) || rc.op >= len(ops[rc.tid]) {
			continue
		}
		x := ops[rc.tid][rc.op]
		if x.op.kind == 'C' && x.ok {
			p := o.sc.threads[rc.tid].path
			lastC[p], seen[p] = x.op.seq, true
		}
	}
	for p, fin := range o.finals {
		want := o.initial[p].current
		if seen[p] {
			want = lastC[p]
		}
		if !fin.missing {
			r.Check(fin.current == want, "current-not-last-committed", desc(fmt.Sprintf("ring %d: the current marker is %d at the end but the last committed SetCurrent (or the initial ring) says %d", p, fin.current, want)))
		}
	}

	// (ii) linearizability
	res := linearize(o, nil)
	if res.ok || res.orders > 200000 {
		return
	}
	class := "not-linearizable:unexplained"
	for _, k := range []struct {
		kind byte
		name string
	}{{'C', "setcurrent-stale"}, {'A', "addkey-stale"}, {'S', "setstate-stale"}, {'D', "destroy-stale"}} {
		if rr := linearize(o, relax{k.kind: true}); rr.ok {
			class = "not-linearizable:" + k.name
			break
		}
	}
	r.Fail(class, desc(fmt.Sprintf("no sequential order of the completed operations (%d partial orders tried, program order and real-time order kept) explains the results and the final rings", res.orders)))
}
