package c05

// C05.mysession: the REAL MySQL proxy object (decryptor/mysql.Handler.ProxyClientConnection) driven
// over in-memory pipes with the real AcraCensor: per COM_QUERY / COM_STMT_PREPARE whether the packet
// reached the database side byte-identically (F) or the client got an ERR packet and the database
// nothing (E).

import (
	"bytes"
	"context"
	"io"
	"net"
	"strings"
	"time"

	acracensor "github.com/cossacklabs/acra/acra-censor"
	"github.com/cossacklabs/acra/decryptor/base"
	"github.com/cossacklabs/acra/decryptor/mysql"
	encconfig "github.com/cossacklabs/acra/encryptor/base/config"
	"github.com/cossacklabs/acra/sqlparser"

	"verifharness/internal/core"
)

func myPacket(seq byte, payload []byte) []byte {
	n := len(payload)
	return append([]byte{byte(n), byte(n >> 8), byte(n >> 16), seq}, payload...)
}

func completeMy(b []byte) bool {
	for len(b) > 0 {
		if len(b) < 4 {
			return false
		}
		n := int(b[0]) | int(b[1])<<8 | int(b[2])<<16
		if len(b) < 4+n {
			return false
		}
		b = b[4+n:]
	}
	return true
}

type myDriver struct {
	clientW  net.Conn
	dbSink   *sink
	cliSink  *sink
	errCh    chan base.ProxyError
	cancel   context.CancelFunc
	closers  []io.Closer
	procDone chan struct{}
}

func newMyDriver(censor acracensor.AcraCensorInterface) (*myDriver, error) {
	ctx, cancel := context.WithCancel(context.Background())
	cliHarness, cliProxy := net.Pipe()
	dbProxy, dbHarness := net.Pipe()
	sess := &fakeSession{ctx: ctx, client: cliProxy, db: dbProxy, data: map[string]interface{}{}}
	schema, err := encconfig.NewMapTableSchemaStore()
	if err != nil {
		cancel()
		return nil, err
	}
	parser := sqlparser.New(sqlparser.ModeStrict)
	setting := base.NewProxySetting(parser, schema, nil, nil, censor, nil)
	h, err := mysql.NewMysqlProxy(sess, parser, setting)
	if err != nil {
		cancel()
		return nil, err
	}
	d := &myDriver{clientW: cliHarness, errCh: make(chan base.ProxyError, 4), cancel: cancel,
		closers: []io.Closer{cliHarness, cliProxy, dbProxy, dbHarness}, procDone: make(chan struct{})}
	d.dbSink = newSink(dbHarness)
	d.cliSink = newSink(cliHarness)
	go func() {
		h.ProxyClientConnection(ctx, d.errCh)
		close(d.procDone)
	}()
	return d, nil
}

func (d *myDriver) close() {
	d.cancel()
	for _, c := range d.closers {
		c.Close()
	}
	select {
	case <-d.procDone:
	case <-time.After(2 * time.Second):
	}
}

func (d *myDriver) send(msg []byte) string {
	d.dbSink.take()
	d.cliSink.take()
	if _, err := d.clientW.Write(msg); err != nil {
		return "X"
	}
	deadline := time.Now().Add(5 * time.Second)
	for time.Now().Before(deadline) {
		db := d.dbSink.snapshot()
		cl := d.cliSink.snapshot()
		if len(db) > 0 && completeMy(db) {
			if !bytes.Equal(db, msg) {
				return "M"
			}
			if len(cl) != 0 {
				return "X"
			}
			return "F"
		}
		if len(cl) > 4 && completeMy(cl) {
			if cl[4] == 0xff && len(d.dbSink.snapshot()) == 0 {
				return "E"
			}
			return "X"
		}
		select {
		case <-d.procDone:
			return "X"
		case <-d.errCh:
			return "X"
		case <-time.After(200 * time.Microsecond):
		}
	}
	return "X"
}

// C05.mysession <cfg tokens> <n> ev…   ev = q:<stmt token> (COM_QUERY) | s:<stmt token> (COM_STMT_PREPARE)   → ok F|E|M|X …
func opMySession(a []string) string {
	cfg, i := parseCfgArgs(a)
	n := core.Atoi(a[i])
	evs := a[i+1 : i+1+n]
	censor, err := newCensor(yamlOf(cfg))
	if err != nil {
		return "cfgerr"
	}
	defer cleanupFiles(cfg)
	defer censor.ReleaseAll()
	d, err := newMyDriver(censor)
	if err != nil {
		return core.Err
	}
	defer d.close()
	// handshake response: CLIENT_PROTOCOL_41 | CLIENT_SECURE_CONNECTION, no SSL
	hs := make([]byte, 32)
	hs[0], hs[1] = 0x00, 0x82
	hs = append(hs, []byte("u\x00\x00")...)
	if r := d.send(myPacket(1, hs)); r != "F" {
		return "err handshake-" + r
	}
	var out []string
	for _, ev := range evs {
		cmd := byte(0x03)
		if strings.HasPrefix(ev, "s:") {
			cmd = 0x16
		} else if !strings.HasPrefix(ev, "q:") {
			panic("harness: bad session event " + ev)
		}
		r := d.send(myPacket(0, append([]byte{cmd}, []byte(rawOf(ev[2:]))...)))
		out = append(out, r)
		if r == "X" {
			break
		}
	}
	return "ok " + strings.Join(out, " ")
}

func init() { core.Register("C05.mysession", opMySession) }
