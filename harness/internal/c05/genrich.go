package c05

// A second, text-template generator whose only purpose is breadth over NODE KINDS: every struct / named type of
// sqlparser that a comparator of matching_logic.go looks at occurs in its statements (CASE, CAST/CONVERT, COLLATE,
// INTERVAL, SUBSTR, MATCH, GROUP_CONCAT, VALUES(), DEFAULT, NEXT VALUE, unary operators, tuples, list arguments,
// bind variables, index hints, partitions, parenthesised table lists, every join flavour, locks, limits with offset,
// parenthesised unions, INSERT … SET / SELECT / ON DUPLICATE KEY / RETURNING, multi-table DELETE …). The statements
// are generalised on the parse tree (runGeneralise), not textually.

import (
	"strings"

	"verifharness/internal/core"
)

type rich struct {
	r *core.Rand
}

func (g *rich) pick(xs ...string) string { return core.Pick(g.r, xs) }

func (g *rich) lit() string {
	switch g.r.Intn(14) {
	case 0, 1, 2:
		return itoa(g.r.Intn(1000))
	case 3, 4:
		return "'" + core.Pick(g.r, strPool) + "'"
	case 5:
		return itoa(g.r.Intn(100)) + "." + itoa(g.r.Intn(100))
	case 6:
		return "null"
	case 7:
		return g.pick("true", "false")
	case 8:
		return g.pick("0x1f", "x'1f'", "b'01'", "1.5e3")
	case 9:
		return g.pick(":v1", ":v2", "?")
	case 10:
		return "'" + core.Pick(g.r, strPool) + "'::text"
	default:
		return itoa(g.r.Intn(10))
	}
}

func (g *rich) col() string {
	c := core.Pick(g.r, colPool)
	if g.r.Chance(25) {
		return core.Pick(g.r, tablePool) + "." + c
	}
	return c
}

func (g *rich) expr(d int) string {
	if d >= 3 {
		if g.r.Bool() {
			return g.col()
		}
		return g.lit()
	}
	switch g.r.Intn(26) {
	case 0, 1, 2:
		return g.col()
	case 3, 4, 5:
		return g.lit()
	case 6:
		return g.pick("count", "lower", "max", "coalesce", "db1.fn") + "(" + g.expr(d+1) + ")"
	case 7:
		return g.pick("count(*)", "now()", "count(distinct a)", "coalesce(a, b, 0)")
	case 8:
		return g.expr(d+1) + " " + g.pick("+", "-", "*", "/", "%", "&", "|", "^", "<<", ">>", "div", "mod") + " " + g.expr(d+1)
	case 9:
		return g.pick("-", "~", "!", "binary ") + g.col()
	case 10:
		return "(" + g.expr(d+1) + ")"
	case 11:
		s := "case"
		if g.r.Bool() {
			s += " " + g.col()
		}
		for i := g.r.Intn(2); i >= 0; i-- {
			s += " when " + g.cond(d+2) + " then " + g.expr(d+2)
		}
		if g.r.Bool() {
			s += " else " + g.expr(d+2)
		}
		return s + " end"
	case 12:
		return "cast(" + g.expr(d+1) + " as " + g.pick("char", "char(10)", "decimal(10, 2)", "signed", "binary(4)", "char(5) character set utf8") + ")"
	case 13:
		return "convert(" + g.expr(d+1) + ", " + g.pick("char", "decimal(8, 3)", "unsigned") + ")"
	case 14:
		return "convert(" + g.expr(d+1) + " using " + g.pick("utf8", "latin1") + ")"
	case 15:
		return g.col() + " collate " + g.pick("utf8_bin", "latin1_general_ci")
	case 16:
		return g.col() + " " + g.pick("+", "-") + " interval " + g.lit() + " " + g.pick("day", "hour", "month")
	case 17:
		if g.r.Bool() {
			return "substr(" + g.col() + " from " + g.lit() + " for " + g.lit() + ")"
		}
		return "substring(" + g.col() + ", " + g.lit() + ")"
	case 18:
		return "group_concat(" + g.pick("", "distinct ") + g.col() + g.pick("", " order by "+g.col()+" desc") + g.pick("", " separator ','") + ")"
	case 19:
		return "(" + g.selectStmt(d+2, false) + ")"
	case 20:
		return "(" + g.expr(d+1) + ", " + g.expr(d+1) + ")"
	default:
		return g.col()
	}
}

func (g *rich) cond(d int) string {
	if d >= 3 {
		return g.col() + " = " + g.lit()
	}
	switch g.r.Intn(20) {
	case 0, 1, 2:
		return g.expr(d+1) + " " + g.pick("=", "<", ">", "<=", ">=", "!=", "<=>", "like", "not like", "regexp") + " " + g.expr(d+1)
	case 3:
		return g.cond(d+1) + " and " + g.cond(d+1)
	case 4:
		return g.cond(d+1) + " or " + g.cond(d+1)
	case 5:
		return "not " + g.cond(d+1)
	case 6:
		return "(" + g.cond(d+1) + ")"
	case 7:
		n := 1 + g.r.Intn(4)
		var xs []string
		for i := 0; i < n; i++ {
			if g.r.Chance(85) {
				xs = append(xs, g.lit())
			} else {
				xs = append(xs, g.expr(d+2))
			}
		}
		return g.col() + " " + g.pick("in", "not in") + " (" + strings.Join(xs, ", ") + ")"
	case 8:
		return g.col() + " in (" + g.selectStmt(d+2, false) + ")"
	case 9:
		return g.pick("exists", "not exists") + " (" + g.selectStmt(d+2, false) + ")"
	case 10:
		return g.col() + " " + g.pick("between", "not between") + " " + g.lit() + " and " + g.lit()
	case 11:
		return g.col() + " is " + g.pick("null", "not null", "true", "not true", "false")
	case 12:
		return g.col() + " like " + g.lit() + " escape '!'"
	case 13:
		return "match(" + g.col() + ", " + g.col() + ") against (" + g.lit() + g.pick("", " in boolean mode", " in natural language mode") + ")"
	case 14:
		return g.col() + " in " + g.pick("::list", "::ids")
	case 15:
		return "(" + g.col() + ", " + g.col() + ") in ((" + g.lit() + ", " + g.lit() + "), (" + g.lit() + ", " + g.lit() + "))"
	default:
		return g.col() + " = " + g.lit()
	}
}

func (g *rich) simpleTable() string {
	t := core.Pick(g.r, tablePool)
	if g.r.Chance(12) {
		t = "db1." + t
	}
	if g.r.Chance(12) {
		t += " partition (" + g.pick("p0", "p0, p1") + ")"
	}
	if g.r.Chance(25) {
		t += g.pick(" as ", " ") + g.pick("x", "y", "z")
	}
	if g.r.Chance(12) {
		t += " " + g.pick("use", "ignore", "force") + " index (" + g.pick("i1", "i1, i2") + ")"
	}
	return t
}

func (g *rich) tableExpr(d int) string {
	if d >= 2 {
		return g.simpleTable()
	}
	switch g.r.Intn(12) {
	case 0, 1:
		j := g.pick("join", "inner join", "cross join", "straight_join", "left join", "right join", "left outer join")
		s := g.tableExpr(d+1) + " " + j + " " + g.simpleTable()
		switch g.r.Intn(3) {
		case 0:
			s += " on " + g.cond(2)
		case 1:
			s += " using (" + g.pick("id", "id, a") + ")"
		default:
			if strings.Contains(j, "left") || strings.Contains(j, "right") {
				s += " on " + g.cond(2)
			}
		}
		return s
	case 2:
		return g.simpleTable() + " " + g.pick("natural join", "natural left join") + " " + g.simpleTable()
	case 3:
		return "(" + g.simpleTable() + ", " + g.simpleTable() + ")"
	case 4:
		return "(" + g.selectStmt(d+2, false) + ") as " + g.pick("d1", "d2")
	default:
		return g.simpleTable()
	}
}

func (g *rich) selectStmt(d int, top bool) string {
	var b strings.Builder
	b.WriteString("select ")
	if top && g.r.Chance(8) {
		b.WriteString("/* hint */ ")
	}
	if g.r.Chance(8) {
		b.WriteString(g.pick("sql_no_cache ", "sql_cache "))
	}
	if g.r.Chance(10) {
		b.WriteString("distinct ")
	}
	if g.r.Chance(5) {
		b.WriteString("straight_join ")
	}
	switch g.r.Intn(8) {
	case 0:
		b.WriteString("*")
	case 1:
		b.WriteString(core.Pick(g.r, tablePool) + ".*")
	default:
		n := 1 + g.r.Intn(3)
		for i := 0; i < n; i++ {
			if i > 0 {
				b.WriteString(", ")
			}
			b.WriteString(g.expr(d + 1))
			if g.r.Chance(20) {
				b.WriteString(g.pick(" as ", " ") + g.pick("c1", "c2", "total"))
			}
		}
	}
	b.WriteString(" from " + g.tableExpr(d))
	if g.r.Chance(15) {
		b.WriteString(", " + g.tableExpr(d+1))
	}
	if g.r.Chance(70) {
		b.WriteString(" where " + g.cond(d))
	}
	if g.r.Chance(15) {
		b.WriteString(" group by " + g.col())
		if g.r.Chance(30) {
			b.WriteString(", " + g.col())
		}
		if g.r.Chance(40) {
			b.WriteString(" having count(" + g.col() + ") > " + g.lit())
		}
	}
	if g.r.Chance(20) {
		b.WriteString(" order by " + g.expr(2) + g.pick("", " asc", " desc"))
		if g.r.Chance(30) {
			b.WriteString(", " + g.col() + g.pick("", " desc"))
		}
	}
	if g.r.Chance(20) {
		b.WriteString(" limit " + g.pick(itoa(1+g.r.Intn(50)), itoa(g.r.Intn(9))+", "+itoa(1+g.r.Intn(50)), itoa(1+g.r.Intn(50))+" offset "+itoa(g.r.Intn(9)), "?"))
	}
	if top && g.r.Chance(8) {
		b.WriteString(g.pick(" for update", " lock in share mode"))
	}
	return b.String()
}

func (g *rich) assignments() string {
	n := 1 + g.r.Intn(3)
	var xs []string
	for i := 0; i < n; i++ {
		v := g.expr(1)
		if g.r.Chance(10) {
			v = "default"
		}
		xs = append(xs, g.col()+" = "+v)
	}
	return strings.Join(xs, ", ")
}

// statement returns a DML statement and its kind.
func (g *rich) statement() (string, string) {
	switch k := g.r.Intn(20); {
	case k < 7:
		return g.selectStmt(0, true), "select"
	case k < 8:
		return "select next " + g.pick("value", "5 values", ":n values") + " from " + g.pick("seq", "db1.seq"), "select"
	case k < 11:
		l, r := g.selectStmt(1, false), g.selectStmt(1, false)
		if g.r.Chance(30) {
			l = "(" + l + ")"
		}
		if g.r.Chance(30) {
			r = "(" + r + ")"
		}
		s := l + " " + g.pick("union", "union all", "union distinct") + " " + r
		if g.r.Chance(25) {
			s += " union " + g.selectStmt(2, false)
		}
		if g.r.Chance(25) {
			s += " order by " + g.col()
		}
		if g.r.Chance(25) {
			s += " limit " + itoa(1+g.r.Intn(9))
		}
		return s, "union"
	case k < 15:
		s := g.pick("insert", "insert", "replace", "insert ignore") + " " + g.pick("into ", "into ", "") + g.pick("t1", "users", "db1.orders", "secret")
		if g.r.Chance(10) {
			s += " partition (p0)"
		}
		n := 1 + g.r.Intn(3)
		cols := "(" + strings.Join(colPool[:n], ", ") + ")"
		row := func() string {
			var xs []string
			for i := 0; i < n; i++ {
				switch {
				case g.r.Chance(8):
					xs = append(xs, "default")
				case g.r.Chance(15):
					xs = append(xs, g.expr(2))
				default:
					xs = append(xs, g.lit())
				}
			}
			return "(" + strings.Join(xs, ", ") + ")"
		}
		switch g.r.Intn(8) {
		case 0:
			s += " " + cols + " " + g.selectStmt(1, false)
		case 1:
			s += " " + cols + " (" + g.selectStmt(1, false) + " union " + g.selectStmt(2, false) + ")"
		case 2:
			s += " " + g.selectStmt(1, false) + " union all " + g.selectStmt(2, false)
		case 3:
			s += " set " + g.assignments()
		case 4:
			s += " values " + row()
		default:
			s += " " + cols + " values " + row()
			for g.r.Chance(30) {
				s += ", " + row()
			}
		}
		if g.r.Chance(15) {
			s += " on duplicate key update " + g.col() + " = " + g.pick("values("+core.Pick(g.r, colPool)+")", g.lit(), g.expr(2))
		}
		if g.r.Chance(10) && !strings.HasPrefix(s, "replace") {
			s += " returning " + g.pick("*", "id", "id, a")
		}
		return s, "insert"
	case k < 18:
		s := "update " + g.pick("", "/* c */ ") + g.simpleTable()
		if g.r.Chance(10) {
			s += " join " + g.simpleTable() + " on " + g.cond(2)
		}
		s += " set " + g.assignments()
		if g.r.Chance(80) {
			s += " where " + g.cond(0)
		}
		if g.r.Chance(15) {
			s += " order by " + g.col()
		}
		if g.r.Chance(15) {
			s += " limit " + itoa(1+g.r.Intn(9))
		}
		return s, "update"
	default:
		var s string
		switch g.r.Intn(6) {
		case 0:
			s = "delete " + g.pick("t1", "t1, t2") + " from t1 join t2 on t1.id = t2.id"
		case 1:
			s = "delete from t1 using t1, t2"
		default:
			s = "delete from " + core.Pick(g.r, tablePool)
			if g.r.Chance(10) {
				s += " partition (p0)"
			}
		}
		if g.r.Chance(85) {
			s += " where " + g.cond(0)
		}
		if strings.HasPrefix(s, "delete from") && !strings.Contains(s, "using") {
			if g.r.Chance(15) {
				s += " order by " + g.col()
			}
			if g.r.Chance(15) {
				s += " limit " + itoa(1+g.r.Intn(9))
			}
			if g.r.Chance(10) {
				s += " returning " + g.pick("*", "id")
			}
		}
		return s, "delete"
	}
}

// statements of the kinds that are compared with reflect.DeepEqual (no placeholders): only the statement's own text matches
var miscStatements = []string{
	"set a = 1", "set names utf8", "set session x = 'y', z = 2",
	"create database d1", "drop database d1", "drop database if exists d1",
	"create table t1 (a int)", "create table t1 (a int not null default 3, b varchar(10), primary key (a))", "drop table t1", "alter table t1 add column b int", "truncate table t1", "rename table t1 to t2",
	"show tables", "show databases", "show tables from d1 like 'x%'", "show create table t1",
	"use d1", "begin", "start transaction", "commit", "rollback",
	"explain select 1", "describe t1", "repair table t1", "optimize table t1", "analyze table t1",
}
