package c05

// Table rules on join chains: FROM clauses built from 2–4 plain tables with every nesting of JOIN / parenthesised
// join / comma list, and table sets with mixed membership. For plain tables the documented meaning of
// CheckTableNamesMatch is (some table of the statement is in the set, all of them are) – computed here from the list
// of tables, independently of the tree walk.

import (
	"fmt"
	"strings"

	"verifharness/internal/core"
)

type fromGen struct {
	r      *core.Rand
	leaves []string
	names  []string
}

func (g *fromGen) leaf() string {
	t := g.names[len(g.leaves)%len(g.names)]
	g.leaves = append(g.leaves, t)
	return t
}

// expr builds a table expression with exactly n leaves.
func (g *fromGen) expr(n int) string {
	if n == 1 {
		return g.leaf()
	}
	k := 1 + g.r.Intn(n-1)
	j := core.Pick(g.r, []string{"join", "inner join", "left join", "straight_join"})
	switch g.r.Intn(3) {
	case 0: // left-nested chain
		l := g.expr(n - 1)
		last := g.leaves[len(g.leaves)-1]
		r := g.leaf()
		return l + " " + j + " " + r + " on " + last + ".id = " + r + ".id"
	case 1: // right operand parenthesised
		l := g.expr(k)
		a := g.leaves[len(g.leaves)-1]
		r := g.expr(n - k)
		b := g.leaves[len(g.leaves)-1]
		if n-k > 1 {
			r = "(" + r + ")"
		}
		return l + " " + j + " " + r + " on " + a + ".id = " + b + ".id"
	default: // parenthesised list
		l := g.expr(k)
		r := g.expr(n - k)
		return "(" + l + ", " + r + ")"
	}
}

func runJoinChains(r *core.Run) {
	n := r.N(60, 600)
	for i := 0; i < n; i++ {
		rnd := r.Rand.Fork()
		g := &fromGen{r: rnd}
		// distinct names in random order
		perm := append([]string(nil), tablePool...)
		for a := len(perm) - 1; a > 0; a-- {
			b := rnd.Intn(a + 1)
			perm[a], perm[b] = perm[b], perm[a]
		}
		g.names = perm
		nl := 2 + rnd.Intn(3)
		from := g.expr(nl)
		if rnd.Chance(25) {
			from += ", " + g.leaf()
		}
		raw := "select * from " + from + " where " + g.leaves[0] + ".a = 1"
		st := stmtToken(raw)
		if strings.HasSuffix(st, "/!") {
			r.Begin("gen-unparsed:"+raw, false, "generator-unparsed")
			r.Note("join-chain generator produced a statement the parser rejects: %s", raw)
			continue
		}
		// table set with mixed membership: a random non-empty subset of the statement's tables, sometimes plus strangers
		var set []string
		in := map[string]bool{}
		for _, t := range g.leaves {
			if rnd.Chance(50) {
				set = append(set, t)
				in[t] = true
			}
		}
		if len(set) == 0 || rnd.Chance(20) {
			t := perm[len(perm)-1]
			set = append(set, t)
			in[t] = true
		}
		any, all := false, true
		for _, t := range g.leaves {
			if in[t] {
				any = true
			} else {
				all = false
			}
		}
		toks := []string{fmt.Sprint(len(set))}
		for _, t := range set {
			toks = append(toks, hx(t))
		}
		r.Begin("joins:"+strings.Join(set, ",")+"|"+raw, true, "tables-join-chain", fmt.Sprintf("leaves:%d", len(g.leaves)), fmt.Sprintf("any:%v,all:%v", any, all))
		out := r.Do("C05.tables " + strings.Join(toks, " ") + " " + st)
		r.Check(out == fmt.Sprintf("%v %v", any, all), "table-rule-direct", fmt.Sprintf("CheckTableNamesMatch(`%s`, %v) => %s, want %v %v (tables of the statement: %v)", raw, set, out, any, all, g.leaves))
		deny := cspec{hs: []hspec{{kind: "D", tables: set}}}
		v := r.Do("C05.handle " + deny.tokens() + " " + st)
		want := "allow"
		if any {
			want = "deny"
		}
		r.Check(v == want, "table-rule-direct", fmt.Sprintf("deny tables %v: `%s` => %s, want %s", set, raw, v, want))
		allow := cspec{hs: []hspec{{kind: "A", tables: set}, {kind: "DA"}}}
		v = r.Do("C05.handle " + allow.tokens() + " " + st)
		want = "deny"
		if all {
			want = "allow"
		}
		r.Check(v == want, "table-rule-direct", fmt.Sprintf("allow tables %v then denyall: `%s` => %s, want %s", set, raw, v, want))
	}
}
