package c05

// runGeneralise: the tie of the closed theorem `match_generalise` (lean/AcraModel/Props/C05.lean).
//   * every statement tree shipped to the model is checked against the typing judgement (`C05.typed`: the
//     hypothesis `WellTyped` of the theorem holds for what the real parser + reflection dump produce);
//   * `generalise` of the model is compared node by node with the same generalisation carried out on the real
//     parse tree (`C05.gen`), for σ = ∅, every single applicable position and random subsets;
//   * the real matcher must accept (generalised tree, statement) – oracle `pattern-self-mismatch`;
//   * per-node-kind counts of the generated statements against the kinds of the comparator table.

import (
	"fmt"
	"sort"
	"strings"

	"verifharness/internal/core"
)

func countKinds(tok string, counts map[string]int) {
	// <rawhex>/<normhex>/<tree>
	parts := strings.SplitN(tok, "/", 3)
	if len(parts) != 3 {
		return
	}
	for _, t := range strings.Split(parts[2], ",") {
		if strings.HasPrefix(t, "N") {
			counts[t[1:strings.Index(t, ":")]]++
		}
	}
}

func runGeneralise(r *core.Run) {
	tableKinds := strings.Split(r.ModelOnly("C05.tablekinds"), ",")
	counts := map[string]int{}
	typedOK, typedBad, unparsed := 0, 0, 0
	n := r.N(130, 1500)
	for i := 0; i < n; i++ {
		rnd := r.Rand.Fork()
		var raw, kind string
		if i%4 == 0 {
			s := genStatement(rnd)
			raw, kind = renderStmt(s, nil, plainStyle, rnd), s.kind
		} else {
			raw, kind = (&rich{r: rnd}).statement()
		}
		st := stmtToken(raw)
		if strings.HasSuffix(st, "/!") {
			unparsed++
			r.Begin("gen-unparsed:"+raw, false, "generator-unparsed")
			r.Note("generator produced a statement the parser rejects: %s", raw)
			continue
		}
		countKinds(st, counts)
		r.Begin("typed:"+raw, true, "typed", "stmt:"+kind)
		if t := r.ModelOnly("C05.typed " + st); r.Check(t == "ok true true", "tree-ill-typed", "the reflection dump of `"+raw+"` is not a well-typed DML tree for the model: "+t) {
			typedOK++
		} else {
			typedBad++
		}
		pos := r.ModelOnly("C05.positions " + st)
		var ps []string
		if pos != "-" {
			ps = strings.Split(pos, ",")
		}
		sigmas := []string{"-"}
		// every single position (a sample in the quick tier)
		singles := ps
		if !r.Thorough() && len(singles) > 20 {
			off := rnd.Intn(len(singles))
			var pickd []string
			for j := 0; j < 20; j++ {
				pickd = append(pickd, singles[(off+j*7)%len(singles)])
			}
			singles = pickd
		}
		sigmas = append(sigmas, singles...)
		// random subsets
		if len(ps) > 1 {
			for k := r.N(6, 16); k > 0; k-- {
				m := 2 + rnd.Intn(6)
				set := map[string]bool{}
				for j := 0; j < m; j++ {
					set[core.Pick(rnd, ps)] = true
				}
				var xs []string
				for x := range set {
					xs = append(xs, x)
				}
				sort.Strings(xs)
				sigmas = append(sigmas, strings.Join(xs, ","))
			}
		}
		seen := map[string]bool{}
		for _, sg := range sigmas {
			if seen[sg] {
				continue
			}
			seen[sg] = true
			tags := []string{"generalise", "stmt:" + kind}
			if sg != "-" {
				for _, e := range strings.Split(sg, ",") {
					tags = append(tags, "act:"+e[strings.Index(e, ":")+1:])
				}
			}
			r.Begin("gen:"+sg+"|"+raw, true, tags...)
			r.Do("C05.gen " + st + " " + sg)
			out := r.Do("C05.genmatch " + st + " " + sg)
			r.Check(out == "true", "pattern-self-mismatch", "generalisation σ="+sg+" of `"+raw+"` (tree level) does not match the statement on the real matcher => "+out)
		}
	}
	// statement kinds compared with reflect.DeepEqual: only their own text matches
	for _, raw := range miscStatements {
		st := stmtToken(raw)
		if strings.HasSuffix(st, "/!") {
			unparsed++
			r.Note("miscStatements: parser rejects `%s`", raw)
			continue
		}
		countKinds(st, counts)
		r.Begin("misc:"+raw, true, "typed", "stmt:other")
		if t := r.ModelOnly("C05.typed " + st); r.Check(t == "ok true false", "tree-ill-typed", "the reflection dump of `"+raw+"` is not well typed for the model: "+t) {
			typedOK++
		} else {
			typedBad++
		}
		out := r.Do("C05.match " + patternToken(raw) + " " + st)
		r.Check(out == "true", "pattern-self-mismatch", "the statement's own text used as a pattern does not match it: "+raw+" => "+out)
	}
	// STREAM: handleStreamStatement is a stub returning false (outside the property's DML quantifier); correspondence only
	if st := stmtToken("stream * from t1"); !strings.HasSuffix(st, "/!") {
		countKinds(st, counts)
		r.Begin("misc:stream", true, "typed", "stmt:other")
		r.Do("C05.match " + patternToken("stream * from t1") + " " + st)
	}
	var never []string
	per := map[string]int{}
	for _, k := range tableKinds {
		per[k] = counts[k]
		if counts[k] == 0 {
			never = append(never, k)
		}
	}
	sort.Strings(never)
	r.Extra["node_kind_counts"] = per
	r.Extra["node_kinds_never_generated"] = never
	r.Extra["other_node_kind_counts"] = func() map[string]int {
		o := map[string]int{}
		for k, c := range counts {
			if _, ok := per[k]; !ok {
				o[k] = c
			}
		}
		return o
	}()
	r.Extra["trees_well_typed"] = fmt.Sprintf("%d of %d (parser rejected %d generated texts)", typedOK, typedOK+typedBad, unparsed)
}
