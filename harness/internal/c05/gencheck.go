package c05

// runGeneralise: the tie of the closed theorem `match_generalise` (lean/AcraModel/Props/C05.lean).
//   * every statement tree shipped to the model is checked against the typing judgement (`C05.typed`: the
//     hypothesis `WellTyped` of the theorem holds for what the real parser + reflection dump produce);
//   * `generalise` of the model is compared node by node with the same generalisation carried out on the real
//     parse tree (`C05.gen`), for σ = ∅, every single applicable position and random subsets;
//   * the real matcher must accept (generalised tree, statement) – oracle `pattern-self-mismatch`;
//   * per-node-kind counts of the generated statements against the kinds of the comparator table.

import (
	"fmt"
	"sort"
	"strings"

	"verifharness/internal/core"
)

func countKinds(tok string, counts map[string]int) {
	// <rawhex>/<normhex>/<tree>
	parts := strings.SplitN(tok, "/", 3)
	if len(parts) != 3 {
		return
	}
	for _, t := range strings.Split(parts[2], ",") {
		if strings.HasPrefix(t, "N") {
			counts[t[1:strings.Index(t, ":")]]++
		}
	}
}

func runGeneralise(r *core.Run) {
	tableKinds := strings.Split(r.ModelOnly("C05.tablekinds"), ",")
	// `wellTypedM` folds two things together: the tree conforms to the Go types, and every comparator CALLED on a part
	// of it is a well-typed comparator of the regenerated table. When the table itself is not well typed (a fact theorem
	// of Props/C05.lean fails: reported as a broken obligation, naming the fact) an "ill-typed tree" says nothing about the
	// tree – it would be reported with an unrelated statement as a "failing input". The per-tree check is made only on a
	// table whose facts hold.
	tableOK := r.ModelOnly("C05.tableok") == "true"
	if !tableOK {
		r.Note("the regenerated comparator table violates a table-level fact (fact_comparators_ok / fact_table_typed / fact_switches_typed / fact_comparators_compare_pattern_with_query): the typing judgement is not evaluated on individual trees")
	}
	checkTyped := func(t, want, desc string) bool {
		if !tableOK {
			r.Tag("typed-skipped:table-facts-broken")
			return true
		}
		return r.Check(t == want, "tree-ill-typed", desc+t)
	}
	counts := map[string]int{}
	typedOK, typedBad, unparsed := 0, 0, 0
	n := r.N(130, 1500)
	for i := 0; i < n; i++ {
		rnd := r.Rand.Fork()
		var raw, kind string
		if i%4 == 0 {
			s := genStatement(rnd)
			raw, kind = renderStmt(s, nil, plainStyle, rnd), s.kind
		} else {
			raw, kind = (&rich{r: rnd}).statement()
		}
		st := stmtToken(raw)
		if strings.HasSuffix(st, "/!") {
			unparsed++
			r.Begin("gen-unparsed:"+raw, false, "generator-unparsed")
			r.Note("generator produced a statement the parser rejects: %s", raw)
			continue
		}
		countKinds(st, counts)
		r.Begin("typed:"+raw, true, "typed", "stmt:"+kind)
		if t := r.ModelOnly("C05.typed " + st); checkTyped(t, "ok true true", "the reflection dump of `"+raw+"` is not a well-typed DML tree for the model: ") {
			typedOK++
		} else {
			typedBad++
		}
		pos := r.ModelOnly("C05.positions " + st)
		var ps []string
		if pos != "-" {
			ps = strings.Split(pos, ",")
		}
		sigmas := []string{"-"}
		// every single position (a sample in the quick tier)
		singles := ps
		if !r.Thorough() && len(singles) > 20 {
			off := rnd.Intn(len(singles))
			var pickd []string
			for j := 0; j < 20; j++ {
				pickd = append(pickd, singles[(off+j*7)%len(singles)])
			}
			singles = pickd
		}
		sigmas = append(sigmas, singles...)
		// random subsets
		if len(ps) > 1 {
			for k := r.N(6, 16); k > 0; k-- {
				m := 2 + rnd.Intn(6)
				set := map[string]bool{}
				for j := 0; j < m; j++ {
					set[core.Pick(rnd, ps)] = true
				}
				var xs []string
				for x := range set {
					xs = append(xs, x)
				}
				sort.Strings(xs)
				sigmas = append(sigmas, strings.Join(xs, ","))
			}
		}
		seen := map[string]bool{}
		for _, sg := range sigmas {
			if seen[sg] {
				continue
			}
			seen[sg] = true
			tags := []string{"generalise", "stmt:" + kind}
			if sg != "-" {
				for _, e := range strings.Split(sg, ",") {
					tags = append(tags, "act:"+e[strings.Index(e, ":")+1:])
				}
			}
			r.Begin("gen:"+sg+"|"+raw, true, tags...)
			r.Do("C05.gen " + st + " " + sg)
			out := r.Do("C05.genmatch " + st + " " + sg)
			r.Check(out == "true", "pattern-self-mismatch", "generalisation σ="+sg+" of `"+raw+"` (tree level) does not match the statement on the real matcher => "+out)
		}
	}
	// statement kinds compared with reflect.DeepEqual: only their own text matches
	for _, raw := range miscStatements {
		st := stmtToken(raw)
		if strings.HasSuffix(st, "/!") {
			unparsed++
			r.Note("miscStatements: parser rejects `%s`", raw)
			continue
		}
		countKinds(st, counts)
		r.Begin("misc:"+raw, true, "typed", "stmt:other")
		if t := r.ModelOnly("C05.typed " + st); checkTyped(t, "ok true false", "the reflection dump of `"+raw+"` is not well typed for the model: ") {
			typedOK++
		} else {
			typedBad++
		}
		out := r.Do("C05.match " + patternToken(raw) + " " + st)
		r.Check(out == "true", "pattern-self-mismatch", "the statement's own text used as a pattern does not match it: "+raw+" => "+out)
	}
	// STREAM: handleStreamStatement is a stub returning false (outside the property's DML quantifier); correspondence only
	if st := stmtToken("stream * from t1"); !strings.HasSuffix(st, "/!") {
		countKinds(st, counts)
		r.Begin("misc:stream", true, "typed", "stmt:other")
		r.Do("C05.match " + patternToken("stream * from t1") + " " + st)
	}
	var never []string
	per := map[string]int{}
	for _, k := range tableKinds {
		per[k] = counts[k]
		if counts[k] == 0 {
			never = append(never, k)
		}
	}
	sort.Strings(never)
	r.Extra["node_kind_counts"] = per
	r.Extra["node_kinds_never_generated"] = never
	r.Extra["other_node_kind_counts"] = func() map[string]int {
		o := map[string]int{}
		for k, c := range counts {
			if _, ok := per[k]; !ok {
				o[k] = c
			}
		}
		return o
	}()
	r.Extra["trees_well_typed"] = fmt.Sprintf("%d of %d (parser rejected %d generated texts)", typedOK, typedOK+typedBad, unparsed)
}

// ---- near-miss patterns: one element of a list left out ----

type tokNode struct {
	kind string
	idx  int
	kids []*tokNode
}

func parseTokTree(toks []string, pos *int) *tokNode {
	t := toks[*pos]
	n := &tokNode{idx: *pos, kind: "leaf"}
	*pos++
	if strings.HasPrefix(t, "N") {
		c := strings.Index(t, ":")
		n.kind = t[1:c]
		k := core.Atoi(t[c+1:])
		for i := 0; i < k; i++ {
			n.kids = append(n.kids, parseTokTree(toks, pos))
		}
	}
	return n
}

var dropListKinds = map[string]bool{"SelectExprs": true, "TableExprs": true, "GroupBy": true, "OrderBy": true, "Columns": true, "Values": true,
	"ValTuple": true, "UpdateExprs": true, "OnDup": true, "Partitions": true, "list": true}

// dropCandidates: indices of list elements whose removal from the pattern must make it fail (lists the comparators
// compare by length; not below RETURNING, which no comparator reads; not when a lone `*` would remain, which
// matches every select list by design).
func dropCandidates(stmtTok string) ([]int, map[int]int) {
	parts := strings.SplitN(stmtTok, "/", 3)
	if len(parts) != 3 {
		return nil, nil
	}
	pos := 0
	root := parseTokTree(strings.Split(parts[2], ","), &pos)
	sizes := map[int]int{}
	var size func(n *tokNode) int
	size = func(n *tokNode) int {
		s := 1
		for _, k := range n.kids {
			s += size(k)
		}
		sizes[n.idx] = s
		return s
	}
	size(root)
	var out []int
	var walk func(n *tokNode)
	walk = func(n *tokNode) {
		if n.kind == "Returning" {
			return
		}
		if dropListKinds[n.kind] {
			for i, k := range n.kids {
				if n.kind == "SelectExprs" && len(n.kids) == 2 && n.kids[1-i].kind == "StarExpr" {
					continue
				}
				out = append(out, k.idx)
			}
		}
		for _, k := range n.kids {
			walk(k)
		}
	}
	walk(root)
	return out, sizes
}

// runDrops: a pattern that lacks one element of a list of the statement (SET list, select list, VALUES row or value,
// IN list, GROUP BY, ORDER BY, column list, FROM list, …) must not match it – with its literals spelled out and with
// all of them generalised to %%VALUE%%.
func runDrops(r *core.Run) {
	n := r.N(120, 1200)
	for i := 0; i < n; i++ {
		rnd := r.Rand.Fork()
		var raw, kind string
		if i%3 == 0 {
			s := genStatement(rnd)
			raw, kind = renderStmt(s, nil, plainStyle, rnd), s.kind
		} else {
			raw, kind = (&rich{r: rnd}).statement()
		}
		st := stmtToken(raw)
		if strings.HasSuffix(st, "/!") {
			continue
		}
		// the statement with a clause added that its own text (as a pattern) does not have
		var extra string
		switch {
		case (kind == "insert" || kind == "delete") && !strings.Contains(raw, " returning ") && !strings.HasPrefix(raw, "replace"):
			extra = raw + " returning " + core.Pick(rnd, []string{"*", "id", "id, a", "(select a from secret limit 1)"})
		case kind == "union" && strings.Contains(raw, " union select"):
			extra = strings.Replace(raw, " union select", " union all select", 1)
		}
		if extra != "" {
			if et := stmtToken(extra); !strings.HasSuffix(et, "/!") {
				if pt := patternToken(raw); !strings.HasSuffix(pt, "/!") {
					r.Begin("extra:"+extra, true, "pattern-extra-clause", "stmt:"+kind)
					out := r.Do("C05.match " + pt + " " + et)
					r.Check(out == "false", "pattern-ignores-clause", "the text of `"+raw+"` used as a pattern matches `"+extra+"` => "+out)
				}
			}
		}
		cands, sizes := dropCandidates(st)
		if len(cands) == 0 {
			continue
		}
		var values []string
		if pos := r.ModelOnly("C05.positions " + st); pos != "-" {
			for _, e := range strings.Split(pos, ",") {
				if strings.HasSuffix(e, ":v") {
					values = append(values, e)
				}
			}
		}
		picks := cands
		if !r.Thorough() && len(picks) > 6 {
			off := rnd.Intn(len(picks))
			picks = nil
			for j := 0; j < 6; j++ {
				picks = append(picks, cands[(off+j*5)%len(cands)])
			}
		}
		seen := map[int]bool{}
		for _, c := range picks {
			if seen[c] {
				continue
			}
			seen[c] = true
			for _, withValues := range []bool{false, true} {
				sg := fmt.Sprintf("%d:d", c)
				if withValues {
					// all literals as %%VALUE%%, except those that would swallow the dropped element (a function call around it)
					var vs []string
					for _, e := range values {
						vi := core.Atoi(e[:strings.Index(e, ":")])
						if vi < c && c < vi+sizes[vi] {
							continue
						}
						vs = append(vs, e)
					}
					if len(vs) == 0 {
						continue
					}
					sg += "," + strings.Join(vs, ",")
				}
				r.Begin("drop:"+sg+"|"+raw, true, "pattern-drop", "stmt:"+kind)
				out := r.Impl("C05.dropgen " + st + " " + sg)
				f := strings.SplitN(out, " ", 2)
				if len(f) != 2 {
					r.Fail("harness-drop", "C05.dropgen failed on `"+raw+"` σ="+sg+": "+out)
					continue
				}
				r.Diff("C05.matchtree "+f[1]+" "+st, f[0])
				r.Check(f[0] == "false", "pattern-shorter-list-matches", "a pattern that lacks list element #"+fmt.Sprint(c)+" of `"+raw+"` (σ="+sg+") still matches it on the real matcher")
			}
		}
	}
}

// runCastVariants: CAST / CONVERT with and without length / scale on either side (ConvertType.Length and .Scale are
// optional *SQLVal: nil on one side only must give "no match", never a panic), embedded at several places of a statement.
func runCastVariants(r *core.Run) {
	for _, cv := range CastVariantPairs(r.Thorough()) {
		pat, q := cv.Pattern, cv.Query
		ptk, st := patternToken(pat), stmtToken(q)
		if strings.HasSuffix(ptk, "/!") || strings.HasSuffix(st, "/!") {
			continue
		}
		r.Begin("cast:"+pat+"|"+q, true, "pattern-cast-variants")
		out := r.Do("C05.match " + ptk + " " + st)
		if !r.Check(out == "true" || out == "false", "matcher-panic", "pattern `"+pat+"` against `"+q+"` => "+out) {
			continue
		}
		if cv.SameType {
			r.Check(out == "true", "pattern-self-mismatch", "the statement's own text used as a pattern does not match it: "+q+" => "+out)
		} else {
			r.Check(out == "false", "pattern-ignores-clause", "pattern `"+pat+"` matches `"+q+"` (different target type)")
		}
		// the same through the whole censor: a deny rule with this pattern must never make HandleQuery panic
		cfg := cspec{hs: []hspec{{kind: "D", patterns: []string{pat}}}}
		v := r.Do("C05.handle " + cfg.tokens() + " " + st)
		r.Check(v == "allow" || v == "deny", "matcher-panic", "deny pattern `"+pat+"`, statement `"+q+"` => "+v)
	}
}
