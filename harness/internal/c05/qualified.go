package c05

// Qualified names: schema.table, table.column, schema.table.column, `t.*` / `s.t.*` in statements AND in patterns,
// and NEAR-MISS pairs: the statement differs from the text its pattern was written from in exactly ONE component of
// ONE identifier (a qualifier component changed, the outermost qualifier absent on the statement side, an extra
// qualifier on the statement side = absent on the pattern side, or the name itself changed).
//
// Oracles (judged on the implementation's outputs):
//   pattern-self-mismatch        the pattern matches the statement it was written from
//   near-miss-pattern-matched    the pattern must NOT match the near miss. Justified by `match_sound_on_identifiers`
//                                (lean/AcraModel/Props/C05.lean): whenever the matcher accepts, every table
//                                identifier it reaches – name and every qualifier component of table names, of column
//                                qualifiers and of `t.*` – equals the pattern's at the same position (up to letter case
//                                and CompliantName); the model evaluates that conclusion on the very pair
//                                (`C05.identsound`, a lock-step walk that does not depend on which operand the Go
//                                comparator passes) and names the identifier that differs.
//   allow-rule-bypass            chain level: [allow patterns:[P], denyall] – the near miss is admitted by no allow rule
//                                (`allow_then_denyAll`), so it must be rejected; if it is not, the case goes through the
//                                real PgProxy and the replay shows the statement arriving on the database side.

import (
	"fmt"
	"strings"

	"verifharness/internal/core"
)

var schemaPool = []string{"app", "vault", "db1", "hr", "crm"}

type qslot struct {
	kind  string   // table | column | star
	parts []string // outermost qualifier first; the last one is the name (for star: the table)
}

func (s qslot) render() string {
	t := strings.Join(s.parts, ".")
	if s.kind == "star" {
		return t + ".*"
	}
	return t
}

func (s qslot) maxParts() int {
	if s.kind == "column" {
		return 3
	}
	return 2
}

type qtemplate struct {
	kind string
	text string // {t} {c} {s} slots in order of appearance, [v] literals
}

var qtemplates = []qtemplate{
	{"select", "select {c} from {t} where {c} = [v]"},
	{"select", "select {s}, {c} from {t} where {c} > [v]"},
	{"select", "select {c}, {c} from {t} join {t} on {c} = {c} where {c} = [v]"},
	{"insert", "insert into {t} (a, b) values ([v], [v])"},
	{"update", "update {t} set a = [v] where {c} = [v]"},
	{"delete", "delete from {t} where {c} = [v]"},
	{"select", "select a from {t} where id in (select {c} from {t} where {c} = [v])"},
	{"select", "select count({c}) from {t} group by {c} order by {c}"},
	{"union", "select {c} from {t} union select {c} from {t}"},
	{"insert", "insert into {t} (a) select {c} from {t} where {c} = [v]"},
	{"update", "update {t} set {c} = [v] where id = [v]"},
	{"select", "select {c} from {t} as x, {t} where x.id = {c} and {c} like [v]"},
	{"select", "select {s}, {s} from {t}, {t}"},
	{"delete", "delete from {t} where {c} in ([v], [v]) and {c} is not null"},
}

type qinst struct {
	tpl   qtemplate
	slots []qslot
	lits  []string
}

func genQualified(r *core.Rand, tpl qtemplate) *qinst {
	q := &qinst{tpl: tpl}
	rest := tpl.text
	for {
		i := strings.IndexAny(rest, "{[")
		if i < 0 {
			break
		}
		switch rest[i : i+3] {
		case "{t}":
			s := qslot{kind: "table", parts: []string{core.Pick(r, tablePool)}}
			if r.Chance(65) {
				s.parts = append([]string{core.Pick(r, schemaPool)}, s.parts...)
			}
			q.slots = append(q.slots, s)
		case "{c}":
			s := qslot{kind: "column", parts: []string{core.Pick(r, colPool)}}
			if r.Chance(70) {
				s.parts = append([]string{core.Pick(r, tablePool)}, s.parts...)
				if r.Chance(45) {
					s.parts = append([]string{core.Pick(r, schemaPool)}, s.parts...)
				}
			}
			q.slots = append(q.slots, s)
		case "{s}":
			s := qslot{kind: "star", parts: []string{core.Pick(r, tablePool)}}
			if r.Chance(40) {
				s.parts = append([]string{core.Pick(r, schemaPool)}, s.parts...)
			}
			q.slots = append(q.slots, s)
		case "[v]":
			if r.Bool() {
				q.lits = append(q.lits, itoa(r.Intn(1000)))
			} else {
				q.lits = append(q.lits, "'"+core.Pick(r, strPool)+"'")
			}
		}
		rest = rest[i+3:]
	}
	return q
}

// render: slots as given; literals spelled out or as %%VALUE%% (pattern)
func (q *qinst) render(slots []qslot, lits []string, valuePlaceholders bool) string {
	var b strings.Builder
	rest := q.tpl.text
	si, li := 0, 0
	for {
		i := strings.IndexAny(rest, "{[")
		if i < 0 {
			b.WriteString(rest)
			break
		}
		b.WriteString(rest[:i])
		if rest[i] == '{' {
			b.WriteString(slots[si].render())
			si++
		} else {
			if valuePlaceholders {
				b.WriteString("%%VALUE%%")
			} else {
				b.WriteString(lits[li])
			}
			li++
		}
		rest = rest[i+3:]
	}
	return b.String()
}

func otherOf(r *core.Rand, pool []string, not string) string {
	for {
		if x := core.Pick(r, pool); !strings.EqualFold(x, not) {
			return x
		}
	}
}

// nearMisses of slot j: (description, mutated slot)
func nearMisses(r *core.Rand, s qslot) (out []struct {
	how  string
	slot qslot
}) {
	add := func(how string, parts []string) {
		out = append(out, struct {
			how  string
			slot qslot
		}{how, qslot{kind: s.kind, parts: parts}})
	}
	n := len(s.parts)
	for i := range s.parts {
		pool := tablePool
		what := "qualifier"
		switch {
		case i == n-1 && s.kind == "column":
			pool, what = colPool, "name"
		case i == n-1 && s.kind == "table":
			what = "name"
		case i == n-1: // star: the table IS the qualifier of `*`
		case i == n-2 && s.kind == "column":
		default:
			pool = schemaPool
		}
		parts := append([]string{}, s.parts...)
		parts[i] = otherOf(r, pool, parts[i])
		add(fmt.Sprintf("%s-changed:%d/%d", what, i, n), parts)
	}
	if n >= 2 {
		add(fmt.Sprintf("qualifier-absent-in-statement:%d", n), append([]string{}, s.parts[1:]...))
	}
	if n < s.maxParts() {
		pool := schemaPool
		if s.kind == "column" && n == 1 {
			pool = tablePool
		}
		add(fmt.Sprintf("qualifier-absent-in-pattern:%d", n), append([]string{core.Pick(r, pool)}, s.parts...))
	}
	return
}

func runQualified(r *core.Run) {
	n := r.N(56, 700)
	unparsed := map[string]int{}
	reached := map[string]int{}
	for i := 0; i < n; i++ {
		rnd := r.Rand.Fork()
		tpl := qtemplates[i%len(qtemplates)]
		q := genQualified(rnd, tpl)
		raw := q.render(q.slots, q.lits, false)
		st := stmtToken(raw)
		if strings.HasSuffix(st, "/!") {
			unparsed[tpl.text]++
			r.Begin("qual-unparsed:"+raw, false, "generator-unparsed")
			continue
		}
		withValues := i%2 == 1
		pat := q.render(q.slots, q.lits, withValues)
		pt := patternToken(pat)
		if strings.HasSuffix(pt, "/!") {
			unparsed["pattern: "+tpl.text]++
			continue
		}
		for _, s := range q.slots {
			r.Tag(fmt.Sprintf("qualified:%s:%d", s.kind, len(s.parts)))
		}
		// the pattern matches what it was written from (other literal values when they are generalised)
		self := raw
		if withValues {
			l2 := append([]string{}, q.lits...)
			for k := range l2 {
				l2[k] = itoa(1000 + rnd.Intn(1000))
			}
			self = q.render(q.slots, l2, false)
		}
		selfTok := stmtToken(self)
		r.Begin("qual-self:"+pat+"|"+self, true, "qualified-self", "stmt:"+tpl.kind)
		out := r.Do("C05.match " + pt + " " + selfTok)
		r.Check(out == "true", "pattern-self-mismatch", "pattern with qualified names does not match the statement it was written from: pattern `"+pat+"` statement `"+self+"` => "+out)
		if ids := r.ModelOnly("C05.identsound " + pt + " " + selfTok); strings.HasPrefix(ids, "ok ") {
			f := strings.Fields(ids)
			if len(f) == 4 {
				reached["table-identifiers"] += core.Atoi(f[1])
				reached["column-identifiers"] += core.Atoi(f[2])
				reached["literals"] += core.Atoi(f[3])
			}
		} else if out == "true" {
			// the matcher accepted but the model's lock-step walk found a differing identifier / literal: the theorem's
			// conclusion fails on the implementation's own verdict
			r.Fail("match-unsound", "the real matcher accepts pattern `"+pat+"` for `"+self+"` but (match_sound_on_identifiers / match_sound_on_literals_reached) the compared parts differ: "+ids)
		}
		// the chain: allow P, then denyall
		cfg := cspec{hs: []hspec{{kind: "A", patterns: []string{pat}}, {kind: "DA"}}}
		ct := cfg.tokens()
		r.Begin("qual-chain-self:"+ct+"|"+self, true, "qualified-chain")
		if v := handleChecked(r, ct, selfTok); v != "cfgerr" {
			r.Check(v == "allow", "chain-allow-pattern-self", "allow pattern `"+pat+"` + denyall: `"+self+"` => "+v)
		}
		// near misses: every slot in the thorough tier, a sample in the quick one
		js := make([]int, 0, len(q.slots))
		for j := range q.slots {
			js = append(js, j)
		}
		if !r.Thorough() && len(js) > 3 {
			off := rnd.Intn(len(js))
			js = []int{js[off], js[(off+1)%len(js)], js[(off+2)%len(js)]}
		}
		for _, j := range js {
			for _, nm := range nearMisses(rnd, q.slots[j]) {
				slots := append([]qslot{}, q.slots...)
				slots[j] = nm.slot
				lits := q.lits
				if withValues && len(q.lits) > 0 {
					lits = append([]string{}, q.lits...)
					lits[rnd.Intn(len(lits))] = itoa(2000 + rnd.Intn(1000))
				}
				miss := q.render(slots, lits, false)
				mt := stmtToken(miss)
				if strings.HasSuffix(mt, "/!") {
					unparsed["near miss: "+tpl.text]++
					continue
				}
				how := nm.how[:strings.Index(nm.how, ":")]
				what := fmt.Sprintf("%s `%s` of the pattern vs `%s` of the statement (%s)", q.slots[j].kind, q.slots[j].render(), nm.slot.render(), nm.how)
				r.Begin("qual-near:"+pat+"|"+miss, true, "qualified-near-miss", "near:"+q.slots[j].kind+":"+how)
				res := r.Do("C05.match " + pt + " " + mt)
				if res != "false" {
					ids := r.ModelOnly("C05.identsound " + pt + " " + mt)
					r.Fail("near-miss-pattern-matched", "pattern `"+pat+"` matches `"+miss+"`, which differs from it only in the "+what+" => "+res+
						"; model (match_sound_on_identifiers, lock-step walk of the pair): "+ids)
				}
				// chain level
				r.Begin("qual-chain-near:"+ct+"|"+miss, true, "qualified-chain", "near-chain:"+q.slots[j].kind+":"+how)
				v := handleChecked(r, ct, mt)
				if v == "cfgerr" || v == "deny" {
					continue
				}
				sess := r.Do("C05.pgsession " + ct + " 2 q:" + selfTok + " q:" + mt)
				arrived := "PostgreSQL proxy session [`" + self + "`, `" + miss + "`]: " + sess
				if f := strings.Fields(sess); len(f) == 3 && strings.HasPrefix(f[2], "F=") {
					arrived = "the statement ARRIVED on the database side of the real PostgreSQL proxy (session [`" + self + "`, `" + miss + "`] => " + sess + ")"
				}
				r.Fail("allow-rule-bypass", "policy [allow patterns:[`"+pat+"`], denyall]: `"+miss+"` is admitted by no allow rule (it differs from the pattern in the "+what+
					"; allow_then_denyAll) but HandleQuery => "+v+"; "+arrived)
			}
		}
	}
	if len(unparsed) > 0 {
		r.Extra["qualified_templates_not_parseable"] = unparsed
	}
	r.Extra["identsound_reached_leaf_comparisons"] = reached
}
