package c05

// Ops on the real acra-censor: the parser front end (impl only – the model takes the parser's output as
// given), the chain (AcraCensor built from YAML through LoadConfiguration), the pattern matcher and the
// table matcher.

import (
	"encoding/hex"
	"fmt"
	"os"
	"path/filepath"
	"reflect"
	"strconv"
	"strings"

	"gopkg.in/yaml.v2"

	acracensor "github.com/cossacklabs/acra/acra-censor"
	"github.com/cossacklabs/acra/acra-censor/common"
	"github.com/cossacklabs/acra/sqlparser"

	"verifharness/internal/core"
)

var strictParser = sqlparser.New(sqlparser.ModeStrict)

// ---- parse tree → protocol token ----
//
// One token, comma separated, prefix order:  L<hex>  a leaf (string / []byte / bool / integer),
// N<Kind>:<k> a node with k children following. Structs: Kind = Go type name, children = fields in
// declaration order (blank `_` fields skipped – the same order factgen emits as structFields). Named
// slices ([]Expr types like SelectExprs, ValTuple, Comments): Kind = type name, children = elements.
// Named scalars (BoolVal, ListArg): Kind = type name, one leaf. nil pointer / nil interface: Nnil:0.

func leafTok(b []byte) string {
	if len(b) == 0 {
		return "L-"
	}
	return "L" + hex.EncodeToString(b)
}

func treeOf(v reflect.Value, out *[]string) {
	switch v.Kind() {
	case reflect.Interface, reflect.Ptr:
		if v.IsNil() {
			*out = append(*out, "Nnil:0")
			return
		}
		treeOf(v.Elem(), out)
	case reflect.Struct:
		t := v.Type()
		var idx []int
		for i := 0; i < t.NumField(); i++ {
			if t.Field(i).Name != "_" {
				idx = append(idx, i)
			}
		}
		*out = append(*out, fmt.Sprintf("N%s:%d", t.Name(), len(idx)))
		for _, i := range idx {
			treeOf(v.Field(i), out)
		}
	case reflect.Slice:
		if v.Type().Elem().Kind() == reflect.Uint8 {
			b := make([]byte, v.Len())
			for i := range b {
				b[i] = byte(v.Index(i).Uint())
			}
			if v.Type().Name() != "" {
				*out = append(*out, fmt.Sprintf("N%s:1", v.Type().Name()))
			}
			*out = append(*out, leafTok(b))
			return
		}
		name := v.Type().Name()
		if name == "" {
			name = "list"
		}
		*out = append(*out, fmt.Sprintf("N%s:%d", name, v.Len()))
		for i := 0; i < v.Len(); i++ {
			treeOf(v.Index(i), out)
		}
	case reflect.String:
		if n := v.Type().Name(); n != "string" {
			*out = append(*out, fmt.Sprintf("N%s:1", n))
		}
		*out = append(*out, leafTok([]byte(v.String())))
	case reflect.Bool:
		if n := v.Type().Name(); n != "bool" {
			*out = append(*out, fmt.Sprintf("N%s:1", n))
		}
		*out = append(*out, leafTok([]byte(strconv.FormatBool(v.Bool()))))
	case reflect.Int, reflect.Int8, reflect.Int16, reflect.Int32, reflect.Int64:
		*out = append(*out, leafTok([]byte(strconv.FormatInt(v.Int(), 10))))
	case reflect.Uint, reflect.Uint8, reflect.Uint16, reflect.Uint32, reflect.Uint64:
		*out = append(*out, leafTok([]byte(strconv.FormatUint(v.Uint(), 10))))
	default:
		panic("harness: cannot serialise " + v.Kind().String())
	}
}

func treeToken(node interface{}) string {
	var out []string
	if node == nil {
		return "Nnil:0"
	}
	treeOf(reflect.ValueOf(node), &out)
	return strings.Join(out, ",")
}

// parseStmt is the censor's front end: HandleRawSQLQuery of the strict parser.
func parseStmt(raw string) (norm string, stmt sqlparser.Statement, ok bool) {
	n, _, st, err := strictParser.HandleRawSQLQuery(raw)
	if err != nil {
		return "", nil, false
	}
	return n, st, true
}

// stmtToken renders a statement for the handle op: <rawhex>/<normhex>/<tree> or <rawhex>/!
func stmtToken(raw string) string {
	n, st, ok := parseStmt(raw)
	if !ok {
		return core.Hex([]byte(raw)) + "/!"
	}
	return core.Hex([]byte(raw)) + "/" + core.Hex([]byte(n)) + "/" + treeToken(st)
}

func queryToken(raw string) string {
	n, _, ok := parseStmt(raw)
	if !ok {
		return core.Hex([]byte(raw)) + "/!"
	}
	return core.Hex([]byte(raw)) + "/" + core.Hex([]byte(n))
}

func parsePattern(raw string) (sqlparser.Statement, bool) {
	ps, err := common.ParsePatterns([]string{raw}, strictParser)
	if err != nil || len(ps) != 1 {
		return nil, false
	}
	return ps[0], true
}

func patternToken(raw string) string {
	p, ok := parsePattern(raw)
	if !ok {
		return core.Hex([]byte(raw)) + "/!"
	}
	return core.Hex([]byte(raw)) + "/" + treeToken(p)
}

func rawOf(tok string) string {
	return string(core.UnHex(strings.SplitN(tok, "/", 2)[0]))
}

// ---- configuration ----

type hcfg struct {
	Handler  string   `yaml:"handler"`
	Queries  []string `yaml:"queries,omitempty"`
	Tables   []string `yaml:"tables,omitempty"`
	Patterns []string `yaml:"patterns,omitempty"`
	FilePath string   `yaml:"filepath,omitempty"`
}

type ccfg struct {
	Version          string `yaml:"version"`
	IgnoreParseError bool   `yaml:"ignore_parse_error"`
	ParseErrorsLog   string `yaml:"parse_errors_log,omitempty"`
	Handlers         []hcfg `yaml:"handlers"`
}

var (
	tmpDir     string
	scratchSeq int
)

// freshFile gives every handler instance its own empty file: the query writers load what the file holds and
// write asynchronously, a shared file would leak state (and half-written lines) from one op into the next.
func freshFile(prefix string) string {
	scratchSeq++
	p := scratch(fmt.Sprintf("%s-%d.log", prefix, scratchSeq))
	os.Remove(p)
	return p
}

func scratch(name string) string {
	if tmpDir == "" {
		d, err := os.MkdirTemp("", "vh-c05-")
		if err != nil {
			panic("harness: " + err.Error())
		}
		tmpDir = d
	}
	return filepath.Join(tmpDir, name)
}

// parseHandleArgs decodes the shared line format of C05.handle:
//
//	<ipe 0|1> <log 0|1> <nh> handler…  <stmt>
//	handler := A|D <nq> q… <nt> t… <np> p… | AA | DA | I <nq> q… | C
//	q := <rawhex>/<normhex>|<rawhex>/!   t := <hex>   p := <rawhex>/<tree>|<rawhex>/!
//	stmt := <rawhex>/<normhex>/<tree> | <rawhex>/!
func parseHandleArgs(a []string) (cfg ccfg, stmt string) {
	cfg, i := parseCfgArgs(a)
	return cfg, rawOf(a[i])
}

// parseCfgArgs decodes the configuration part and returns the index of the first token after it.
func parseCfgArgs(a []string) (cfg ccfg, next int) {
	cfg.Version = "0.85.0"
	cfg.IgnoreParseError = a[0] == "1"
	if a[1] == "1" {
		cfg.ParseErrorsLog = freshFile("unparsed")
	}
	nh := core.Atoi(a[2])
	i := 3
	list := func() []string {
		n := core.Atoi(a[i])
		i++
		var xs []string
		for k := 0; k < n; k++ {
			xs = append(xs, a[i])
			i++
		}
		return xs
	}
	raws := func(xs []string) []string {
		var out []string
		for _, x := range xs {
			out = append(out, rawOf(x))
		}
		return out
	}
	for h := 0; h < nh; h++ {
		kind := a[i]
		i++
		switch kind {
		case "A", "D":
			hc := hcfg{Handler: map[string]string{"A": "allow", "D": "deny"}[kind]}
			hc.Queries = raws(list())
			for _, t := range list() {
				hc.Tables = append(hc.Tables, string(core.UnHex(t)))
			}
			hc.Patterns = raws(list())
			cfg.Handlers = append(cfg.Handlers, hc)
		case "AA":
			cfg.Handlers = append(cfg.Handlers, hcfg{Handler: "allowall"})
		case "DA":
			cfg.Handlers = append(cfg.Handlers, hcfg{Handler: "denyall"})
		case "I":
			cfg.Handlers = append(cfg.Handlers, hcfg{Handler: "query_ignore", Queries: raws(list())})
		case "C":
			cfg.Handlers = append(cfg.Handlers, hcfg{Handler: "query_capture", FilePath: freshFile("capture")})
		default:
			panic("harness: bad handler kind " + kind)
		}
	}
	return cfg, i
}

func cleanupFiles(cfg ccfg) {
	if cfg.ParseErrorsLog != "" {
		os.Remove(cfg.ParseErrorsLog)
	}
	for _, h := range cfg.Handlers {
		if h.FilePath != "" {
			os.Remove(h.FilePath)
		}
	}
}

func yamlOf(cfg ccfg) []byte {
	b, err := yaml.Marshal(cfg)
	if err != nil {
		panic("harness: " + err.Error())
	}
	return b
}

// C05.handle …  →  allow | deny | cfgerr
func opHandle(a []string) string {
	cfg, raw := parseHandleArgs(a)
	censor := acracensor.NewAcraCensor()
	defer cleanupFiles(cfg)
	defer censor.ReleaseAll()
	if err := censor.LoadConfiguration(yamlOf(cfg)); err != nil {
		return "cfgerr"
	}
	if err := censor.HandleQuery(raw); err != nil {
		return "deny"
	}
	return "allow"
}

// C05.parse <rawhex> → ok <normhex> <tree> | err        (implementation only)
func opParse(a []string) string {
	n, st, ok := parseStmt(string(core.UnHex(a[0])))
	if !ok {
		return core.Err
	}
	return "ok " + core.Hex([]byte(n)) + " " + treeToken(st)
}

// C05.match <pattern: rawhex/tree> <stmt: rawhex/normhex/tree> → true | false      (CheckPatternsMatching with one pattern)
func opMatch(a []string) string {
	p, ok := parsePattern(rawOf(a[0]))
	if !ok {
		return core.Err
	}
	_, st, ok := parseStmt(rawOf(a[1]))
	if !ok {
		return core.Err
	}
	return strconv.FormatBool(common.CheckPatternsMatching([]sqlparser.Statement{p}, st))
}

// C05.tables <n> t… <stmt> → <atLeastOne> <all>       (CheckTableNamesMatch)
func opTables(a []string) string {
	n := core.Atoi(a[0])
	set := map[string]bool{}
	for _, t := range a[1 : 1+n] {
		set[string(core.UnHex(t))] = true
	}
	_, st, ok := parseStmt(rawOf(a[1+n]))
	if !ok {
		return core.Err
	}
	one, all := common.CheckTableNamesMatch(st, set)
	return strconv.FormatBool(one) + " " + strconv.FormatBool(all)
}

func init() {
	core.Register("C05.handle", opHandle)
	core.Register("C05.parse", opParse)
	core.Register("C05.match", opMatch)
	core.Register("C05.tables", opTables)
}

// C05.placeholders → the parse trees of the statement-level placeholders of common.go, in the order
// SELECT UNION INSERT UPDATE DELETE SUBQUERY WHERE(the Where node)       (model: the constants it matches against)
func opPlaceholders(a []string) string {
	w := common.WherePatternStatement.(*sqlparser.Select).Where
	return strings.Join([]string{treeToken(common.SelectPatternStatement), treeToken(common.UnionPatternStatement), treeToken(common.InsertPatternStatement),
		treeToken(common.UpdatePatternStatement), treeToken(common.DeletePatternStatement), treeToken(common.SubqueryPatternStatement), treeToken(w),
		treeToken(common.ValuePatternStatement), treeToken(common.ListOfValuePatternStatement), treeToken(common.ColumnPatternStatement)}, " ")
}

func init() { core.Register("C05.placeholders", opPlaceholders) }
