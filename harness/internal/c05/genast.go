package c05

// Tree-level generalisation on the REAL parse tree: the Go twin of `generalise` (lean/AcraModel/Censor/Generalise.lean).
// Positions are pre-order indices of the reflection dump (one index per token of treeOf); σ is a set of
// (position, action) pairs. The walker below visits the parse tree in exactly the order of treeOf and replaces
// the chosen nodes by the parse trees of the placeholders of acra-censor/common. The op C05.gen ships the dump of
// the generalised tree so that the model's `generalise` is compared with it node by node; C05.genmatch runs the
// real matcher on (generalised pattern, statement).

import (
	"fmt"
	"reflect"
	"strconv"
	"strings"

	"github.com/cossacklabs/acra/acra-censor/common"
	"github.com/cossacklabs/acra/sqlparser"

	"verifharness/internal/core"
)

type sigmaSet map[int]map[string]bool

func parseSigma(tok string) sigmaSet {
	s := sigmaSet{}
	if tok == "-" {
		return s
	}
	for _, e := range strings.Split(tok, ",") {
		parts := strings.SplitN(e, ":", 2)
		i := core.Atoi(parts[0])
		if s[i] == nil {
			s[i] = map[string]bool{}
		}
		s[i][parts[1]] = true
	}
	return s
}

func (s sigmaSet) has(i int, a string) bool { return s[i][a] }

func valueLike(k string) bool {
	return k == "SQLVal" || k == "BoolVal" || k == "NullVal" || k == "FuncExpr"
}

// dynKind is the kind name treeOf gives the node at v ("leaf" for leaves).
func dynKind(v reflect.Value) string {
	switch v.Kind() {
	case reflect.Interface, reflect.Ptr:
		if v.IsNil() {
			return "nil"
		}
		return dynKind(v.Elem())
	case reflect.Struct:
		return v.Type().Name()
	case reflect.Slice:
		if v.Type().Elem().Kind() == reflect.Uint8 {
			if v.Type().Name() != "" {
				return v.Type().Name()
			}
			return "leaf"
		}
		if v.Type().Name() != "" {
			return v.Type().Name()
		}
		return "list"
	case reflect.String:
		if n := v.Type().Name(); n != "string" {
			return n
		}
	case reflect.Bool:
		if n := v.Type().Name(); n != "bool" {
			return n
		}
	}
	return "leaf"
}

func tokenCount(v reflect.Value) int {
	var out []string
	treeOf(v, &out)
	return len(out)
}

type genWalker struct {
	sig sigmaSet
	idx int
}

type setter func(x reflect.Value) bool

func slotSetter(slot reflect.Value) setter {
	return func(x reflect.Value) bool {
		if !slot.CanSet() || !x.Type().AssignableTo(slot.Type()) {
			return false
		}
		slot.Set(x)
		return true
	}
}

func stmtPlaceholder(kind string) (sqlparser.Statement, bool) {
	switch kind {
	case "Select":
		return common.SelectPatternStatement, true
	case "Union":
		return common.UnionPatternStatement, true
	case "Insert":
		return common.InsertPatternStatement, true
	case "Update":
		return common.UpdatePatternStatement, true
	case "Delete":
		return common.DeletePatternStatement, true
	}
	return nil, false
}

// pick mirrors `pick` of Generalise.lean: the placeholder σ asks for at node i of the given kind.
func (g *genWalker) pick(i int, kind string, wh bool) (reflect.Value, bool) {
	switch {
	case g.sig.has(i, "v") && valueLike(kind):
		return reflect.ValueOf(common.ValuePatternStatement), true
	case g.sig.has(i, "c") && kind == "ColIdent":
		return reflect.ValueOf(common.ColumnPatternStatement), true
	case g.sig.has(i, "q") && kind == "Subquery":
		return reflect.ValueOf(&sqlparser.Subquery{Select: common.SubqueryPatternStatement.(*sqlparser.Select)}), true
	case g.sig.has(i, "s") && kind == "SelectExprs":
		return reflect.ValueOf(sqlparser.SelectExprs{&sqlparser.StarExpr{}}), true
	}
	if st, ok := stmtPlaceholder(kind); ok && g.sig.has(i, "t") {
		return reflect.ValueOf(st), true
	}
	if g.sig.has(i, "w") && wh {
		return reflect.ValueOf(common.WherePatternStatement.(*sqlparser.Select).Where), true
	}
	return reflect.Value{}, false
}

// node handles the bookkeeping common to all non-leaf nodes: returns true when the node was replaced.
func (g *genWalker) replaced(v reflect.Value, kind string, set setter, wh bool) bool {
	i := g.idx
	ph, ok := g.pick(i, kind, wh)
	if !ok {
		return false
	}
	end := i + tokenCount(v) // before the slot is overwritten
	if !set(ph) {
		panic(fmt.Sprintf("harness: cannot put a %s placeholder at node %d (%s)", ph.Type(), i, kind))
	}
	g.idx = end
	return true
}

func (g *genWalker) walk(v reflect.Value, set setter, wh bool) {
	switch v.Kind() {
	case reflect.Interface:
		if v.IsNil() {
			g.nilNode(set, wh)
			return
		}
		inner := v.Elem()
		if inner.Kind() == reflect.Ptr {
			g.walk(inner, set, wh)
			return
		}
		// a value type inside an interface is not addressable: work on a copy and store it back
		cp := reflect.New(inner.Type()).Elem()
		cp.Set(inner)
		done := false
		g.walk(cp, func(x reflect.Value) bool { ok := set(x); done = done || ok; return ok }, wh)
		if !done {
			set(cp)
		}
	case reflect.Ptr:
		if v.IsNil() {
			g.nilNode(set, wh)
			return
		}
		g.walk(v.Elem(), set, wh)
	case reflect.Struct:
		kind := v.Type().Name()
		if g.replaced(v, kind, set, wh) {
			return
		}
		g.idx++
		t := v.Type()
		j := 0
		for n := 0; n < t.NumField(); n++ {
			if t.Field(n).Name == "_" {
				continue
			}
			f := v.Field(n)
			g.walk(f, slotSetter(f), kind == "Select" && t.Field(n).Name == "Where")
			j++
		}
	case reflect.Slice:
		if v.Type().Elem().Kind() == reflect.Uint8 {
			if v.Type().Name() != "" {
				g.idx++ // wrapper node of a named []byte
			}
			g.idx++
			return
		}
		kind := dynKind(v)
		if g.replaced(v, kind, set, wh) {
			return
		}
		end := g.idx + tokenCount(v)
		g.idx++
		var kept []int
		dropped := false
		for n := 0; n < v.Len(); n++ {
			el := v.Index(n)
			if g.sig.has(g.idx, "d") {
				// near-miss patterns: this element is left out of the pattern
				g.idx += tokenCount(el)
				dropped = true
				continue
			}
			if kind == "ValTuple" && g.sig.has(g.idx, "l") && valueLike(dynKind(el)) {
				ns := reflect.MakeSlice(v.Type(), 0, n+1)
				for _, m := range kept {
					ns = reflect.Append(ns, v.Index(m))
				}
				ns = reflect.Append(ns, reflect.ValueOf(common.ListOfValuePatternStatement))
				if !set(ns) {
					panic("harness: cannot truncate a ValTuple")
				}
				g.idx = end
				return
			}
			kept = append(kept, n)
			g.walk(el, slotSetter(el), false)
		}
		if dropped {
			ns := reflect.MakeSlice(v.Type(), 0, len(kept))
			for _, m := range kept {
				ns = reflect.Append(ns, v.Index(m))
			}
			if !set(ns) {
				panic("harness: cannot shorten a list")
			}
		}
	case reflect.String, reflect.Bool:
		n := v.Type().Name()
		if n != "string" && n != "bool" {
			if g.replaced(v, n, set, wh) {
				return
			}
			g.idx++ // wrapper node of a named scalar
		}
		g.idx++
	default:
		g.idx++ // integers
	}
}

func (g *genWalker) nilNode(set setter, wh bool) {
	i := g.idx
	if ph, ok := g.pick(i, "nil", wh); ok {
		if !set(ph) {
			panic("harness: cannot fill a nil slot")
		}
	}
	g.idx = i + 1
}

// generaliseAST parses raw afresh and applies σ to the new tree.
func generaliseAST(raw string, sig sigmaSet) (sqlparser.Statement, bool) {
	_, st, ok := parseStmt(raw)
	if !ok {
		return nil, false
	}
	g := &genWalker{sig: sig}
	slot := reflect.ValueOf(&st).Elem()
	g.walk(slot, slotSetter(slot), false)
	return st, true
}

// C05.gen <stmt> <σ> → dump of the generalised tree
func opGen(a []string) string {
	p, ok := generaliseAST(rawOf(a[0]), parseSigma(a[1]))
	if !ok {
		return core.Err
	}
	return treeToken(p)
}

// C05.genmatch <stmt> <σ> → true | false   (real matcher: generalised tree as the pattern, the statement as the query)
func opGenMatch(a []string) string {
	raw := rawOf(a[0])
	p, ok := generaliseAST(raw, parseSigma(a[1]))
	if !ok {
		return core.Err
	}
	_, st, _ := parseStmt(raw)
	return strconv.FormatBool(common.CheckPatternsMatching([]sqlparser.Statement{p}, st))
}

// C05.dropgen <stmt> <σ with d actions> → <true|false> <dump of the pattern>   (implementation only: the model is asked
// with C05.matchtree on the dump)
func opDropGen(a []string) string {
	raw := rawOf(a[0])
	p, ok := generaliseAST(raw, parseSigma(a[1]))
	if !ok {
		return core.Err
	}
	_, st, _ := parseStmt(raw)
	return strconv.FormatBool(common.CheckPatternsMatching([]sqlparser.Statement{p}, st)) + " " + treeToken(p)
}

func init() {
	core.Register("C05.dropgen", opDropGen)
	core.Register("C05.gen", opGen)
	core.Register("C05.genmatch", opGenMatch)
}
