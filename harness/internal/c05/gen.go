package c05

// Grammar-directed statement generator. A statement is a tree of tokens in which some subtrees are
// marked as *generalisable positions* (a literal, a column name, the tail of an IN list, a sub-select,
// the WHERE clause of a SELECT, the whole statement). It can be rendered
//   - as SQL text in many spellings (keyword case, whitespace, optional spaces around punctuation,
//     trailing `;`, margin comments) – all of which must be the same statement to the censor;
//   - as a pattern: the positions in a set σ are replaced by their %%PLACEHOLDER%%.
// The generator also knows which tables the statement touches and where (top level or nested).

import (
	"strings"

	"verifharness/internal/core"
)

const (
	gKw = iota
	gWord // identifier / literal / operator: emitted verbatim, separated by whitespace
	gOpen
	gClose
	gComma
	gDot
	gOp // comparison / arithmetic operator: spaces optional
	gFn // function name glued to its "("
	gSeq
	gGen
)

type gnode struct {
	kind int
	text string
	kids []*gnode
	ph   string // placeholder of a gGen node
	pos  int
}

type tableUse struct {
	name   string
	nested bool // below the top-level FROM list / INSERT target
	write  bool // UPDATE / DELETE target
}

type gstmt struct {
	root   *gnode
	kind   string // select union insert update delete
	npos   int
	posPh  []string
	tables []tableUse
}

type gen struct {
	r      *core.Rand
	st     *gstmt
	depth  int
	nested bool
}

var (
	tablePool = []string{"t1", "t2", "orders", "users", "secret", "pub", "accounts", "audit_log"}
	colPool   = []string{"id", "a", "b", "c", "name", "email", "amount", "created"}
	strPool   = []string{"x", "alice", "bob@example.com", "2020-01-01", "N/A", "it works", "100%"}
	fnPool    = []string{"count", "lower", "max", "coalesce"}
)

func kw(s string) *gnode         { return &gnode{kind: gKw, text: s} }
func word(s string) *gnode       { return &gnode{kind: gWord, text: s} }
func seq(ks ...*gnode) *gnode    { return &gnode{kind: gSeq, kids: ks} }
func sym(kind int, s string) *gnode { return &gnode{kind: kind, text: s} }

func (g *gen) genPos(ph string, ks ...*gnode) *gnode {
	n := &gnode{kind: gGen, kids: ks, ph: ph, pos: g.st.npos}
	g.st.npos++
	g.st.posPh = append(g.st.posPh, ph)
	return n
}

func (g *gen) table() string {
	t := core.Pick(g.r, tablePool)
	g.st.tables = append(g.st.tables, tableUse{name: t, nested: g.nested})
	return t
}

func (g *gen) literal() *gnode {
	switch g.r.Intn(10) {
	case 0, 1, 2, 3:
		return g.genPos("%%VALUE%%", word(itoa(g.r.Intn(1000))))
	case 4, 5, 6:
		return g.genPos("%%VALUE%%", word("'"+core.Pick(g.r, strPool)+"'"))
	case 7:
		return g.genPos("%%VALUE%%", word(itoa(g.r.Intn(100))+"."+itoa(g.r.Intn(100))))
	case 8:
		return g.genPos("%%VALUE%%", kw("null"))
	default:
		return g.genPos("%%VALUE%%", kw(core.Pick(g.r, []string{"true", "false"})))
	}
}

func itoa(n int) string {
	if n == 0 {
		return "0"
	}
	s := ""
	for n > 0 {
		s = string(rune('0'+n%10)) + s
		n /= 10
	}
	return s
}

// column: [qualifier .] name, the name is a generalisable position
func (g *gen) column(qual string) *gnode {
	c := g.genPos("%%COLUMN%%", word(core.Pick(g.r, colPool)))
	if qual != "" && g.r.Chance(40) {
		return seq(word(qual), sym(gDot, "."), c)
	}
	return c
}

func (g *gen) operand(qual string) *gnode {
	switch g.r.Intn(8) {
	case 0, 1, 2:
		return g.column(qual)
	case 3, 4, 5:
		return g.literal()
	case 6:
		return seq(sym(gFn, core.Pick(g.r, fnPool)+"("), g.column(qual), sym(gClose, ")"))
	default:
		return seq(g.column(qual), sym(gOp, core.Pick(g.r, []string{"+", "-", "*"})), g.literal())
	}
}

func (g *gen) subquery() *gnode {
	g.depth++
	was := g.nested
	g.nested = true
	inner := g.selectBody(false)
	if g.r.Chance(15) {
		inner = seq(inner, kw("union"), g.selectBody(false))
	}
	g.nested = was
	g.depth--
	return seq(sym(gOpen, "("), g.genPos("%%SUBQUERY%%", inner), sym(gClose, ")"))
}

func (g *gen) inList() *gnode {
	n := 1 + g.r.Intn(4)
	k := g.r.Intn(n)
	ks := []*gnode{sym(gOpen, "(")}
	for i := 0; i < k; i++ {
		ks = append(ks, g.literal(), sym(gComma, ","))
	}
	var tail []*gnode
	for i := k; i < n; i++ {
		if i > k {
			tail = append(tail, sym(gComma, ","))
		}
		tail = append(tail, g.literal())
	}
	ks = append(ks, g.genPos("%%LIST_OF_VALUES%%", tail...), sym(gClose, ")"))
	return seq(ks...)
}

func (g *gen) cond(qual string, d int) *gnode {
	if d < 2 && g.r.Chance(35) {
		l, r := g.cond(qual, d+1), g.cond(qual, d+1)
		switch g.r.Intn(4) {
		case 0:
			return seq(l, kw("or"), r)
		case 1:
			return seq(sym(gOpen, "("), l, kw("or"), r, sym(gClose, ")"))
		default:
			return seq(l, kw("and"), r)
		}
	}
	switch g.r.Intn(12) {
	case 0, 1, 2, 3:
		return seq(g.column(qual), sym(gOp, core.Pick(g.r, []string{"=", "<", ">", "<=", ">=", "!=", "<>"})), g.operand(qual))
	case 4:
		return seq(g.column(qual), kw("in"), g.inList())
	case 5:
		if g.depth < 2 {
			return seq(g.column(qual), kw(core.Pick(g.r, []string{"in", "not in"})), g.subquery())
		}
		return seq(g.column(qual), kw("is"), kw("null"))
	case 6:
		if g.depth < 2 {
			return seq(kw("exists"), g.subquery())
		}
		return seq(g.column(qual), kw("is not"), kw("null"))
	case 7:
		return seq(g.column(qual), kw("between"), g.literal(), kw("and"), g.literal())
	case 8:
		return seq(g.column(qual), kw("like"), g.genPos("%%VALUE%%", word("'"+core.Pick(g.r, []string{"a%", "%b%", "_c"})+"'")))
	case 9:
		return seq(kw("not"), g.column(qual), sym(gOp, "="), g.literal())
	case 10:
		return seq(g.column(qual), kw("is"), kw("null"))
	default:
		return seq(g.operand(qual), sym(gOp, "="), g.operand(qual))
	}
}

func (g *gen) tableExpr() (n *gnode, qual string) {
	t := g.table()
	qual = t
	n = word(t)
	if g.r.Chance(25) {
		qual = core.Pick(g.r, []string{"x", "y", "z"})
		n = seq(word(t), kw("as"), word(qual))
	}
	return
}

func (g *gen) from() (*gnode, string) {
	switch g.r.Intn(10) {
	case 0, 1:
		l, q := g.tableExpr()
		r, q2 := g.tableExpr()
		j := core.Pick(g.r, []string{"join", "left join", "inner join"})
		if g.r.Chance(70) {
			return seq(l, kw(j), r, kw("on"), seq(word(q), sym(gDot, "."), g.genPos("%%COLUMN%%", word("id"))), sym(gOp, "="), seq(word(q2), sym(gDot, "."), g.genPos("%%COLUMN%%", word("id")))), q
		}
		return seq(l, kw(j), r, kw("using"), sym(gOpen, "("), g.genPos("%%COLUMN%%", word("id")), sym(gClose, ")")), q
	case 2:
		l, q := g.tableExpr()
		r, _ := g.tableExpr()
		return seq(l, sym(gComma, ","), r), q
	case 3:
		if g.depth < 2 {
			a := core.Pick(g.r, []string{"d1", "d2"})
			return seq(g.subquery(), kw("as"), word(a)), a
		}
		fallthrough
	default:
		return g.tableExpr()
	}
}

// selectBody generates SELECT … ; top says whether its WHERE is wrapped as a %%WHERE%% position too for sub-selects (always yes: the escape lives in handleSelectStatement).
func (g *gen) selectBody(top bool) *gnode {
	fromN, qual := g.from()
	ks := []*gnode{kw("select")}
	if g.r.Chance(10) {
		ks = append(ks, kw("distinct"))
	}
	switch g.r.Intn(6) {
	case 0:
		ks = append(ks, word("*"))
	default:
		n := 1 + g.r.Intn(3)
		for i := 0; i < n; i++ {
			if i > 0 {
				ks = append(ks, sym(gComma, ","))
			}
			e := g.operand(qual)
			if g.r.Chance(20) {
				e = seq(e, kw("as"), word(core.Pick(g.r, []string{"c1", "c2", "total"})))
			}
			ks = append(ks, e)
		}
	}
	ks = append(ks, kw("from"), fromN)
	if g.r.Chance(75) {
		ks = append(ks, g.genPos("%%WHERE%%", kw("where"), g.cond(qual, 0)))
	}
	if g.r.Chance(15) {
		ks = append(ks, kw("group by"), g.column(qual))
		if g.r.Chance(40) {
			ks = append(ks, kw("having"), seq(sym(gFn, "count("), g.column(qual), sym(gClose, ")")), sym(gOp, ">"), g.literal())
		}
	}
	if g.r.Chance(25) {
		ks = append(ks, kw("order by"), g.column(qual))
		if g.r.Chance(50) {
			ks = append(ks, kw(core.Pick(g.r, []string{"asc", "desc"})))
		}
	}
	if g.r.Chance(20) {
		ks = append(ks, kw("limit"), g.genPos("%%VALUE%%", word(itoa(1+g.r.Intn(50)))))
	}
	return seq(ks...)
}

func (g *gen) valuesRow(n int) *gnode {
	ks := []*gnode{sym(gOpen, "(")}
	for i := 0; i < n; i++ {
		if i > 0 {
			ks = append(ks, sym(gComma, ","))
		}
		ks = append(ks, g.literal())
	}
	return seq(append(ks, sym(gClose, ")"))...)
}

func (g *gen) colList(n int) *gnode {
	ks := []*gnode{sym(gOpen, "(")}
	for i := 0; i < n; i++ {
		if i > 0 {
			ks = append(ks, sym(gComma, ","))
		}
		ks = append(ks, g.genPos("%%COLUMN%%", word(colPool[(i+g.r.Intn(2)*3)%len(colPool)])))
	}
	return seq(append(ks, sym(gClose, ")"))...)
}

func genStatement(r *core.Rand) *gstmt {
	g := &gen{r: r, st: &gstmt{}}
	var body *gnode
	switch k := r.Intn(20); {
	case k < 9:
		g.st.kind = "select"
		body = g.selectBody(true)
	case k < 11:
		g.st.kind = "union"
		g.nested = true // a top-level UNION is not looked into by the table rules
		l := g.selectBody(true)
		rr := g.selectBody(true)
		body = seq(l, kw(core.Pick(r, []string{"union", "union all"})), rr)
	case k < 15:
		g.st.kind = "insert"
		t := g.table()
		n := 1 + r.Intn(3)
		ks := []*gnode{kw("insert into"), word(t), g.colList(n)}
		if r.Chance(25) {
			g.nested = true
			ks = append(ks, g.selectBody(false))
			g.nested = false
		} else {
			ks = append(ks, kw("values"), g.valuesRow(n))
			if r.Chance(30) {
				ks = append(ks, sym(gComma, ","), g.valuesRow(n))
			}
			if r.Chance(15) {
				ks = append(ks, kw("on duplicate key update"), g.genPos("%%COLUMN%%", word(core.Pick(r, colPool))), sym(gOp, "="), g.literal())
			}
		}
		body = seq(ks...)
	case k < 18:
		g.st.kind = "update"
		t := core.Pick(r, tablePool)
		g.st.tables = append(g.st.tables, tableUse{name: t, write: true})
		ks := []*gnode{kw("update"), word(t), kw("set"), g.genPos("%%COLUMN%%", word(core.Pick(r, colPool))), sym(gOp, "="), g.literal()}
		if r.Chance(40) {
			ks = append(ks, sym(gComma, ","), g.genPos("%%COLUMN%%", word(core.Pick(r, colPool))), sym(gOp, "="), g.literal())
		}
		if r.Chance(80) {
			g.nested = true
			ks = append(ks, kw("where"), g.cond("", 0))
			g.nested = false
		}
		if r.Chance(15) {
			ks = append(ks, kw("limit"), g.genPos("%%VALUE%%", word(itoa(1+r.Intn(9)))))
		}
		body = seq(ks...)
	default:
		g.st.kind = "delete"
		t := core.Pick(r, tablePool)
		g.st.tables = append(g.st.tables, tableUse{name: t, write: true})
		ks := []*gnode{kw("delete from"), word(t)}
		if r.Chance(85) {
			g.nested = true
			ks = append(ks, kw("where"), g.cond("", 0))
			g.nested = false
		}
		body = seq(ks...)
	}
	whole := map[string]string{"select": "%%SELECT%%", "union": "%%UNION%%", "insert": "%%INSERT%%", "update": "%%UPDATE%%", "delete": "%%DELETE%%"}[g.st.kind]
	g.st.root = g.genPos(whole, body)
	return g.st
}

// ---- rendering ----

type style struct {
	kwCase  int // 0 lower 1 UPPER 2 MiXeD
	ws      int // 0 single spaces, 1 random runs of space/tab/newline
	tight   bool
	semi    bool
	lead    bool
	trail   bool
	padding bool
}

func randomStyle(r *core.Rand) style {
	return style{kwCase: r.Intn(3), ws: r.Intn(2), tight: r.Bool(), semi: r.Chance(40), lead: r.Chance(25), trail: r.Chance(25), padding: r.Chance(30)}
}

var plainStyle = style{}

type tok struct {
	kind int
	text string
}

func flatten(n *gnode, sigma map[int]bool, out *[]tok) {
	switch n.kind {
	case gSeq:
		for _, k := range n.kids {
			flatten(k, sigma, out)
		}
	case gGen:
		if sigma[n.pos] {
			*out = append(*out, tok{gWord, n.ph})
			return
		}
		for _, k := range n.kids {
			flatten(k, sigma, out)
		}
	default:
		*out = append(*out, tok{n.kind, n.text})
	}
}

func caseKw(s string, st style, r *core.Rand) string {
	switch st.kwCase {
	case 1:
		return strings.ToUpper(s)
	case 2:
		b := []byte(s)
		for i := range b {
			if r.Bool() && b[i] >= 'a' && b[i] <= 'z' {
				b[i] -= 32
			}
		}
		return string(b)
	}
	return s
}

func space(st style, r *core.Rand) string {
	if st.ws == 0 {
		return " "
	}
	return core.Pick(r, []string{" ", "  ", "\t", "\n", " \n  ", "\r\n"})
}

// renderStmt renders the statement (σ empty) or a pattern (σ = generalised positions).
func renderStmt(s *gstmt, sigma map[int]bool, st style, r *core.Rand) string {
	var toks []tok
	flatten(s.root, sigma, &toks)
	var b strings.Builder
	if st.lead {
		b.WriteString("/* lead " + itoa(r.Intn(100)) + " */" + space(st, r))
	} else if st.padding {
		b.WriteString(space(st, r))
	}
	for i, t := range toks {
		if i > 0 {
			prev := toks[i-1]
			need := true
			switch {
			case t.kind == gDot || prev.kind == gDot || prev.kind == gFn:
				need = false
			case st.tight && (t.kind == gComma || t.kind == gClose || prev.kind == gOpen):
				need = false
			case st.tight && (t.kind == gOp || prev.kind == gOp) && !strings.HasPrefix(t.text, "%%") && !strings.HasPrefix(prev.text, "%%"):
				// `a=1`; keep a space next to a placeholder so that %%X%% is never glued to `%` operators
				need = false
			case st.tight && prev.kind == gComma:
				need = false
			}
			if need {
				words := strings.Fields(" ")
				_ = words
				b.WriteString(space(st, r))
			}
		}
		if t.kind == gKw {
			// multi-word keywords (`group by`) get their own inner whitespace
			parts := strings.Fields(t.text)
			for j, p := range parts {
				if j > 0 {
					b.WriteString(space(st, r))
				}
				b.WriteString(caseKw(p, st, r))
			}
		} else {
			b.WriteString(t.text)
		}
	}
	if st.semi {
		b.WriteString(";")
	}
	if st.trail {
		b.WriteString(space(st, r) + "/* trail */")
	} else if st.padding {
		b.WriteString(space(st, r))
	}
	return b.String()
}

// touches reports how the statement uses table t: "top" (top-level FROM list of a SELECT / INSERT target),
// "nested" (anywhere else it is read from), "write" (UPDATE/DELETE target only), "" (not at all).
func (s *gstmt) touches(t string) string {
	res := ""
	for _, u := range s.tables {
		if u.name != t {
			continue
		}
		switch {
		case u.write:
			if res == "" {
				res = "write"
			}
		case u.nested:
			if res == "" || res == "write" {
				res = "nested"
			}
		default:
			return "top"
		}
	}
	return res
}

// malformed statements: none of these parse
func malformedStmt(r *core.Rand) string {
	base := renderStmt(genStatement(r), nil, plainStyle, r)
	switch r.Intn(7) {
	case 0:
		return base + " )"
	case 1:
		return "( " + base
	case 2:
		return strings.Replace(base, " from ", " frm ", 1) + " where"
	case 3:
		return "selec 1"
	case 4:
		return base + " where where"
	case 5:
		return "qwerty " + itoa(r.Intn(1000))
	default:
		return base + " '"
	}
}

// mutateLiteral changes one plain literal (a %%VALUE%% position holding a number or a string) in place and returns
// its position and a function that undoes the change; pos = -1 when the statement has no such literal.
func mutateLiteral(s *gstmt, r *core.Rand) (int, func()) {
	var cands []*gnode
	var walk func(n *gnode)
	walk = func(n *gnode) {
		if n.kind == gGen && n.ph == "%%VALUE%%" && len(n.kids) == 1 && n.kids[0].kind == gWord {
			cands = append(cands, n)
		}
		for _, k := range n.kids {
			walk(k)
		}
	}
	walk(s.root)
	if len(cands) == 0 {
		return -1, func() {}
	}
	n := core.Pick(r, cands)
	w := n.kids[0]
	old := w.text
	if strings.HasPrefix(old, "'") {
		w.text = "'zz" + old[1:]
	} else {
		w.text = "7" + old
	}
	return n.pos, func() { w.text = old }
}
