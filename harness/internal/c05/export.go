package c05

// export.go – the generators of this package for other properties' checks (C14 drives the pattern matcher with them:
// "no input makes the censor panic"). Nothing here is used by C05's own run except CastVariantPairs.

import (
	"fmt"
	"strings"

	"verifharness/internal/core"
)

// CastPair: a pattern and a statement that differ (at most) in the target type of one CAST / CONVERT
type CastPair struct {
	Pattern, Query string
	SameType       bool
}

// CastVariantPairs: CAST / CONVERT with and without length / scale on either side (ConvertType.Length and .Scale are
// optional *SQLVal: nil on one side only must give "no match", never a panic), embedded at several places of a statement.
func CastVariantPairs(thorough bool) []CastPair {
	types := []string{"char", "char(10)", "char(12)", "decimal", "decimal(10)", "decimal(10, 2)", "decimal(8, 2)", "binary", "binary(4)", "signed", "unsigned"}
	shapes := []string{
		"select cast(a as %s) from t1",
		"select convert(a, %s) from t1 where b = 1",
		"select a from t1 where cast(b as %s) = 'x'",
		"update t1 set a = cast(b as %s) where c = 2",
		"insert into t1 (a) values (cast('7' as %s))",
		"delete from t1 where convert(a, %s) in (1, 2)",
	}
	var out []CastPair
	for si, shape := range shapes {
		for i, pt := range types {
			for j, qt := range types {
				if !thorough && (i+2*j+si)%3 != 0 && i != j {
					continue
				}
				out = append(out, CastPair{fmt.Sprintf(shape, pt), fmt.Sprintf(shape, qt), i == j})
			}
		}
	}
	return out
}

// RichStatement: one statement of the per-node-kind generator (genrich.go: every node kind a comparator of
// matching_logic.go looks at occurs) – its text and statement kind.
func RichStatement(r *core.Rand) (text, kind string) { return (&rich{r: r}).statement() }

// PlainStatement: one statement of the positional generator (gen.go), rendered without spelling variations.
func PlainStatement(r *core.Rand) (text, kind string) {
	s := genStatement(r)
	return renderStmt(s, nil, plainStyle, r), s.kind
}

// HandleLine: the op line `C05.handle …` of a censor with ONE handler of the given kind ("A" allow, "D" deny) holding
// one pattern, for one client statement; "" when the pattern or the statement does not parse (the censor then never
// reaches the matcher).
func HandleLine(kind, pattern, query string) string {
	cfg := cspec{hs: []hspec{{kind: kind, patterns: []string{pattern}}}}
	toks := cfg.tokens()
	st := stmtToken(query)
	if strings.Contains(toks, "/!") || strings.HasSuffix(st, "/!") {
		return ""
	}
	return "C05.handle " + toks + " " + st
}

// MatchLine: the op line `C05.match <pattern> <statement>` (CheckPatternsMatching with one pattern); "" when either
// side does not parse.
func MatchLine(pattern, query string) string {
	ptk, st := patternToken(pattern), stmtToken(query)
	if strings.HasSuffix(ptk, "/!") || strings.HasSuffix(st, "/!") {
		return ""
	}
	return "C05.match " + ptk + " " + st
}
