package c05

// Session-level ops: the REAL PostgreSQL proxy object (decryptor/postgresql.PgProxy) is driven over
// in-memory pipes with the REAL AcraCensor built from YAML; the harness plays the client and the
// database. Observables: for every client statement whether its packet reached the database side
// byte-identically or the client got ErrorResponse + ReadyForQuery instead, and – after every event –
// the proxy's pending-query queue (the statements the proxy believes are awaiting a response; the
// front entry is what handleQueryDataPacket uses to process the rows of the next response).
//
// The MySQL op drives the real mysql.Handler.ProxyClientConnection the same way.

import (
	"bufio"
	"bytes"
	"container/list"
	"context"
	"encoding/binary"
	"fmt"
	"io"
	"net"
	"reflect"
	"strings"
	"sync"
	"time"
	"unsafe"

	acracensor "github.com/cossacklabs/acra/acra-censor"
	"github.com/cossacklabs/acra/decryptor/base"
	"github.com/cossacklabs/acra/decryptor/postgresql"
	encconfig "github.com/cossacklabs/acra/encryptor/base/config"
	"github.com/cossacklabs/acra/sqlparser"
	log "github.com/sirupsen/logrus"

	"verifharness/internal/core"
)

// ---- a minimal base.ClientSession ----

type fakeSession struct {
	ctx      context.Context
	client   net.Conn
	db       net.Conn
	protocol interface{}
	mu       sync.Mutex
	data     map[string]interface{}
}

func (s *fakeSession) Context() context.Context        { return s.ctx }
func (s *fakeSession) ClientConnection() net.Conn      { return s.client }
func (s *fakeSession) DatabaseConnection() net.Conn    { return s.db }
func (s *fakeSession) ProtocolState() interface{}      { return s.protocol }
func (s *fakeSession) SetProtocolState(st interface{}) { s.protocol = st }
func (s *fakeSession) GetData(k string) (interface{}, bool) {
	s.mu.Lock()
	defer s.mu.Unlock()
	v, ok := s.data[k]
	return v, ok
}
func (s *fakeSession) SetData(k string, v interface{}) {
	s.mu.Lock()
	defer s.mu.Unlock()
	s.data[k] = v
}
func (s *fakeSession) DeleteData(k string) {
	s.mu.Lock()
	defer s.mu.Unlock()
	delete(s.data, k)
}
func (s *fakeSession) HasData(k string) bool {
	_, ok := s.GetData(k)
	return ok
}

// sink collects everything written to one end of a pipe and lets the driver wait for growth.
type sink struct {
	mu   sync.Mutex
	cond *sync.Cond
	buf  []byte
	eof  bool
}

func newSink(c net.Conn) *sink {
	s := &sink{}
	s.cond = sync.NewCond(&s.mu)
	go func() {
		tmp := make([]byte, 4096)
		for {
			n, err := c.Read(tmp)
			s.mu.Lock()
			s.buf = append(s.buf, tmp[:n]...)
			if err != nil {
				s.eof = true
			}
			s.cond.Broadcast()
			s.mu.Unlock()
			if err != nil {
				return
			}
		}
	}()
	return s
}

func (s *sink) snapshot() []byte {
	s.mu.Lock()
	defer s.mu.Unlock()
	return append([]byte{}, s.buf...)
}

func (s *sink) take() []byte {
	s.mu.Lock()
	defer s.mu.Unlock()
	b := s.buf
	s.buf = nil
	return b
}

// pgMessage builds a typed PostgreSQL message.
func pgMessage(tag byte, payload []byte) []byte {
	out := make([]byte, 5, 5+len(payload))
	out[0] = tag
	binary.BigEndian.PutUint32(out[1:5], uint32(len(payload)+4))
	return append(out, payload...)
}

func pgStartup() []byte {
	payload := append([]byte{0, 3, 0, 0}, []byte("user\x00u\x00database\x00d\x00\x00")...)
	out := make([]byte, 4, 4+len(payload))
	binary.BigEndian.PutUint32(out, uint32(len(payload)+4))
	return append(out, payload...)
}

func pgSimpleQuery(q string) []byte { return pgMessage('Q', append([]byte(q), 0)) }

// pgParse: unnamed/named prepared statement, no parameter types.
func pgParse(name, q string) []byte {
	p := append([]byte(name), 0)
	p = append(p, []byte(q)...)
	p = append(p, 0, 0, 0)
	return pgMessage('P', p)
}

type pgDriver struct {
	proxy    *postgresql.PgProxy
	state    *postgresql.PgProtocolState
	clientW  net.Conn // harness → proxy (client side)
	dbSink   *sink
	cliSink  *sink
	errCh    chan base.ProxyError
	cancel   context.CancelFunc
	closers  []io.Closer
	procDone chan struct{}
}

func newCensor(yaml []byte) (*acracensor.AcraCensor, error) {
	c := acracensor.NewAcraCensor()
	if err := c.LoadConfiguration(yaml); err != nil {
		c.ReleaseAll()
		return nil, err
	}
	return c, nil
}

func newPgDriver(censor acracensor.AcraCensorInterface) (*pgDriver, error) {
	ctx, cancel := context.WithCancel(context.Background())
	cliHarness, cliProxy := net.Pipe()
	dbProxy, dbHarness := net.Pipe()
	sess := &fakeSession{ctx: ctx, client: cliProxy, db: dbProxy, data: map[string]interface{}{}}
	schema, err := encconfig.NewMapTableSchemaStore()
	if err != nil {
		cancel()
		return nil, err
	}
	parser := sqlparser.New(sqlparser.ModeStrict)
	setting := base.NewProxySetting(parser, schema, nil, nil, censor, nil)
	proxy, err := postgresql.NewPgProxy(sess, parser, setting)
	if err != nil {
		cancel()
		return nil, err
	}
	d := &pgDriver{proxy: proxy, clientW: cliHarness, errCh: make(chan base.ProxyError, 4), cancel: cancel,
		closers: []io.Closer{cliHarness, cliProxy, dbProxy, dbHarness}, procDone: make(chan struct{})}
	d.state, _ = sess.ProtocolState().(*postgresql.PgProtocolState)
	d.dbSink = newSink(dbHarness)
	d.cliSink = newSink(cliHarness)
	go func() {
		proxy.ProxyClientConnection(ctx, d.errCh)
		close(d.procDone)
	}()
	return d, nil
}

func (d *pgDriver) close() {
	d.cancel()
	for _, c := range d.closers {
		c.Close()
	}
	select {
	case <-d.procDone:
	case <-time.After(2 * time.Second):
	}
}

// send writes one client message and waits until the proxy has dealt with it: either the same
// number of bytes arrived at the database side, or a complete ErrorResponse+ReadyForQuery arrived
// at the client side, or the proxy goroutine stopped. Returns "F" (forwarded, byte-identical),
// "M" (forwarded but modified), "E" (error + ready to the client, nothing to the database), "X" (proxy stopped / protocol trouble).
func (d *pgDriver) send(msg []byte) string {
	d.dbSink.take()
	d.cliSink.take()
	if _, err := d.clientW.Write(msg); err != nil {
		return "X"
	}
	deadline := time.Now().Add(5 * time.Second)
	for time.Now().Before(deadline) {
		db := d.dbSink.snapshot()
		cl := d.cliSink.snapshot()
		if len(db) > 0 && completePg(db, msg[0] == 0) {
			// give a (wrong) client-side error a chance to show up as well
			if bytes.Equal(db, msg) {
				if len(cl) != 0 {
					return "X"
				}
				return "F"
			}
			return "M"
		}
		if len(cl) > 0 {
			if msgs := splitPg(cl); len(msgs) == 2 && msgs[0][0] == 'E' && bytes.Equal(msgs[1], postgresql.ReadyForQuery) {
				if len(d.dbSink.snapshot()) != 0 {
					return "X"
				}
				return "E"
			}
		}
		select {
		case <-d.procDone:
			return "X"
		case <-d.errCh:
			return "X"
		case <-time.After(200 * time.Microsecond):
		}
	}
	return "X"
}

// completePg says whether b is exactly a sequence of whole messages (startup: untyped).
func completePg(b []byte, startup bool) bool {
	if startup {
		return len(b) >= 4 && int(binary.BigEndian.Uint32(b[:4])) == len(b)
	}
	for len(b) > 0 {
		if len(b) < 5 {
			return false
		}
		n := int(binary.BigEndian.Uint32(b[1:5])) + 1
		if n > len(b) {
			return false
		}
		b = b[n:]
	}
	return true
}

func splitPg(b []byte) [][]byte {
	var out [][]byte
	for len(b) >= 5 {
		n := int(binary.BigEndian.Uint32(b[1:5])) + 1
		if n > len(b) {
			return nil
		}
		out = append(out, b[:n])
		b = b[n:]
	}
	if len(b) != 0 {
		return nil
	}
	return out
}

// pending reads the proxy's queue of statements awaiting a database response
// (PgProtocolState.pendingQueryPackets, list of queryPacket) by reflection – read-only.
func (d *pgDriver) pending() []string {
	out := []string{}
	if d.state == nil {
		return out
	}
	ps := reflect.ValueOf(d.state).Elem().FieldByName("pendingQueryPackets")
	if !ps.IsValid() || ps.IsNil() {
		panic("harness: PgProtocolState.pendingQueryPackets not found")
	}
	lists := ps.Elem().FieldByName("lists")
	if !lists.IsValid() {
		panic("harness: pendingPacketsList.lists not found")
	}
	it := lists.MapRange()
	for it.Next() {
		lv := it.Value() // *list.List (unexported path → re-materialise through its address)
		l := (*list.List)(unsafe.Pointer(lv.Pointer()))
		for e := l.Front(); e != nil; e = e.Next() {
			v := reflect.ValueOf(e.Value)
			if v.Kind() == reflect.Struct && v.Type().Name() == "queryPacket" {
				// entries that only mark where the database sends ReadyForQuery are not statements
				if sp := v.FieldByName("syncPoint"); sp.IsValid() && sp.Bool() {
					continue
				}
				f := v.FieldByName("simpleQueryPacket")
				if !f.IsValid() {
					panic("harness: queryPacket.simpleQueryPacket not found")
				}
				out = append(out, f.String())
			}
		}
	}
	return out
}

// complete lets the real protocol state see the end of a simple query's response from the database:
// CommandComplete followed by ReadyForQuery (what ProxyDatabaseConnection shows it for every database packet
// before relaying it).
func (d *pgDriver) complete() error {
	for _, msg := range [][]byte{pgMessage('C', []byte("SELECT 1\x00")), postgresql.ReadyForQuery} {
		ph, err := postgresql.NewDbSidePacketHandler(bytes.NewReader(msg), bufio.NewWriter(io.Discard), log.NewEntry(log.StandardLogger()))
		if err != nil {
			return err
		}
		if err := ph.ReadPacket(); err != nil {
			return err
		}
		if err := d.state.HandleDatabasePacket(ph); err != nil {
			return err
		}
	}
	return nil
}

func hexList(xs []string) string {
	if len(xs) == 0 {
		return "[]"
	}
	hs := make([]string, len(xs))
	for i, x := range xs {
		hs[i] = core.Hex([]byte(x))
	}
	return "[" + strings.Join(hs, ",") + "]"
}

// C05.pgsession <cfg tokens as in C05.handle> <n> ev…   with ev = q:<stmt token> (simple query) | p:<stmt token> (Parse, unnamed; implementation only) | c (CommandComplete from the database)
// result: ok then per event  F|E|M|X =<pending queue after the event>   or   c@<front entry the response is processed with>=<queue afterwards> (c- when the queue is empty)
func opPgSession(a []string) string {
	cfg, i := parseCfgArgs(a)
	n := core.Atoi(a[i])
	evs := a[i+1 : i+1+n]
	censor, err := newCensor(yamlOf(cfg))
	if err != nil {
		return "cfgerr"
	}
	defer cleanupFiles(cfg)
	defer censor.ReleaseAll()
	d, err := newPgDriver(censor)
	if err != nil {
		return core.Err
	}
	defer d.close()
	if r := d.send(pgStartup()); r != "F" {
		return "err startup-" + r
	}
	var out []string
	for _, ev := range evs {
		switch {
		case strings.HasPrefix(ev, "q:"), strings.HasPrefix(ev, "p:"):
			q := rawOf(ev[2:])
			var r string
			if ev[0] == 'q' {
				r = d.send(pgSimpleQuery(q))
			} else {
				r = d.send(pgParse("", q))
			}
			out = append(out, r+"="+hexList(d.pending()))
			if r == "X" {
				return "ok " + strings.Join(out, " ")
			}
		case ev == "c":
			p := d.pending()
			front := "-"
			if len(p) > 0 {
				front = "@" + core.Hex([]byte(p[0]))
			}
			if err := d.complete(); err != nil {
				out = append(out, "cerr")
			} else {
				out = append(out, "c"+front+"="+hexList(d.pending()))
			}
		default:
			panic("harness: bad session event " + ev)
		}
	}
	return "ok " + strings.Join(out, " ")
}

func init() {
	core.Register("C05.pgsession", opPgSession)
	_ = fmt.Sprint
}
