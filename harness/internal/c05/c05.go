// Package c05: implementation-side ops, generators and oracles for property C05
// (a statement rejected by acra-censor never reaches the database).
package c05

import (
	"fmt"
	"sort"
	"strings"

	"verifharness/internal/core"
)

func init() { core.RegisterProp("C05", run) }

func hx(s string) string { return core.Hex([]byte(s)) }

// ---- configuration tokens ----

type hspec struct {
	kind     string // A D AA DA I C
	queries  []string
	tables   []string
	patterns []string
}

type cspec struct {
	ipe, log bool
	hs       []hspec
}

func (c cspec) tokens() string {
	b := func(x bool) string {
		if x {
			return "1"
		}
		return "0"
	}
	out := []string{b(c.ipe), b(c.log), fmt.Sprint(len(c.hs))}
	for _, h := range c.hs {
		out = append(out, h.kind)
		switch h.kind {
		case "A", "D":
			out = append(out, fmt.Sprint(len(h.queries)))
			for _, q := range h.queries {
				out = append(out, queryToken(q))
			}
			out = append(out, fmt.Sprint(len(h.tables)))
			for _, t := range h.tables {
				out = append(out, hx(t))
			}
			out = append(out, fmt.Sprint(len(h.patterns)))
			for _, p := range h.patterns {
				out = append(out, patternToken(p))
			}
		case "I":
			out = append(out, fmt.Sprint(len(h.queries)))
			for _, q := range h.queries {
				out = append(out, queryToken(q))
			}
		}
	}
	return strings.Join(out, " ")
}

func (c cspec) hasKind(k string) bool {
	for _, h := range c.hs {
		if h.kind == k {
			return true
		}
	}
	return false
}

// randomSubset of the positions of s (at most `max` positions are candidates)
func randomSigma(r *core.Rand, s *gstmt, max int) map[int]bool {
	sigma := map[int]bool{}
	cands := r.Intn(max + 1)
	for i := 0; i < cands; i++ {
		sigma[r.Intn(s.npos)] = true
	}
	// the whole-statement position only rarely (it hides everything else)
	if !r.Chance(8) {
		delete(sigma, s.npos-1)
	}
	return sigma
}

func sigmaKey(sigma map[int]bool) string {
	var ks []int
	for k := range sigma {
		ks = append(ks, k)
	}
	sort.Ints(ks)
	return fmt.Sprint(ks)
}

func randomRules(r *core.Rand, s *gstmt, others []*gstmt) hspec {
	var h hspec
	pickStmt := func() *gstmt {
		if r.Chance(55) || len(others) == 0 {
			return s
		}
		return core.Pick(r, others)
	}
	if r.Chance(45) {
		for i := r.Intn(3); i >= 0; i-- {
			h.queries = append(h.queries, renderStmt(pickStmt(), nil, randomStyle(r), r))
		}
	}
	if r.Chance(45) {
		for i := r.Intn(3); i >= 0; i-- {
			if len(s.tables) > 0 && r.Chance(60) {
				h.tables = append(h.tables, core.Pick(r, s.tables).name)
			} else {
				h.tables = append(h.tables, core.Pick(r, tablePool))
			}
		}
	}
	if r.Chance(45) {
		for i := r.Intn(2); i >= 0; i-- {
			ps := pickStmt()
			h.patterns = append(h.patterns, renderStmt(ps, randomSigma(r, ps, 4), randomStyle(r), r))
		}
	}
	return h
}

func randomConfig(r *core.Rand, s *gstmt, raws []string, others []*gstmt) cspec {
	c := cspec{ipe: r.Chance(30), log: r.Chance(5)}
	n := r.Intn(5)
	if r.Chance(4) {
		n = 0
	}
	for i := 0; i < n; i++ {
		switch k := r.Intn(20); {
		case k < 6:
			h := randomRules(r, s, others)
			h.kind = "A"
			c.hs = append(c.hs, h)
		case k < 13:
			h := randomRules(r, s, others)
			h.kind = "D"
			c.hs = append(c.hs, h)
		case k < 14:
			c.hs = append(c.hs, hspec{kind: "AA"})
		case k < 17:
			c.hs = append(c.hs, hspec{kind: "DA"})
		case k < 19:
			h := hspec{kind: "I"}
			for j := r.Intn(2); j >= 0; j-- {
				switch r.Intn(3) {
				case 0:
					h.queries = append(h.queries, core.Pick(r, raws))
				case 1:
					h.queries = append(h.queries, malformedStmt(r))
				default:
					if len(others) > 0 {
						h.queries = append(h.queries, renderStmt(core.Pick(r, others), nil, randomStyle(r), r))
					}
				}
			}
			c.hs = append(c.hs, h)
		default:
			c.hs = append(c.hs, hspec{kind: "C"})
		}
	}
	return c
}

func run(r *core.Run) {
	r.Rule = "statements from a grammar (SELECT/INSERT/UPDATE/DELETE/UNION with joins, sub-selects, derived tables, IN lists) rendered in several spellings; patterns derived from the statement by generalising subsets of its literals/columns/lists/sub-selects/WHERE/whole statement; censor configurations = random chains of allow/deny/allowall/denyall/query_ignore/query_capture with query, table and pattern rules built from the statement and from unrelated ones; malformed statements; sessions = interleavings of allowed and denied statements and database completions. Non-trivial: the statement parses (or the case is about parse errors) and the configuration has at least one handler; distinct by (configuration, statement text)."
	runCorpus(r)
	runChainOrder(r)
	runQualified(r)
	runPatterns(r)
	runGeneralise(r)
	runDrops(r)
	runCastVariants(r)
	runJoinChains(r)
	runChains(r)
	runTables(r)
	runSessions(r)
}

// ---------- regression corpus: witnesses of the defects found (all repaired or registered) ----------

var selfMatchWitnesses = []string{
	"insert into t1 (a) values (1)",                                       // handleInsertStatement ended with `return false`
	"insert into t1 (a, b) values (1, 'x') on duplicate key update a = 2", //
	"insert into t1 (a) select b from t2 where c = 3",                     //
	"select case when a = 1 then 'one' else 'other' end from t1",          // areEqualCaseExpr: query.Else vs pattern.Expr
	"select a from t1 where created > now() - interval 1 day",             // areEqualIntervalExpr inverted
	"select cast(a as char) from t1",                                      // areEqualConvertType: nil deref
	"select cast(a as decimal(10, 2)) from t1",                            // areEqualConvertType inverted
	"select a from t1 where b = 1",
	"update t1 set a = 1 where b = 2",
	"delete from t1 where a in (1, 2, 3)",
	"select a from t1 union select b from t2",
}

func runCorpus(r *core.Run) {
	// the model's placeholder constants are the real ones
	r.Begin("placeholders", true, "corpus")
	r.Do("C05.placeholders")

	for _, w := range selfMatchWitnesses {
		r.Begin("self:"+w, true, "corpus", "corpus:self-match")
		out := r.Impl("C05.match " + patternToken(w) + " " + stmtToken(w))
		r.Check(out == "true", "pattern-self-mismatch", "the statement's own text used as a pattern does not match it: "+w+" => "+out)
	}
	// isWherePattern(nil): pattern without WHERE against a statement with one
	r.Begin("where-nil", true, "corpus")
	out := r.Do("C05.match " + patternToken("select a from t1") + " " + stmtToken("select a from t1 where b = 1"))
	r.Check(out == "false", "matcher-panic", "pattern `select a from t1` against `select a from t1 where b = 1` => "+out)

	// an empty tuple in the pattern: areEqualValTuple indexed pattern[len(pattern)-1] (panic inside HandleQuery)
	r.Begin("empty-tuple-pattern", true, "corpus")
	out = r.Do("C05.match " + patternToken("insert into t1 values ()") + " " + stmtToken("insert into t1 values (1)"))
	r.Check(out == "false", "matcher-panic", "pattern `insert into t1 values ()` against `insert into t1 values (1)` => "+out)

	// clauses no comparator looked at on the pinned tree (RETURNING, UNION vs UNION ALL; UPDATE … FROM needs the PostgreSQL
	// dialect): a pattern must not match the statement that carries the extra clause (allow-rule bypass, repaired)
	for _, w := range [][2]string{
		{"insert into t1 (a) values (1)", "insert into t1 (a) values (1) returning a"},
		{"insert into t1 (a) values (%%VALUE%%)", "insert into t1 (a) values (1) returning (select password from users limit 1)"},
		{"delete from t1 where a = 1", "delete from t1 where a = 1 returning *"},
		{"delete from t1 where a = %%VALUE%%", "delete from t1 where a = 1 returning id, name"},
		{"select a from t1 union select b from t2", "select a from t1 union all select b from t2"},
	} {
		r.Begin("ignored-clause:"+w[1], true, "corpus", "corpus:ignored-clause")
		out := r.Do("C05.match " + patternToken(w[0]) + " " + stmtToken(w[1]))
		r.Check(out == "false", "pattern-ignores-clause", "pattern `"+w[0]+"` matches `"+w[1]+"` => "+out)
	}
	// table identifiers are compared after CompliantName(): a pattern for table a_b matches a statement on table `a-b`
	for _, w := range [][2]string{{"select a from a_b", "select a from `a-b`"}, {"select a from a_b where c = %%VALUE%%", "select a from `a b` where c = 1"}} {
		r.Begin("compliant-name:"+w[1], true, "corpus", "corpus:compliant-name")
		if out := r.Do("C05.match " + patternToken(w[0]) + " " + stmtToken(w[1])); out != "false" {
			r.Fail("pattern-table-compliant-name", "pattern `"+w[0]+"` matches the statement on another table `"+w[1]+"` => "+out)
		}
	}

	// a denied statement must not leave a pending entry (PostgreSQL simple query)
	r.Begin("session-witness", true, "corpus")
	cfg := cspec{hs: []hspec{{kind: "D", tables: []string{"secret"}}}}
	line := "C05.pgsession " + cfg.tokens() + " 5 q:" + stmtToken("select * from pub") + " c q:" + stmtToken("select * from secret") + " q:" + stmtToken("select a from pub") + " c"
	out = r.Do(line)
	want := "ok F=[" + hx("select * from pub") + "] c@" + hx("select * from pub") + "=[] E=[] F=[" + hx("select a from pub") + "] c@" + hx("select a from pub") + "=[]"
	r.Check(out == want, "session-misaligned", "deny `secret`, then an allowed statement: got "+out)

	// query_ignore: every spelling of an ignored statement is ignored
	r.Begin("ignore-spelling", true, "corpus")
	icfg := cspec{hs: []hspec{{kind: "I", queries: []string{"select 1 from t1"}}, {kind: "DA"}}}
	a := r.Do("C05.handle " + icfg.tokens() + " " + stmtToken("select 1 from t1"))
	b := r.Do("C05.handle " + icfg.tokens() + " " + stmtToken("SELECT 1 FROM t1;"))
	r.Check(a == "allow" && b == "allow", "spelling-variance", "query_ignore `select 1 from t1` + denyall: `select 1 from t1` => "+a+", `SELECT 1 FROM t1;` => "+b)

	// table rules and nested tables (DESIGN §8 #18)
	for _, w := range []string{
		"select id from pub where id in (select id from secret)",
		"select * from (select * from secret) as t",
		"select a from pub union select a from secret",
		"insert into pub (a) select a from secret",
	} {
		r.Begin("nested:"+w, true, "corpus", "corpus:nested-table")
		cfg := cspec{hs: []hspec{{kind: "D", tables: []string{"secret"}}}}
		out := r.Do("C05.handle " + cfg.tokens() + " " + stmtToken(w))
		if out != "deny" {
			r.Fail("table-rule-nested", "deny table `secret`, statement reads it below the top level: "+w+" => "+out)
		}
	}
	// direct uses are matched
	for _, w := range []string{"select * from secret", "select * from pub, secret", "select * from pub join secret on pub.id = secret.id", "insert into secret (a) values (1)"} {
		r.Begin("direct:"+w, true, "corpus")
		cfg := cspec{hs: []hspec{{kind: "D", tables: []string{"secret"}}}}
		out := r.Do("C05.handle " + cfg.tokens() + " " + stmtToken(w))
		r.Check(out == "deny", "table-rule-direct", "deny table `secret`: "+w+" => "+out)
	}
}

// ---------- patterns ----------

func runPatterns(r *core.Run) {
	n := r.N(250, 2000)
	unparsedPatterns := 0
	for i := 0; i < n; i++ {
		rnd := r.Rand.Fork()
		s := genStatement(rnd)
		raw := renderStmt(s, nil, plainStyle, rnd)
		st := stmtToken(raw)
		if strings.HasSuffix(st, "/!") {
			r.Begin("gen-unparsed:"+raw, false, "generator-unparsed")
			r.Note("generator produced a statement the parser rejects: %s", raw)
			continue
		}
		// subsets of up to 6 positions: all of them (thorough) or a sample (quick)
		cand := rnd.Intn(s.npos)
		var positions []int
		for j := 0; j < 6 && j < s.npos; j++ {
			positions = append(positions, (cand+j*7)%s.npos)
		}
		subsets := 1 << len(positions)
		step := 1
		if !r.Thorough() && subsets > 8 {
			step = subsets / 8
		}
		for m := 0; m < subsets; m += step {
			sigma := map[int]bool{}
			for b, p := range positions {
				if m&(1<<b) != 0 {
					sigma[p] = true
				}
			}
			pat := renderStmt(s, sigma, randomStyle(rnd), rnd)
			pt := patternToken(pat)
			r.Begin("pat:"+pat+"|"+raw, true, "pattern", "stmt:"+s.kind, fmt.Sprintf("generalised:%d", len(sigma)))
			if strings.HasSuffix(pt, "/!") {
				unparsedPatterns++
				r.Tag("pattern-unparsed")
				continue
			}
			for p := range sigma {
				r.Tag("placeholder:" + s.posPh[p])
			}
			out := r.Do("C05.match " + pt + " " + st)
			r.Check(out == "true", "pattern-self-mismatch", "pattern derived from the statement does not match it: pattern `"+pat+"` statement `"+raw+"` => "+out)
			// the same pattern against another spelling of the statement
			raw2 := renderStmt(s, nil, randomStyle(rnd), rnd)
			out2 := r.Do("C05.match " + pt + " " + stmtToken(raw2))
			r.Check(out2 == out, "spelling-variance", "pattern `"+pat+"`: `"+raw+"` => "+out+" but `"+raw2+"` => "+out2)
		}
		// near miss: one literal of the statement changed. A pattern that generalises that literal (or something
		// around it) still matches; one that spells it out usually does not (correspondence only for that direction).
		if pos, restore := mutateLiteral(s, rnd); pos >= 0 {
			mraw := renderStmt(s, nil, plainStyle, rnd)
			mt := stmtToken(mraw)
			restore()
			if !strings.HasSuffix(mt, "/!") {
				for k := 0; k < 3; k++ {
					sigma := randomSigma(rnd, s, 3)
					if k == 0 {
						sigma[pos] = true
					}
					pat := renderStmt(s, sigma, plainStyle, rnd)
					pt := patternToken(pat)
					if strings.HasSuffix(pt, "/!") {
						continue
					}
					r.Begin("near:"+pat+"|"+mraw, true, "pattern-near-miss")
					res := r.Do("C05.match " + pt + " " + mt)
					r.Tag("near:" + res)
					if sigma[pos] {
						r.Check(res == "true", "pattern-generalised-mismatch", "pattern `"+pat+"` generalises the literal in which `"+mraw+"` differs from its source, but => "+res)
					}
				}
			}
		}
		// an unrelated statement against a pattern of this one (mostly false; correspondence only)
		o := genStatement(rnd)
		oraw := renderStmt(o, nil, plainStyle, rnd)
		if ot := stmtToken(oraw); !strings.HasSuffix(ot, "/!") {
			pat := renderStmt(s, randomSigma(rnd, s, 5), plainStyle, rnd)
			if pt := patternToken(pat); !strings.HasSuffix(pt, "/!") {
				r.Begin("xpat:"+pat+"|"+oraw, true, "pattern-cross")
				res := r.Do("C05.match " + pt + " " + ot)
				r.Tag("cross:" + res)
			}
		}
	}
	r.Extra["patterns_not_parseable"] = unparsedPatterns
}

// ---------- chains ----------

func runChains(r *core.Run) {
	n := r.N(220, 1800)
	for i := 0; i < n; i++ {
		rnd := r.Rand.Fork()
		s := genStatement(rnd)
		others := []*gstmt{genStatement(rnd), genStatement(rnd)}
		nsp := 3
		var raws []string
		raws = append(raws, renderStmt(s, nil, plainStyle, rnd))
		for j := 1; j < nsp; j++ {
			raws = append(raws, renderStmt(s, nil, randomStyle(rnd), rnd))
		}
		st0 := stmtToken(raws[0])
		if strings.HasSuffix(st0, "/!") {
			r.Begin("gen-unparsed:"+raws[0], false, "generator-unparsed")
			continue
		}
		// spellings are one statement for the parser
		parts0 := strings.SplitN(st0, "/", 2)[1]
		for _, raw := range raws[1:] {
			r.Begin("spelling:"+raw, true, "spelling")
			p := strings.SplitN(stmtToken(raw), "/", 2)[1]
			r.Check(p == parts0, "spelling-variance", "two spellings parse differently: `"+raws[0]+"` vs `"+raw+"`")
		}
		for c := 0; c < 3; c++ {
			cfg := randomConfig(rnd, s, raws, others)
			ct := cfg.tokens()
			var verdicts []string
			for _, raw := range raws {
				r.Begin("chain:"+ct+"|"+raw, len(cfg.hs) > 0, "chain", fmt.Sprintf("handlers:%d", len(cfg.hs)))
				v := handleChecked(r, ct, stmtToken(raw))
				verdicts = append(verdicts, v)
				r.Tag("verdict:" + v)
			}
			for j := 1; j < len(verdicts); j++ {
				r.Check(verdicts[j] == verdicts[0], "spelling-variance", "verdict differs between spellings: `"+raws[0]+"` => "+verdicts[0]+", `"+raws[j]+"` => "+verdicts[j]+" under "+ct)
			}
			// malformed statement under the same configuration
			bad := malformedStmt(rnd)
			bt := stmtToken(bad)
			r.Begin("chain-bad:"+ct+"|"+bad, len(cfg.hs) > 0, "chain-malformed")
			v := handleChecked(r, ct, bt)
			if strings.HasSuffix(bt, "/!") && v != "cfgerr" && !cfg.ipe && (len(cfg.hs) > 0 || cfg.log) {
				r.Check(v == "deny", "unparsed-allowed", "unparseable statement `"+bad+"` allowed without ignore_parse_error under "+ct)
			}
		}
		// directed configurations whose verdict the property fixes
		raw := raws[1]
		st := stmtToken(raw)
		other := renderStmt(s, nil, randomStyle(rnd), rnd)
		direct := []struct {
			name string
			cfg  cspec
			want string
		}{
			{"deny-query", cspec{hs: []hspec{{kind: "D", queries: []string{other}}}}, "deny"},
			{"deny-query-behind-allow-of-other", cspec{hs: []hspec{{kind: "A", queries: []string{renderStmt(others[0], nil, plainStyle, rnd)}}, {kind: "D", queries: []string{other}}, {kind: "AA"}}}, ""},
			{"allow-other-then-denyall", cspec{hs: []hspec{{kind: "A", tables: []string{"no_such_table"}}, {kind: "DA"}}}, "deny"},
			{"allow-query-then-denyall", cspec{hs: []hspec{{kind: "A", queries: []string{other}}, {kind: "DA"}}}, "allow"},
			{"deny-pattern-self", cspec{hs: []hspec{{kind: "D", patterns: []string{renderStmt(s, randomSigma(rnd, s, 3), randomStyle(rnd), rnd)}}}}, "deny*"},
			{"denyall-first", cspec{hs: []hspec{{kind: "DA"}, {kind: "AA"}}}, "deny"},
			{"capture-then-denyall", cspec{hs: []hspec{{kind: "C"}, {kind: "DA"}}}, "deny"},
		}
		for _, d := range direct {
			ct := d.cfg.tokens()
			r.Begin("direct:"+d.name+"|"+ct+"|"+raw, true, "chain-direct", "direct:"+d.name)
			v := handleChecked(r, ct, st)
			switch d.want {
			case "":
			case "deny*": // unless the derived pattern is not parseable (then the configuration is rejected)
				r.Check(v == "deny" || v == "cfgerr", "deny-rule-ineffective", d.name+": `"+raw+"` => "+v+" under "+ct)
			default:
				r.Check(v == d.want, "chain-"+d.name, d.name+": `"+raw+"` => "+v+" (want "+d.want+") under "+ct)
			}
		}
	}
}

// ---------- table rules ----------

func runTables(r *core.Run) {
	n := r.N(200, 1600)
	for i := 0; i < n; i++ {
		rnd := r.Rand.Fork()
		s := genStatement(rnd)
		raw := renderStmt(s, nil, randomStyle(rnd), rnd)
		st := stmtToken(raw)
		if strings.HasSuffix(st, "/!") {
			continue
		}
		// the matcher itself, random sets
		var set []string
		for j := rnd.Intn(4); j >= 0; j-- {
			set = append(set, core.Pick(rnd, tablePool))
		}
		toks := []string{fmt.Sprint(len(set))}
		for _, t := range set {
			toks = append(toks, hx(t))
		}
		r.Begin("tables:"+strings.Join(set, ",")+"|"+raw, true, "tables")
		r.Do("C05.tables " + strings.Join(toks, " ") + " " + st)
		// deny rule for one table of the statement
		if len(s.tables) == 0 {
			continue
		}
		t := core.Pick(rnd, s.tables).name
		how := s.touches(t)
		cfg := cspec{hs: []hspec{{kind: "D", tables: []string{t}}}}
		r.Begin("deny-table:"+t+"|"+raw, true, "deny-table", "table-use:"+how)
		v := handleChecked(r, cfg.tokens(), st)
		switch how {
		case "top":
			r.Check(v == "deny", "table-rule-direct", "deny table `"+t+"`, statement uses it at the top level: `"+raw+"` => "+v)
		case "nested":
			if v != "deny" {
				r.Fail("table-rule-nested", "deny table `"+t+"`, statement reads it below the top level: `"+raw+"` => "+v)
			}
		}
	}
}

// ---------- sessions ----------

func runSessions(r *core.Run) {
	n := r.N(40, 400)
	for i := 0; i < n; i++ {
		rnd := r.Rand.Fork()
		// a small universe of statements and one configuration
		var stmts []*gstmt
		for j := 0; j < 4; j++ {
			stmts = append(stmts, genStatement(rnd))
		}
		raw0 := renderStmt(stmts[0], nil, plainStyle, rnd)
		cfg := randomConfig(rnd, stmts[0], []string{raw0}, stmts[1:])
		if len(cfg.hs) == 0 || rnd.Chance(40) {
			t := "secret"
			if len(stmts[0].tables) > 0 {
				t = stmts[0].tables[0].name
			}
			cfg = cspec{hs: []hspec{{kind: "D", tables: []string{t}, queries: []string{renderStmt(stmts[1], nil, plainStyle, rnd)}}}}
		}
		ct := cfg.tokens()
		if r.Impl("C05.handle "+ct+" "+stmtToken("select 1")) == "cfgerr" {
			continue
		}
		var evs []string
		var texts []string
		outstanding := 0
		m := 3 + rnd.Intn(8)
		for j := 0; j < m; j++ {
			if outstanding > 0 && rnd.Chance(35) {
				evs = append(evs, "c")
				texts = append(texts, "")
				outstanding--
				continue
			}
			var raw string
			if rnd.Chance(15) {
				raw = malformedStmt(rnd)
			} else {
				raw = renderStmt(core.Pick(rnd, stmts), nil, randomStyle(rnd), rnd)
			}
			tk := stmtToken(raw)
			evs = append(evs, "q:"+tk)
			texts = append(texts, raw)
			if r.Impl("C05.handle "+ct+" "+tk) == "allow" {
				outstanding++
			}
		}
		line := "C05.pgsession " + ct + " " + fmt.Sprint(len(evs)) + " " + strings.Join(evs, " ")
		r.Begin("session:"+line, true, "session", fmt.Sprintf("events:%d", len(evs)))
		out := r.Do(line)
		// direct oracle: replay the verdicts and the queue independently
		f := strings.Fields(out)
		if len(f) != len(evs)+1 || f[0] != "ok" {
			r.Fail("session-broken", "session did not complete: "+out)
			continue
		}
		var queue []string
		for j, ev := range evs {
			res := f[j+1]
			if ev == "c" {
				want := "c-=[]"
				if len(queue) > 0 {
					front := queue[0]
					queue = queue[1:]
					want = "c@" + hx(front) + "=" + hexList(queue)
				}
				r.Check(res == want, "session-misaligned", fmt.Sprintf("event %d (database completion): response processed with %s, want %s", j, res, want))
				continue
			}
			v := r.Impl("C05.handle " + ct + " " + ev[2:])
			if v == "allow" {
				queue = append(queue, texts[j])
				r.Check(res == "F="+hexList(queue), "session-misaligned", fmt.Sprintf("event %d: allowed statement `%s` => %s, want forwarded with queue %s", j, texts[j], res, hexList(queue)))
			} else {
				if r.Check(strings.HasPrefix(res, "E="), "denied-forwarded", fmt.Sprintf("event %d: denied statement `%s` => %s, want error + ready to the client and nothing forwarded", j, texts[j], res)) {
					r.Check(res == "E="+hexList(queue), "session-misaligned", fmt.Sprintf("event %d: denied statement `%s` left the pending queue as %s, want %s", j, texts[j], res, hexList(queue)))
				}
			}
		}
		// the same statements through the real MySQL proxy (COM_QUERY / COM_STMT_PREPARE)
		{
			var mev []string
			var want []string
			for j, ev := range evs {
				if ev == "c" {
					continue
				}
				kind := "q:"
				if (i+j)%3 == 0 {
					kind = "s:"
				}
				mev = append(mev, kind+ev[2:])
				if r.Impl("C05.handle "+ct+" "+ev[2:]) == "allow" {
					want = append(want, "F")
				} else {
					want = append(want, "E")
				}
			}
			ml := "C05.mysession " + ct + " " + fmt.Sprint(len(mev)) + " " + strings.Join(mev, " ")
			r.Begin("mysession:"+ml, true, "session-mysql", fmt.Sprintf("events:%d", len(mev)))
			mout := r.Do(ml)
			r.Check(mout == strings.TrimSpace("ok "+strings.Join(want, " ")), "denied-forwarded", "MySQL session: got "+mout+", want ok "+strings.Join(want, " "))
		}
		// the same statements as Parse messages (extended protocol): a denied one is answered with an error and not forwarded
		if i%4 == 0 {
			for j, ev := range evs {
				if ev == "c" {
					continue
				}
				l := "C05.pgsession " + ct + " 1 p:" + ev[2:]
				r.Begin("parse:"+l, true, "session-parse")
				res := r.Impl(l)
				v := r.Impl("C05.handle " + ct + " " + ev[2:])
				if v == "allow" {
					// X: the proxy could not register the prepared statement and closed the session (nothing forwarded)
					r.Check(res == "ok F=[]" || res == "ok X=[]", "session-misaligned", "allowed Parse `"+texts[j]+"` => "+res)
				} else {
					r.Check(res == "ok E=[]", "denied-forwarded", "denied Parse `"+texts[j]+"` => "+res)
				}
			}
		}
	}
}
