// Package c05: implementation-side ops, generators and oracles for property C05.
package c05
