package c05

// Chain order: `query_ignore` / `query_capture` handlers at EVERY position of a chain (before, between and after
// deny / allow / denyall / allowall handlers), and the oracle clause that turns "the chain model denies, the real
// AcraCensor allows" into a failing input of the property.
//
// Why that direction IS a property failure and not merely a disagreement: the Lean chain model
// (lean/AcraModel/Censor/Chain.lean, `handleQuery` / `runChain`) is the SPECIFICATION of the verdict – "ordered
// chain, first decisive handler wins". The theorems of lean/AcraModel/Props/C05.lean say what its `deny` means:
//
//   first_decisive_wins      every handler in front of d passes the statement on and d decides  ⇒  d's decision
//   deny_match_denies        a deny rule hit by the statement, nothing decisive in front of it   ⇒  deny
//   allow_then_denyAll       nothing in front of a denyall stops with "allow"                    ⇒  deny
//   unparsed_denied          unparseable, not tolerated                                           ⇒  deny
//   denied_statement_never_reaches_database   a statement the chain denies is in no session's database-side trace
//
// and fact_hq_loop / fact_hq_single_ordered_loop pin that the source walks the handlers in ONE loop in
// configuration order. So when the model says *deny* and the implementation *allows* the same (configuration,
// statement), a statement the configured policy rejects is let through: the case is pushed through the REAL
// PgProxy and the REAL MySQL handler with that censor, and the replay shows the packet arriving on the database
// side. The opposite direction (implementation denies, model allows) blocks a statement the policy admits – no
// statement reaches the database that should not – and stays a plain disagreement.

import (
	"fmt"
	"strings"

	"verifharness/internal/core"
)

// handleChecked runs C05.handle on implementation and model (correspondence) and applies the oracle clause
// `chain-allows-what-policy-denies`. It returns the implementation's verdict.
func handleChecked(r *core.Run, ct, st string) string {
	line := "C05.handle " + ct + " " + st
	before := r.Hist["DISAGREE"]
	v := r.Do(line)
	if r.Hist["DISAGREE"] == before || v != "allow" {
		return v
	}
	if m := r.ModelOnly(line); m != "deny" {
		return v
	}
	raw := rawOf(st)
	// session level: the same censor inside the real proxies; F = the packet arrived on the database side
	pg := r.Impl("C05.pgsession " + ct + " 1 q:" + st)
	my := r.Impl("C05.mysession " + ct + " 1 q:" + st)
	where := "AcraCensor.HandleQuery returned nil"
	if strings.HasPrefix(pg, "ok F=") {
		where += "; PostgreSQL proxy: the Query packet arrived on the database side (" + pg + ")"
	} else {
		where += "; PostgreSQL proxy: " + pg
	}
	if my == "ok F" {
		where += "; MySQL proxy: the COM_QUERY packet arrived on the database side"
	} else {
		where += "; MySQL proxy: " + my
	}
	r.Fail("chain-allows-what-policy-denies", "the policy (ordered chain, first decisive handler wins – theorems first_decisive_wins / deny_match_denies / allow_then_denyAll) DENIES `"+
		raw+"` under "+describeCfg(ct)+" but the implementation ALLOWS it: "+where)
	return v
}

// describeCfg renders the handler kinds of a configuration token list in chain order (for messages).
func describeCfg(ct string) string {
	a := strings.Fields(ct)
	if len(a) < 3 {
		return ct
	}
	cfg, _ := parseCfgArgs(a)
	defer cleanupFiles(cfg)
	var hs []string
	for _, h := range cfg.Handlers {
		s := h.Handler
		var parts []string
		if len(h.Queries) > 0 {
			parts = append(parts, fmt.Sprintf("queries:%q", h.Queries))
		}
		if len(h.Tables) > 0 {
			parts = append(parts, fmt.Sprintf("tables:%q", h.Tables))
		}
		if len(h.Patterns) > 0 {
			parts = append(parts, fmt.Sprintf("patterns:%q", h.Patterns))
		}
		if len(parts) > 0 {
			s += "{" + strings.Join(parts, " ") + "}"
		}
		hs = append(hs, s)
	}
	return "[" + strings.Join(hs, ", ") + "]"
}

// insertAt returns hs with h inserted at position k.
func insertAt(hs []hspec, k int, h hspec) []hspec {
	out := make([]hspec, 0, len(hs)+1)
	out = append(out, hs[:k]...)
	out = append(out, h)
	return append(out, hs[k:]...)
}

// runChainOrder: for a statement s and a base chain of deny/allow/denyall/allowall handlers (several of which are
// hit by s), a query_ignore handler that lists s (in some spelling) and a query_capture handler are inserted at every
// position of the chain. Verdicts: implementation vs model, plus the directly known ones.
func runChainOrder(r *core.Run) {
	n := r.N(36, 300)
	for i := 0; i < n; i++ {
		rnd := r.Rand.Fork()
		s := genStatement(rnd)
		raw := renderStmt(s, nil, plainStyle, rnd)
		st := stmtToken(raw)
		if strings.HasSuffix(st, "/!") {
			continue
		}
		alt := renderStmt(s, nil, randomStyle(rnd), rnd)
		o := genStatement(rnd)
		oraw := renderStmt(o, nil, plainStyle, rnd)
		if ot := queryToken(oraw); strings.HasSuffix(ot, "/!") || strings.SplitN(ot, "/", 2)[1] == strings.SplitN(queryToken(raw), "/", 2)[1] {
			oraw = "select 1 from dual"
		}
		// base chains; `decides` = index of the first handler that decides s, and how (known by construction)
		type baseChain struct {
			name    string
			hs      []hspec
			decides int
			verdict string
		}
		bases := []baseChain{
			{"denyall", []hspec{{kind: "DA"}}, 0, "deny"},
			{"deny-query", []hspec{{kind: "D", queries: []string{alt}}, {kind: "AA"}}, 0, "deny"},
			{"allow-other,denyall", []hspec{{kind: "A", tables: []string{"no_such_table"}}, {kind: "DA"}}, 1, "deny"},
			{"allow-other,deny-query,allowall", []hspec{{kind: "A", queries: []string{oraw}}, {kind: "D", queries: []string{alt}}, {kind: "AA"}}, 1, "deny"},
			{"allow-query,denyall", []hspec{{kind: "A", queries: []string{alt}}, {kind: "DA"}}, 0, "allow"},
		}
		for _, u := range s.tables {
			if s.touches(u.name) == "top" {
				bases = append(bases, baseChain{"deny-table,allow-other,denyall", []hspec{{kind: "D", tables: []string{u.name}}, {kind: "A", tables: []string{"no_such_table"}}, {kind: "DA"}}, 0, "deny"})
				break
			}
		}
		b := bases[i%len(bases)]
		if r.Thorough() || r.Widen {
			b = core.Pick(rnd, bases)
		}
		var ign hspec
		switch rnd.Intn(3) {
		case 0:
			ign = hspec{kind: "I", queries: []string{raw}}
		case 1:
			ign = hspec{kind: "I", queries: []string{alt}}
		default:
			ign = hspec{kind: "I", queries: []string{oraw, alt}}
		}
		for k := 0; k <= len(b.hs); k++ {
			hs := insertAt(b.hs, k, ign)
			// a capture handler somewhere as well (never decides)
			hs = insertAt(hs, rnd.Intn(len(hs)+1), hspec{kind: "C"})
			cfg := cspec{hs: hs}
			ct := cfg.tokens()
			for _, text := range []string{raw, alt} {
				tk := stmtToken(text)
				r.Begin("order:"+ct+"|"+text, true, "chain-order", "order:"+b.name, fmt.Sprintf("ignore-at:%d/%d", k, len(b.hs)))
				v := handleChecked(r, ct, tk)
				r.Tag("verdict:" + v)
				if v == "cfgerr" {
					continue
				}
				// known by construction: the ignore handler decides iff it stands in front of the first deciding handler
				want := b.verdict
				if k <= b.decides {
					want = "allow"
				}
				if want == "deny" {
					if v != "deny" {
						pg := r.Impl("C05.pgsession " + ct + " 1 q:" + tk)
						r.Fail("chain-order", fmt.Sprintf("%s with query_ignore at position %d (behind the handler that rejects the statement): `%s` => %s under %s; PostgreSQL proxy session: %s", b.name, k, text, v, describeCfg(ct), pg))
					}
				} else if v != want {
					// over-blocking: correspondence only (the model comparison above has recorded it if the model disagrees)
					r.Tag("order-overblocking")
				}
			}
			// another statement is not touched by the ignore list
			otk := stmtToken(oraw)
			if !strings.HasSuffix(otk, "/!") && oraw != raw {
				r.Begin("order-other:"+ct+"|"+oraw, true, "chain-order-other")
				handleChecked(r, ct, otk)
			}
		}
	}
}
