package c20

import (
	"bytes"
	"fmt"
	"os"
	"path/filepath"
	"sync"
	"time"

	"github.com/sirupsen/logrus"

	"github.com/cossacklabs/acra/logging"
)

// entrySpec is one action of a generated history: a log call, or a chain restart / finalisation
// through the real AuditLogHandler.
type entrySpec struct {
	kind   byte // 'e' entry, 'r' ResetChain(key), 'f' FinalizeChain()
	level  logrus.Level
	t      time.Time
	msg    string
	fields logrus.Fields
}

type recItem struct {
	formatted []byte // the formatter's output as the crypto hook receives it
	msg       string
	reset     bool // the chain was restarted right after this entry was written
}

// recorder is a FormatterHook placed BEFORE the crypto hook: its PostFormat sees the buffer exactly
// as the crypto hook will receive it; being an AuditLogKeySetter it also observes every chain restart.
type recorder struct{ items []recItem }

func (r *recorder) PreFormat(e *logrus.Entry) error { return nil }
func (r *recorder) PostFormat(e *logrus.Entry, b *bytes.Buffer) error {
	r.items = append(r.items, recItem{formatted: append([]byte{}, b.Bytes()...), msg: e.Message})
	return nil
}
func (r *recorder) SetCryptoKey(key []byte) error {
	if len(r.items) > 0 {
		r.items[len(r.items)-1].reset = true
	}
	return nil
}

var pipeMu sync.Mutex

// pipeline runs the history through the REAL logging stack: logrus' standard logger with the
// AuditLogHandler as formatter and output, AcraCryptoFormatter for `format`, the crypto hook of
// NewHooks. It returns the bytes written and what the recorder saw.
func pipeline(format string, key []byte, specs []entrySpec) (file []byte, items []recItem) {
	pipeMu.Lock()
	defer pipeMu.Unlock()
	formatter := logging.CreateCryptoFormatter(format)
	formatter.SetServiceName("acra-verif")
	hooks, err := logging.NewHooks(append([]byte{}, key...), format)
	if err != nil {
		panic("harness: " + err.Error())
	}
	rec := &recorder{}
	formatter.SetHooks([]logging.FormatterHook{rec, hooks[0]})
	var out bytes.Buffer
	handler, err := logging.NewAuditLogHandler(formatter, &out)
	if err != nil {
		panic("harness: " + err.Error())
	}
	std := logrus.StandardLogger()
	oldOut, oldFmt, oldLvl := std.Out, std.Formatter, std.GetLevel()
	defer func() { std.SetOutput(oldOut); std.SetFormatter(oldFmt); std.SetLevel(oldLvl) }()
	std.SetFormatter(handler)
	std.SetOutput(handler)
	std.SetLevel(logrus.DebugLevel)
	for _, s := range specs {
		switch s.kind {
		case 'e':
			logrus.NewEntry(std).WithTime(s.t).WithFields(s.fields).Log(s.level, s.msg)
		case 'r':
			handler.ResetChain(append([]byte{}, key...))
			std.SetLevel(logrus.DebugLevel)
		case 'f':
			handler.FinalizeChain()
			std.SetLevel(logrus.DebugLevel)
		default:
			panic("harness: bad spec")
		}
	}
	return append([]byte{}, out.Bytes()...), rec.items
}

// fileLines splits a log with the REAL reader (logging.ReadLogEntries over a temporary file).
func fileLines(file []byte) [][]byte {
	dir, err := os.MkdirTemp("", "vh-c20-")
	if err != nil {
		panic("harness: " + err.Error())
	}
	defer os.RemoveAll(dir)
	path := filepath.Join(dir, "audit.log")
	if err := os.WriteFile(path, file, 0o600); err != nil {
		panic("harness: " + err.Error())
	}
	var out [][]byte
	src := logging.ReadLogEntries([]string{path}, false, false)
	for e := range src.Entries {
		out = append(out, []byte(e.RawLogEntry))
	}
	return out
}

func joinLines(ls [][]byte) []byte {
	var b bytes.Buffer
	for _, l := range ls {
		b.Write(l)
		b.WriteByte('\n')
	}
	return b.Bytes()
}

func describe(specs []entrySpec) string {
	s := ""
	for _, e := range specs {
		switch e.kind {
		case 'e':
			s += fmt.Sprintf("[%q %v]", e.msg, e.fields)
		default:
			s += "[" + string(e.kind) + "]"
		}
	}
	return s
}
