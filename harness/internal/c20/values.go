package c20

import (
	"encoding/json"
	"errors"
	"fmt"
	"math"
	"time"

	"verifharness/internal/core"
)

// Value classes of the JSON path: what logrus hands to encoding/json, what the hook then decodes again
// (unmarshalLogEntry) and re-marshals, and what the parser recomputes the authenticated bytes from.

// jsonStruct: a value that reaches the JSON formatter through reflection
type jsonStruct struct {
	A int64
	B string `json:"b<"`
	c int
	D []byte
	E *jsonStruct `json:",omitempty"`
}

type textKey struct{ s string }

func (t textKey) MarshalText() ([]byte, error) { return []byte("k:" + t.s), nil }

// integers around 2^53 (where float64 stops being exact) and at the ends of the 64-bit ranges
var bigInts = []interface{}{int64(9007199254740993), int64(-9007199254740993), int64(9007199254740992), int64(9007199254740991), uint64(math.MaxUint64), int64(math.MinInt64),
	int64(math.MaxInt64), uint64(1) << 53, uint64(1)<<53 + 1, uint64(1)<<63 + 1025, uint32(math.MaxUint32), int8(-128), uintptr(7)}

// floats at the 'f'/'e' format switch points of encoding/json (1e21, 1e-6) and at the ends of the range
var edgeFloats = []interface{}{1e21, 1e20, 9.999999999999999e20, 1e-6, 1e-7, 9.999999999999999e-7, 5e-324, math.MaxFloat64, -math.MaxFloat64, 0.1, 1.0, 100.0, 1e15, 123456789012345680.0,
	math.Copysign(0, -1), float32(0.1), float32(1e21), float32(16777216), 2.5e-8, 1.7976931348623157e308, 4.9406564584124654e-324, math.Pi, -1.5}

// strings the encoder escapes or replaces: HTML characters, U+2028/9, invalid UTF-8 of every kind (stray
// continuation, overlong, surrogate, above U+10FFFF, truncated), control characters, look-alike literals
var edgeStrings = []string{"<>&", "<script>alert(1)</script>", "a b c", " ", "bad\xffutf8", "\xc0\xaf", "\xed\xa0\x80", "\xf4\x90\x80\x80", "\xe2\x80", "\xe2\x80\xa8", "\xf0\x9f\x98\x80",
	"\x00\x01\b\f\x7f\x1f", "\u007f\u0080�", "é\xcc", "\\u0041", "\\", "\"", "\\\"", "/", "퟿", "\U0010ffff", "\U00010000", "߿ࠀ", "3", "-0", "1e5", "true", "null", "false", "[]", "{}",
	"\xef\xbf\xbd", "\xf0\x90\x80", "\x80", "\xbf\xbf", "\xe0\x9f\xbf", "\xe0\xa0\x80", "\xed\x9f\xbf", "\xee\x80\x80", "\xf4\x8f\xbf\xbf", "\xf5\x80\x80\x80", "\xc2", "\xdf\xbf"}

// richValue: one value of the classes above
func richValue(rd *core.Rand) interface{} {
	switch rd.Intn(15) {
	case 0:
		return core.Pick(rd, bigInts)
	case 1, 2:
		return core.Pick(rd, edgeFloats)
	case 3, 4:
		return core.Pick(rd, edgeStrings)
	case 5:
		return []byte(core.Pick(rd, edgeStrings))
	case 6:
		return map[string]interface{}{"z": rd.Intn(9), "a": []interface{}{core.Pick(rd, bigInts), core.Pick(rd, edgeStrings), nil, rd.Bool()}, core.Pick(rd, edgeStrings): map[string]int{"k": 1, "<": 2}}
	case 7:
		return []interface{}{core.Pick(rd, edgeFloats), advString(rd), []string{}, map[int]string{10: "a", 2: "b"}, [2]bool{true, false}}
	case 8: // typed nils
		switch rd.Intn(5) {
		case 0:
			return (*jsonStruct)(nil)
		case 1:
			return []string(nil)
		case 2:
			return map[string]int(nil)
		case 3:
			return (*int)(nil)
		}
		return error(nil)
	case 9:
		return time.Unix(int64(rd.Intn(2000000000)), int64(rd.Intn(1000000000))).UTC()
	case 10:
		return time.Duration(rd.Intn(1 << 40))
	case 11:
		return fmt.Errorf("wrapped %s: %w", core.Pick(rd, edgeStrings), errors.New(advString(rd)))
	case 12:
		return jsonStruct{A: int64(rd.Intn(100)) << 50, B: core.Pick(rd, edgeStrings), c: 1, D: []byte(advString(rd)), E: &jsonStruct{B: "in"}}
	case 13:
		switch rd.Intn(4) {
		case 0:
			return json.Number(core.Pick(rd, []string{"12345678901234567890", "1.50", "-0", "1E+2", "0.000000000000000000001"}))
		case 1:
			return json.RawMessage(core.Pick(rd, []string{`{"b":1, "a":2,"a":3}`, `[1 , 2]`, `1.0`, `"A😀\ud800"`, `1e400`, `-0.0e-0`}))
		case 2:
			return map[textKey]int{{"b"}: 1, {"a"}: 2}
		}
		return &[]interface{}{1, "p"}
	}
	// values encoding/json refuses: logrus drops the whole entry (nothing is written, nothing to verify)
	return core.Pick(rd, []interface{}{math.NaN(), math.Inf(-1), complex(1, 2)})
}
