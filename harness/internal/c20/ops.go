// Package c20: implementation-side ops, generators and oracles for property C20 (audit-log chain).
//
// Layers of the tie (each an op run on the real code and on the Lean model):
//
//	C20.calc     real LogEntryIntegrityCalculator                       ↔ Calc.step / produce
//	C20.produce  real Plaintext/Cef FormatterHook.PostFormat             ↔ appendIntegrity / produceLines
//	C20.parse    real Plaintext/Cef LogParser.ParseEntry                 ↔ parseLine
//	C20.verify   real ReadLogEntries + IntegrityCheckVerifier on a file  ↔ scanLines + parseLine + verify
//	C20.verifyp  same for JSON: the model receives the lines as parsed by the real JSONLogParser
//	C20.lines    real ReadLogEntries on a file (which lines reach the verifier)   ↔ scanLines (processLogFile's read loop)
//	C20.verifyfiles  real ReadLogEntries over several files + one verifier run    ↔ verifyFiles
//
// JSON (model AuditLog/Json.lean: encoding/json's encoder and decoder for decoded values, convertMapToBytes, hook, parser):
//
//	C20.produce json  real JSONFormatterHook.PostFormat on recorded formatter outputs ↔ jsonHook / produceJsonBytes
//	C20.parse json    real JSONLogParser.ParseEntry                                    ↔ jsonParse (decodeTop, conv)
//	C20.verify json   real reader + verifier                                           ↔ scanLines + jsonParse + verify
//	C20.jenc          encoding/json's string encoder (what getBytes applies to a string) ↔ encStr
//
// and the full pipeline (real logrus std logger + AcraCryptoFormatter + hooks + AuditLogHandler with its
// chain reset) is run by the generator (pipeline.go); its output is what all of the above are fed with.
package c20

import (
	"bytes"
	"encoding/hex"
	"encoding/json"
	"fmt"
	"os"
	"path/filepath"
	"strings"

	"github.com/cossacklabs/acra/logging"

	"verifharness/internal/core"
)

func b01(b bool) string {
	if b {
		return "1"
	}
	return "0"
}

type postFormatter interface {
	logging.FormatterHook
	SetCryptoKey(key []byte) error
}

func newHook(format string, key []byte) postFormatter {
	hooks, err := logging.NewHooks(key, format)
	if err != nil || len(hooks) != 1 {
		panic("harness: NewHooks")
	}
	return hooks[0].(postFormatter)
}

func verdict(format string, key, file []byte) string {
	return verdictFiles(format, key, [][]byte{file})
}

// verdictFiles: the real ReadLogEntries over the given files (in order) into one real IntegrityCheckVerifier
// run – what acra-log-verifier does with a list of rotated log files. The failing line is reported as an index
// into the lines of ALL files (the LineNumber of the reader restarts per file).
func verdictFiles(format string, key []byte, files [][]byte) string {
	dir, err := os.MkdirTemp("", "vh-c20-")
	if err != nil {
		panic("harness: " + err.Error())
	}
	defer os.RemoveAll(dir)
	var paths []string
	for i, file := range files {
		path := filepath.Join(dir, fmt.Sprintf("audit.log.%d", i))
		if err := os.WriteFile(path, file, 0o600); err != nil {
			panic("harness: " + err.Error())
		}
		paths = append(paths, path)
	}
	parser, err := logging.NewLogParser(format)
	if err != nil {
		panic("harness: " + err.Error())
	}
	v, err := logging.NewIntegrityCheckVerifier(append([]byte{}, key...), parser)
	if err != nil {
		panic("harness: " + err.Error())
	}
	src := logging.ReadLogEntries(paths, false, false)
	entry, err := v.VerifyIntegrityCheck(src)
	for range src.Entries { // drain so that the reader goroutine ends
	}
	if err == nil {
		return "ok"
	}
	if entry == nil {
		return "error"
	}
	kind := "parse"
	switch err {
	case logging.ErrMissingEndOfChain:
		kind = "missing-end"
	case logging.ErrIntegrityNotMatch:
		kind = "mismatch"
	}
	line := entry.LineNumber
	for i := range files {
		if entry.FileInfo != nil && entry.FileInfo.Name() == fmt.Sprintf("audit.log.%d", i) {
			break
		}
		line += len(fileLines(files[i]))
	}
	return fmt.Sprintf("fail %d %s", line, kind)
}

func parseReal(format string, line []byte) string {
	parser, err := logging.NewLogParser(format)
	if err != nil {
		panic("harness: " + err.Error())
	}
	if len(line) == 0 {
		return "skip" // the verifier skips empty lines before parsing
	}
	e, err := parser.ParseEntry(string(line))
	if err != nil {
		if err == logging.ErrCefIntegrityExtract || err == logging.ErrPlaintextIntegrityExtract || err == logging.ErrJSONIntegrityExtract {
			return "skip"
		}
		return "bad"
	}
	return fmt.Sprintf("entry %s %s %s %s", core.Hex(e.RawData), core.Hex(e.Integrity), b01(e.IsNewChain), b01(e.IsEndChain))
}

func init() {
	core.Register("C20.calc", func(a []string) string {
		key := core.UnHex(a[0])
		calc := logging.NewLogEntryIntegrityCalculator(key)
		var out []string
		for _, it := range a[1:] {
			f := strings.Split(it, ":")
			tag, isNew, err := calc.CalculateIntegrityCheck(core.UnHex(f[0]))
			if err != nil {
				return core.Err
			}
			out = append(out, core.Hex(tag)+":"+b01(isNew))
			if f[1] == "1" {
				calc.ResetCryptoKey(key)
			}
		}
		return strings.Join(out, " ")
	})
	core.Register("C20.produce", func(a []string) string {
		key := core.UnHex(a[1])
		hook := newHook(a[0], key)
		var file bytes.Buffer
		for _, it := range a[2:] {
			f := strings.Split(it, ":")
			buf := bytes.NewBuffer(append([]byte{}, core.UnHex(f[0])...))
			if err := hook.PostFormat(nil, buf); err != nil {
				return core.Err
			}
			file.Write(buf.Bytes())
			if f[1] == "1" {
				hook.SetCryptoKey(key)
			}
		}
		return core.Hex(file.Bytes())
	})
	core.Register("C20.parse", func(a []string) string { return parseReal(a[0], core.UnHex(a[1])) })
	core.Register("C20.verify", func(a []string) string { return verdict(a[0], core.UnHex(a[1]), core.UnHex(a[2])) })
	core.Register("C20.verifyfiles", func(a []string) string {
		var files [][]byte
		for _, f := range a[2:] {
			files = append(files, core.UnHex(f))
		}
		return verdictFiles(a[0], core.UnHex(a[1]), files)
	})
	core.Register("C20.lines", func(a []string) string {
		ls := fileLines(core.UnHex(a[0]))
		if len(ls) == 0 {
			return "none"
		}
		parts := make([]string, len(ls))
		for i, l := range ls {
			parts[i] = core.Hex(l)
		}
		return strings.Join(parts, ",")
	})
	core.Register("C20.jenc", func(a []string) string {
		b, err := json.Marshal(string(core.UnHex(a[0])))
		if err != nil {
			return core.Err
		}
		return core.Hex(b)
	})
	core.Register("C20.verifyp", func(a []string) string { return verdict("json", core.UnHex(a[0]), core.UnHex(a[1])) })
}

// specOfLine renders a real parser result as the model's pre-parsed line spec.
func specOfLine(format string, line []byte) string {
	p := parseReal(format, line)
	switch {
	case p == "skip":
		return "s"
	case p == "bad":
		return "b"
	}
	f := strings.Fields(p)
	return "e:" + f[1] + ":" + f[2] + ":" + f[3] + ":" + f[4]
}

var _ = hex.EncodeToString
