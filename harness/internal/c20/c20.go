package c20

import (
	"bytes"
	"encoding/json"
	"errors"
	"fmt"
	"math"
	"regexp"
	"sort"
	"strings"
	"time"

	"github.com/sirupsen/logrus"

	"github.com/cossacklabs/acra/logging"

	"verifharness/internal/core"
)

func init() { core.RegisterProp("C20", run) }

var formats = []string{"plaintext", "cef", "json"}

const endMsg = logging.EndOfAuditLogChainMessage

var pieces = []string{"\n", "\r\n", "\r", "\"", "'", "=", "|", "\\", " integrity=", " integrity=abcdef0123", "integrity=", "chain=new", " chain=new", "chain=end",
	endMsg, "\t", " ", "  ", "é", " ", " ", "\x00", "\xff\xfe", "{", "}", ",", ":", "delimiter", "msg=", "level=info", "%s", "%!d", "<>&"}

var words = []string{"query", "failed", "user", "SELECT 1", "client_id", "ok", "x", "connection closed", "0", "-1"}

var fieldNames = []string{"user", "client_id", "integrity", "chain", "msg", "time", "level", "a", "a b", "k=v", "unixTime", "product", "code", "severity", "vendor", "version",
	"error", "zz", "Integrity", "chain=end", "é", "x|y", "q\"uote", "back\\slash", "timestamp", "fields.msg", "n<", "bad\xff", "bad\xfe", "", "\u2028", "Chain", "delimiter"}

func advString(rd *core.Rand) string {
	switch rd.Intn(10) {
	case 0:
		return ""
	case 1:
		return endMsg
	case 2, 3, 4:
		return core.Pick(rd, words)
	}
	var sb strings.Builder
	n := 1 + rd.Intn(4)
	for i := 0; i < n; i++ {
		if rd.Chance(55) {
			sb.WriteString(core.Pick(rd, pieces))
		} else {
			sb.WriteString(core.Pick(rd, words))
		}
	}
	return sb.String()
}

func advValue(rd *core.Rand) interface{} {
	switch rd.Intn(12) {
	case 0:
		return rd.Intn(1000) - 500
	case 1:
		return rd.Bool()
	case 2:
		return float64(rd.Intn(1000)) / 8
	case 3:
		return nil
	case 4:
		return errors.New(advString(rd))
	case 5:
		return uint64(1) << uint(rd.Intn(64))
	case 6:
		return []string{advString(rd), "b"}
	}
	return advString(rd)
}

// value tokens whose type can be flipped without changing their characters
var jsonStrLiteral = regexp.MustCompile(`:("(?:-?[0-9]+(?:\\.[0-9]+)?|true|false|null)")[,}]`)
var jsonBareLiteral = regexp.MustCompile(`:(-?[0-9]+(?:\\.[0-9]+)?|true|false)[,}]`)

var levels = []logrus.Level{logrus.DebugLevel, logrus.InfoLevel, logrus.WarnLevel, logrus.ErrorLevel}

func genHistory(rd *core.Rand, adversarial bool, maxLen int) []entrySpec {
	var h []entrySpec
	base := time.Unix(1600000000+int64(rd.Intn(100000000)), int64(rd.Intn(1000))*1000000).UTC()
	n := 1 + rd.Intn(maxLen)
	for i := 0; i < n; i++ {
		switch {
		case rd.Chance(8):
			h = append(h, entrySpec{kind: 'r'})
		case rd.Chance(3):
			h = append(h, entrySpec{kind: 'f'})
		default:
			e := entrySpec{kind: 'e', level: core.Pick(rd, levels), t: base.Add(time.Duration(i*rd.Intn(3)) * time.Second), fields: logrus.Fields{}}
			if adversarial {
				e.msg = advString(rd)
				for k := rd.Intn(4); k > 0; k-- {
					if rd.Chance(45) {
						e.fields[core.Pick(rd, fieldNames)] = richValue(rd)
					} else {
						e.fields[core.Pick(rd, fieldNames)] = advValue(rd)
					}
				}
			} else {
				e.msg = core.Pick(rd, words)
				if rd.Chance(50) {
					e.fields["client_id"] = core.Pick(rd, words)
				}
			}
			h = append(h, e)
		}
	}
	return h
}

func itemsArg(items []recItem) string {
	parts := make([]string, len(items))
	for i, it := range items {
		parts[i] = core.Hex(it.formatted) + ":" + b01(it.reset)
	}
	return strings.Join(parts, " ")
}

// inputClass names the decidable class of an honest history that matters for known defects.
func inputClass(format string, specs []entrySpec, items []recItem) string {
	for _, s := range specs {
		if s.kind != 'e' {
			continue
		}
		for k := range s.fields {
			if format == "json" && (k == "integrity" || k == "chain") {
				return "field-named-integrity-or-chain"
			}
		}
	}
	if format == "json" {
		for k, it := range items {
			if strings.EqualFold(it.msg, endMsg) && (k == 0 || items[k-1].reset) {
				return "chain-starts-with-end-message"
			}
		}
	}
	if format != "json" {
		for _, it := range items {
			f := it.formatted
			if format == "plaintext" {
				f = f[:len(f)-1]
			} else {
				f = f[:len(f)-2]
			}
			if bytes.Contains(f, []byte(logging.DataSplitToken)) {
				return "entry-contains-split-token"
			}
		}
	}
	for _, it := range items {
		if len(it.formatted) >= 65000 {
			return "line-of-64KiB-or-more"
		}
	}
	return "other"
}

func verifyOp(r *core.Run, format string, key, file []byte) string {
	if format == "json" {
		// entry level: the model receives the lines as parsed by the real JSONLogParser …
		ls := fileLines(file)
		specs := make([]string, len(ls))
		for i, l := range ls {
			specs[i] = specOfLine("json", l)
		}
		r.Do(fmt.Sprintf("C20.verifyp %s %s %s", core.Hex(key), core.Hex(file), strings.Join(specs, " ")))
		// … and line level: the model decodes the lines itself (AuditLog/Json.lean)
	}
	return r.Do(fmt.Sprintf("C20.verify %s %s %s", format, core.Hex(key), core.Hex(file)))
}

// protectedAfter returns the index of the first line after position p that carries an integrity
// part (per the real parser); len(lines) when there is none.
func protectedAfter(format string, lines [][]byte, p int) int {
	for i := p + 1; i < len(lines); i++ {
		if parseReal(format, lines[i]) != "skip" {
			return i
		}
	}
	return len(lines)
}

func failLine(v string) int {
	var l int
	var k string
	if _, err := fmt.Sscanf(v, "fail %d %s", &l, &k); err != nil {
		return -1
	}
	return l
}

// mustFailBy checks the tamper clause: verification of the altered log fails at line ≤ limit.
func mustFailBy(r *core.Run, class, what string, v string, limit int) {
	l := failLine(v)
	r.Check(l >= 0 && l <= limit, class, fmt.Sprintf("%s: verifier says %q, expected a failure no later than line %d", what, v, limit))
}

func run(r *core.Run) {
	r.Rule = "histories of log calls and chain restarts through the real logging stack in plaintext, CEF and JSON (structured: ordinary messages/fields; adversarial: line breaks, quotes, separators, look-alike integrity/chain markers, the end-of-chain message, field names colliding with the hooks' own keys; boundary: empty messages, single-entry chains, very long lines), then every kind of alteration of the produced log; a case is non-trivial when the log has at least one protected entry; distinct by the produced bytes"
	rd := r.Rand
	key := []byte("audit-log-key-0123456789abcdef--")
	corpus(r, key)
	calcCases(r)
	parseCases(r)
	jsonParseCases(r, key)
	readerCases(r)
	for n := 0; n < r.N(150, 3000); n++ {
		format := formats[n%3]
		adversarial := rd.Chance(70)
		specs := genHistory(rd, adversarial, 8)
		oneHistory(r, format, key, specs, adversarial)
	}
	// boundary: long lines (the scanner's 64 KiB token limit)
	for n := 0; n < r.N(3, 30); n++ {
		format := formats[n%3]
		specs := genHistory(rd, false, 4)
		specs = append(specs, entrySpec{kind: 'e', level: logrus.InfoLevel, t: time.Unix(1700000000, 0).UTC(), msg: strings.Repeat("L", 65000+rd.Intn(1200)), fields: logrus.Fields{}})
		specs = append(specs, genHistory(rd, false, 3)...)
		oneHistory(r, format, key, specs, false)
	}
}

func corpus(r *core.Run, key []byte) {
	t0 := time.Unix(1700000000, 0).UTC()
	e := func(msg string, f logrus.Fields) entrySpec {
		if f == nil {
			f = logrus.Fields{}
		}
		return entrySpec{kind: 'e', level: logrus.InfoLevel, t: t0, msg: msg, fields: f}
	}
	// §8 #11: an honest entry containing the split token, followed by another entry
	for _, format := range formats {
		oneHistory(r, format, key, []entrySpec{e("start", nil), e("user typed integrity=0 in a form", nil), e("next", nil)}, true)
		oneHistory(r, format, key, []entrySpec{e("start", nil), e("look-alike", logrus.Fields{"a": "1", "integrity": "deadbeef"}), e("next", nil)}, true)
		oneHistory(r, format, key, []entrySpec{e("start", nil), e("chain field", logrus.Fields{"chain": "new"}), e("next", nil)}, true)
		oneHistory(r, format, key, []entrySpec{e(endMsg, nil), e("after a first entry that is an end marker", nil)}, true)
		oneHistory(r, format, key, []entrySpec{e("a", nil), {kind: 'r'}, e("b", nil), {kind: 'r'}, {kind: 'f'}}, false)
		// value classes of the JSON path (repo patch 51: numbers above 2^53 are written as logged)
		oneHistory(r, format, key, []entrySpec{e("start", nil), e("ids", logrus.Fields{"session": uint64(math.MaxUint64), "n": int64(9007199254740993), "amount": 0.1, "f": 1e21}), e("next", nil)}, true)
		oneHistory(r, format, key, []entrySpec{e("bad\xffutf8 <&> \u2028", logrus.Fields{"b": []byte("x\xff"), "err": errors.New("boom <"), "s": jsonStruct{A: 1 << 60, B: "\xc0\xaf"}, "nil": (*jsonStruct)(nil), "t": t0}), e("next", nil)}, true)
		// values that are NOT Go strings but print with line breaks and separators: a two-line database error, a slice, a byte
		// slice (seeded change C20-4: the CEF formatter cleans only string values – the entry is then written as two lines)
		oneHistory(r, format, key, []entrySpec{e("start", nil), e("db error", logrus.Fields{"error": errors.New("pq: syntax error at or near \"x\"\nLINE 1: select x\r\n        ^"),
			"list": []string{"a\nb", "c|d=e"}, "raw": []byte("x\ny"), "sep": errors.New("a\tb|c=d\\e")}), e("next", nil)}, true)
	}
	numberWitness(r, key)
}

// numberWitness: the witnesses of repo patch 51 and of the duplicate-key finding, on a fixed log
func numberWitness(r *core.Run, key []byte) {
	t0 := time.Unix(1700000000, 0).UTC()
	specs := []entrySpec{
		{kind: 'e', level: logrus.InfoLevel, t: t0, msg: "first", fields: logrus.Fields{}},
		{kind: 'e', level: logrus.InfoLevel, t: t0, msg: "m", fields: logrus.Fields{"session": uint64(math.MaxUint64), "amount": 0.1}},
		{kind: 'e', level: logrus.InfoLevel, t: t0, msg: "last", fields: logrus.Fields{}},
	}
	file, _ := pipeline("json", key, specs)
	r.Begin("witness:json-numbers:"+core.Hex(file), true, "stream:boundary", "format:json", "layer:witness")
	r.Check(bytes.Contains(file, []byte(`"session":18446744073709551615`)), "honest-value-rewritten:json:integer-above-2^53",
		fmt.Sprintf("uint64(18446744073709551615) is not written as logged: %.300s", file))
	r.Check(verifyOp(r, "json", key, file) == "ok", "honest-fails:json:other", "honest JSON log with a uint64 field does not verify")
	lines := fileLines(file)
	for _, ed := range [][3]string{
		{"18446744073709551615", "18446744073709551000", "edit-undetected:json:number-literal"},
		{"18446744073709551615", "1.8446744073709552e19", "edit-undetected:json:number-literal"},
		{"0.1", "0.10000000000000000999", "edit-undetected:json:number-literal"},
		{"0.1", "0.10", "edit-undetected:json:number-literal"},
		{`{"amount"`, `{"msg":"evil","amount"`, "edit-undetected:json:duplicate-key-shadowed"},
	} {
		f2 := bytes.Replace(file, []byte(ed[0]), []byte(ed[1]), 1)
		mustFailBy(r, ed[2], fmt.Sprintf("%s rewritten as %s", ed[0], ed[1]), verifyOp(r, "json", key, f2), protectedAfter("json", lines, 1))
	}
}

func calcCases(r *core.Run) {
	rd := r.Rand
	for n := 0; n < r.N(60, 3000); n++ {
		key := rd.Bytes(rd.Intn(40))
		var items []string
		for k := 1 + rd.Intn(6); k > 0; k-- {
			items = append(items, core.Hex(rd.Bytes(rd.Intn(80)))+":"+b01(rd.Chance(20)))
		}
		r.Begin("calc:"+core.Hex(key)+strings.Join(items, " "), true, "stream:structured", "layer:calc")
		r.Do("C20.calc " + core.Hex(key) + " " + strings.Join(items, " "))
	}
}

// parseCases: the line parsers on hand-made and random lines around the split token and the markers
func parseCases(r *core.Run) {
	rd := r.Rand
	tails := []string{"", "00", "0", "zz", "ABCDEF", "abcdef", "ab cd", " ", "00 ", " 00", "00\t", "00 ", "00 ", "00　", "00\xc2", "00 chain=new", "00 chain=new ", "00  chain=new",
		" chain=new", "chain=new", "00 chain=newx", "00 chain=new chain=new", "00\r", " 00", "00 chain=new "}
	heads := []string{"", "x", "time=1 msg=a", "a chain=end b " + endMsg, endMsg, "chain=end", " integrity=", "a integrity=00", "é", "\xff"}
	var lines [][]byte
	for _, h := range heads {
		for _, t := range tails {
			lines = append(lines, []byte(h+logging.DataSplitToken+t))
		}
		lines = append(lines, []byte(h), []byte(h+" integrity"), []byte(h+"integrity=00"))
	}
	for n := 0; n < r.N(300, 20000); n++ {
		var sb strings.Builder
		for k := rd.Intn(6); k > 0; k-- {
			switch rd.Intn(5) {
			case 0:
				sb.WriteString(logging.DataSplitToken)
			case 1:
				sb.WriteString(core.Pick(rd, tails))
			case 2:
				sb.WriteString(core.Pick(rd, pieces))
			default:
				sb.WriteString(core.Pick(rd, words))
			}
		}
		lines = append(lines, []byte(sb.String()))
	}
	for _, l := range lines {
		if bytes.ContainsAny(l, "\n") {
			continue
		}
		for _, format := range []string{"plaintext", "cef"} {
			r.Begin("parse:"+format+":"+core.Hex(l), len(l) > 0, "stream:malformed", "layer:parse")
			r.Do(fmt.Sprintf("C20.parse %s %s", format, core.Hex(l)))
		}
	}
}

func oneHistory(r *core.Run, format string, key []byte, specs []entrySpec, adversarial bool) {
	rd := r.Rand
	file, items := pipeline(format, key, specs)
	stream := "stream:structured"
	if adversarial {
		stream = "stream:adversarial"
	}
	r.Begin("hist:"+format+":"+core.Hex(file), len(items) > 0, stream, "format:"+format, fmt.Sprintf("entries:%d", len(items)))
	class := inputClass(format, specs, items)
	// layer 2: the hooks applied to the recorded formatter outputs reproduce the pipeline's bytes
	{
		line := fmt.Sprintf("C20.produce %s %s %s", format, core.Hex(key), itemsArg(items))
		out := r.Do(line)
		if out != core.Hex(file) {
			r.Diff(line+" ", core.Hex(file)) // the real pipeline differs from hooks∘formatter: recorded as a broken tie
		}
	}
	lines := fileLines(file)
	{
		for _, l := range lines {
			r.Do(fmt.Sprintf("C20.parse %s %s", format, core.Hex(l)))
		}
	}
	// clause 1: honest output verifies
	v := verifyOp(r, format, key, file)
	honest := r.Check(v == "ok", "honest-fails:"+format+":"+class, fmt.Sprintf("honest %s log does not verify (%s): history %.300s", format, v, describe(specs)))
	if !honest || len(lines) == 0 {
		return
	}
	// every line of an honest log must be a protected entry (else alterations of it go unnoticed)
	for i, l := range lines {
		if !strings.HasPrefix(parseReal(format, l), "entry") {
			r.Fail("honest-line-unprotected:"+format+":"+class, fmt.Sprintf("line %d of an honest %s log is not recognised as a protected entry: %.200q", i, format, l))
			return
		}
	}
	// every line of an honest log must have been delivered and be protected (else alterations go unnoticed)
	nl := bytes.Count(file, []byte("\n"))
	r.Check(len(lines) == nl, "lines-not-delivered:"+class, fmt.Sprintf("the log has %d lines, the reader delivers %d", nl, len(lines)))
	if !r.Thorough() || rd.Chance(15) { // thorough: 3000 histories – the file shapes on about 450 of them
		fileShapes(r, format, key, file, lines, class)
	}
	// clause 2: alterations
	// wrong key
	wk := append([]byte{}, key...)
	wk[rd.Intn(len(wk))] ^= 1 << uint(rd.Intn(8))
	mustFailBy(r, "wrong-key-verifies", "verification with another key", verifyOp(r, format, wk, file), protectedAfter(format, lines, -1))
	nMut := r.N(4, 12)
	for m := 0; m < nMut; m++ {
		i := rd.Intn(len(lines))
		orig := parseReal(format, lines[i])
		if !strings.HasPrefix(orig, "entry") {
			continue
		}
		mut := make([][]byte, len(lines))
		copy(mut, lines)
		switch rd.Intn(8) {
		case 5: // JSON: change the TYPE of a value while keeping its characters ("3" <-> 3, "true" <-> true): the field
			// means something else to every JSON reader, so it is a change of the entry whatever the parser reports
			if format != "json" {
				continue
			}
			l := string(lines[i])
			var cand [][2]int // [start, end) of a value token to re-type
			for _, m := range jsonStrLiteral.FindAllStringSubmatchIndex(l, -1) {
				cand = append(cand, [2]int{m[2], m[3]})
			}
			for _, m := range jsonBareLiteral.FindAllStringSubmatchIndex(l, -1) {
				cand = append(cand, [2]int{m[2], m[3]})
			}
			if len(cand) == 0 {
				continue
			}
			c := cand[rd.Intn(len(cand))]
			tok := l[c[0]:c[1]]
			if tok[0] == '"' {
				tok = tok[1 : len(tok)-1]
			} else {
				tok = "\"" + tok + "\""
			}
			nl := l[:c[0]] + tok + l[c[1]:]
			var probe map[string]interface{}
			if json.Unmarshal([]byte(nl), &probe) != nil || strings.Contains(l[max(0, c[0]-12):c[0]], "integrity") {
				continue
			}
			mut[i] = []byte(nl)
			mustFailBy(r, "edit-undetected:"+format, fmt.Sprintf("line %d: value %s re-typed to %s", i, l[c[0]:c[1]], tok), verifyOp(r, format, key, joinLines(mut)), protectedAfter(format, mut, i))
		case 0: // edit one byte of the line; counts as a change when the parsed content differs
			l := append([]byte{}, lines[i]...)
			p := rd.Intn(len(l))
			l[p] ^= byte(1 << uint(rd.Intn(7)))
			if bytes.ContainsAny(l, "\n\r") {
				continue
			}
			now := parseReal(format, l)
			if now == orig {
				continue // encoding-level edit (hex case, JSON spacing): authenticated content unchanged
			}
			if now == "skip" {
				continue // the entry lost its integrity part: it is now an unprotected line (= removal, judged below)
			}
			mut[i] = l
			f := strings.Fields(orig)
			g := strings.Fields(now)
			if len(g) == 5 && f[1] == g[1] && f[2] == g[2] && f[4] == g[4] && i == firstProtected(format, lines) {
				continue // only the chain=new marker of the very first entry changed: same computation
			}
			mustFailBy(r, "edit-undetected:"+format, fmt.Sprintf("line %d edited at byte %d", i, p), verifyOp(r, format, key, joinLines(mut)), protectedAfter(format, mut, i))
		case 1: // delete an entry that is followed by another entry of its chain
			if i+1 >= len(lines) {
				continue
			}
			nx := strings.Fields(parseReal(format, lines[i+1]))
			if len(nx) != 5 || nx[3] == "1" {
				continue
			}
			mut = append(append([][]byte{}, lines[:i]...), lines[i+1:]...)
			mustFailBy(r, "delete-undetected:"+format, fmt.Sprintf("line %d removed", i), verifyOp(r, format, key, joinLines(mut)), i)
		case 2: // swap two different entries
			j := rd.Intn(len(lines))
			if i == j || bytes.Equal(lines[i], lines[j]) || !strings.HasPrefix(parseReal(format, lines[j]), "entry") {
				continue
			}
			if i > j {
				i, j = j, i
			}
			mut[i], mut[j] = lines[j], lines[i]
			cls := "swap-undetected:" + format
			if fi, fj := strings.Fields(orig), strings.Fields(parseReal(format, lines[j])); fi[3] == "1" && fi[4] == "1" && fj[3] == "1" && fj[4] == "1" {
				cls = "single-entry-chain-replay" // two complete one-entry chains exchanged
			}
			mustFailBy(r, cls, fmt.Sprintf("lines %d and %d swapped", i, j), verifyOp(r, format, key, joinLines(mut)), protectedAfter(format, mut, i))
		case 3: // duplicate an entry (copy inserted at a random place)
			p := rd.Intn(len(lines) + 1)
			mut = append(append(append([][]byte{}, lines[:p]...), lines[i]), lines[p:]...)
			f := strings.Fields(orig)
			cls := "dup-undetected:" + format
			lim := protectedAfter(format, mut, p)
			if f[3] == "1" && prevIsEndOrNone(format, mut, p) {
				// the copy starts a chain at a place where a chain may start: the verifier accepts it there
				if f[4] == "1" {
					cls = "single-entry-chain-replay" // the entry is a complete chain by itself
				} else if lim == len(mut) {
					cls = "chain-start-replay-at-end-of-log" // nothing follows: a chain prefix is a valid tail
				}
			}
			mustFailBy(r, cls, fmt.Sprintf("line %d duplicated at %d", i, p), verifyOp(r, format, key, joinLines(mut)), lim)
		case 6: // JSON: another number literal for the same (or nearly the same) number – every exact reader sees another value
			if format != "json" {
				continue
			}
			l := string(lines[i])
			ms := jsonNumber.FindAllStringSubmatchIndex(l, -1)
			if len(ms) == 0 {
				continue
			}
			c := ms[rd.Intn(len(ms))]
			tok := l[c[2]:c[3]]
			var ntok string
			switch rd.Intn(4) {
			case 0:
				ntok = tok + "0"
				if !strings.ContainsAny(tok, ".e") {
					ntok = tok + ".0"
				}
			case 1:
				if strings.ContainsAny(tok, ".e") || len(tok) < 17 {
					continue
				}
				d := tok[len(tok)-1]
				ntok = tok[:len(tok)-1] + string('0'+(d-'0'+1)%10) // beyond float64 precision
			case 2:
				if strings.ContainsAny(tok, "e") {
					continue
				}
				ntok = tok + "e0"
			case 3:
				if !strings.Contains(tok, ".") || strings.Contains(tok, "e") {
					continue
				}
				ntok = tok + "0000000000000000001"
			}
			mut[i] = []byte(l[:c[2]] + ntok + l[c[3]:])
			mustFailBy(r, "edit-undetected:json:number-literal", fmt.Sprintf("line %d: number %s rewritten as %s", i, tok, ntok), verifyOp(r, format, key, joinLines(mut)), protectedAfter(format, mut, i))
		case 7: // JSON: a second member with the key of an existing one, placed BEFORE it: encoding/json lets the last
			// one win, first-wins and streaming readers see the injected value
			if format != "json" {
				continue
			}
			l := string(lines[i])
			var probe map[string]interface{}
			if json.Unmarshal([]byte(l), &probe) != nil {
				continue
			}
			var ks []string
			for k := range probe {
				if k != "integrity" {
					ks = append(ks, k)
				}
			}
			if len(ks) == 0 {
				continue
			}
			sort.Strings(ks)
			kb, _ := json.Marshal(core.Pick(rd, ks))
			mut[i] = []byte("{" + string(kb) + ":\"injected\"," + l[1:])
			mustFailBy(r, "edit-undetected:json:duplicate-key-shadowed", fmt.Sprintf("line %d: member %s:\"injected\" put in front of the genuine one", i, kb), verifyOp(r, format, key, joinLines(mut)), protectedAfter(format, mut, i))
		case 4: // replace the authenticated part by that of another entry, keeping the tag (splice)
			j := rd.Intn(len(lines))
			if format == "json" || i == j {
				continue
			}
			a, b := string(lines[i]), string(lines[j])
			ia, ib := strings.LastIndex(a, logging.DataSplitToken), strings.LastIndex(b, logging.DataSplitToken)
			if ia < 0 || ib < 0 || a[:ia] == b[:ib] {
				continue
			}
			mut[i] = []byte(b[:ib] + a[ia:])
			if parseReal(format, mut[i]) == "skip" {
				continue
			}
			mustFailBy(r, "splice-undetected:"+format, fmt.Sprintf("line %d got the content of line %d with its own tag", i, j), verifyOp(r, format, key, joinLines(mut)), protectedAfter(format, mut, i))
		}
	}
}

func firstProtected(format string, lines [][]byte) int { return protectedAfter(format, lines, -1) }

// prevIsEndOrNone: is the last protected entry before position p an end-of-chain entry (or is there none)?
func prevIsEndOrNone(format string, lines [][]byte, p int) bool {
	for i := p - 1; i >= 0; i-- {
		f := strings.Fields(parseReal(format, lines[i]))
		if len(f) == 5 {
			return f[4] == "1"
		}
	}
	return true
}

// specLines: which lines a log file consists of – the file split at every line feed, an unterminated last
// piece counting as a line, one trailing carriage return removed (the statement of reader_yields_every_line).
func specLines(file []byte) [][]byte {
	ps := bytes.Split(file, []byte("\n"))
	if len(ps[len(ps)-1]) == 0 {
		ps = ps[:len(ps)-1]
	}
	for i := range ps {
		ps[i] = bytes.TrimSuffix(ps[i], []byte("\r"))
	}
	return ps
}

func hexList(ls [][]byte) string {
	if len(ls) == 0 {
		return "none"
	}
	parts := make([]string, len(ls))
	for i, l := range ls {
		parts[i] = core.Hex(l)
	}
	return strings.Join(parts, ",")
}

// readerCases: the file reader alone (processLogFile behind ReadLogEntries) on generated file contents: lines of every
// kind (empty, carriage returns, look-alike tokens, binary, long) ended by LF or CRLF, the last one terminated or not.
func readerCases(r *core.Run) {
	rd := r.Rand
	contents := []string{"", "a", "x integrity=00", "\r", "a\r", "\r\r", "a\rb", "\x00", "\xff\xfe", " ", "{\"msg\":\"m\",\"integrity\":\"00\"}", "line with spaces ", "é"}
	fixed := []string{"", "\n", "a", "a\n", "a\nb", "a\nb\n", "\n\n", "a\n\n", "a\n\nb", "\r\n", "a\r\n", "a\r\nb", "a\r\nb\r", "a\r", "\r", "a\n\r", "\na", "a integrity=zz"}
	var files [][]byte
	for _, f := range fixed {
		files = append(files, []byte(f))
	}
	for n := 0; n < r.N(120, 1500); n++ {
		var b bytes.Buffer
		k := rd.Intn(6)
		for i := 0; i < k; i++ {
			if rd.Chance(3) {
				b.WriteString(strings.Repeat("L", 4090+rd.Intn(12))) // around bufio's 4096-byte buffer
			} else if rd.Chance(2) {
				b.WriteString(strings.Repeat("M", 65530+rd.Intn(12)))
			} else {
				b.WriteString(core.Pick(rd, contents))
			}
			if i < k-1 || rd.Chance(50) {
				if rd.Chance(25) {
					b.WriteString("\r\n")
				} else {
					b.WriteString("\n")
				}
			}
		}
		files = append(files, append([]byte{}, b.Bytes()...))
	}
	for _, f := range files {
		term := "terminated"
		if len(f) > 0 && f[len(f)-1] != '\n' {
			term = "unterminated"
		}
		r.Begin("reader:"+core.Hex(f), len(f) > 0, "stream:boundary", "layer:reader", "last-line:"+term)
		got := r.Do("C20.lines " + core.Hex(f))
		want := hexList(specLines(f))
		r.Check(got == want, "lines-not-delivered:reader:"+term, fmt.Sprintf("file %.120q: the reader hands %.200s to the verifier, the file consists of the lines %.200s", f, got, want))
	}
}

func verifyFilesOp(r *core.Run, format string, key []byte, files [][]byte) string {
	hs := make([]string, len(files))
	for i, f := range files {
		hs[i] = core.Hex(f)
	}
	return r.Do(fmt.Sprintf("C20.verifyfiles %s %s %s", format, core.Hex(key), strings.Join(hs, " ")))
}

// joinShape renders lines as a file: LF or CRLF line ends, the last line terminated or not.
func joinShape(ls [][]byte, crlf, final bool) []byte {
	var b bytes.Buffer
	for i, l := range ls {
		b.Write(l)
		if i == len(ls)-1 && !final {
			break
		}
		if crlf {
			b.WriteByte('\r')
		}
		b.WriteByte('\n')
	}
	return b.Bytes()
}

// fileShapes: the honest log in every shape a file (or a run of rotated files) can take – no final line break, CRLF
// line ends, an extra empty last line, split over two or three files each with or without its final line break –
// must verify; and an alteration of the LAST entry (one byte edited; the line cut inside its integrity value) must be
// detected in each of these shapes, in particular when the altered line is not terminated.
func fileShapes(r *core.Run, format string, key []byte, file []byte, lines [][]byte, class string) {
	rd := r.Rand
	type shape struct {
		name  string
		files func(ls [][]byte) [][]byte
	}
	cutAt := 0
	if len(lines) > 1 {
		cutAt = 1 + rd.Intn(len(lines)-1)
	}
	shapes := []shape{
		{"lf", func(ls [][]byte) [][]byte { return [][]byte{joinShape(ls, false, true)} }},
		{"no-final-newline", func(ls [][]byte) [][]byte { return [][]byte{joinShape(ls, false, false)} }},
		{"crlf", func(ls [][]byte) [][]byte { return [][]byte{joinShape(ls, true, true)} }},
		{"crlf-no-final-newline", func(ls [][]byte) [][]byte { return [][]byte{joinShape(ls, true, false)} }},
		{"empty-last-line", func(ls [][]byte) [][]byte { return [][]byte{append(joinShape(ls, false, true), '\n')} }},
	}
	if cutAt > 0 {
		shapes = append(shapes,
			shape{"two-files", func(ls [][]byte) [][]byte {
				return [][]byte{joinShape(ls[:cutAt], false, true), joinShape(ls[cutAt:], false, true)}
			}},
			shape{"two-files-no-final-newlines", func(ls [][]byte) [][]byte {
				return [][]byte{joinShape(ls[:cutAt], false, false), joinShape(ls[cutAt:], false, false)}
			}},
			shape{"three-files-middle-empty", func(ls [][]byte) [][]byte {
				return [][]byte{joinShape(ls[:cutAt], true, false), {}, joinShape(ls[cutAt:], false, true)}
			}})
	}
	run := func(files [][]byte) string {
		if len(files) == 1 {
			return verifyOp(r, format, key, files[0])
		}
		return verifyFilesOp(r, format, key, files)
	}
	for _, sh := range shapes[1:] {
		v := run(sh.files(lines))
		r.Check(v == "ok", "honest-fails:"+format+":"+class, fmt.Sprintf("honest %s log in the shape %s does not verify (%s)", format, sh.name, v))
	}
	// alterations of the last entry of the log and – in the multi-file shapes – of the last entry of the first file
	targets := []int{len(lines) - 1}
	if cutAt > 0 {
		targets = append(targets, cutAt-1)
	}
	for _, i := range targets {
		orig := parseReal(format, lines[i])
		if !strings.HasPrefix(orig, "entry") {
			continue
		}
		var alts []struct {
			what string
			line []byte
		}
		// one byte edited
		for try := 0; try < 4; try++ {
			l := append([]byte{}, lines[i]...)
			p := rd.Intn(len(l))
			l[p] ^= byte(1 << uint(rd.Intn(7)))
			if bytes.ContainsAny(l, "\n\r") {
				continue
			}
			now := parseReal(format, l)
			if now == orig || now == "skip" {
				continue
			}
			f, g := strings.Fields(orig), strings.Fields(now)
			if len(g) == 5 && f[1] == g[1] && f[2] == g[2] && f[4] == g[4] && i == firstProtected(format, lines) {
				continue
			}
			alts = append(alts, struct {
				what string
				line []byte
			}{fmt.Sprintf("edited at byte %d", p), l})
			break
		}
		// cut inside the integrity value
		if at := bytes.LastIndex(lines[i], []byte("integrity")); at >= 0 {
			lo := at + len("integrity") + 1
			if format == "json" {
				lo += 2 // `":"`
			}
			if lo < len(lines[i]) {
				p := lo + rd.Intn(len(lines[i])-lo)
				l := append([]byte{}, lines[i][:p]...)
				now := parseReal(format, l)
				f, g := strings.Fields(orig), strings.Fields(now)
				markerOnly := len(g) == 5 && f[1] == g[1] && f[2] == g[2] && f[4] == g[4] && i == firstProtected(format, lines)
				if now != "skip" && now != orig && !markerOnly {
					alts = append(alts, struct {
						what string
						line []byte
					}{fmt.Sprintf("cut after byte %d (inside its integrity value)", p), l})
				}
			}
		}
		for _, alt := range alts {
			mut := make([][]byte, len(lines))
			copy(mut, lines)
			mut[i] = alt.line
			for _, sh := range shapes {
				if i != len(lines)-1 && !strings.Contains(sh.name, "files") {
					continue
				}
				v := run(sh.files(mut))
				mustFailBy(r, "edit-undetected:"+format, fmt.Sprintf("line %d of %d %s, file shape %s", i, len(lines), alt.what, sh.name), v, protectedAfter(format, mut, i))
			}
		}
	}
}
