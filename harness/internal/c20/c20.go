// Package c20: implementation-side ops, generators and oracles for property C20.
package c20
