package c20

import (
	"fmt"
	"regexp"

	"verifharness/internal/core"
)

// jsonLines: hand-made JSON lines around everything the decoder model has a rule for (grammar, white space,
// escapes, surrogates, invalid UTF-8, number literals, duplicate keys, nesting, top-level kinds, trailing data,
// the integrity / chain / msg keys with values of every type).
var jsonLines = []string{
	`{}`, ` { } `, `null`, ` null `, `nul`, `nulll`, `true`, `1`, `"integrity"`, `[]`, `[{"integrity":"00"}]`, `{`, `}`, `{}}`, `{}{}`, `{} x`, "{}\t\r\n ", "\v{}", `{"a"}`, `{"a":}`, `{"a":1,}`, `{,}`,
	`{"a":1 "b":2}`, `{"a":1,,"b":2}`, `{"a" 1}`, `{a:1}`, `{'a':1}`, `{"a":'b'}`,
	`{"integrity":"00"}`, `{"integrity":"0"}`, `{"integrity":"zz"}`, `{"integrity":"ABCDEF"}`, `{"integrity":""}`, `{"integrity":00}`, `{"integrity":null}`, `{"integrity":["00"]}`,
	`{"integrity":"00","integrity":"11"}`, `{"integrity":"00","integrity":11}`, `{"integrity":11,"integrity":"00"}`, `{"Integrity":"00"}`, `{"integrity\u0000":"00"}`, `{"\u0069ntegrity":"00"}`,
	`{"integrity":"00","chain":"new"}`, `{"integrity":"00","chain":"end"}`, `{"integrity":"00","chain":"end","msg":"End of current audit log chain"}`,
	`{"integrity":"00","chain":"end","msg":"end of current audit log chain"}`, `{"integrity":"00","chain":"end","msg":["End of current audit log chain"]}`, `{"integrity":"00","chain":"new","msg":"End of current audit log chain"}`,
	`{"integrity":"00","chain":"New"}`, `{"integrity":"00","chain":1}`, `{"integrity":"00","chain":null}`, `{"integrity":"00","chain":"new","chain":"end"}`, `{"integrity":"00","chain":"end","chain":"new"}`,
	`{"integrity":"00","chain":"\u006eew"}`, `{"integrity":"00","chain":"new "}`,
	`{"integrity":"00","b":1,"a":2}`, `{"integrity":"00","a":2,"b":1}`, `{"integrity":"00","a":1,"a":2}`, `{"integrity":"00","a":2,"a":1}`, `{"integrity":"00","":0}`, `{"integrity":"00","a":{"y":1,"x":2,"y":3}}`,
	`{"integrity":"00","a":[1, 2 ,3]}`, `{"integrity":"00","a":[]}`, `{"integrity":"00","a":[ ]}`, `{"integrity":"00","a":{ }}`, `{"integrity":"00","a":[[[]]]}`, `{"integrity":"00","a":[1,]}`, `{"integrity":"00","a":[,1]}`, `{"integrity":"00","a":[1 2]}`,
	`{"integrity":"00","a":[}`, `{"integrity":"00","a":{]}`, `{"integrity":"00","a":[{"b":[{"c":null}]}]}`,
	// numbers
	`{"integrity":"00","n":0}`, `{"integrity":"00","n":-0}`, `{"integrity":"00","n":00}`, `{"integrity":"00","n":01}`, `{"integrity":"00","n":-}`, `{"integrity":"00","n":-a}`, `{"integrity":"00","n":+1}`, `{"integrity":"00","n":.5}`,
	`{"integrity":"00","n":1.}`, `{"integrity":"00","n":1.5}`, `{"integrity":"00","n":1.50}`, `{"integrity":"00","n":1e5}`, `{"integrity":"00","n":1E5}`, `{"integrity":"00","n":1e+5}`, `{"integrity":"00","n":1e-5}`, `{"integrity":"00","n":1e}`,
	`{"integrity":"00","n":1e+}`, `{"integrity":"00","n":1.5e3.2}`, `{"integrity":"00","n":1e400}`, `{"integrity":"00","n":-1e-400}`, `{"integrity":"00","n":9007199254740993}`, `{"integrity":"00","n":9007199254740992}`,
	`{"integrity":"00","n":18446744073709551615}`, `{"integrity":"00","n":123456789012345678901234567890}`, `{"integrity":"00","n":0.10000000000000000999}`, `{"integrity":"00","n":1x}`, `{"integrity":"00","n":0x10}`, `{"integrity":"00","n":1 }`,
	`{"integrity":"00","n":-0.0e-0}`, `{"integrity":"00","n":NaN}`, `{"integrity":"00","n":Infinity}`, `{"integrity":"00","n":1_000}`, `{"integrity":"00","n":"1"}`, `{"integrity":"00","n":1,"m":1.0}`,
	// literals
	`{"integrity":"00","b":true}`, `{"integrity":"00","b":false}`, `{"integrity":"00","b":null}`, `{"integrity":"00","b":True}`, `{"integrity":"00","b":tru}`, `{"integrity":"00","b":truee}`, `{"integrity":"00","b":nullx}`, `{"integrity":"00","b":falsey}`,
	// strings and escapes
	`{"integrity":"00","s":"\"\\\/\b\f\n\r\t"}`, `{"integrity":"00","s":"\a"}`, `{"integrity":"00","s":"\'"}`, `{"integrity":"00","s":"\u0041\u00e9\u20AC\uFFFF"}`, `{"integrity":"00","s":"\u004"}`, `{"integrity":"00","s":"\u00zz"}`, `{"integrity":"00","s":"\U0041"}`,
	`{"integrity":"00","s":"\ud83d\ude00"}`, `{"integrity":"00","s":"\uD83D\uDE00"}`, `{"integrity":"00","s":"\ud83d"}`, `{"integrity":"00","s":"\ude00"}`, `{"integrity":"00","s":"\ud83dx"}`, `{"integrity":"00","s":"\ud83d\u0041"}`, `{"integrity":"00","s":"\ud83d\ud83d\ude00"}`,
	`{"integrity":"00","s":"\ude00\ud83d"}`, `{"integrity":"00","s":"\ud83d\n"}`, `{"integrity":"00","s":"\ud83d\u"}`, `{"integrity":"00","s":"\ud83d\ude0"}`, `{"integrity":"00","s":"\udbff\udfff"}`, `{"integrity":"00","s":"\ud800\udc00"}`, `{"integrity":"00","s":"\u0000"}`,
	`{"integrity":"00","s":"\u2028\u2029"}`, "{\"integrity\":\"00\",\"s\":\"\u2028\u2029\"}", `{"integrity":"00","s":"\u003c\u003e\u0026"}`, `{"integrity":"00","s":"<>&"}`, "{\"integrity\":\"00\",\"s\":\"a\x01b\"}", "{\"integrity\":\"00\",\"s\":\"a\tb\"}", "{\"integrity\":\"00\",\"s\":\"a\x7fb\"}",
	"{\"integrity\":\"00\",\"s\":\"\xff\"}", "{\"integrity\":\"00\",\"s\":\"\xc0\xaf\"}", "{\"integrity\":\"00\",\"s\":\"\xed\xa0\x80\"}", "{\"integrity\":\"00\",\"s\":\"\xf4\x90\x80\x80\"}", "{\"integrity\":\"00\",\"s\":\"\xe2\x80\"}", "{\"integrity\":\"00\",\"s\":\"\xe2\x82\xac\"}",
	"{\"integrity\":\"00\",\"s\":\"\xf0\x9f\x98\x80\"}", "{\"integrity\":\"00\",\"s\":\"\xf0\x9f\x98\"}", "{\"integrity\":\"00\",\"s\":\"\xc3\"}", "{\"integrity\":\"00\",\"s\":\"\xc3\\u00e9\"}", "{\"integrity\":\"00\",\"\xff\":1,\"\xfe\":2}", "{\"integrity\":\"00\",\"\xff\":1,\"\\ufffd\":2}",
	"{\"integrity\":\"00\",\"s\":\"\xef\xbf\xbd\"}", `{"integrity":"00","s":"unterminated}`, `{"integrity":"00","s":"a\`, `{"integrity":"00","s":"a\"}`, `{"integrity":"00","s":"a"b"}`,
	"\xef\xbb\xbf{\"integrity\":\"00\"}", "{\"integrity\":\"00\"}\x00", "{\"integrity\":\"00\"}\xa0", "{\"integrity\"\n:\r\"00\"\t,\"a\" : [ 1 , { \"b\" : null } ] }",
}

var jsonNumber = regexp.MustCompile(`:(-?[0-9]+(?:\.[0-9]+)?(?:e[+-]?[0-9]+)?)[,}]`)

// jsonParseCases: the JSON parser (decoder + convertMapToBytes + marker logic) on hand-made lines, on lines of a
// real log with one or two byte-level changes, and the string encoder on byte strings of every UTF-8 shape.
func jsonParseCases(r *core.Run, key []byte) {
	rd := r.Rand
	var lines [][]byte
	for _, l := range jsonLines {
		lines = append(lines, []byte(l))
	}
	// real lines, then mutated: flip / insert / delete bytes, splice pieces of JSON syntax
	specs := genHistory(rd, true, 8)
	file, _ := pipeline("json", key, specs)
	real := fileLines(file)
	bits := []string{`"`, `\`, `\u`, `\ud83d`, `\ude00`, `,`, `:`, `{`, `}`, `[`, `]`, ` `, "\t", `null`, `true`, `1`, `-`, `.`, `e`, `0`, "\xff", "\xe2\x80", `"integrity":"00",`, `"chain":"new",`, `"a":`, `\"`}
	for n := 0; n < r.N(400, 20000) && len(real) > 0; n++ {
		l := append([]byte{}, core.Pick(rd, real)...)
		for k := 1 + rd.Intn(2); k > 0 && len(l) > 0; k-- {
			p := rd.Intn(len(l))
			switch rd.Intn(4) {
			case 0:
				l[p] ^= byte(1 << uint(rd.Intn(8)))
			case 1:
				l = append(l[:p], l[p+1:]...)
			case 2:
				b := core.Pick(rd, bits)
				l = append(l[:p], append([]byte(b), l[p:]...)...)
			case 3:
				q := rd.Intn(len(l))
				if p > q {
					p, q = q, p
				}
				l = append(l[:p], l[q:]...)
			}
		}
		lines = append(lines, l)
	}
	for _, l := range lines {
		r.Begin("parse:json:"+core.Hex(l), len(l) > 0, "stream:malformed", "layer:parse", "format:json")
		r.Do(fmt.Sprintf("C20.parse json %s", core.Hex(l)))
	}
	// the string encoder (getBytes of a string value, keys and values of the re-marshalled line)
	var strs [][]byte
	for _, s := range edgeStrings {
		strs = append(strs, []byte(s))
	}
	for _, s := range pieces {
		strs = append(strs, []byte(s))
	}
	for b := 0; b < 256; b++ {
		strs = append(strs, []byte{byte(b)}, []byte{'a', byte(b), 0x80, 0xbf, 'z'}, []byte{byte(b), 0x9f, 0xa0}, []byte{byte(b), 0x8f, 0x90, 0x80})
	}
	for n := 0; n < r.N(200, 20000); n++ {
		var sb []byte
		for k := rd.Intn(5); k >= 0; k-- {
			if rd.Chance(50) {
				sb = append(sb, core.Pick(rd, edgeStrings)...)
			} else {
				sb = append(sb, rd.Bytes(1+rd.Intn(4))...)
			}
		}
		strs = append(strs, sb)
	}
	for _, s := range strs {
		r.Begin("jenc:"+core.Hex(s), true, "stream:boundary", "layer:jenc", "format:json")
		r.Do("C20.jenc " + core.Hex(s))
	}
}
