// Package c18: implementation-side ops, generators and oracles for property C18.
package c18
