// Package c18: implementation-side ops, generators and oracles for property C18 (exported keys
// import to an identical keystore and stay confidential in transit).
package c18

import (
	"bytes"
	"fmt"
	"sort"
	"strings"
	"time"

	keystoreV1 "github.com/cossacklabs/acra/keystore"
	"github.com/cossacklabs/acra/keystore/v2/keystore/api"
	"github.com/cossacklabs/acra/keystore/v2/keystore/crypto"
	"github.com/cossacklabs/acra/keystore/v2/keystore/filesystem"

	"verifharness/internal/core"
)

func init() {
	core.RegisterProp("C18", run)
	core.Register("C18.v2", opV2)
}

// ---------- plaintext description of rings (same tokens as the model driver) ----------

type dataD struct {
	format         int
	pub, priv, sym []byte
}
type keyD struct {
	seq, state   int
	since, until int64
	data         []dataD
	destroy      bool // destroyed through the API (state 6, no data)
}
type ringD struct {
	path    string
	current int
	keys    []keyD
}

func (d dataD) String() string {
	return fmt.Sprintf("%d:%s:%s:%s", d.format, core.Hex(d.pub), core.Hex(d.priv), core.Hex(d.sym))
}
func (k keyD) String() string {
	ds := "-"
	if len(k.data) > 0 {
		var xs []string
		for _, d := range k.data {
			xs = append(xs, d.String())
		}
		ds = strings.Join(xs, "&")
	}
	return fmt.Sprintf("%d,%d,%d,%d,%s", k.seq, k.state, k.since, k.until, ds)
}
func (r ringD) String() string {
	ks := "-"
	if len(r.keys) > 0 {
		var xs []string
		for _, k := range r.keys {
			xs = append(xs, k.String())
		}
		ks = strings.Join(xs, "|")
	}
	return fmt.Sprintf("%s;%d;%s", core.Hex([]byte(r.path)), r.current, ks)
}

func parseRing(s string) ringD {
	f := strings.Split(s, ";")
	r := ringD{path: string(core.UnHex(f[0])), current: core.Atoi(f[1])}
	if f[2] == "-" {
		return r
	}
	for _, ks := range strings.Split(f[2], "|") {
		g := strings.Split(ks, ",")
		k := keyD{seq: core.Atoi(g[0]), state: core.Atoi(g[1]), since: int64(core.Atoi(g[2])), until: int64(core.Atoi(g[3]))}
		if g[4] != "-" {
			for _, ds := range strings.Split(g[4], "&") {
				h := strings.Split(ds, ":")
				k.data = append(k.data, dataD{core.Atoi(h[0]), core.UnHex(h[1]), core.UnHex(h[2]), core.UnHex(h[3])})
			}
		}
		r.keys = append(r.keys, k)
	}
	return r
}

// ---------- building real key stores from descriptions ----------

var (
	srcEnc, srcSig = []byte("source-master-key-0123456789abcdef"), []byte("source-signature-key-0123456789ab")
	tgtEnc, tgtSig = []byte("target-master-key-0123456789abcdef"), []byte("target-signature-key-0123456789ab")
)

func newStore(enc, sig []byte) api.MutableKeyStore {
	suite, err := crypto.NewSCellSuite(enc, sig)
	if err != nil {
		panic("harness: " + err.Error())
	}
	ks, err := filesystem.NewInMemory(suite)
	if err != nil {
		panic("harness: " + err.Error())
	}
	return ks
}

func statePath(st int) []int {
	switch st {
	case 2:
		return []int{2}
	case 3:
		return []int{2, 3}
	case 4:
		return []int{4}
	case 5:
		return []int{5}
	}
	return nil
}

// build creates the rings through the public API. A key with state 6 is created with placeholder
// material and destroyed through DestroyKey. Returns false when the description cannot be built
// through the API (the harness only generates buildable ones).
func build(ks api.MutableKeyStore, rings []ringD) bool {
	for _, rd := range rings {
		ring, err := ks.OpenKeyRingRW(rd.path)
		if err != nil {
			return false
		}
		for _, k := range rd.keys {
			desc := api.KeyDescription{ValidSince: time.Unix(k.since, 0).UTC(), ValidUntil: time.Unix(k.until, 0).UTC()}
			data := k.data
			if k.state == 6 {
				data = []dataD{{format: 3, sym: []byte("to-be-destroyed-key-material-32b")}}
			}
			for _, d := range data {
				desc.Data = append(desc.Data, api.KeyData{Format: api.KeyFormat(d.format), PublicKey: d.pub, PrivateKey: d.priv, SymmetricKey: d.sym})
			}
			seq, err := ring.AddKey(desc)
			if err != nil || seq != k.seq {
				return false
			}
			if k.state == 6 {
				if err := ring.DestroyKey(seq); err != nil {
					return false
				}
				continue
			}
			for _, st := range statePath(k.state) {
				if err := ring.SetState(seq, api.KeyState(st)); err != nil {
					return false
				}
			}
		}
		if rd.current != -1 {
			if err := ring.SetCurrent(rd.current); err != nil {
				return false
			}
		}
	}
	return true
}

// view renders every ring of a key store in plaintext through the read API.
func view(ks api.MutableKeyStore) (string, []ringD) {
	paths, err := ks.ListKeyRings()
	if err != nil {
		return "list-error", nil
	}
	sort.Strings(paths)
	var out []ringD
	for _, p := range paths {
		ring, err := ks.OpenKeyRing(p)
		if err != nil {
			out = append(out, ringD{path: p, current: -99})
			continue
		}
		rd := ringD{path: p, current: -1}
		if c, err := ring.CurrentKey(); err == nil {
			rd.current = c
		}
		seqs, _ := ring.AllKeys()
		for i := len(seqs) - 1; i >= 0; i-- {
			seq := seqs[i]
			st, _ := ring.State(seq)
			since, _ := ring.ValidSince(seq)
			until, _ := ring.ValidUntil(seq)
			k := keyD{seq: seq, state: int(st), since: since.Unix(), until: until.Unix()}
			formats, _ := ring.Formats(seq)
			for _, f := range formats {
				d := dataD{format: int(f)}
				d.pub, _ = ring.PublicKey(seq, f)
				d.priv, _ = ring.PrivateKey(seq, f)
				d.sym, _ = ring.SymmetricKey(seq, f)
				k.data = append(k.data, d)
			}
			rd.keys = append(rd.keys, k)
		}
		out = append(out, rd)
	}
	s := fmt.Sprint(len(out))
	for _, r := range out {
		s += " " + r.String()
	}
	return s, out
}

type v2Result struct {
	outcome        string
	bundle         []byte
	accEnc, accSig []byte
	tgt            api.MutableKeyStore
	srcView        []ringD
}

var accessCounter int

func runV2(wp bool, src []ringD, sel []string, tgt []ringD) *v2Result {
	S := newStore(srcEnc, srcSig)
	T := newStore(tgtEnc, tgtSig)
	if !build(S, src) || !build(T, tgt) {
		panic("harness: description cannot be built through the API")
	}
	res := &v2Result{tgt: T}
	_, res.srcView = view(S)
	accessCounter++
	res.accEnc = []byte(fmt.Sprintf("access-encryption-key-%011d", accessCounter))
	res.accSig = []byte(fmt.Sprintf("access-signature--key-%011d", accessCounter))
	suite, _ := crypto.NewSCellSuite(res.accEnc, res.accSig)
	mode := keystoreV1.ExportPublicOnly
	if wp {
		mode = keystoreV1.ExportPrivateKeys
	}
	bundle, err := S.ExportKeyRings(sel, suite, mode)
	if err != nil {
		res.outcome = "xerr"
		return res
	}
	res.bundle = bundle
	suite2, _ := crypto.NewSCellSuite(res.accEnc, res.accSig)
	if _, err := T.ImportKeyRings(bundle, suite2, nil); err != nil {
		res.outcome = "err"
	} else {
		res.outcome = "ok"
	}
	return res
}

func parseV2(a []string) (wp bool, src []ringD, sel []string, tgt []ringD) {
	wp = a[0] == "1"
	i := 1
	n := core.Atoi(a[i])
	i++
	for k := 0; k < n; k++ {
		src = append(src, parseRing(a[i]))
		i++
	}
	n = core.Atoi(a[i])
	i++
	for k := 0; k < n; k++ {
		sel = append(sel, string(core.UnHex(a[i])))
		i++
	}
	n = core.Atoi(a[i])
	i++
	for k := 0; k < n; k++ {
		tgt = append(tgt, parseRing(a[i]))
		i++
	}
	return
}

func opV2(a []string) string {
	wp, src, sel, tgt := parseV2(a)
	res := runV2(wp, src, sel, tgt)
	v, _ := view(res.tgt)
	return res.outcome + " " + v
}

// ---------- generators ----------

func genData(rd *core.Rand, kind int) []dataD {
	pair := dataD{format: 1, pub: rd.Bytes(45), priv: rd.Bytes(45)}
	if rd.Chance(15) {
		pair.priv = nil // public-only key pair
	}
	sym := dataD{format: 3, sym: rd.Bytes(32)}
	switch kind {
	case 0:
		return []dataD{pair}
	case 1:
		return []dataD{sym}
	default:
		if rd.Bool() {
			return []dataD{pair, sym}
		}
		return []dataD{sym, pair}
	}
}

func genRing(rd *core.Rand, path string, allowDestroyed bool) ringD {
	r := ringD{path: path, current: -1}
	n := rd.Intn(4)
	kind := rd.Intn(3)
	if rd.Chance(85) {
		kind = rd.Intn(2)
	}
	for i := 0; i < n; i++ {
		since := int64(1500000000 + rd.Intn(100000000))
		k := keyD{seq: i + 1, state: core.Pick(rd, []int{1, 1, 2, 2, 3, 4, 5}), since: since, until: since + int64(rd.Intn(50000000)), data: genData(rd, kind)}
		if allowDestroyed && rd.Chance(12) {
			k.state, k.data = 6, nil
		}
		r.keys = append(r.keys, k)
	}
	if n > 0 && rd.Chance(70) {
		r.current = 1 + rd.Intn(n)
	}
	return r
}

var ringPaths = []string{"client/alice/storage", "client/alice/storage-sym", "client/bob/hmac-sym", "poison-record", "poison-record-sym", "audit-log", "a", "client/x y/storage"}

func line(wp bool, src []ringD, sel []string, tgt []ringD) string {
	var sb strings.Builder
	w := "0"
	if wp {
		w = "1"
	}
	fmt.Fprintf(&sb, "C18.v2 %s %d", w, len(src))
	for _, r := range src {
		sb.WriteString(" " + r.String())
	}
	fmt.Fprintf(&sb, " %d", len(sel))
	for _, p := range sel {
		sb.WriteString(" " + core.Hex([]byte(p)))
	}
	fmt.Fprintf(&sb, " %d", len(tgt))
	for _, r := range tgt {
		sb.WriteString(" " + r.String())
	}
	return sb.String()
}

func secretsOf(rings []ringD) [][]byte {
	var out [][]byte
	for _, r := range rings {
		for _, k := range r.keys {
			for _, d := range k.data {
				if len(d.priv) >= 8 {
					out = append(out, d.priv)
				}
				if len(d.sym) >= 8 {
					out = append(out, d.sym)
				}
			}
		}
	}
	return out
}

func hasDestroyed(rs []ringD, sel []string) bool {
	for _, r := range rs {
		for _, p := range sel {
			if p == r.path {
				for _, k := range r.keys {
					if k.state == 6 {
						return true
					}
				}
			}
		}
	}
	return false
}

func run(r *core.Run) {
	r.Rule = "source key stores built through the API from generated ring descriptions (0-3 keys per ring, key pairs / symmetric / both formats, assorted states incl. destroyed, with or without current), a selection of ring paths (existing, repeated or missing), mode private / public-only, target empty or holding some of the rings; " +
		"a case is non-trivial when at least one ring with at least one key is selected; distinct by the op line. " +
		"v1 stream: a real v1 key store with two clients (storage key pair, symmetric, HMAC keys, 0-2 rotations each) and a poison pair; export by id of every kind and export of everything, import into a fresh store, compare through the read API; bundle scan; sampled single-byte modifications of bundle and access key; " +
		"v1 model streams: file names (API names of valid and look-alike ids, rotated-key names over valid / boundary / mutated timestamps, poison and special names, random names) through the real name classification; real stores built through the API (1-3 clients incl. ids containing key-kind suffixes, rotations, poison pair/symmetric, log key) exported (all / private / public / by ids, source directory also spelled non-canonically), imported into empty and non-empty stores, bundles opened, migrated to v2 (whole and partial stores) - every step compared with the Lean model; " +
		"cmd stream: several exports into the same --key_bundle_file/--key_bundle_secret files (both formats), the files must hold exactly the last bundle and import"
	runV1(r) // v1 key store first: its regression corpus (repo-patches/04) runs on every run
	runV1Model(r)
	runCmdFiles(r)
	rd := r.Rand.Fork()
	n := r.N(250, 6000)
	tamperBudget := r.N(6, 60)
	for i := 0; i < n; i++ {
		nr := 1 + rd.Intn(4)
		perm := append([]string{}, ringPaths...)
		for k := range perm {
			j := k + rd.Intn(len(perm)-k)
			perm[k], perm[j] = perm[j], perm[k]
		}
		var src []ringD
		for k := 0; k < nr; k++ {
			src = append(src, genRing(rd, perm[k], true))
		}
		var sel []string
		for _, s := range src {
			if rd.Chance(70) {
				sel = append(sel, s.path)
			}
		}
		if rd.Chance(5) {
			sel = append(sel, "no/such/ring")
		}
		if rd.Chance(5) && len(sel) > 0 {
			sel = append(sel, sel[0])
		}
		var tgt []ringD
		if rd.Chance(25) {
			tgt = append(tgt, genRing(rd, core.Pick(rd, perm[:nr+1]), false))
		}
		wp := rd.Chance(70)
		nontrivial := false
		for _, s := range src {
			for _, p := range sel {
				if p == s.path && len(s.keys) > 0 {
					nontrivial = true
				}
			}
		}
		l := line(wp, src, sel, tgt)
		mode := "mode:public"
		if wp {
			mode = "mode:private"
		}
		r.Begin(l, nontrivial, mode)
		// implementation, with access to the intermediate values for the oracles
		res := runV2(wp, src, sel, tgt)
		r.Impl(l) // record the line for replay (runs the op once more; cheap)
		tv, tgtView := view(res.tgt)
		r.Diff(l, res.outcome+" "+tv)
		r.Tag("outcome:" + res.outcome)

		// --- oracles on the implementation
		if res.bundle != nil {
			for _, s := range secretsOf(src) {
				r.Check(!bytes.Contains(res.bundle, s), "secret-in-bundle", "exported bundle contains private/symmetric key material in clear")
			}
		}
		if res.outcome == "ok" && len(tgt) == 0 {
			// identity on the selection
			byPath := map[string]ringD{}
			for _, t := range tgtView {
				byPath[t.path] = t
			}
			for _, s := range res.srcView {
				selected := false
				for _, p := range sel {
					selected = selected || p == s.path
				}
				t, present := byPath[s.path]
				if !selected {
					r.Check(!present, "unselected-imported", "a ring outside the selection appeared in the target: "+s.path)
					continue
				}
				if wp {
					r.Check(present && t.String() == s.String(), "identity", fmt.Sprintf("ring %s differs after export/import: source %s target %s", s.path, s.String(), t.String()))
				} else if present {
					// public-only: same keys, public parts equal, no secrets
					ok := len(t.keys) == len(s.keys) && t.current == s.current
					for ki := range t.keys {
						if !ok {
							break
						}
						a, b := s.keys[ki], t.keys[ki]
						ok = a.seq == b.seq && a.state == b.state && a.since == b.since && a.until == b.until && len(a.data) == len(b.data)
						for di := range b.data {
							if !ok {
								break
							}
							ok = bytes.Equal(a.data[di].pub, b.data[di].pub) && len(b.data[di].priv) == 0 && len(b.data[di].sym) == 0
						}
					}
					r.Check(ok, "identity-public", fmt.Sprintf("public-only export/import of %s changed public data or leaked secrets: source %s target %s", s.path, s.String(), t.String()))
				}
			}
		}
		if res.outcome == "err" && len(tgt) == 0 && len(sel) > 0 {
			// a well-formed bundle of existing rings that cannot be imported into an empty target
			cls := "import-fails"
			if hasDestroyed(src, sel) {
				cls = "import-destroyed-key"
			}
			dup := false
			for a := range sel {
				for b := a + 1; b < len(sel); b++ {
					dup = dup || sel[a] == sel[b]
				}
			}
			if !dup {
				r.Fail(cls, "importing an honest bundle into an empty key store fails: "+l)
			}
		}

		// --- tampering and wrong keys (on a budget)
		if res.bundle != nil && res.outcome == "ok" && nontrivial && tamperBudget > 0 {
			tamperBudget--
			tamper(r, rd, res)
		}
	}
}

func tamper(r *core.Run, rd *core.Rand, res *v2Result) {
	try := func(bundle, enc, sig []byte, what string) {
		T := newStore(tgtEnc, tgtSig)
		suite, _ := crypto.NewSCellSuite(enc, sig)
		_, err := T.ImportKeyRings(bundle, suite, nil)
		rings, _ := T.ListKeyRings()
		r.Tag("tamper")
		if err == nil {
			r.Fail("tamper-accepted", what+" was accepted by ImportKeyRings")
		} else if len(rings) != 0 {
			r.Fail("tamper-changed-target", what+" was rejected but the target changed: "+strings.Join(rings, ","))
		}
	}
	vals := 1
	if r.Thorough() {
		vals = 3
	}
	for pos := range res.bundle {
		for v := 0; v < vals; v++ {
			b := append([]byte{}, res.bundle...)
			delta := byte(1 + rd.Intn(255))
			if v == 1 {
				delta = 1
			}
			if v == 2 {
				delta = 0x80
			}
			b[pos] ^= delta
			try(b, res.accEnc, res.accSig, fmt.Sprintf("bundle with byte %d of %d changed (xor %#x)", pos, len(b), delta))
		}
	}
	for pos := range res.accEnc {
		k := append([]byte{}, res.accEnc...)
		k[pos] ^= byte(1 + rd.Intn(255))
		try(res.bundle, k, res.accSig, "honest bundle with a modified access encryption key")
	}
	for pos := range res.accSig {
		k := append([]byte{}, res.accSig...)
		k[pos] ^= byte(1 + rd.Intn(255))
		try(res.bundle, res.accEnc, k, "honest bundle with a modified access signature key")
	}
	try(res.bundle[:len(res.bundle)-1], res.accEnc, res.accSig, "truncated bundle")
	try(append(append([]byte{}, res.bundle...), 0), res.accEnc, res.accSig, "bundle with a trailing byte")
}
