package c18

import (
	"bytes"
	"fmt"
	"sort"
	"strings"

	"github.com/cossacklabs/acra/keystore"
	keystoreV2 "github.com/cossacklabs/acra/keystore/v2/keystore"

	"verifharness/internal/core"
)

// Generators, correspondence and oracles of the v1 key store streams (names, export, import, bundle,
// migration). The regression corpus (witnesses of repaired / known defects) runs first.

var (
	v1Src = []byte("c18-v1-source-master-key-32bytes")
	v1Tgt = []byte("c18-v1-target-master-key-32bytes")
)

func hexs(s string) string { return core.Hex([]byte(s)) }

// ---------- building a source store through the API ----------

type v1World struct {
	*v1Store
	ids     []string
	rotated bool
	poison  bool
	psym    bool
	logkey  bool
}

var v1IDs = []string{"client_a", "client-b", "x y z 1", "alpha_hmac", "beta_storage", "_sym_keygamma", "gamma", "00000", "UPPER_lower-9", "abcde_storage_sym"}

// genWorld makes a real v1 store: a few clients with storage key pair / symmetric / HMAC keys,
// optionally rotations, poison pair (possibly rotated), poison symmetric key (possibly rotated), log key
func genWorld(rd *core.Rand, allowRotation bool) *v1World {
	w := &v1World{v1Store: newV1Store(string(v1Src))}
	n := 1 + rd.Intn(3)
	perm := append([]string{}, v1IDs...)
	for k := range perm {
		j := k + rd.Intn(len(perm)-k)
		perm[k], perm[j] = perm[j], perm[k]
	}
	w.ids = perm[:n]
	rot := func() int {
		if !allowRotation || !rd.Chance(50) {
			return 0
		}
		w.rotated = true
		return 1 + rd.Intn(2)
	}
	for _, id := range w.ids {
		if rd.Chance(80) {
			for k := rot(); k >= 0; k-- {
				must(w.ks.GenerateDataEncryptionKeys([]byte(id)))
			}
		}
		if rd.Chance(80) {
			for k := rot(); k >= 0; k-- {
				must(w.ks.GenerateClientIDSymmetricKey([]byte(id)))
			}
		}
		if rd.Chance(70) {
			for k := rot(); k >= 0; k-- {
				must(w.ks.GenerateHmacKey([]byte(id)))
			}
		}
	}
	if rd.Chance(60) {
		w.poison = true
		for k := rot(); k >= 0; k-- {
			must(w.ks.GeneratePoisonKeyPair())
		}
	}
	if rd.Chance(50) {
		w.psym = true
		for k := rot(); k >= 0; k-- {
			must(w.ks.GeneratePoisonSymmetricKey())
		}
	}
	if rd.Chance(40) {
		w.logkey = true
		for k := rot(); k >= 0; k-- {
			must(w.ks.GenerateLogKey())
		}
	}
	return w
}

// fullSnapshot: everything readable through the API, history included
func (w *v1World) fullSnapshot() map[string]string { return snapshotAll(w.v1Store, w.ids) }

func snapshotAll(s *v1Store, ids []string) map[string]string {
	out := s.snapshot(ids)
	if ks, err := s.ks.GetPoisonPrivateKeys(); err == nil {
		for i, k := range ks {
			out[fmt.Sprintf("poison/privs/%d", i)] = core.Hex(k.Value)
		}
	}
	if ks, err := s.ks.GetPoisonSymmetricKeys(); err == nil {
		for i, k := range ks {
			out[fmt.Sprintf("poison/syms/%d", i)] = core.Hex(k)
		}
	}
	if k, err := s.ks.GetLogSecretKey(); err == nil {
		out["log"] = core.Hex(k)
	}
	return out
}

func exportLine(master []byte, fs []pair, sel string) string {
	var sb strings.Builder
	fmt.Fprintf(&sb, "C18.v1.export %s %d", core.Hex(master), len(fs))
	for _, f := range fs {
		sb.WriteString(" " + f.String())
	}
	sb.WriteString(" " + sel)
	return sb.String()
}

func migrateLine(master []byte, fs []pair) string {
	var sb strings.Builder
	fmt.Fprintf(&sb, "C18.v1.migrate %s %d", core.Hex(master), len(fs))
	for _, f := range fs {
		sb.WriteString(" " + f.String())
	}
	return sb.String()
}

func parseRecords(out string) ([]pair, bool) {
	f := strings.Fields(out)
	if len(f) < 2 || f[0] != "ok" {
		return nil, false
	}
	var recs []pair
	for _, x := range f[2:] {
		recs = append(recs, parsePair(x))
	}
	return recs, true
}

func hasHistory(fs []pair) bool {
	for _, f := range fs {
		if strings.Contains(string(f.name), ".old/") {
			return true
		}
	}
	return false
}

// ---------- names ----------

func tsVariants(rd *core.Rand) []string {
	base := []string{
		"2026-09-23T08:24:04.293923735", "2024-02-29T00:00:00", "2023-02-29T00:00:00", "2100-02-29T10:10:10", "2000-02-29T10:10:10",
		"2024-04-31T01:02:03", "2024-04-30T01:02:03", "2024-12-31T23:59:59.999999999", "2024-00-10T01:02:03", "2024-13-10T01:02:03",
		"2024-01-00T01:02:03", "2024-01-32T01:02:03", "2024-01-02T24:00:00", "2024-01-02T5:04:05", "2024-01-02T5:4:05", "2024-01-02T05:60:05",
		"2024-01-02T05:04:60", "2024-01-02T05:04:05.", "2024-01-02T05:04:05,5", "2024-01-02T05:04:05.1234567890123", "2024-01-02T05:04:05.12x",
		"2024-01-02T05:04:05Z", "2024-01-02 05:04:05", "202-01-02T05:04:05", "+024-01-02T05:04:05", "0000-01-01T00:00:00", "9999-12-31T23:59:59",
		"2024-1-02T05:04:05", "2024-01-2T05:04:05", "2024-01-02T05:04:5", "2024-01-02T05:04:05.5.5", "2024-01-02T05:04:05,", "2024-01-02t05:04:05",
		"", "2024", "2024-01-02T", "2024_01-02T05:04:05",
	}
	// mutations of a valid stamp
	for i := 0; i < 12; i++ {
		b := []byte("2026-09-23T08:24:04.293923735")
		switch rd.Intn(3) {
		case 0:
			b[rd.Intn(len(b))] = "0123456789-T:.,_/ a"[rd.Intn(19)]
		case 1:
			p := rd.Intn(len(b))
			b = append(b[:p], b[p+1:]...)
		default:
			p := rd.Intn(len(b) + 1)
			b = append(b[:p], append([]byte{"0123456789-T:.,"[rd.Intn(15)]}, b[p:]...)...)
		}
		base = append(base, string(b))
	}
	return base
}

func runV1Names(r *core.Run, rd *core.Rand) {
	seen := map[string]bool{}
	do := func(name string, tag string) {
		if seen[name] {
			return
		}
		seen[name] = true
		r.Begin("v1:name:"+name, strings.ContainsAny(name, "/._"), "stream:v1-names", tag)
		r.Do("C18.v1.names " + hexs(name))
	}
	stamps := tsVariants(rd)
	for _, ts := range stamps {
		do(ts, "names:timestamp")
		do("client_a_storage_sym.old/"+ts, "names:history")
	}
	filesOf := func(id string) []string {
		return []string{id + "_storage", id + "_storage.pub", id + "_storage_sym", id + "_hmac", id + "_server", id + "_translator", id + "_zone", id + "_storage.pub.old", id, id + ".pub", id + "_storage.old", id + "_sym"}
	}
	ids := append([]string{}, v1IDs...)
	ids = append(ids, "", "a", "abcd", "../x", "a/b", "..", ".", "client.a", "client\x00a", "client\xffa", "\xc3\xa9\xc3\xa9\xc3\xa9", "client_a_storage", "a_hmac_storage", strings.Repeat("x", 256), strings.Repeat("x", 257), "poison_key", "secure_log")
	for _, id := range ids {
		do(id, "names:id")
		for _, f := range filesOf(id) {
			do(f, "names:api")
			do(f+".old/"+core.Pick(rd, stamps[:8]), "names:history")
		}
	}
	for _, n := range []string{".poison_key/poison_key", ".poison_key/poison_key.pub", ".poison_key/poison_key_sym", "secure_log_key", "auth_key", "poison_key", "poison_key_sym",
		".poison_key/poison_key.old/2026-09-23T08:24:04.293923735", ".poison_key/poison_key.pub.old/2026-09-23T08:24:04.29", ".poison_key/poison_key_sym.old/2026-09-23T08:24:04.29",
		"secure_log_key.old/2026-09-23T08:24:04", "x/.poison_key/poison_key", ".poison_key/poison_key/", "a//b_storage", "a/./b_hmac", "a/../b_hmac", "/abs/c_storage_sym", "dir.old/sub/2026-09-23T08:24:04",
		"audit-log.keyring", "poison-record.keyring", "poison-record-sym.keyring", "client/x/storage.keyring", "x.keyring", "a_b", "a_b_c", "storage_sym", "x_log_key", "x_zone_sym", "x_storage.pub_y", "/", "//", "a/", "a//"} {
		do(n, "names:special")
	}
	// random names over a small alphabet
	for i := r.N(150, 3000); i > 0; i-- {
		parts := []string{"client", "a", "_", "_storage", "_sym", "_hmac", ".pub", ".old", "/", ".", "..", ".poison_key", "poison_key", "2026-09-23T08:24:04", "_server", "x y", "-"}
		n := ""
		for k := 1 + rd.Intn(5); k > 0; k-- {
			n += core.Pick(rd, parts)
		}
		do(n, "names:random")
	}
	// classifier (migration) on the same kind of strings with a folder prefix
	for name := range seen {
		if rd.Chance(40) {
			continue
		}
		p := "/ks/" + name
		r.Begin("v1:classify:"+p, true, "stream:v1-classify")
		r.Do("C18.v1.classify " + hexs(p))
	}
}

// ---------- regression corpus ----------

func runV1Corpus(r *core.Run) {
	// repaired by repo-patches/45: export of everything with a poison symmetric key / a rotated poison key pair
	for i, prep := range []func(s *v1Store){
		func(s *v1Store) { must(s.ks.GeneratePoisonSymmetricKey()) },
		func(s *v1Store) { must(s.ks.GeneratePoisonKeyPair()); must(s.ks.GeneratePoisonKeyPair()) },
		func(s *v1Store) { must(s.ks.GeneratePoisonSymmetricKey()); must(s.ks.GeneratePoisonSymmetricKey()) },
	} {
		s := newV1Store(string(v1Src))
		prep(s)
		fs := readAll(s.dir)
		want := snapshotAll(s, nil)
		s.close()
		r.Begin(fmt.Sprintf("v1:corpus:export-all-poison:%d", i), true, "stream:v1-corpus")
		out := r.Do(exportLine(v1Src, fs, "mode all"))
		recs, ok := parseRecords(out)
		if !r.Check(ok, "v1-export-all-poison-contexts", fmt.Sprintf("v1 export of all keys fails for a key store with files %v", names(fs))) {
			continue
		}
		okImp, tfs := runV1Import(v1Tgt, nil, recs)
		t := mkV1(v1Tgt, tfs)
		got := snapshotAll(t, nil)
		t.close()
		r.Check(okImp && sameMap(want, got), "v1-identity-all", fmt.Sprintf("v1 export all / import: target differs: want %v got %v", want, got))
	}
	// every kind of key file, each rotated: export all -> import -> every file has the same logical content
	// (rotated PUBLIC keys are not readable through the key store API: judged file by file)
	{
		s := newV1Store(string(v1Src))
		for k := 0; k < 2; k++ {
			must(s.ks.GenerateDataEncryptionKeys([]byte("client_a")))
			must(s.ks.GenerateClientIDSymmetricKey([]byte("client_a")))
			must(s.ks.GenerateHmacKey([]byte("client_a")))
			must(s.ks.GeneratePoisonKeyPair())
			must(s.ks.GeneratePoisonSymmetricKey())
			must(s.ks.GenerateLogKey())
		}
		fs := readAll(s.dir)
		s.close()
		r.Begin("v1:corpus:identity-rotated-everything", true, "stream:v1-corpus")
		kinds := map[string]bool{}
		for _, f := range fs {
			kinds[v1KindOf(string(f.name)).String()] = true
		}
		r.Extra["v1_identity_kinds_in_corpus"] = len(kinds)
		out := r.Do(exportLine(v1Src, fs, "mode all"))
		if recs, ok := parseRecords(out); r.Check(ok, "v1-export-all-fails", fmt.Sprintf("v1 export of all keys fails for a key store with files %v", names(fs))) {
			okImp, tfs := runV1Import(v1Tgt, nil, recs)
			r.Do(importLine(v1Tgt, nil, recs, tfs))
			r.Check(okImp, "v1-import-fails", "import of an honest bundle of all keys fails")
			checkV1ImportIdentity(r, v1Src, v1Tgt, fs, recs, tfs)
		}
	}
	// repaired by repo-patches/46: migration of the poison symmetric key
	{
		s := newV1Store(string(v1Src))
		must(s.ks.GeneratePoisonSymmetricKey())
		fs := readAll(s.dir)
		s.close()
		r.Begin("v1:corpus:migrate-poison-sym", true, "stream:v1-corpus")
		out := r.Do(migrateLine(v1Src, fs))
		r.Check(strings.HasPrefix(out, "ok "), "migrate-v1-poison-sym", "migration of a v1 key store holding only a poison symmetric key fails: "+out)
	}
	// repaired by repo-patches/48: a key store with only one half of a key pair
	{
		s := newV1Store(string(v1Src))
		must(s.ks.GenerateDataEncryptionKeys([]byte("client_a")))
		must(s.ks.GeneratePoisonKeyPair())
		fs := readAll(s.dir)
		s.close()
		for i, keepPub := range []bool{true, false} {
			var keep []pair
			for _, f := range fs {
				if strings.HasSuffix(string(f.name), ".pub") == keepPub {
					keep = append(keep, f)
				}
			}
			r.Begin(fmt.Sprintf("v1:corpus:migrate-half-pair:%d", i), true, "stream:v1-corpus")
			out := r.Do(migrateLine(v1Src, keep))
			r.Check(out != "panic", "migrate-v1-half-key-pair-panics", fmt.Sprintf("migration of a v1 key store with files %v panics", names(keep)))
			if keepPub {
				r.Check(strings.HasPrefix(out, "ok "), "migrate-v1-public-only", "migration of a v1 key store holding only public keys fails: "+out)
			}
		}
	}
	// known finding: rotated keys are not migrated
	{
		s := newV1Store(string(v1Src))
		must(s.ks.GenerateClientIDSymmetricKey([]byte("client_a")))
		must(s.ks.GenerateClientIDSymmetricKey([]byte("client_a")))
		fs := readAll(s.dir)
		s.close()
		r.Begin("v1:corpus:migrate-rotated", true, "stream:v1-corpus")
		out := r.Do(migrateLine(v1Src, fs))
		if !strings.HasPrefix(out, "ok ") {
			r.Fail("migrate-v1-rotated-keys", "migration of a v1 key store with a rotated symmetric key reports failure and leaves the rotated key behind")
		}
	}
	// fused id: purpose and id are concatenated without a separator
	{
		s := newV1Store(string(v1Src))
		must(s.ks.GenerateDataEncryptionKeys([]byte("_sym_keygamma")))
		must(s.ks.GenerateClientIDSymmetricKey([]byte("gamma")))
		fs := readAll(s.dir)
		s.close()
		r.Begin("v1:corpus:migrate-fused-id", true, "stream:v1-corpus")
		out := r.Do(migrateLine(v1Src, fs))
		r.Note("fused-id witness: %s", out)
		r.Check(strings.Contains(out, " rings 2 "), "migrate-v1-fused-id-collision", "storage key pair of client _sym_keygamma and storage symmetric key of client gamma are fused into one exported key: "+out)
	}
}

func names(fs []pair) []string {
	var out []string
	for _, f := range fs {
		out = append(out, string(f.name))
	}
	return out
}

func sameMap(a, b map[string]string) bool {
	if len(a) != len(b) {
		return false
	}
	for k, v := range a {
		if b[k] != v {
			return false
		}
	}
	return true
}

// ---------- export / import / bundle / migrate over generated stores ----------

func runV1Model(r *core.Run) {
	rd := r.Rand.Fork()
	runV1Corpus(r)
	runV1Names(r, rd)

	kinds := []string{keystore.KeyPoisonPublic, keystore.KeyPoisonPrivate, keystore.KeyStoragePublic, keystore.KeyStoragePrivate, keystore.KeySymmetric, keystore.KeySearch, keystore.KeyPoisonKeypair}
	worlds := r.N(14, 300)
	for wi := 0; wi < worlds; wi++ {
		w := genWorld(rd, wi%3 != 0)
		fs := readAll(w.dir)
		want := w.fullSnapshot()
		var secrets [][]byte
		for k, v := range want {
			if v != "err" && !strings.HasSuffix(k, "/pub") && len(v) >= 16 {
				secrets = append(secrets, core.UnHex(v))
			}
		}
		w.close()
		tag := "history:no"
		if hasHistory(fs) {
			tag = "history:yes"
		}

		// --- export everything, import into an empty store: identity incl. history
		r.Begin(fmt.Sprintf("v1:m:all:%d", wi), true, "stream:v1-export-all", tag)
		out := r.Do(exportLine(v1Src, fs, "mode "+core.Pick(rd, []string{"all", "all", "private"})))
		recs, ok := parseRecords(out)
		if r.Check(ok, "v1-export-all-fails", fmt.Sprintf("v1 export of all keys fails for a key store with files %v", names(fs))) {
			r.Check(len(recs) == len(fs), "v1-export-all-incomplete", fmt.Sprintf("v1 export all: %d records for %d files", len(recs), len(fs)))
			okImp, tfs := runV1Import(v1Tgt, nil, recs)
			r.Do(importLine(v1Tgt, nil, recs, tfs))
			t := mkV1(v1Tgt, tfs)
			got := snapshotAll(t, w.ids)
			t.close()
			r.Check(okImp && sameMap(want, got), "v1-identity-all", fmt.Sprintf("v1 export all / import: target differs from source (import ok: %v): want %v got %v", okImp, want, got))
			r.Check(sameNames(fs, tfs), "v1-identity-files", fmt.Sprintf("v1 export all / import: file sets differ: %v vs %v", names(fs), names(tfs)))
			if okImp {
				checkV1ImportIdentity(r, v1Src, v1Tgt, fs, recs, tfs)
			}
			for _, f := range tfs {
				for _, s := range secrets {
					r.Check(!bytes.Contains(f.data, s), "v1-secret-in-target-file", "import wrote key material in clear into "+string(f.name))
				}
			}
			// import into a non-empty target: the bundle's files replace, the others stay
			if rd.Chance(50) {
				w2 := genWorld(rd, true)
				pre := readAll(w2.dir)
				w2.close()
				// re-seal w2's files under the target master? they are sealed under v1Src: keep them as opaque files
				r.Begin(fmt.Sprintf("v1:m:all-nonempty:%d", wi), true, "stream:v1-import-nonempty", tag)
				_, tfs2 := runV1Import(v1Tgt, pre, recs)
				r.Do(importLine(v1Tgt, pre, recs, tfs2))
				byName := map[string][]byte{}
				for _, f := range tfs2 {
					byName[string(f.name)] = f.data
				}
				inBundle := map[string]bool{}
				for _, rc := range recs {
					inBundle[string(rc.name)] = true
				}
				for _, f := range pre {
					if !inBundle[string(f.name)] {
						r.Check(bytes.Equal(byName[string(f.name)], f.data), "v1-import-touched-unrelated", "import changed a file that is not in the bundle: "+string(f.name))
					}
				}
			}
		}
		// the same export with the source directory spelled non-canonically
		{
			k := 1 + rd.Intn(nSpellings-1)
			r.Begin(fmt.Sprintf("v1:m:all-spelled:%d:%d", wi, k), true, "stream:v1-export-all", fmt.Sprintf("spelling:%d", k))
			l := strings.Replace(exportLine(v1Src, fs, "mode all"), "C18.v1.export ", fmt.Sprintf("C18.v1.exportd %d ", k), 1)
			out2 := r.Do(l)
			r.Check(out2 == strings.Replace(out, "\n", "", -1) || !ok, "v1-export-depends-on-dir-spelling", fmt.Sprintf("export of all keys differs when the key directory is spelled like %q", spell("<tmp>", k)))
		}
		// public-only with a single key folder exports nothing
		if rd.Chance(30) {
			r.Begin(fmt.Sprintf("v1:m:public:%d", wi), false, "stream:v1-export-all", "mode:public")
			r.Do(exportLine(v1Src, fs, "mode "+core.Pick(rd, []string{"public", "other"})))
		}

		// --- export by ids
		for k := 0; k < 3; k++ {
			var sel []string
			var wantRecs int
			for n := 1 + rd.Intn(3); n > 0; n-- {
				id := core.Pick(rd, append(append([]string{}, w.ids...), "missing_client"))
				kind := core.Pick(rd, kinds[:6])
				if rd.Chance(4) {
					kind = kinds[6]
				}
				sel = append(sel, kind+":"+hexs(id))
				wantRecs++
			}
			r.Begin(fmt.Sprintf("v1:m:ids:%d:%d", wi, k), true, "stream:v1-export-ids", tag)
			line := exportLine(v1Src, fs, "ids "+showList(sel))
			out := r.Do(line)
			recs, ok := parseRecords(out)
			if !ok {
				continue
			}
			r.Check(len(recs) == wantRecs, "v1-export-ids-count", "export by ids: number of records differs from the number of ids")
			okImp, tfs := runV1Import(v1Tgt, nil, recs)
			r.Do(importLine(v1Tgt, nil, recs, tfs))
			t := mkV1(v1Tgt, tfs)
			got := t.snapshot(w.ids)
			t.close()
			r.Check(okImp, "v1-import-fails", "import of an honest by-id bundle fails")
			// every selected key has the source's value; nothing unselected appeared
			for _, s := range sel {
				f := strings.SplitN(s, ":", 2)
				id := string(core.UnHex(f[1]))
				key := map[string]string{keystore.KeySymmetric: id + "/sym/0", keystore.KeySearch: id + "/hmac", keystore.KeyStoragePrivate: id + "/priv/0", keystore.KeyStoragePublic: id + "/pub",
					keystore.KeyPoisonPublic: "poison/pub", keystore.KeyPoisonPrivate: "poison/priv"}[f[0]]
				if f[0] == keystore.KeyPoisonPublic || f[0] == keystore.KeyPoisonPrivate {
					continue // a poison half alone is not readable through GetPoisonKeyPair; compared by the model diff
				}
				r.Check(got[key] == want[key], "v1-identity-by-id", fmt.Sprintf("export of %s for %s then import: target has %s, source has %s", f[0], id, got[key], want[key]))
			}
		}

		// --- bundle: Data = seal(Keys, no context, gob(records))
		if rd.Chance(60) {
			bk, err := runV1Export(v1Src, fs, v1Selection{mode: keystore.ExportAllKeys})
			if err == nil {
				r.Begin(fmt.Sprintf("v1:m:bundle:%d", wi), true, "stream:v1-bundle")
				r.Do(fmt.Sprintf("C18.v1.bundle %s %s", core.Hex(bk.Keys), core.Hex(bk.Data)))
				for _, s := range secrets {
					r.Check(!bytes.Contains(bk.Data, s), "v1-secret-in-bundle", "the v1 bundle carries key material in clear")
				}
				// wrong key / modified data through the model as well
				k2 := append([]byte{}, bk.Keys...)
				k2[rd.Intn(len(k2))] ^= byte(1 + rd.Intn(255))
				r.Do(fmt.Sprintf("C18.v1.bundle %s %s", core.Hex(k2), core.Hex(bk.Data)))
				d2 := append([]byte{}, bk.Data...)
				d2[rd.Intn(len(d2))] ^= byte(1 + rd.Intn(255))
				out := r.Do(fmt.Sprintf("C18.v1.bundle %s %s", core.Hex(bk.Keys), core.Hex(d2)))
				r.Check(out == "err", "v1-tamper-accepted", "a modified v1 bundle was opened")
			}
		}

		// --- migration to v2
		r.Begin(fmt.Sprintf("v1:m:migrate:%d", wi), true, "stream:v1-migrate", tag)
		mline := migrateLine(v1Src, fs)
		mout := r.Do(mline)
		m := runV1Migrate(v1Src, fs)
		checkMigration(r, w, want, fs, m, mout)
	}

	// --- two key stores for the same clients migrated into one v2 key store: the second one's keys
	// become current and are listed first (newest first), the first one's keys stay
	for i := 0; i < r.N(4, 40); i++ {
		id := core.Pick(rd, v1IDs)
		mk := func() ([]pair, map[string]string) {
			s := newV1Store(string(v1Src))
			must(s.ks.GenerateClientIDSymmetricKey([]byte(id)))
			must(s.ks.GenerateHmacKey([]byte(id)))
			must(s.ks.GenerateDataEncryptionKeys([]byte(id)))
			must(s.ks.GeneratePoisonKeyPair())
			defer s.close()
			return readAll(s.dir), s.snapshot([]string{id})
		}
		fs1, want1 := mk()
		fs2, want2 := mk()
		r.Begin(fmt.Sprintf("v1:m:migrate2:%d", i), true, "stream:v1-migrate-twice")
		var sb strings.Builder
		fmt.Fprintf(&sb, "C18.v1.migrate2 %s %d", core.Hex(v1Src), len(fs1))
		for _, f := range fs1 {
			sb.WriteString(" " + f.String())
		}
		fmt.Fprintf(&sb, " %d", len(fs2))
		for _, f := range fs2 {
			sb.WriteString(" " + f.String())
		}
		r.Do(sb.String())
		_, T := runV1Migrate2(v1Src, fs1, fs2)
		sks := keystoreV2.NewServerKeyStore(T)
		cur, err := sks.GetClientIDSymmetricKey([]byte(id))
		r.Check(err == nil && core.Hex(cur) == want2[id+"/sym/0"], "migrate-v1-current", "after migrating two key stores the current storage symmetric key is not the one imported last")
		all, err := sks.GetClientIDSymmetricKeys([]byte(id))
		r.Check(err == nil && len(all) == 2 && core.Hex(all[0]) == want2[id+"/sym/0"] && core.Hex(all[1]) == want1[id+"/sym/0"], "migrate-v1-order", "after migrating two key stores the storage symmetric keys are not listed newest first")
		privs, err := sks.GetServerDecryptionPrivateKeys([]byte(id))
		r.Check(err == nil && len(privs) == 2 && core.Hex(privs[0].Value) == want2[id+"/priv/0"] && core.Hex(privs[1].Value) == want1[id+"/priv/0"], "migrate-v1-order", "after migrating two key stores the storage private keys are not listed newest first")
		if kp, err := sks.GetPoisonKeyPair(); r.Check(err == nil, "migrate-v1-current", "no poison key pair after two migrations") {
			r.Check(core.Hex(kp.Private.Value) == want2["poison/priv"], "migrate-v1-current", "after migrating two key stores the current poison key pair is not the one imported last")
		}
	}

	// --- migration of partial stores (public keys only, private keys only, strays)
	for i := 0; i < r.N(6, 60); i++ {
		w := genWorld(rd, false)
		fs := readAll(w.dir)
		w.close()
		var keep []pair
		mode := rd.Intn(3)
		for _, f := range fs {
			isPub := strings.HasSuffix(string(f.name), ".pub")
			switch {
			case mode == 0 && isPub, mode == 1 && !isPub, mode == 2 && rd.Chance(60):
				keep = append(keep, f)
			}
		}
		if mode == 2 {
			keep = append(keep, pair{[]byte(core.Pick(rd, []string{"stray", "notes.txt", "a_b", "client_a_zone", ".poison_key/extra"})), rd.Bytes(20)})
		}
		r.Begin(fmt.Sprintf("v1:m:migrate-partial:%d", i), len(keep) > 0, "stream:v1-migrate-partial", fmt.Sprintf("partial:%d", mode))
		out := r.Do(migrateLine(v1Src, keep))
		if out == "panic" {
			r.Fail("migrate-v1-half-key-pair-panics", fmt.Sprintf("migration of a v1 key store with files %v panics", names(keep)))
		}
	}
}

func sameNames(a, b []pair) bool {
	x, y := names(a), names(b)
	sort.Strings(x)
	sort.Strings(y)
	return strings.Join(x, "\x00") == strings.Join(y, "\x00")
}

// checkMigration: every current key of the v1 store is readable from the v2 store with the same value
func checkMigration(r *core.Run, w *v1World, want map[string]string, fs []pair, m migration, mout string) {
	if m.outcome == "panic" {
		r.Fail("migrate-v1-panics", "migration panics")
		return
	}
	if hasHistory(fs) {
		// rotated keys are not recognised by the classifier: known finding, judged by the model diff only
		if m.outcome != "ok" {
			r.Fail("migrate-v1-rotated-keys", "migration of a v1 key store with rotated keys reports failure and leaves the rotated keys behind: "+strings.Join(names(fs), " "))
		}
	} else {
		r.Check(m.outcome == "ok", "migrate-v1-fails", "migration of a v1 key store without rotated keys fails: "+mout)
	}
	// values of the current keys through the v2 read API
	s := mkV1(v1Src, fs)
	defer s.close()
	T := newStore(tgtEnc, tgtSig)
	sks := keystoreV2.NewServerKeyStore(T)
	keys, err := enumerate(s)
	if err != nil {
		return
	}
	for _, k := range keys {
		func() {
			defer func() { recover() }()
			sks.ImportKeyFileV1(s.ks, k)
		}()
	}
	for _, id := range w.ids {
		if v, ok := want[id+"/sym/0"]; ok && v != "err" {
			k, err := sks.GetClientIDSymmetricKey([]byte(id))
			r.Check(err == nil && core.Hex(k) == v, "migrate-v1-value", "storage symmetric key of "+id+" differs after migration")
		}
		if v := want[id+"/hmac"]; v != "err" && v != "" {
			k, err := sks.GetHMACSecretKey([]byte(id))
			r.Check(err == nil && core.Hex(k) == v, "migrate-v1-value", "HMAC key of "+id+" differs after migration")
		}
		if v, ok := want[id+"/priv/0"]; ok && v != "err" {
			k, err := sks.GetServerDecryptionPrivateKey([]byte(id))
			r.Check(err == nil && core.Hex(k.Value) == v, "migrate-v1-value", "storage private key of "+id+" differs after migration")
			p, err := sks.GetClientIDEncryptionPublicKey([]byte(id))
			r.Check(err == nil && core.Hex(p.Value) == want[id+"/pub"], "migrate-v1-value", "storage public key of "+id+" differs after migration")
		}
	}
	if v, ok := want["poison/priv"]; ok {
		kp, err := sks.GetPoisonKeyPair()
		r.Check(err == nil && core.Hex(kp.Private.Value) == v && core.Hex(kp.Public.Value) == want["poison/pub"], "migrate-v1-value", "poison key pair differs after migration")
	}
	if v, ok := want["poison/syms/0"]; ok {
		k, err := sks.GetPoisonSymmetricKey()
		r.Check(err == nil && core.Hex(k) == v, "migrate-v1-value", "poison symmetric key differs after migration")
	}
	if v, ok := want["log"]; ok {
		k, err := sks.GetLogSecretKey()
		r.Check(err == nil && core.Hex(k) == v, "migrate-v1-value", "audit log key differs after migration")
	}
}
