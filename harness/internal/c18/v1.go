package c18

import (
	"bytes"
	"fmt"
	"os"
	"path/filepath"
	"sort"

	"github.com/cossacklabs/acra/keystore"
	"github.com/cossacklabs/acra/keystore/filesystem"

	"verifharness/internal/core"
)

// v1 key store (keystore/filesystem.KeyBackuper): export -> import into a fresh store, judged by
// direct oracles on the real code (no Lean model of the gob container; see checks/C18.json).

type v1Store struct {
	dir     string
	spelled string // the directory as given to the key store and the backuper ("" = dir)
	ks      *filesystem.KeyStore
	enc     keystore.KeyEncryptor
}

func newV1Store(master string) *v1Store {
	tmp, err := os.MkdirTemp("", "verif-c18-")
	if err != nil {
		panic("harness: " + err.Error())
	}
	dir := filepath.Join(tmp, "ks")
	if err := os.MkdirAll(dir, 0o700); err != nil {
		panic("harness: " + err.Error())
	}
	enc, _ := keystore.NewSCellKeyEncryptor([]byte(master))
	ks, err := filesystem.NewFileSystemKeyStoreWithCacheSize(dir, enc, keystore.WithoutCache)
	if err != nil {
		panic("harness: " + err.Error())
	}
	return &v1Store{dir: dir, ks: ks, enc: enc}
}

func (s *v1Store) close() { os.RemoveAll(filepath.Dir(s.dir)) }

func (s *v1Store) backuper() *filesystem.KeyBackuper {
	dir := s.dir
	if s.spelled != "" {
		dir = s.spelled
	}
	b, err := filesystem.NewKeyBackuper(dir, "", &filesystem.DummyStorage{}, s.enc, s.ks)
	if err != nil {
		panic("harness: " + err.Error())
	}
	return b
}

// snapshot of everything readable through the API for the given clients
func (s *v1Store) snapshot(ids []string) map[string]string {
	out := map[string]string{}
	hex := func(b []byte, err error) string {
		if err != nil {
			return "err"
		}
		return core.Hex(b)
	}
	for _, id := range ids {
		if k, err := s.ks.GetClientIDSymmetricKeys([]byte(id)); err == nil {
			for i, x := range k {
				out[fmt.Sprintf("%s/sym/%d", id, i)] = core.Hex(x)
			}
		} else {
			out[id+"/sym"] = "err"
		}
		k, err := s.ks.GetHMACSecretKey([]byte(id))
		out[id+"/hmac"] = hex(k, err)
		if ps, err := s.ks.GetServerDecryptionPrivateKeys([]byte(id)); err == nil {
			for i, x := range ps {
				out[fmt.Sprintf("%s/priv/%d", id, i)] = core.Hex(x.Value)
			}
		} else {
			out[id+"/priv"] = "err"
		}
		if p, err := s.ks.GetClientIDEncryptionPublicKey([]byte(id)); err == nil {
			out[id+"/pub"] = core.Hex(p.Value)
		} else {
			out[id+"/pub"] = "err"
		}
	}
	if kp, err := s.ks.GetPoisonKeyPair(); err == nil {
		out["poison/priv"] = core.Hex(kp.Private.Value)
		out["poison/pub"] = core.Hex(kp.Public.Value)
	}
	return out
}

func files(dir string) []string {
	var out []string
	filepath.Walk(dir, func(p string, info os.FileInfo, err error) error {
		if err == nil && !info.IsDir() {
			rel, _ := filepath.Rel(dir, p)
			out = append(out, rel)
		}
		return nil
	})
	sort.Strings(out)
	return out
}

func runV1(r *core.Run) {
	rd := r.Rand.Fork()
	rounds := r.N(3, 30)
	for round := 0; round < rounds; round++ {
		src := newV1Store("c18-v1-source-master-key-32bytes")
		ids := []string{"client_a", "client-b"}
		for _, id := range ids {
			must(src.ks.GenerateDataEncryptionKeys([]byte(id)))
			must(src.ks.GenerateClientIDSymmetricKey([]byte(id)))
			must(src.ks.GenerateHmacKey([]byte(id)))
			for k := rd.Intn(3); k > 0; k-- { // rotations: history files
				must(src.ks.GenerateClientIDSymmetricKey([]byte(id)))
				if rd.Bool() {
					must(src.ks.GenerateDataEncryptionKeys([]byte(id)))
				}
			}
		}
		must(src.ks.GeneratePoisonKeyPair())
		want := src.snapshot(ids)
		var secrets [][]byte
		for k, v := range want {
			if v != "err" && (contains(k, "/sym") || contains(k, "/hmac") || contains(k, "/priv")) {
				secrets = append(secrets, core.UnHex(v))
			}
		}

		importInto := func(bk *keystore.KeysBackup) (*v1Store, error) {
			t := newV1Store("c18-v1-target-master-key-32bytes")
			_, err := t.backuper().Import(bk)
			return t, err
		}
		scan := func(bk *keystore.KeysBackup, what string) {
			for _, s := range secrets {
				r.Check(!bytes.Contains(bk.Data, s), "v1-secret-in-bundle", what+": the bundle carries key material in clear")
			}
		}

		// --- selection by export id, one kind at a time (regression: repo-patches/04)
		type sel struct {
			kind, id, key string
		}
		var sels []sel
		for _, id := range ids {
			sels = append(sels, sel{keystore.KeySymmetric, id, id + "/sym/0"}, sel{keystore.KeySearch, id, id + "/hmac"},
				sel{keystore.KeyStoragePrivate, id, id + "/priv/0"}, sel{keystore.KeyStoragePublic, id, id + "/pub"})
		}
		for _, s := range sels {
			r.Begin(fmt.Sprintf("v1:id:%d:%s:%s", round, s.kind, s.id), true, "mode:v1-by-id")
			bk, err := src.backuper().Export([]keystore.ExportID{{KeyKind: s.kind, ContextID: []byte(s.id)}}, keystore.ExportPrivateKeys)
			if !r.Check(err == nil, "v1-export-fails", fmt.Sprintf("v1 export of %s for %s fails", s.kind, s.id)) {
				continue
			}
			scan(bk, "v1 export by id "+s.kind)
			t, err := importInto(bk)
			got := t.snapshot(ids)
			r.Check(err == nil && got[s.key] == want[s.key], "v1-identity-by-id",
				fmt.Sprintf("v1 export of %s for client %s then import: target has %s=%s, source has %s (import error: %v)", s.kind, s.id, s.key, got[s.key], want[s.key], err))
			// nothing else may have appeared
			for k, v := range got {
				if k != s.key && v != "err" && !(s.kind == keystore.KeyStoragePrivate && k == s.id+"/pub") {
					r.Check(false, "v1-unselected-imported", fmt.Sprintf("v1 export of %s for %s also imported %s", s.kind, s.id, k))
				}
			}
			t.close()
		}

		// --- everything (private mode reads the whole private folder, history included)
		r.Begin(fmt.Sprintf("v1:all:%d", round), true, "mode:v1-all")
		bk, err := src.backuper().Export(nil, keystore.ExportAllKeys)
		if r.Check(err == nil, "v1-export-fails", "v1 export of all keys fails") {
			scan(bk, "v1 export all")
			t, err := importInto(bk)
			got := t.snapshot(ids)
			same := err == nil && len(got) == len(want)
			for k, v := range want {
				same = same && got[k] == v
			}
			r.Check(same, "v1-identity-all", fmt.Sprintf("v1 export all then import: target differs from source (import error: %v): want %v got %v", err, want, got))
			t.close()

			// tampering and wrong key: rejected, target directory stays empty
			budget := r.N(80, 100000)
			try := func(data, keys []byte, what string) {
				t := newV1Store("c18-v1-target-master-key-32bytes")
				_, err := t.backuper().Import(&keystore.KeysBackup{Data: data, Keys: keys})
				r.Tag("v1-tamper")
				if err == nil {
					r.Fail("v1-tamper-accepted", what+" was accepted by the v1 import")
				} else if fs := files(t.dir); len(fs) != 0 {
					r.Fail("v1-tamper-changed-target", fmt.Sprintf("%s was rejected but the target has files %v", what, fs))
				}
				t.close()
			}
			step := 1
			if len(bk.Data) > budget {
				step = len(bk.Data)/budget + 1
			}
			for pos := rd.Intn(step); pos < len(bk.Data); pos += step {
				d := append([]byte{}, bk.Data...)
				d[pos] ^= byte(1 + rd.Intn(255))
				try(d, bk.Keys, fmt.Sprintf("v1 bundle with byte %d changed", pos))
			}
			for pos := range bk.Keys {
				k := append([]byte{}, bk.Keys...)
				k[pos] ^= byte(1 + rd.Intn(255))
				try(bk.Data, k, "v1 bundle with a modified access key")
			}
		}
		src.close()
	}
}

func must(err error) {
	if err != nil {
		panic("harness: " + err.Error())
	}
}

func contains(s, sub string) bool { return bytes.Contains([]byte(s), []byte(sub)) }
