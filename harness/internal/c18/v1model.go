package c18

import (
	"bytes"
	"context"
	"encoding/gob"
	"fmt"
	"os"
	"path/filepath"
	"sort"
	"strings"

	"github.com/cossacklabs/acra/keystore"
	"github.com/cossacklabs/acra/keystore/filesystem"
	keystoreV2 "github.com/cossacklabs/acra/keystore/v2/keystore"
	"github.com/cossacklabs/acra/keystore/v2/keystore/api"

	"verifharness/internal/core"
)

// Implementation side of the v1 key store ops (model: lean/AcraModel/KeystoreSec/{V1Names,ExportV1,MigrateV1}.lean,
// driver: lean/Driver/V1Keys.lean). Every op builds a fresh real key store directory from the files
// named on the op line, so a replay file reproduces the case.

func init() {
	core.Register("C18.v1.names", opV1Names)
	core.Register("C18.v1.export", opV1Export)
	core.Register("C18.v1.exportd", func(a []string) string { return opV1ExportSpelled(core.Atoi(a[0]), a[1:]) })
	core.Register("C18.v1.bundle", opV1Bundle)
	core.Register("C18.v1.import", opV1Import)
	core.Register("C18.v1.classify", opV1Classify)
	core.Register("C18.v1.migrate", opV1Migrate)
	core.Register("C18.v1.migrate2", opV1Migrate2)
}

type pair struct{ name, data []byte }

func parsePair(s string) pair {
	f := strings.Split(s, ":")
	return pair{core.UnHex(f[0]), core.UnHex(f[1])}
}
func (p pair) String() string { return core.Hex(p.name) + ":" + core.Hex(p.data) }

func takeList(a []string) ([]string, []string) {
	n := core.Atoi(a[0])
	return a[1 : 1+n], a[1+n:]
}

func showList(xs []string) string {
	s := fmt.Sprint(len(xs))
	for _, x := range xs {
		s += " " + x
	}
	return s
}

func b01(b bool) string {
	if b {
		return "1"
	}
	return "0"
}

func showCtx(kc keystore.KeyContext) string {
	p := string(kc.Purpose)
	if p == "" {
		p = "-"
	}
	if kc.ClientID != nil {
		return p + ":c:" + core.Hex(kc.ClientID)
	}
	if kc.Context != nil {
		return p + ":x:" + core.Hex(kc.Context)
	}
	return p + ":n:-"
}

func opV1Names(a []string) string {
	n := string(core.UnHex(a[0]))
	_, derr := filesystem.DescribeKeyFile(filepath.Base(n))
	return fmt.Sprintf("hist=%s priv=%s pub=%s ctx=%s describe=%s valid=%s base=%s dir=%s",
		b01(filesystem.VerifIsHistoricalFilename(n)), b01(filesystem.VerifIsPrivate(n)), b01(filesystem.VerifIsPublic(n)),
		showCtx(filesystem.VerifGetContextFromFilename(n)), b01(derr == nil), b01(keystore.ValidateID([]byte(n))),
		core.Hex([]byte(filepath.Base(n))), core.Hex([]byte(filepath.Dir(n))))
}

// mkV1 creates a real v1 key store directory holding exactly the given files (private files 0600,
// public ones 0644) and opens it without a cache.
func mkV1(master []byte, files []pair) *v1Store { return mkV1Spelled(master, files, 0) }

// spell returns the key directory <tmp>/ks written in a non-canonical way
func spell(tmp string, k int) string {
	switch k {
	case 1:
		return tmp + "/ks/"
	case 2:
		return tmp + "/./ks"
	case 3:
		must(os.MkdirAll(filepath.Join(tmp, "x"), 0o700))
		return tmp + "/x/../ks"
	case 4:
		return tmp + "//ks"
	case 5:
		return tmp + "/ks/."
	}
	return tmp + "/ks"
}

const nSpellings = 6

// mkV1Spelled: as mkV1, but the key store and its backuper are given the directory spelled as `spell(k)`
func mkV1Spelled(master []byte, files []pair, k int) *v1Store {
	tmp, err := os.MkdirTemp("", "verif-c18-")
	if err != nil {
		panic("harness: " + err.Error())
	}
	dir := filepath.Join(tmp, "ks")
	must(os.MkdirAll(dir, 0o700))
	defer func() {}()
	for _, f := range files {
		p := filepath.Join(dir, string(f.name))
		if !strings.HasPrefix(p, dir+"/") {
			panic("harness: file outside the sandbox: " + p)
		}
		must(os.MkdirAll(filepath.Dir(p), 0o700))
		mode := os.FileMode(0o600)
		if filesystem.VerifIsPublic(string(f.name)) || strings.Contains(string(f.name), ".pub.old/") {
			mode = 0o644
		}
		must(os.WriteFile(p, f.data, mode))
	}
	enc, _ := keystore.NewSCellKeyEncryptor(master)
	ks, err := filesystem.NewFileSystemKeyStoreWithCacheSize(spell(tmp, k), enc, keystore.WithoutCache)
	if err != nil {
		panic("harness: " + err.Error())
	}
	return &v1Store{dir: dir, spelled: spell(tmp, k), ks: ks, enc: enc}
}

func readAll(dir string) []pair {
	var out []pair
	for _, rel := range files(dir) {
		b, err := os.ReadFile(filepath.Join(dir, rel))
		if err != nil {
			panic("harness: " + err.Error())
		}
		out = append(out, pair{[]byte(rel), b})
	}
	return out
}

// openV1Bundle decrypts and decodes a bundle the way Import does
func openV1Bundle(bk *keystore.KeysBackup) ([]pair, []byte, error) {
	dec, _ := keystore.NewSCellKeyEncryptor(bk.Keys)
	pt, err := dec.Decrypt(context.Background(), bk.Data, keystore.NewEmptyKeyContext(nil))
	if err != nil {
		return nil, nil, err
	}
	var keys []*keystore.Key
	if err := gob.NewDecoder(bytes.NewReader(pt)).Decode(&keys); err != nil {
		return nil, pt, err
	}
	var out []pair
	for _, k := range keys {
		out = append(out, pair{[]byte(k.Name), k.Content})
	}
	return out, pt, nil
}

func sealV1Bundle(recs []pair) *keystore.KeysBackup {
	var keys []*keystore.Key
	for _, r := range recs {
		keys = append(keys, &keystore.Key{Name: string(r.name), Content: append([]byte{}, r.data...)})
	}
	var buf bytes.Buffer
	must(gob.NewEncoder(&buf).Encode(keys))
	access := []byte("c18-v1-bundle-access-key-32bytes")
	enc, _ := keystore.NewSCellKeyEncryptor(access)
	data, err := enc.Encrypt(context.Background(), buf.Bytes(), keystore.NewEmptyKeyContext(nil))
	must(err)
	return &keystore.KeysBackup{Data: data, Keys: access}
}

type v1Selection struct {
	ids  []keystore.ExportID
	mode keystore.ExportMode
}

func parseSelection(a []string) v1Selection {
	if a[0] == "ids" {
		ids, _ := takeList(a[1:])
		var s v1Selection
		for _, x := range ids {
			f := strings.Split(x, ":")
			s.ids = append(s.ids, keystore.ExportID{KeyKind: f[0], ContextID: core.UnHex(f[1])})
		}
		s.mode = keystore.ExportAllKeys
		return s
	}
	switch a[1] {
	case "all":
		return v1Selection{mode: keystore.ExportAllKeys}
	case "private":
		return v1Selection{mode: keystore.ExportPrivateKeys}
	case "public":
		return v1Selection{mode: keystore.ExportPublicOnly}
	}
	return v1Selection{mode: keystore.ExportMode(64)}
}

func runV1Export(master []byte, fs []pair, sel v1Selection) (*keystore.KeysBackup, error) {
	return runV1ExportSpelled(master, fs, sel, 0)
}

func runV1ExportSpelled(master []byte, fs []pair, sel v1Selection, k int) (*keystore.KeysBackup, error) {
	s := mkV1Spelled(master, fs, k)
	defer s.close()
	return s.backuper().Export(sel.ids, sel.mode)
}

func opV1Export(a []string) string { return opV1ExportSpelled(0, a) }

func opV1ExportSpelled(k int, a []string) string {
	master := core.UnHex(a[0])
	fl, rest := takeList(a[1:])
	var fs []pair
	for _, f := range fl {
		fs = append(fs, parsePair(f))
	}
	bk, err := runV1ExportSpelled(master, fs, parseSelection(rest), k)
	if err != nil {
		return "err"
	}
	recs, _, err := openV1Bundle(bk)
	if err != nil {
		return "bundle-unreadable"
	}
	var xs []string
	for _, r := range recs {
		xs = append(xs, r.String())
	}
	return "ok " + showList(xs)
}

func opV1Bundle(a []string) string {
	keys, data := core.UnHex(a[0]), core.UnHex(a[1])
	dec, _ := keystore.NewSCellKeyEncryptor(keys)
	pt, err := dec.Decrypt(context.Background(), data, keystore.NewEmptyKeyContext(nil))
	if err != nil {
		return "err"
	}
	return "ok " + core.Hex(pt) + " resealed=1"
}

// runV1Import imports the records into a real key store holding tgt; returns success and all files afterwards
func runV1Import(master []byte, tgt, recs []pair) (bool, []pair) {
	t := mkV1(master, tgt)
	defer t.close()
	_, err := t.backuper().Import(sealV1Bundle(recs))
	return err == nil, readAll(t.dir)
}

func importLine(master []byte, tgt, recs, obs []pair) string {
	var sb strings.Builder
	fmt.Fprintf(&sb, "C18.v1.import %s %d", core.Hex(master), len(tgt))
	for _, f := range tgt {
		sb.WriteString(" " + f.String())
	}
	fmt.Fprintf(&sb, " %d", len(recs))
	for _, f := range recs {
		sb.WriteString(" " + f.String())
	}
	fmt.Fprintf(&sb, " %d", len(obs))
	for _, f := range obs {
		sb.WriteString(" " + f.String())
	}
	return sb.String()
}

func showFiles(ok bool, fs []pair) string {
	var xs []string
	for _, f := range fs {
		xs = append(xs, f.String())
	}
	sort.Strings(xs)
	st := "err "
	if ok {
		st = "ok "
	}
	return st + showList(xs)
}

// The replayable form: the observed files are part of the line; the op re-runs the real import and
// reports its status together with the *observed* files when the fresh run agrees with them up to the
// random nonces (same paths, same lengths), otherwise the fresh files.
func opV1Import(a []string) string {
	master := core.UnHex(a[0])
	tl, rest := takeList(a[1:])
	rl, rest := takeList(rest)
	ol, _ := takeList(rest)
	var tgt, recs, obs []pair
	for _, f := range tl {
		tgt = append(tgt, parsePair(f))
	}
	for _, f := range rl {
		recs = append(recs, parsePair(f))
	}
	for _, f := range ol {
		obs = append(obs, parsePair(f))
	}
	ok, fs := runV1Import(master, tgt, recs)
	same := len(fs) == len(obs)
	if same {
		byName := map[string][]byte{}
		for _, o := range obs {
			byName[string(o.name)] = o.data
		}
		for _, f := range fs {
			d, found := byName[string(f.name)]
			same = same && found && len(d) == len(f.data)
		}
	}
	if same {
		return showFiles(ok, obs)
	}
	return showFiles(ok, fs)
}

func opV1Classify(a []string) string {
	p := string(core.UnHex(a[0]))
	k := (&filesystem.DefaultKeyFileClassifier{}).ClassifyExportedKey(p)
	if k == nil {
		return "nil"
	}
	return fmt.Sprintf("%s pub=%s priv=%s sym=%s", showCtx(k.KeyContext), b01(k.PublicPath != ""), b01(k.PrivatePath != ""), b01(k.SymmetricPath != ""))
}

type migration struct {
	outcome string
	perKey  []string
	rings   []string
	tgt     []ringD
}

func runV1Migrate(master []byte, fs []pair) (m migration) {
	return runV1MigrateInto(master, fs, newStore(tgtEnc, tgtSig))
}

func runV1MigrateInto(master []byte, fs []pair, T api.MutableKeyStore) (m migration) {
	s := mkV1(master, fs)
	defer s.close()
	sks := keystoreV2.NewServerKeyStore(T)
	keys, err := filesystem.EnumerateExportedKeys(s.ks)
	if err != nil {
		m.outcome = "enumerate-error"
		return
	}
	m.outcome = "ok"
	for _, k := range keys {
		fused := k.KeyContext.Purpose.String() + "\x00" + string(keystore.GetKeyContextFromContext(k.KeyContext))
		res := "ok"
		func() {
			defer func() {
				if r := recover(); r != nil {
					res = "panic"
				}
			}()
			if err := sks.ImportKeyFileV1(s.ks, k); err != nil {
				res = "err"
			}
		}()
		if res == "panic" {
			m.outcome = "panic"
			return
		}
		if res == "err" {
			m.outcome = "err"
		}
		m.perKey = append(m.perKey, core.Hex([]byte(fused))+"="+res)
	}
	sort.Strings(m.perKey)
	_, m.tgt = view(T)
	for _, r := range m.tgt {
		// keys oldest first, without the validity period (time.Now)
		var ks []string
		for _, k := range r.keys {
			for _, d := range k.data {
				ks = append(ks, fmt.Sprintf("%d,%s", k.seq, d.String()))
			}
		}
		body := "-"
		if len(ks) > 0 {
			body = strings.Join(ks, "|")
		}
		m.rings = append(m.rings, fmt.Sprintf("%s;%d;%s", core.Hex([]byte(r.path)), r.current, body))
	}
	sort.Strings(m.rings)
	return
}

func enumerate(s *v1Store) ([]filesystem.ExportedKey, error) {
	return filesystem.EnumerateExportedKeys(s.ks)
}

func (m migration) String() string {
	if m.outcome == "panic" {
		return "panic"
	}
	return fmt.Sprintf("%s keys %s rings %s", m.outcome, showList(m.perKey), showList(m.rings))
}

func opV1Migrate(a []string) string {
	master := core.UnHex(a[0])
	fl, _ := takeList(a[1:])
	var fs []pair
	for _, f := range fl {
		fs = append(fs, parsePair(f))
	}
	return runV1Migrate(master, fs).String()
}

// two key stores migrated one after the other into one v2 key store
func runV1Migrate2(master []byte, fs1, fs2 []pair) (string, api.MutableKeyStore) {
	T := newStore(tgtEnc, tgtSig)
	m1 := runV1MigrateInto(master, fs1, T)
	m2 := runV1MigrateInto(master, fs2, T)
	if m1.outcome == "panic" || m2.outcome == "panic" {
		return "panic", T
	}
	return fmt.Sprintf("%s %s rings %s", m1.outcome, m2.outcome, showList(m2.rings)), T
}

func opV1Migrate2(a []string) string {
	master := core.UnHex(a[0])
	l1, rest := takeList(a[1:])
	l2, _ := takeList(rest)
	var fs1, fs2 []pair
	for _, f := range l1 {
		fs1 = append(fs1, parsePair(f))
	}
	for _, f := range l2 {
		fs2 = append(fs2, parsePair(f))
	}
	out, _ := runV1Migrate2(master, fs1, fs2)
	return out
}
