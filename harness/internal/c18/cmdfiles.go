package c18

import (
	"bytes"
	"fmt"
	"os"
	"path/filepath"

	acrakeys "github.com/cossacklabs/acra/cmd/acra-keys/keys"
	"github.com/cossacklabs/acra/keystore"
	keystoreV2 "github.com/cossacklabs/acra/keystore/v2/keystore"

	"verifharness/internal/core"
)

// Command level: `acra-keys export` leaves the bundle in --key_bundle_file / --key_bundle_secret
// (keys.WriteExportedData). Whatever these files held before, the bundle found there afterwards must
// import with the access keys found there. Oracle only (the files are plain copies of KeysBackup).

type exportParams struct {
	keystore.Exporter
	ids        []keystore.ExportID
	data, keys string
}

func (p *exportParams) ExportIDs() []keystore.ExportID { return p.ids }
func (p *exportParams) ExportAll() bool                { return false }
func (p *exportParams) ExportPrivate() bool            { return true }
func (p *exportParams) ExportKeysFile() string         { return p.keys }
func (p *exportParams) ExportDataFile() string         { return p.data }

type symStore interface {
	GenerateClientIDSymmetricKey(id []byte) error
	GetClientIDSymmetricKey(id []byte) ([]byte, error)
}

func runCmdFiles(r *core.Run) {
	rd := r.Rand.Fork()
	for round := 0; round < r.N(2, 12); round++ {
		for _, format := range []string{"v1", "v2"} {
			var src, dst symStore
			var exporter keystore.Exporter
			var importer keystore.Importer
			var cleanup []func()
			if format == "v1" {
				s, t := newV1Store(string(v1Src)), newV1Store(string(v1Tgt))
				src, dst, exporter, importer = s.ks, t.ks, s.backuper(), t.backuper()
				cleanup = append(cleanup, s.close, t.close)
			} else {
				S, T := keystoreV2.NewServerKeyStore(newStore(srcEnc, srcSig)), keystoreV2.NewServerKeyStore(newStore(tgtEnc, tgtSig))
				bs, err := keystoreV2.NewKeyBackuper("", "", S)
				must(err)
				bt, err := keystoreV2.NewKeyBackuper("", "", T)
				must(err)
				src, dst, exporter, importer = S, T, bs, bt
			}
			dir, err := os.MkdirTemp("", "verif-c18-out-")
			must(err)
			cleanup = append(cleanup, func() { os.RemoveAll(dir) })
			p := &exportParams{Exporter: exporter, data: filepath.Join(dir, "keys.dat"), keys: filepath.Join(dir, "access-keys.txt")}
			n := 2 + rd.Intn(4)
			var ids [][]byte
			for i := 0; i < n; i++ {
				id := []byte(fmt.Sprintf("client_%d_%d", round, i))
				ids = append(ids, id)
				must(src.GenerateClientIDSymmetricKey(id))
			}
			r.Begin(fmt.Sprintf("cmd:reexport:%s:%d", format, round), true, "stream:cmd-output-files", "format:"+format)
			// a sequence of exports into the same two files: all keys, then a smaller selection
			selections := [][]int{nil, {0}}
			if rd.Bool() {
				selections = [][]int{{0}, nil, {1}}
			}
			okAll := true
			var last []int
			for _, sel := range selections {
				p.ids = nil
				if sel == nil {
					sel = make([]int, n)
					for i := range sel {
						sel[i] = i
					}
				}
				for _, i := range sel {
					p.ids = append(p.ids, keystore.ExportID{KeyKind: keystore.KeySymmetric, ContextID: ids[i]})
				}
				bk, err := p.Export(p.ids, keystore.ExportPrivateKeys)
				if err != nil {
					okAll = false
					break
				}
				if err := acrakeys.WriteExportedData(bk.Data, bk.Keys, p); err != nil {
					okAll = false
					break
				}
				data, _ := os.ReadFile(p.data)
				keys, _ := os.ReadFile(p.keys)
				r.Check(bytes.Equal(data, bk.Data) && bytes.Equal(keys, bk.Keys), "cmd-output-file-differs-from-bundle",
					fmt.Sprintf("%s: after `acra-keys export` into existing output files the files differ from the exported bundle (data %d vs %d bytes, keys %d vs %d bytes)", format, len(data), len(bk.Data), len(keys), len(bk.Keys)))
				last = sel
			}
			if okAll {
				data, _ := os.ReadFile(p.data)
				keys, _ := os.ReadFile(p.keys)
				_, err := importer.Import(&keystore.KeysBackup{Data: data, Keys: keys})
				if r.Check(err == nil, "cmd-reexport-bundle-rejected", fmt.Sprintf("%s: the bundle left in the output files by the last export is rejected with its own access keys: %v", format, err)) {
					for _, i := range last {
						want, _ := src.GetClientIDSymmetricKey(ids[i])
						got, err := dst.GetClientIDSymmetricKey(ids[i])
						r.Check(err == nil && bytes.Equal(want, got), "cmd-reexport-identity", format+": key exported through the output files differs in the target")
					}
				}
			}
			for _, f := range cleanup {
				f()
			}
		}
	}
}
