package c18

import (
	"bytes"
	"context"
	"fmt"
	"path/filepath"
	"sort"
	"strings"

	"github.com/cossacklabs/acra/keystore"

	"verifharness/internal/core"
)

// Oracle of `v1_export_import_identity` on the implementation's own output: after "export all" of a
// source key store and import into an empty target, EVERY key file of the source – current and rotated,
// public and private/symmetric, every purpose – exists in the target under the same name with the same
// *logical* content (public keys byte-identical; private and symmetric keys open under the target's
// master key, with the context of their key file, to the plaintext the source file opens to under the
// source's master key), and exporting the target again yields the same key set.
//
// The classification of a file name used here is the naming scheme of the v1 key store (server_keystore.go:
// "<id>_storage[.pub]", "<id>_storage_sym", "<id>_hmac", ".poison_key/poison_key[.pub|_sym]", "secure_log_key",
// history in "<key file>.old/<timestamp>"), written down independently of KeyBackuper's isPrivate /
// getContextFromFilename, which are the functions under judgement.

type v1Kind struct {
	keyfile string // the key file the name belongs to (history directory without ".old" for a rotated key)
	rotated bool
	public  bool
	purpose string // storage | storage-sym | hmac | poison | poison-sym | log | other
	ctx     []byte // context the key store seals the (private) file with
}

func (k v1Kind) String() string {
	s := "current"
	if k.rotated {
		s = "rotated"
	}
	if k.public {
		s += "-public"
	} else if strings.HasSuffix(k.purpose, "sym") || k.purpose == "hmac" || k.purpose == "log" {
		s += "-symmetric"
	} else {
		s += "-private"
	}
	return s + "-" + k.purpose
}

func v1KindOf(name string) v1Kind {
	k := v1Kind{keyfile: name}
	if dir := filepath.Dir(name); strings.HasSuffix(dir, ".old") && dir != ".old" {
		k.rotated = true
		k.keyfile = strings.TrimSuffix(dir, ".old")
	}
	kf := k.keyfile
	if strings.HasSuffix(kf, ".pub") {
		k.public = true
		kf = strings.TrimSuffix(kf, ".pub")
	}
	base := filepath.Base(kf)
	switch {
	case kf == ".poison_key/poison_key":
		k.purpose, k.ctx = "poison", []byte(kf)
	case kf == ".poison_key/poison_key_sym":
		k.purpose, k.ctx = "poison-sym", []byte(kf)
	case kf == "secure_log_key":
		k.purpose, k.ctx = "log", []byte(kf)
	case strings.HasSuffix(base, "_storage_sym"):
		k.purpose, k.ctx = "storage-sym", []byte(strings.TrimSuffix(base, "_storage_sym"))
	case strings.HasSuffix(base, "_storage"):
		k.purpose, k.ctx = "storage", []byte(strings.TrimSuffix(base, "_storage"))
	case strings.HasSuffix(base, "_hmac"):
		k.purpose, k.ctx = "hmac", []byte(strings.TrimSuffix(base, "_hmac"))
	default:
		k.purpose, k.ctx = "other", []byte(base)
	}
	return k
}

func v1Open(master []byte, k v1Kind, data []byte) ([]byte, bool) {
	dec, err := keystore.NewSCellKeyEncryptor(master)
	if err != nil {
		return nil, false
	}
	pt, err := dec.Decrypt(context.Background(), data, keystore.KeyContext{Context: k.ctx})
	return pt, err == nil
}

// checkV1ImportIdentity judges the files `tfs` of a target (master key tgtMaster, empty before) after the
// import of the bundle exported (all keys) from the source with files `fs` under srcMaster.
func checkV1ImportIdentity(r *core.Run, srcMaster, tgtMaster []byte, fs, recs, tfs []pair) {
	byName := map[string][]byte{}
	for _, f := range tfs {
		byName[string(f.name)] = f.data
	}
	for _, f := range fs {
		k := v1KindOf(string(f.name))
		class := "v1-import-key-differs:" + k.String()
		got, found := byName[string(f.name)]
		if !r.Check(found, class, fmt.Sprintf("v1 export all / import: key file %s (%s) of the source is missing in the target", f.name, k)) {
			continue
		}
		if k.public {
			r.Check(bytes.Equal(got, f.data), class, fmt.Sprintf("v1 export all / import: public key %s (%s) is %d bytes %s in the source but %d bytes %s in the target",
				f.name, k, len(f.data), core.Hex(f.data), len(got), core.Hex(got)))
			continue
		}
		want, ok := v1Open(srcMaster, k, f.data)
		if !ok {
			r.Note("v1 identity oracle: source file %s does not open under the context %q of the naming scheme (not judged)", f.name, k.ctx)
			continue
		}
		have, ok := v1Open(tgtMaster, k, got)
		r.Check(ok && bytes.Equal(have, want), class, fmt.Sprintf("v1 export all / import: %s (%s) does not open under the target's master key to the source's key (opens: %v)", f.name, k, ok))
	}
	// the target exports the same key set
	bk, err := runV1Export(tgtMaster, tfs, v1Selection{mode: keystore.ExportAllKeys})
	if !r.Check(err == nil, "v1-import-key-differs:reexport", fmt.Sprintf("v1 export all / import: exporting all keys of the target fails (%v); target files %v", err, names(tfs))) {
		return
	}
	again, _, err := openV1Bundle(bk)
	if !r.Check(err == nil, "v1-import-key-differs:reexport", "v1 export all / import: the bundle exported from the target cannot be opened") {
		return
	}
	canon := func(ps []pair) []string {
		var xs []string
		for _, p := range ps {
			xs = append(xs, p.String())
		}
		sort.Strings(xs)
		return xs
	}
	a, b := canon(recs), canon(again)
	if strings.Join(a, " ") != strings.Join(b, " ") {
		// name the first key that differs
		seen := map[string]bool{}
		for _, x := range a {
			seen[x] = true
		}
		kind, which := "reexport", ""
		for _, p := range again {
			if !seen[p.String()] {
				kind, which = v1KindOf(string(p.name)).String(), string(p.name)
				break
			}
		}
		r.Fail("v1-import-key-differs:"+kind, fmt.Sprintf("v1 export all / import / export all: the target's key set differs from the source's (%d vs %d records; first differing key %q)", len(a), len(b), which))
	}
}
