package c18

import (
	"fmt"
	"os"
	"path/filepath"
	"testing"
)

func TestScratchV1(t *testing.T) {
	s := newV1Store("c18-v1-source-master-key-32bytes")
	defer s.close()
	for _, id := range []string{"../escaped", "a/b", "..", "abc", "x/../../y"} {
		e1 := s.ks.GenerateClientIDSymmetricKey([]byte(id))
		e2 := s.ks.GenerateHmacKey([]byte(id))
		e3 := s.ks.GenerateDataEncryptionKeys([]byte(id))
		fmt.Printf("%q sym=%v hmac=%v pair=%v\n", id, e1, e2, e3)
	}
	filepath.Walk(filepath.Dir(s.dir), func(p string, info os.FileInfo, err error) error {
		if err == nil && !info.IsDir() {
			fmt.Println("  ", p)
		}
		return nil
	})
}
