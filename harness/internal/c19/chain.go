package c19

// The full subscriber chain as wired by the real proxy factories (decoder → detector → decrypt → encoder),
// with a real v1 keystore, real envelopes produced by the registry handler and three readers.

import (
	"bytes"
	"context"
	"encoding/hex"
	"fmt"
	"os"
	"sync"

	acracensor "github.com/cossacklabs/acra/acra-censor"
	"github.com/cossacklabs/acra/cmd/acra-server/common"
	"github.com/cossacklabs/acra/crypto"
	"github.com/cossacklabs/acra/decryptor/base"
	my "github.com/cossacklabs/acra/decryptor/mysql"
	mybase "github.com/cossacklabs/acra/decryptor/mysql/base"
	pg "github.com/cossacklabs/acra/decryptor/postgresql"
	encryptor "github.com/cossacklabs/acra/encryptor/base"
	"github.com/cossacklabs/acra/encryptor/base/config"
	"github.com/cossacklabs/acra/keystore"
	"github.com/cossacklabs/acra/keystore/filesystem"
	"github.com/cossacklabs/acra/pseudonymization"
	pcommon "github.com/cossacklabs/acra/pseudonymization/common"
	"github.com/cossacklabs/acra/pseudonymization/storage"
	"github.com/cossacklabs/acra/sqlparser"
	"github.com/jackc/pgx/v5/pgproto3"

	"verifharness/internal/core"
)

var (
	chainOnce  sync.Once
	chainStore keystore.ServerKeyStore
	chainTok   pcommon.Pseudoanonymizer
	ownerID    = []byte("owner_a")
	otherID    = []byte("other_b")
	nokeysID   = []byte("nokeys_c")
)

func chainSetup() {
	chainOnce.Do(func() {
		dir, err := os.MkdirTemp("", "verif-c19-keys")
		if err != nil {
			panic("harness: " + err.Error())
		}
		enc, err := keystore.NewSCellKeyEncryptor([]byte("verif master key 0123456789abcdef"))
		if err != nil {
			panic("harness: " + err.Error())
		}
		b := filesystem.NewCustomFilesystemKeyStore()
		b.KeyDirectory(dir)
		b.CacheSize(0)
		b.Encryptor(enc)
		ks, err := b.Build()
		if err != nil {
			panic("harness: keystore: " + err.Error())
		}
		for _, id := range [][]byte{ownerID, otherID} {
			if err := ks.GenerateClientIDSymmetricKey(id); err != nil {
				panic("harness: " + err.Error())
			}
			if err := ks.GenerateDataEncryptionKeys(id); err != nil {
				panic("harness: " + err.Error())
			}
		}
		if err := crypto.InitRegistry(ks); err != nil {
			panic("harness: registry: " + err.Error())
		}
		chainStore = ks
		ts, err := storage.NewMemoryTokenStorage()
		if err != nil {
			panic("harness: " + err.Error())
		}
		chainTok, err = pseudonymization.NewPseudoanonymizer(ts)
		if err != nil {
			panic("harness: " + err.Error())
		}
	})
}

func readerID(r string) []byte {
	switch r {
	case "owner":
		return ownerID
	case "other":
		return otherID
	}
	return nokeysID
}

// protect encrypts a plaintext for the owner exactly as the write path does (registry handler, column setting).
func protect(plain []byte, setting config.ColumnEncryptionSetting) []byte {
	h := crypto.NewRegistryHandler(chainStore)
	out, err := h.EncryptWithClientID(ownerID, plain, setting)
	if err != nil {
		panic("harness: protect: " + err.Error())
	}
	return out
}

func chainSession(reader string) (*common.ClientSession, context.Context) {
	ctx := base.SetAccessContextToContext(context.Background(), base.NewAccessContext(base.WithClientID(readerID(reader))))
	session, err := common.NewClientSession(ctx, nil, nil)
	if err != nil {
		panic("harness: " + err.Error())
	}
	ctx = base.SetClientSessionToContext(session.Context(), session)
	return session, ctx
}

func pgChainProxy(store config.TableSchemaStore, reader string) (*pg.PgProxy, *common.ClientSession, context.Context) {
	session, ctx := chainSession(reader)
	parser := sqlparser.New(sqlparser.ModeDefault)
	ps := base.NewProxySetting(parser, store, chainStore, nil, acracensor.NewAcraCensor(), nil)
	f, err := pg.NewProxyFactory(ps, chainStore, chainTok)
	if err != nil {
		panic("harness: " + err.Error())
	}
	p, err := f.New(readerID(reader), session)
	if err != nil {
		panic("harness: proxy: " + err.Error())
	}
	return p.(*pg.PgProxy), session, ctx
}

func init() {
	// C19.chain.pg <type> <onFail> <default> <fmt> <reader> <plain>: the stored value is the owner's envelope of
	// <plain>; the reader's proxy (factory-wired subscribers) processes the row description and the column.
	core.Register("C19.chain.pg", func(a []string) string {
		chainSetup()
		setting, store, err := loadSetting(a[0], a[1], a[2], config.UsePostgreSQL)
		if err != nil {
			return "badsetting"
		}
		binary := a[3] == "binary"
		blob := protect(core.UnHex(a[5]), setting)
		wire := blob
		if !binary {
			wire = append([]byte("\\x"), []byte(hex.EncodeToString(blob))...)
		}
		proxy, session, ctx := pgChainProxy(store, a[4])
		// row description: id int4, c bytea – rewritten by the real handleRowDescription from the session's query items
		encryptor.SaveQueryDataItemsToClientSession(session, []*encryptor.QueryDataItem{nil, encryptor.NewQueryDataItem(setting, "t", "c", "")})
		rd := &pgproto3.RowDescription{Fields: []pgproto3.FieldDescription{
			{Name: []byte("id"), TableOID: 1, TableAttributeNumber: 1, DataTypeOID: 23, DataTypeSize: 4, TypeModifier: -1},
			{Name: []byte("c"), TableOID: 1, TableAttributeNumber: 2, DataTypeOID: 17, DataTypeSize: -1, TypeModifier: -1, Format: map[bool]int16{false: 0, true: 1}[binary]},
		}}
		raw, err := rd.Encode(nil)
		if err != nil {
			panic("harness: " + err.Error())
		}
		ph, _ := pg.NewDbSidePacketHandler(bytes.NewReader(raw), nil, quietLogger)
		if err := ph.ReadPacket(); err != nil {
			panic("harness: " + err.Error())
		}
		if err := pg.VerifHandleRowDescription(ctx, ph, quietLogger); err != nil {
			return core.Err
		}
		out, _ := ph.Marshal()
		var rd2 pgproto3.RowDescription
		declared := int(out[1])<<24 | int(out[2])<<16 | int(out[3])<<8 | int(out[4])
		if declared != len(out)-1 || rd2.Decode(out[5:]) != nil || len(rd2.Fields) != 2 {
			return "bad-rowdescription"
		}
		oid := rd2.Fields[1].DataTypeOID
		val, err := proxy.VerifOnColumnDecryption(ctx, 1, wire, binary, setting)
		if err != nil {
			return fmt.Sprintf("desc %d %s wire %s", oid, showErr(err), core.Hex(wire))
		}
		return fmt.Sprintf("desc %d value %s wire %s", oid, core.Hex(val), core.Hex(wire))
	})
	// C19.chain.my <type> <onFail> <default> <fmt> <reader> <plain>[,<plain2>…]: rows of one column `c` (stored as
	// VAR_STRING/253) through the factory-wired handler; plain "-" items are stored in clear, "!x" items are other
	// clients' envelopes. Reports the final column type and every row value.
	core.Register("C19.chain.my", func(a []string) string {
		chainSetup()
		setting, store, err := loadSetting(a[0], a[1], a[2], config.UseMySQL)
		if err != nil {
			return "badsetting"
		}
		binary := a[3] == "binary"
		session, ctx := chainSession(a[4])
		parser := sqlparser.New(sqlparser.ModeDefault)
		ps := base.NewProxySetting(parser, store, chainStore, nil, acracensor.NewAcraCensor(), nil)
		f, err := my.NewProxyFactory(ps, chainStore, chainTok)
		if err != nil {
			panic("harness: " + err.Error())
		}
		p, err := f.New(readerID(a[4]), session)
		if err != nil {
			panic("harness: proxy: " + err.Error())
		}
		h := p.(*my.Handler)
		if err := h.VerifOnQuery(ctx, "select c from t"); err != nil {
			return core.Err
		}
		field := &my.ColumnDescription{Table: []byte("t"), Name: []byte("c"), Type: mybase.TypeVarString}
		my.VerifUpdateFieldEncodedType(field, store)
		fields := []*my.ColumnDescription{field}
		var outs []string
		for _, item := range splitComma(a[5]) {
			var stored []byte
			if len(item) > 0 && item[0] == '=' { // stored in clear
				stored = core.UnHex(item[1:])
			} else {
				stored = protect(core.UnHex(item), setting)
			}
			var out []byte
			hdr := 0
			if binary {
				hdr = 2
				out, err = h.VerifProcessBinaryDataRow(ctx, append([]byte{0, 0}, mybase.PutLengthEncodedString(stored)...), fields)
			} else {
				out, err = h.VerifProcessTextDataRow(ctx, mybase.PutLengthEncodedString(stored), fields)
			}
			if err != nil {
				outs = append(outs, showErr(err))
				break
			}
			outs = append(outs, core.Hex(out[hdr:]))
		}
		return fmt.Sprintf("type %d rows %s", field.Type, joinComma(outs))
	})
}

func splitComma(s string) []string {
	var out []string
	cur := ""
	for _, c := range s {
		if c == ',' {
			out = append(out, cur)
			cur = ""
		} else {
			cur += string(c)
		}
	}
	return append(out, cur)
}

func joinComma(xs []string) string {
	s := ""
	for i, x := range xs {
		if i > 0 {
			s += ","
		}
		s += x
	}
	return s
}
