package c19

// The full subscriber chain as wired by the real proxy factories (decoder → detector → decrypt → encoder),
// with a real v1 keystore, real envelopes produced by the registry handler and three readers.

import (
	"context"
	"encoding/hex"
	"fmt"
	"os"
	"sync"

	acracensor "github.com/cossacklabs/acra/acra-censor"
	"github.com/cossacklabs/acra/cmd/acra-server/common"
	"github.com/cossacklabs/acra/crypto"
	"github.com/cossacklabs/acra/decryptor/base"
	my "github.com/cossacklabs/acra/decryptor/mysql"
	mybase "github.com/cossacklabs/acra/decryptor/mysql/base"
	pg "github.com/cossacklabs/acra/decryptor/postgresql"
	encryptor "github.com/cossacklabs/acra/encryptor/base"
	"github.com/cossacklabs/acra/encryptor/base/config"
	"github.com/cossacklabs/acra/hmac"
	"github.com/cossacklabs/acra/keystore"
	"github.com/cossacklabs/acra/keystore/filesystem"
	"github.com/cossacklabs/acra/masking"
	"github.com/cossacklabs/acra/pseudonymization"
	pcommon "github.com/cossacklabs/acra/pseudonymization/common"
	"github.com/cossacklabs/acra/pseudonymization/storage"
	"github.com/cossacklabs/acra/sqlparser"

	"verifharness/internal/core"
)

var (
	chainOnce  sync.Once
	chainStore keystore.ServerKeyStore
	chainTok   pcommon.Pseudoanonymizer
	ownerID    = []byte("owner_a")
	otherID    = []byte("other_b")
	nokeysID   = []byte("nokeys_c")
)

func chainSetup() {
	chainOnce.Do(func() {
		dir, err := os.MkdirTemp("", "verif-c19-keys")
		if err != nil {
			panic("harness: " + err.Error())
		}
		enc, err := keystore.NewSCellKeyEncryptor([]byte("verif master key 0123456789abcdef"))
		if err != nil {
			panic("harness: " + err.Error())
		}
		b := filesystem.NewCustomFilesystemKeyStore()
		b.KeyDirectory(dir)
		b.CacheSize(0)
		b.Encryptor(enc)
		ks, err := b.Build()
		if err != nil {
			panic("harness: keystore: " + err.Error())
		}
		for _, id := range [][]byte{ownerID, otherID} {
			if err := ks.GenerateClientIDSymmetricKey(id); err != nil {
				panic("harness: " + err.Error())
			}
			if err := ks.GenerateDataEncryptionKeys(id); err != nil {
				panic("harness: " + err.Error())
			}
			if err := ks.GenerateHmacKey(id); err != nil {
				panic("harness: " + err.Error())
			}
		}
		if err := crypto.InitRegistry(ks); err != nil {
			panic("harness: registry: " + err.Error())
		}
		chainStore = ks
		ts, err := storage.NewMemoryTokenStorage()
		if err != nil {
			panic("harness: " + err.Error())
		}
		chainTok, err = pseudonymization.NewPseudoanonymizer(ts)
		if err != nil {
			panic("harness: " + err.Error())
		}
	})
}

func readerID(r string) []byte {
	switch r {
	case "owner":
		return ownerID
	case "other":
		return otherID
	}
	return nokeysID
}

// writeChain: the data encryptors in the order the proxy factories chain them (decryptor/{postgresql,mysql}/proxy.go):
// tokenization, encryption, searchable encryption, masking, re-encryption. Every link looks at the column setting and
// passes on what is not its business.
func writeChain() encryptor.DataEncryptor {
	registryHandler := crypto.NewRegistryHandler(chainStore)
	tokenizer, err := pseudonymization.NewDataTokenizer(chainTok)
	if err != nil {
		panic("harness: " + err.Error())
	}
	tokenEncryptor, err := pseudonymization.NewTokenEncryptor(tokenizer)
	if err != nil {
		panic("harness: " + err.Error())
	}
	searchable, err := hmac.NewSearchableEncryptor(chainStore, registryHandler, registryHandler)
	if err != nil {
		panic("harness: " + err.Error())
	}
	maskingEncryptor, err := masking.NewMaskingDataEncryptor(chainStore, encryptor.NewChainDataEncryptor([]encryptor.DataEncryptor{registryHandler}...))
	if err != nil {
		panic("harness: " + err.Error())
	}
	return encryptor.NewChainDataEncryptor(tokenEncryptor, crypto.NewEncryptHandler(registryHandler), searchable, maskingEncryptor, crypto.NewReEncryptHandler(chainStore))
}

// protect stores a plaintext for the owner exactly as the write path does for the column's setting
// (envelope; 33-byte hash ++ envelope for searchable columns; clear part ++ envelope for masked ones; a token).
func protect(plain []byte, setting config.ColumnEncryptionSetting) []byte {
	out, err := writeChain().EncryptWithClientID(ownerID, plain, setting)
	if err != nil {
		panic("harness: protect: " + err.Error())
	}
	return out
}

// pgStoredWire: how PostgreSQL sends the stored value of a column of that kind, and the type it announces for it.
// Protected columns are bytea; a tokenized column is stored under the type of its tokens.
func pgStoredWire(kind, typ string, stored []byte, binaryFmt bool) ([]byte, uint32) {
	hexForm := append([]byte("\\x"), []byte(hex.EncodeToString(stored))...)
	if kind != "tokenized" {
		if binaryFmt {
			return stored, 17
		}
		return hexForm, 17
	}
	oid := uint32(pgOids[typ])
	switch typ {
	case "int32", "int64":
		if binaryFmt {
			return specEncode("pg", typ, true, stored), oid
		}
		return stored, oid
	case "bytes":
		if binaryFmt {
			return stored, oid
		}
		return hexForm, oid
	}
	return stored, oid
}

// myStoredWire: the same for MySQL (column type code; value as it stands in a text / binary row).
func myStoredWire(kind, typ string, stored []byte, binaryFmt bool) ([]byte, mybase.Type) {
	if kind != "tokenized" {
		return mybase.PutLengthEncodedString(stored), mybase.TypeVarString
	}
	switch typ {
	case "int32", "int64":
		t := mybase.Type(myTypeCodes[typ])
		if binaryFmt {
			return specEncode("my", typ, true, stored), t
		}
		return mybase.PutLengthEncodedString(stored), t
	case "bytes":
		return mybase.PutLengthEncodedString(stored), mybase.TypeBlob
	}
	return mybase.PutLengthEncodedString(stored), mybase.TypeVarString
}

func chainSession(reader string) (*common.ClientSession, context.Context) {
	ctx := base.SetAccessContextToContext(context.Background(), base.NewAccessContext(base.WithClientID(readerID(reader))))
	session, err := common.NewClientSession(ctx, nil, nil)
	if err != nil {
		panic("harness: " + err.Error())
	}
	ctx = base.SetClientSessionToContext(session.Context(), session)
	return session, ctx
}

func pgChainProxy(store config.TableSchemaStore, reader string) (*pg.PgProxy, *common.ClientSession, context.Context) {
	session, ctx := chainSession(reader)
	parser := sqlparser.New(sqlparser.ModeDefault)
	ps := base.NewProxySetting(parser, store, chainStore, nil, acracensor.NewAcraCensor(), nil)
	f, err := pg.NewProxyFactory(ps, chainStore, chainTok)
	if err != nil {
		panic("harness: " + err.Error())
	}
	p, err := f.New(readerID(reader), session)
	if err != nil {
		panic("harness: proxy: " + err.Error())
	}
	return p.(*pg.PgProxy), session, ctx
}

// chainPg <type> <onFail> <default> <fmt> <reader> <plain>: the stored value is what the write path made of <plain> for
// the owner; the reader's proxy (factory-wired subscribers) processes the row description and the column.
func chainPg(kind string, a []string) string {
	chainSetup()
	setting, store, err := loadColumn(kindSpec(kind, a[0], a[1], parseDefault(a[2])), config.UsePostgreSQL)
	if err != nil {
		return "badsetting"
	}
	binary := a[3] == "binary"
	wire, dbOid := pgStoredWire(kind, a[0], protect(core.UnHex(a[5]), setting), binary)
	proxy, _, ctx := pgChainProxy(store, a[4])
	// row description: id int4, c <dbOid> – rewritten by the real handleRowDescription from the session's query items
	oid, e := rowDescriptionOID(setting, dbOid, binary)
	if e != "" {
		return e
	}
	val, err := proxy.VerifOnColumnDecryption(ctx, 1, wire, binary, setting)
	if err != nil {
		return fmt.Sprintf("desc %d %s wire %s", oid, showErr(err), core.Hex(wire))
	}
	return fmt.Sprintf("desc %d value %s wire %s", oid, core.Hex(val), core.Hex(wire))
}

// chainMy <type> <onFail> <default> <fmt> <reader> <plain>[,<plain2>…]: rows of one column `c` through the
// factory-wired handler; "=x" items are stored in clear. Reports the final column type and every row value.
func chainMy(kind string, a []string) string {
	chainSetup()
	setting, store, err := loadColumn(kindSpec(kind, a[0], a[1], parseDefault(a[2])), config.UseMySQL)
	if err != nil {
		return "badsetting"
	}
	binary := a[3] == "binary"
	session, ctx := chainSession(a[4])
	parser := sqlparser.New(sqlparser.ModeDefault)
	ps := base.NewProxySetting(parser, store, chainStore, nil, acracensor.NewAcraCensor(), nil)
	f, err := my.NewProxyFactory(ps, chainStore, chainTok)
	if err != nil {
		panic("harness: " + err.Error())
	}
	p, err := f.New(readerID(a[4]), session)
	if err != nil {
		panic("harness: proxy: " + err.Error())
	}
	h := p.(*my.Handler)
	if err := h.VerifOnQuery(ctx, "select c from t"); err != nil {
		return core.Err
	}
	_, origType := myStoredWire(kind, a[0], nil, binary)
	field := &my.ColumnDescription{Table: []byte("t"), Name: []byte("c"), Type: origType}
	my.VerifUpdateFieldEncodedType(field, store)
	fields := []*my.ColumnDescription{field}
	var outs, wires []string
	for _, item := range splitComma(a[5]) {
		var wire []byte
		if len(item) > 0 && item[0] == '=' { // stored in clear
			wire = mybase.PutLengthEncodedString(core.UnHex(item[1:]))
		} else {
			wire, _ = myStoredWire(kind, a[0], protect(core.UnHex(item), setting), binary)
		}
		wires = append(wires, core.Hex(wire))
		var out []byte
		hdr := 0
		if binary {
			hdr = 2
			out, err = h.VerifProcessBinaryDataRow(ctx, append([]byte{0, 0}, wire...), fields)
		} else {
			out, err = h.VerifProcessTextDataRow(ctx, wire, fields)
		}
		if err != nil {
			outs = append(outs, showErr(err))
			break
		}
		outs = append(outs, core.Hex(out[hdr:]))
	}
	return fmt.Sprintf("type %d rows %s wire %s", field.Type, joinComma(outs), joinComma(wires))
}

func init() {
	core.Register("C19.chain.pg", func(a []string) string { return chainPg("plain", a) })
	core.Register("C19.chain.my", func(a []string) string { return chainMy("plain", a) })
	// the same with the kind of the column setting in front: plain | searchable | masked | tokenized
	core.Register("C19.chaink.pg", func(a []string) string { return chainPg(a[0], a[1:]) })
	core.Register("C19.chaink.my", func(a []string) string { return chainMy(a[0], a[1:]) })
}

func splitComma(s string) []string {
	var out []string
	cur := ""
	for _, c := range s {
		if c == ',' {
			out = append(out, cur)
			cur = ""
		} else {
			cur += string(c)
		}
	}
	return append(out, cur)
}

func joinComma(xs []string) string {
	s := ""
	for i, x := range xs {
		if i > 0 {
			s += ","
		}
		s += x
	}
	return s
}
