package c19

import (
	"bytes"
	"encoding/base64"
	"encoding/binary"
	"encoding/hex"
	"fmt"
	"strconv"
	"strings"

	mybase "github.com/cossacklabs/acra/decryptor/mysql/base"

	"verifharness/internal/core"
)

func init() { core.RegisterProp("C19", run) }

var types = []string{"int32", "int64", "str", "bytes", "none"}

type policyCase struct {
	onFail string  // YAML response_on_fail or "empty"
	dflt   *string // default_data_value
}

func sp(s string) *string { return &s }

// defaults that are valid for a type
func validDefaults(typ string) []string {
	switch typ {
	case "int32":
		return []string{"0", "-1", "2147483647", "-2147483648", "+7", "0012"}
	case "int64":
		return []string{"0", "-1", "9223372036854775807", "-9223372036854775808", "2147483648"}
	case "str":
		return []string{"", "default", "дефолт ✓", "\\x41", "12"}
	case "bytes":
		return []string{"", base64.StdEncoding.EncodeToString([]byte("bin\x00\xff\xfe")), "QQ==", "AAECAwQFBgcICQ=="}
	}
	return nil
}

// defaults the loader must reject for a type (or accept – the model decides, the harness only compares)
func trickyDefaults(typ string) []string {
	switch typ {
	case "int32":
		return []string{"2147483648", "-2147483649", "abc", "", "1.5", "1_000", " 1", "9223372036854775808"}
	case "int64":
		return []string{"9223372036854775808", "-9223372036854775809", "x", "", "1e3"}
	case "str":
		return []string{}
	case "bytes":
		return []string{"not base64!", "QQ=", "Q", "AQID ", " AQID", "AQID\t", "AQ ID"}
	case "none":
		return []string{"x", "1"}
	}
	return nil
}

// plaintext classes a reader may be shown
func plainValues(typ string, rd *core.Rand, random int) [][]byte {
	ints := []string{"0", "-1", "1", "7", "2147483647", "-2147483648", "2147483648", "-2147483649", "4294967296", "4294967297",
		"9223372036854775807", "-9223372036854775808", "9223372036854775808", "-9223372036854775809", "+5", "007", "-0", "+0",
		"abc", "12a", " 1", "1 ", "-", "+", "1_0", "0x10", "1e3", "１２"}
	var out [][]byte
	switch typ {
	case "int32", "int64":
		for _, s := range ints {
			out = append(out, []byte(s))
		}
		out = append(out, []byte{0xff, 0xfe}, []byte{})
		for i := 0; i < random; i++ {
			switch rd.Intn(3) {
			case 0:
				out = append(out, []byte(strconv.FormatInt(int64(int32(rd.U64())), 10)))
			case 1:
				out = append(out, []byte(strconv.FormatInt(int64(rd.U64()), 10)))
			default:
				out = append(out, []byte(strconv.FormatUint(rd.U64(), 10)))
			}
		}
	default:
		out = [][]byte{{}, []byte("hello"), []byte("naïve ✓"), {0xff, 0xfe, 0x00, 0x41}, []byte("\\x41"), []byte("a\\\\b\\001"), []byte("123"), bytes.Repeat([]byte{0xab}, 300), {0}}
		for i := 0; i < random; i++ {
			out = append(out, rd.Bytes(rd.Intn(40)))
		}
	}
	return out
}

// stored column values that are not revealed: envelope-like blobs and a few plain look-alikes
func storedBlobs(rd *core.Rand, random int) [][]byte {
	out := [][]byte{
		append([]byte("%%%"), rd.Bytes(60)...),
		append([]byte{0x22, 0x22, 0x22, 0x22, 0x22, 0x22, 0x22, 0x22}, rd.Bytes(90)...),
		append([]byte("%%%"), bytes.Repeat([]byte{0}, 20)...),
		{0xde, 0xad, 0xbe, 0xef},                         // 4 bytes: looks like a binary int32
		{0xde, 0xad, 0xbe, 0xef, 0x01, 0x02, 0x03, 0x04}, // 8 bytes: looks like a binary int64
		[]byte("\\x4142"),                                // text that is itself hex-escaped
		{0xff, 0xfe, 0xfd},
	}
	for i := 0; i < random; i++ {
		out = append(out, append([]byte("%%%"), rd.Bytes(10+rd.Intn(200))...))
	}
	return out
}

// plain stored values (the column holds clear data that parses under the declared type)
var storedPlain = [][]byte{[]byte("123"), []byte("-5"), []byte("99999999999")}

func pgWireForms(blob []byte, binary bool) [][]byte {
	if binary {
		return [][]byte{blob}
	}
	return [][]byte{append([]byte("\\x"), []byte(hex.EncodeToString(blob))...), pgOctal(blob)}
}

func pgOctal(b []byte) []byte {
	var out []byte
	for _, c := range b {
		switch {
		case c == '\\':
			out = append(out, '\\', '\\')
		case c < 32 || c > 126:
			out = append(out, []byte(fmt.Sprintf("\\%03o", c))...)
		default:
			out = append(out, c)
		}
	}
	return out
}

func bitsOf(typ string) int {
	if typ == "int32" {
		return 32
	}
	return 64
}

// specification encoding of a value of the declared type in a result format (nil: not representable)
func specEncode(db, typ string, binaryFmt bool, v []byte) []byte {
	switch typ {
	case "int32", "int64":
		n, err := strconv.ParseInt(string(v), 10, bitsOf(typ))
		if err != nil {
			return nil
		}
		if binaryFmt {
			b := make([]byte, bitsOf(typ)/8)
			if db == "pg" {
				if typ == "int32" {
					binary.BigEndian.PutUint32(b, uint32(n))
				} else {
					binary.BigEndian.PutUint64(b, uint64(n))
				}
			} else {
				if typ == "int32" {
					binary.LittleEndian.PutUint32(b, uint32(n))
				} else {
					binary.LittleEndian.PutUint64(b, uint64(n))
				}
			}
			return b
		}
		if db == "pg" {
			return v
		}
		return mybase.PutLengthEncodedString(v)
	case "str":
		if db == "pg" {
			return append([]byte{}, v...)
		}
		return mybase.PutLengthEncodedString(append([]byte{}, v...))
	case "bytes":
		if db == "pg" {
			if binaryFmt {
				return append([]byte{}, v...)
			}
			return append([]byte("\\x"), []byte(hex.EncodeToString(v))...)
		}
		return mybase.PutLengthEncodedString(append([]byte{}, v...))
	}
	return nil
}

// parse "value <hex> <rollback> [type]" → (bytes, rollback, type, ok)
func parseValue(s string) ([]byte, bool, int, bool) {
	var h, rb string
	var t int
	n, _ := fmt.Sscanf(s, "value %s %s %d", &h, &rb, &t)
	if n < 2 {
		return nil, false, 0, false
	}
	b := core.UnHex(h)
	if b == nil {
		b = []byte{}
	}
	return b, rb == "true", t, true
}

var myTypeCodes = map[string]int{"int32": 3, "int64": 8, "str": 254, "bytes": 252}

func run(r *core.Run) {
	r.Rule = "exhaustive cross product database × kind of column setting (encryption only, searchable, masked, tokenized; type by name or by database id; envelope and re-encryption options) × declared type × failure policy (with valid defaults) × result format × reader (value revealed / not revealed) × value class (boundary integers, non-integers, empty, non-UTF-8, envelope-like blobs, plain look-alikes), plus random values; non-trivial when the column has a declared type or the value is revealed; distinct by the whole op line"
	rd := r.Rand
	r.Exhaustive = true

	// ---- 0. integer codecs ----
	for _, bits := range []int{8, 16, 32, 64} {
		for _, v := range plainValues("int32", rd, r.N(40, 3000)) {
			r.Begin(fmt.Sprintf("parseint-%d-%s", bits, core.Hex(v)), true, "stream:boundary", "int:parse")
			got := r.Do(fmt.Sprintf("C19.parseint %d %s", bits, core.Hex(v)))
			if n, err := strconv.ParseInt(string(v), 10, 64); err == nil && bits < 64 && (n >= 1<<(bits-1) || n < -(1<<(bits-1))) {
				r.Check(got == core.Err, "int-range", fmt.Sprintf("out-of-range decimal %q accepted for %d bits: %s", v, bits, got))
			}
		}
	}
	for i := 0; i < r.N(200, 5000); i++ {
		n := int64(rd.U64())
		if i%3 == 0 {
			n = int64(int32(n))
		}
		if i < 8 {
			n = []int64{0, -1, 1 << 31, -(1 << 31), 1<<31 - 1, 1<<63 - 1, -(1 << 63), 10}[i]
		}
		r.Begin(fmt.Sprintf("formatint-%d", n), true, "stream:structured", "int:format")
		txt := r.Do(fmt.Sprintf("C19.formatint %d", n))
		back := r.Do("C19.parseint 64 " + txt[3:])
		r.Check(back == fmt.Sprintf("ok %d", n), "int-roundtrip", fmt.Sprintf("FormatInt/ParseInt round trip of %d gives %s", n, back))
	}

	// ---- 1. configuration validation ----
	for _, db := range []string{"pg", "my"} {
		for _, typ := range types {
			dfs := []*string{nil}
			for _, d := range validDefaults(typ) {
				dfs = append(dfs, sp(d))
			}
			for _, d := range trickyDefaults(typ) {
				dfs = append(dfs, sp(d))
			}
			for _, onFail := range []string{"empty", "ciphertext", "default_value", "error"} {
				for _, d := range dfs {
					dt, ut, bt := defaultTokens(d)
					r.Begin(fmt.Sprintf("setting-%s-%s-%s-%s", db, typ, onFail, dt), true, "stream:structured", "setting:"+db)
					got := r.Do(fmt.Sprintf("C19.setting.%s %s %s %s %s %s", db, typ, onFail, dt, ut, bt))
					// a default that does not parse under the declared type must never be accepted
					if d != nil && got != core.Err && (typ == "int32" || typ == "int64") {
						_, err := strconv.ParseInt(*d, 10, bitsOf(typ))
						r.Check(err == nil, "setting-default-type", fmt.Sprintf("%s: default %q accepted for %s", db, *d, typ))
					}
				}
			}
		}
	}

	// ---- 1b. every kind of column setting: accepted?, type aware?, and the descriptions the proxies rewrite ----
	runColumns(r)

	// ---- 2. the read path ----
	blobs := storedBlobs(rd, r.N(2, 40))
	for _, db := range []string{"pg", "my"} {
		for _, kind := range kinds {
			for _, typ := range types {
				for _, pol := range readPolicies(kind, typ) {
					for _, binaryFmt := range []bool{false, true} {
						bs := blobs
						if kind != "plain" && len(bs) > 9 {
							bs = bs[:9] // the random values of the thorough tier go to the encryption-only columns
						}
						runRead(r, db, kind, typ, pol, binaryFmt, bs)
					}
				}
			}
		}
	}

	// ---- 3. the factory-wired chains with real keys ----
	for _, kind := range kinds {
		runChain(r, kind)
	}

	// ---- 4. whole rows: several protected typed columns through the real column loops ----
	runRows(r)
}

// failure policies exercised on the read path for a kind of setting (all of them for encryption-only columns; the ones
// the configuration loader can accept for the others, plus one it rejects)
func readPolicies(kind, typ string) []policyCase {
	var pols []policyCase
	switch kind {
	case "plain":
		pols = append(pols, policyCase{"empty", nil}, policyCase{"ciphertext", nil}, policyCase{"error", nil}, policyCase{"default_value", nil})
		for _, d := range validDefaults(typ) {
			pols = append(pols, policyCase{"default_value", sp(d)})
		}
		if ds := validDefaults(typ); len(ds) > 0 {
			pols = append(pols, policyCase{"empty", sp(ds[len(ds)-1])})
		}
	case "searchable":
		pols = append(pols, policyCase{"empty", nil}, policyCase{"ciphertext", nil}, policyCase{"error", nil})
		if ds := validDefaults(typ); len(ds) > 1 {
			pols = append(pols, policyCase{"default_value", sp(ds[1])}, policyCase{"empty", sp(ds[1])})
		}
	default: // masked, tokenized: neither response_on_fail nor a default is accepted
		pols = append(pols, policyCase{"empty", nil}, policyCase{"error", nil})
	}
	return pols
}

// runColumns: the configuration of one column of every kind through Acra's loader and the model of Init, then the real
// description handlers (PostgreSQL: RowDescription, ParameterDescription, Parse; MySQL: column definition).
func runColumns(r *core.Run) {
	accepted := map[string]int{}
	one := func(db string, spc colSpec) {
		probe := 253 // MySQL: the stored column is VAR_STRING
		if db == "pg" {
			probe = pgOids[spc.typ] // PostgreSQL: the type the client declares for the parameter in Parse
			if probe == 0 {
				probe = 25
			}
		}
		line := fmt.Sprintf("C19.column.%s %s %d", db, spc.tokens(), probe)
		r.Begin(line, true, "stream:structured", "column:"+db, "kind:"+spc.kind, "type:"+spc.typ)
		got := r.Do(line)
		if !strings.HasPrefix(got, "ok ") {
			r.Check(got == core.Err, "column-outcome", db+" column: "+got)
			return
		}
		r.Tag("column:accepted")
		if spc.typ != "none" {
			accepted[db+"/"+spc.kind+"/"+spc.typ]++
		}
		if spc.typ == "none" {
			return
		}
		if db == "pg" {
			var pol string
			var aware, binop bool
			var row, param, parse int
			if n, _ := fmt.Sscanf(got, "ok %s aware=%t binop=%t row=%d param=%d parse=%d", &pol, &aware, &binop, &row, &param, &parse); !r.Check(n == 6, "column-outcome", "pg column: "+got) {
				return
			}
			if spc.kind == "tokenized" {
				return // tokens are stored under the declared type itself: the database's own description stands
			}
			// the value of such a column is delivered encoded as the declared type (sections 2 and 3): the client must be
			// told that type – for result columns, for statement parameters – and the database must be told bytea
			want := pgOids[spc.typ]
			r.Check(row == want, "describe-pg", fmt.Sprintf("pg %s column of type %s: RowDescription announces OID %d for the bytea column, the declared type has %d", spc.kind, spc.typ, row, want))
			r.Check(param == want, "describe-pg-param", fmt.Sprintf("pg %s column of type %s: ParameterDescription announces OID %d, the declared type has %d", spc.kind, spc.typ, param, want))
			r.Check(parse == 17, "describe-pg-parse", fmt.Sprintf("pg %s column of type %s: the parameter declared as %d by the client is passed to the database as %d, the column is bytea (17)", spc.kind, spc.typ, probe, parse))
		} else {
			var pol string
			var binop bool
			var ftype int
			if n, _ := fmt.Sscanf(got, "ok %s binop=%t type=%d", &pol, &binop, &ftype); !r.Check(n == 3, "column-outcome", "mysql column: "+got) {
				return
			}
			r.Check(ftype == myTypeCodes[spc.typ], "describe-my", fmt.Sprintf("mysql %s column of type %s: column definition announces type %d, the declared type has %d", spc.kind, spc.typ, ftype, myTypeCodes[spc.typ]))
		}
	}
	for _, db := range []string{"pg", "my"} {
		for _, kind := range kinds {
			for _, typ := range types {
				dfs := []*string{nil}
				if ds := validDefaults(typ); len(ds) > 1 {
					dfs = append(dfs, sp(ds[1]))
				} else if typ == "none" {
					dfs = append(dfs, sp("x"))
				}
				for _, onFail := range []string{"empty", "ciphertext", "default_value", "error"} {
					for _, d := range dfs {
						for _, byID := range []bool{false, true} {
							if typ == "none" && byID {
								continue
							}
							for _, tokAndType := range []bool{false, true} {
								if tokAndType && kind != "tokenized" {
									continue
								}
								one(db, colSpec{kind: kind, typ: typ, onFail: onFail, dflt: d, byID: byID, tokAndType: tokAndType, reencrypt: true})
							}
						}
					}
				}
				// the other crypto envelope / no re-encryption
				for _, env := range [][2]bool{{true, true}, {false, false}, {true, false}} {
					for _, onFail := range []string{"empty", "error"} {
						one(db, colSpec{kind: kind, typ: typ, onFail: onFail, acrastruct: env[0], reencrypt: env[1]})
					}
				}
			}
		}
		// the cross product is not empty where it matters: every kind can be combined with a data type
		for _, k := range []string{"plain/int32", "plain/int64", "plain/str", "plain/bytes", "searchable/int32", "searchable/int64", "searchable/str", "searchable/bytes",
			"masked/str", "masked/bytes", "tokenized/int32", "tokenized/int64", "tokenized/str", "tokenized/bytes"} {
			r.Begin("accepted-"+db+"/"+k, true, "stream:structured", "column:accepted-kinds")
			r.Check(accepted[db+"/"+k] > 0, "setting-kind-accepted", fmt.Sprintf("%s: no %s column with a data type is accepted by the configuration loader", db, k))
		}
	}
}

var pgOids = map[string]int{"int32": 23, "int64": 20, "str": 25, "bytes": 17}

// runChain: the factory-wired subscriber chains with real keys and what the real write path stores for a column of the
// given kind (envelope; hash ++ envelope; clear part ++ envelope; token).
func runChain(r *core.Run, kind string) {
	rd := r.Rand
	plains := map[string][][]byte{
		"int32": {[]byte("0"), []byte("-2147483648"), []byte("2147483647"), []byte("42")},
		"int64": {[]byte("-9223372036854775808"), []byte("9223372036854775807"), []byte("7")},
		"str":   {[]byte("hello"), {0xff, 0xfe, 0x00, 0x41}, []byte("naïve ✓ secret-marker-12345")},
		"bytes": {[]byte("bin\x00\xff secret-marker-67890"), {0, 1, 2, 3}, []byte("\\x41")},
	}
	if kind == "tokenized" {
		// a string token is a string: keep to text the tokenizer can hold
		plains["str"] = [][]byte{[]byte("hello"), []byte("naive secret-marker-12345"), []byte("x")}
	}
	op := func(db string) string {
		if kind == "plain" {
			return "C19.chain." + db
		}
		return "C19.chaink." + db + " " + kind
	}
	readOp := "read"
	if kind != "plain" {
		readOp = "readk " + kind
	}
	for _, typ := range []string{"int32", "int64", "str", "bytes"} {
		var pols []policyCase
		switch kind {
		case "plain", "searchable":
			pols = []policyCase{{"ciphertext", nil}, {"error", nil}, {"empty", nil}, {"default_value", sp(validDefaults(typ)[1])}}
		case "masked":
			if typ == "int32" || typ == "int64" {
				continue // rejected by the configuration loader (section 1b)
			}
			pols = []policyCase{{"empty", nil}}
		default:
			pols = []policyCase{{"empty", nil}}
		}
		for _, pol := range pols {
			dt, ut, bt := defaultTokens(pol.dflt)
			effective := pol.onFail
			if effective == "empty" {
				effective = "ciphertext"
			}
			for _, binaryFmt := range []bool{false, true} {
				for _, reader := range []string{"owner", "other", "nokeys"} {
					ps := plains[typ]
					if !r.Thorough() {
						ps = ps[:2]
					}
					for _, m := range ps {
						// ---- PostgreSQL ----
						line := fmt.Sprintf("%s %s %s %s %s %s %s", op("pg"), typ, pol.onFail, dt, fmtName(binaryFmt), reader, core.Hex(m))
						r.Begin(line, true, "stream:structured", "chain:pg", "kind:"+kind, "reader:"+reader, "type:"+typ, "policy:"+effective, "fmt:"+fmtName(binaryFmt))
						got := r.Impl(line)
						var oid int
						var kindOut, val, wire string
						n, _ := fmt.Sscanf(got, "desc %d %s", &oid, &kindOut)
						if !r.Check(n == 2, "chain-outcome", "pg chain: "+got) {
							continue
						}
						if kindOut == "value" {
							fmt.Sscanf(got, "desc %d value %s wire %s", &oid, &val, &wire)
						} else {
							fmt.Sscanf(got, "desc %d "+kindOut+" wire %s", &oid, &wire)
						}
						r.Check(oid == pgOids[typ], "describe-pg", fmt.Sprintf("pg %s %s: column described with OID %d, declared type has %d", kind, typ, oid, pgOids[typ]))
						// the model, told whether the chain reveals the value, must predict the delivered bytes
						// (what a masked / tokenized column shows to another reader is the business of C11 / C10)
						if reader == "owner" || kind == "plain" || kind == "searchable" {
							reveal := "none"
							if reader == "owner" {
								reveal = core.Hex(m)
							}
							model := r.ModelOnly(fmt.Sprintf("C19.pg.%s %s %s %s %s %s %s %s %s", readOp, typ, pol.onFail, dt, ut, bt, fmtName(binaryFmt), reveal, wire))
							implShape := kindOut
							if kindOut == "value" {
								implShape = "value " + val + " false"
							}
							r.Check(model == implShape, "chain-vs-model", fmt.Sprintf("pg chain %s/%s/%s/%s/%s delivers %q, the model (reveal=%v) predicts %q", kind, typ, effective, fmtName(binaryFmt), reader, implShape, reader == "owner", model))
						}
						checkChainValue(r, "pg", kind, typ, effective, pol, binaryFmt, reader, m, kindOut, core.UnHex(orDash(val)))

						// ---- MySQL ----
						line = fmt.Sprintf("%s %s %s %s %s %s %s", op("my"), typ, pol.onFail, dt, fmtName(binaryFmt), reader, core.Hex(m))
						r.Begin(line, true, "stream:structured", "chain:my", "kind:"+kind, "reader:"+reader, "type:"+typ, "policy:"+effective, "fmt:"+fmtName(binaryFmt))
						got = r.Impl(line)
						var ftype int
						var rows string
						if n, _ := fmt.Sscanf(got, "type %d rows %s", &ftype, &rows); !r.Check(n == 2, "chain-outcome", "mysql chain: "+got) {
							continue
						}
						kindOut = "value"
						if rows == "encerr" || rows == core.Err {
							kindOut = rows
						}
						var out []byte
						if kindOut == "value" {
							out = core.UnHex(rows)
						}
						checkChainValue(r, "my", kind, typ, effective, pol, binaryFmt, reader, m, kindOut, out)
						if kindOut != "value" {
							continue
						}
						if kind == "tokenized" {
							// the column is stored under the type of its tokens: whichever of the two the definition says,
							// the value has to be readable under it
							intCode := ftype == 3 || ftype == 8
							okType := ftype == myTypeCodes[typ] || (typ == "str" && ftype == 253)
							r.Check(okType && myReadable(ftype, binaryFmt, out) && intCode == (typ == "int32" || typ == "int64"), "describe-my", fmt.Sprintf("mysql tokenized %s: value %x delivered under column type %d", typ, out, ftype))
							continue
						}
						delivered := specEncode("my", typ, binaryFmt, m)
						if reader != "owner" && effective == "default_value" {
							dv := []byte(*pol.dflt)
							if typ == "bytes" {
								dv, _ = base64.StdEncoding.DecodeString(*pol.dflt)
							}
							delivered = specEncode("my", typ, binaryFmt, dv)
						}
						if kind == "masked" && reader != "owner" {
							delivered = specEncode("my", typ, binaryFmt, maskedForm(m))
						}
						if bytes.Equal(out, delivered) {
							r.Check(ftype == myTypeCodes[typ], "describe-my", fmt.Sprintf("mysql %s %s: typed value delivered but column described as %d", kind, typ, ftype))
						} else {
							r.Check(ftype == 253, "describe-my", fmt.Sprintf("mysql %s %s: stored value delivered but column described as %d", kind, typ, ftype))
						}
					}
				}
			}
		}
	}
	if kind != "plain" {
		return
	}
	// ---- MySQL result sets whose rows differ in revealability: the column definition is sent once for all rows ----
	for _, typ := range []string{"int32", "int64"} {
		for _, binaryFmt := range []bool{false, true} {
			junk := append([]byte("%%%"), rd.Bytes(20)...)
			line := fmt.Sprintf("C19.chain.my %s ciphertext none %s owner %s,=%s", typ, fmtName(binaryFmt), core.Hex([]byte("42")), core.Hex(junk))
			r.Begin(line, true, "stream:boundary", "chain:my-mixed-rows", "fmt:"+fmtName(binaryFmt))
			got := r.Impl(line)
			var ftype int
			var rows string
			if n, _ := fmt.Sscanf(got, "type %d rows %s", &ftype, &rows); !r.Check(n == 2, "chain-outcome", "mysql chain: "+got) {
				continue
			}
			parts := splitComma(rows)
			if !r.Check(len(parts) == 2, "chain-outcome", "mysql mixed rows: "+got) {
				continue
			}
			row1 := core.UnHex(parts[0])
			// every delivered row must be readable under the one column type the client is told
			okUnderFinal := false
			if ftype == myTypeCodes[typ] {
				okUnderFinal = bytes.Equal(row1, specEncode("my", typ, binaryFmt, []byte("42")))
			} else {
				okUnderFinal = bytes.Equal(row1, mybase.PutLengthEncodedString([]byte("42")))
			}
			r.Check(okUnderFinal, "my-rollback-mixed-rows", fmt.Sprintf("mysql %s %s: first row delivered as %x but the column definition sent afterwards says type %d (second row was rolled back)", typ, fmtName(binaryFmt), row1, ftype))
		}
	}
}

// maskedForm: what a reader who cannot decrypt sees of a masked column (plaintext_side left, plaintext_length 2)
func maskedForm(m []byte) []byte {
	n := maskPlainLen
	if n > len(m) {
		n = len(m)
	}
	return append(append([]byte{}, m[:n]...), []byte(maskPattern)...)
}

// myReadable: a MySQL field of column type `code` can be read in the given protocol
func myReadable(code int, binaryFmt bool, out []byte) bool {
	width := map[int]int{3: 4, 8: 8}[code]
	if width != 0 && binaryFmt {
		return len(out) == width
	}
	v, n, err := mybase.LengthEncodedString(out)
	if err != nil || n != len(out) {
		return false
	}
	if width != 0 {
		_, err := strconv.ParseInt(string(v), 10, width*8)
		return err == nil
	}
	return true
}

func orDash(s string) string {
	if s == "" {
		return "-"
	}
	return s
}

// what a reader may see, judged on the implementation's output alone
func checkChainValue(r *core.Run, db, kind, typ, effective string, pol policyCase, binaryFmt bool, reader string, m []byte, kindOut string, out []byte) {
	if reader == "owner" {
		want := specEncode(db, typ, binaryFmt, m)
		r.Check(kindOut == "value" && bytes.Equal(out, want), "typed-owner-chain", fmt.Sprintf("%s %s %s %s: owner receives %s %x for %q, want %x", db, kind, typ, fmtName(binaryFmt), kindOut, out, m, want))
		return
	}
	switch {
	case kind == "masked":
		// the masked form, as a value of the declared type
		want := specEncode(db, typ, binaryFmt, maskedForm(m))
		r.Check(kindOut == "value" && bytes.Equal(out, want), "typed-masked-chain", fmt.Sprintf("%s masked %s %s: %s reader receives %s %x, want the masked form %x", db, typ, fmtName(binaryFmt), reader, kindOut, out, want))
	case kind == "tokenized":
		// the token (a value of the declared type) or an error, never anything else
		if kindOut == "value" {
			okTyped := true
			if typ == "int32" || typ == "int64" {
				if db == "pg" {
					if binaryFmt {
						okTyped = len(out) == bitsOf(typ)/8
					} else {
						_, err := strconv.ParseInt(string(out), 10, bitsOf(typ))
						okTyped = err == nil
					}
				} else {
					okTyped = myReadable(myTypeCodes[typ], binaryFmt, out)
				}
			}
			r.Check(okTyped, "typed-token-chain", fmt.Sprintf("%s tokenized %s %s: %s reader receives %x, not a value of the declared type", db, typ, fmtName(binaryFmt), reader, out))
		}
	case effective == "error":
		r.Check(kindOut == "encerr", "typed-policy-error-chain", fmt.Sprintf("%s %s %s: policy error but %s reader gets %s %x", db, kind, typ, reader, kindOut, out))
	case effective == "default_value":
		dv := []byte(*pol.dflt)
		if typ == "bytes" {
			dv, _ = base64.StdEncoding.DecodeString(*pol.dflt)
		}
		want := specEncode(db, typ, binaryFmt, dv)
		r.Check(kindOut == "value" && bytes.Equal(out, want), "typed-policy-default-chain", fmt.Sprintf("%s %s %s: policy default but %s reader gets %s %x", db, kind, typ, reader, kindOut, out))
	default:
		r.Check(kindOut == "value", "typed-policy-ciphertext-chain", fmt.Sprintf("%s %s %s: policy ciphertext but %s reader gets %s", db, kind, typ, reader, kindOut))
	}
	// never the plaintext, whole or in part (marker of ≥ 8 bytes)
	if kindOut == "value" {
		// (a random token of a 1–3 byte string can coincide with the string itself: that is not a reveal)
		if !(kind == "tokenized" && len(m) < 4) {
			r.Check(!bytes.Equal(out, specEncode(db, typ, binaryFmt, m)) || effective == "default_value" && bytes.Equal(specEncode(db, typ, binaryFmt, m), out), "reveal-to-non-owner", fmt.Sprintf("%s %s %s: %s reader receives the owner's value", db, kind, typ, reader))
		}
		if i := bytes.Index(m, []byte("secret-marker")); i >= 0 {
			r.Check(!bytes.Contains(out, []byte("secret-marker")), "partial-reveal", fmt.Sprintf("%s %s %s: %s reader receives part of the plaintext", db, kind, typ, reader))
		}
	}
}

func isRangeErr(err error) bool {
	ne, ok := err.(*strconv.NumError)
	return ok && ne.Err == strconv.ErrRange
}

func fmtName(b bool) string {
	if b {
		return "binary"
	}
	return "text"
}

func runRead(r *core.Run, db, kind, typ string, pol policyCase, binaryFmt bool, blobs [][]byte) {
	rd := r.Rand
	dt, ut, bt := defaultTokens(pol.dflt)
	head := fmt.Sprintf("%s %s %s %s %s %s", typ, pol.onFail, dt, ut, bt, fmtName(binaryFmt))
	effective := pol.onFail // policy after Init
	if effective == "empty" {
		if pol.dflt != nil {
			effective = "default_value"
		} else {
			effective = "ciphertext"
		}
	}
	// wire forms of stored values
	var wires [][2][]byte // (wire, underlying stored bytes)
	for _, b := range blobs {
		if db == "pg" {
			for _, w := range pgWireForms(b, binaryFmt) {
				wires = append(wires, [2][]byte{w, b})
			}
		} else {
			wires = append(wires, [2][]byte{b, b})
		}
	}
	op, ktag := "read", "read:"
	if kind != "plain" {
		op, ktag = "readk "+kind, "read-"+kind+":"
	}
	line := func(reveal string, wire []byte) string {
		if db == "pg" {
			return fmt.Sprintf("C19.pg.%s %s %s %s", op, head, reveal, core.Hex(wire))
		}
		return fmt.Sprintf("C19.my.%s %s 253 %s %s", op, head, reveal, core.Hex(wire))
	}

	// (a) the owner: the value is revealed
	random := r.N(3, 60)
	if kind != "plain" {
		random = r.N(3, 6)
	}
	for _, m := range plainValues(typ, rd, random) {
		w := wires[rd.Intn(len(wires))]
		r.Begin(line(core.Hex(m), w[0]), true, "stream:structured", ktag+db, "reader:owner", "type:"+typ, "policy:"+effective, "fmt:"+fmtName(binaryFmt))
		rev := core.Hex(m)
		got := r.Do(line(rev, w[0]))
		if typ == "none" || got == "badsetting" {
			continue
		}
		want := specEncode(db, typ, binaryFmt, m)
		if len(m) == 0 {
			continue // an empty plaintext cannot be stored protected (C01); the encoders pass it through
		}
		if want == nil {
			r.Tag("owner:unrepresentable")
			// nothing to demand – except that an out-of-range decimal is never wrapped into some other integer
			if _, err := strconv.ParseInt(string(m), 10, 64); (typ == "int32" || typ == "int64") && (err == nil || isRangeErr(err)) {
				if out, _, _, ok := parseValue(got); ok {
					width := bitsOf(typ) / 8
					wrapped := binaryFmt && len(out) == width
					r.Check(!wrapped, "int-wrapped", fmt.Sprintf("%s %s: out-of-range decimal %q delivered as the %d-byte integer %x", db, typ, m, width, out))
				}
			}
			continue
		}
		out, rb, ftype, ok := parseValue(got)
		if !r.Check(ok, "typed-owner", fmt.Sprintf("%s %s %s: owner does not receive a value for %q: %s", db, typ, fmtName(binaryFmt), m, got)) {
			continue
		}
		r.Check(bytes.Equal(out, want), "typed-owner", fmt.Sprintf("%s %s %s: owner receives %x for %q, want %x", db, typ, fmtName(binaryFmt), out, m, want))
		if db == "my" {
			r.Check(!rb && ftype == myTypeCodes[typ], "describe-owner", fmt.Sprintf("mysql %s: value delivered as the declared type but column described as type %d (rollback=%v)", typ, ftype, rb))
		}
	}

	// (b) a reader for whom the value is not revealed
	for _, w := range wires {
		wire, blob := w[0], w[1]
		r.Begin(line("none", wire), typ != "none", "stream:structured", ktag+db, "reader:nokeys", "type:"+typ, "policy:"+effective, "fmt:"+fmtName(binaryFmt))
		got := r.Do(line("none", wire))
		if got == "badsetting" {
			continue // the configuration loader rejects this combination (compared with the model above)
		}
		if typ == "none" {
			// no declared type: the stored value must come back exactly as the database sent it
			if db == "pg" {
				r.Check(got == "value "+core.Hex(wire)+" false", "untyped-passthrough", fmt.Sprintf("pg untyped column changed: %s", got))
			}
			continue
		}
		looksTyped := specEncode(db, typ, binaryFmt, blob) != nil && (typ == "int32" || typ == "int64")
		if db == "pg" && binaryFmt && (typ == "int32" && (len(blob) == 4 || len(blob) == 8) || typ == "int64" && len(blob) == 8) {
			r.Tag("nokeys:binary-int-lookalike")
			continue // a 4/8-byte stored value of an integer column in binary format is an integer, not a ciphertext
		}
		if looksTyped {
			continue
		}
		switch effective {
		case "error":
			r.Check(got == "encerr", "typed-policy-error", fmt.Sprintf("%s %s: policy error but reader gets %s", db, typ, got))
		case "default_value":
			if pol.dflt == nil {
				checkCiphertext(r, db, typ, binaryFmt, got, wire, blob)
				break
			}
			dv := []byte(*pol.dflt)
			if typ == "bytes" {
				dv, _ = base64.StdEncoding.DecodeString(*pol.dflt)
			}
			want := specEncode(db, typ, binaryFmt, dv)
			out, rb, ftype, ok := parseValue(got)
			if r.Check(ok && bytes.Equal(out, want), "typed-policy-default", fmt.Sprintf("%s %s %s: policy default %q but reader gets %s (want %x)", db, typ, fmtName(binaryFmt), *pol.dflt, got, want)) && db == "my" {
				r.Check(!rb && ftype == myTypeCodes[typ], "describe-default", fmt.Sprintf("mysql %s: default delivered but column described as type %d", typ, ftype))
			}
		default:
			checkCiphertext(r, db, typ, binaryFmt, got, wire, blob)
		}
	}
	// PostgreSQL text values that merely look like bytea hex ("\\x" + non-hex) or are the empty bytea ("\\x")
	if db == "pg" && !binaryFmt {
		for _, w := range [][]byte{[]byte("\\xZZ"), []byte("\\x4"), []byte("\\x")} {
			r.Begin(line("none", w), true, "stream:boundary", ktag+db, "reader:nokeys-lookalike", "type:"+typ)
			r.Do(line("none", w))
		}
	}
	// plain stored values that parse under the declared type are delivered as that type
	if typ == "int32" || typ == "int64" {
		for _, p := range storedPlain {
			r.Begin(line("none", p), true, "stream:boundary", ktag+db, "reader:nokeys-plain", "type:"+typ)
			r.Do(line("none", p))
		}
	}
}

// policy "ciphertext": the reader gets the stored value (as sent, decoded, or re-encoded as bytea hex), never anything else
func checkCiphertext(r *core.Run, db, typ string, binaryFmt bool, got string, wire, blob []byte) {
	out, rb, ftype, ok := parseValue(got)
	if !r.Check(ok, "typed-policy-ciphertext", fmt.Sprintf("%s %s: policy ciphertext but reader gets %s", db, typ, got)) {
		return
	}
	if db == "pg" {
		hexForm := append([]byte("\\x"), []byte(hex.EncodeToString(blob))...)
		r.Check(bytes.Equal(out, wire) || bytes.Equal(out, blob) || (!binaryFmt && bytes.Equal(out, hexForm)), "typed-policy-ciphertext",
			fmt.Sprintf("pg %s %s: policy ciphertext but reader gets %x for stored %x", typ, fmtName(binaryFmt), out, blob))
		return
	}
	r.Check(bytes.Equal(out, mybase.PutLengthEncodedString(blob)), "typed-policy-ciphertext", fmt.Sprintf("mysql %s: policy ciphertext but reader gets %x for stored %x", typ, out, blob))
	r.Check(rb && ftype == 253, "describe-ciphertext", fmt.Sprintf("mysql %s: ciphertext delivered but the column is described as type %d (rollback=%v)", typ, ftype, rb))
}
