package c19

// Every kind of column setting that carries a data type – encryption only, searchable, masked, tokenized – through
// Acra's own configuration loader, the real description handlers of the PostgreSQL proxy (RowDescription,
// ParameterDescription, parameter OIDs of Parse), the MySQL column definition rewrite, and the decoder → … → encoder
// subscribers.

import (
	"bufio"
	"bytes"
	"context"
	"encoding/binary"
	"errors"
	"fmt"
	"io"
	"strings"

	"github.com/jackc/pgx/v5/pgproto3"

	"github.com/cossacklabs/acra/decryptor/base"
	my "github.com/cossacklabs/acra/decryptor/mysql"
	mybase "github.com/cossacklabs/acra/decryptor/mysql/base"
	pg "github.com/cossacklabs/acra/decryptor/postgresql"
	encryptor "github.com/cossacklabs/acra/encryptor/base"
	"github.com/cossacklabs/acra/encryptor/base/config"

	"verifharness/internal/core"
)

var kinds = []string{"plain", "searchable", "masked", "tokenized"}

const (
	maskPattern   = "xxxx"
	maskPlainLen  = 2
	maskPlainSide = "left"
)

// colSpec: one column of table `t` as it is written in the encryptor configuration.
type colSpec struct {
	kind       string // plain | searchable | masked | tokenized
	typ        string // int32|int64|str|bytes|none (the token type of a tokenized column)
	onFail     string // ciphertext|default_value|error|empty
	dflt       *string
	byID       bool // the type is written as data_type_db_identifier
	tokAndType bool // tokenized: a data type is written in addition to token_type
	acrastruct bool // crypto_envelope: acrastruct
	reencrypt  bool // reencrypting_to_acrablocks (false is written out, true is the schema store's default)
}

func plainSpec(typ, onFail string, dflt *string) colSpec {
	return colSpec{kind: "plain", typ: typ, onFail: onFail, dflt: dflt, reencrypt: true}
}

func kindSpec(kind, typ, onFail string, dflt *string) colSpec {
	return colSpec{kind: kind, typ: typ, onFail: onFail, dflt: dflt, reencrypt: true}
}

func dbTypeID(typ string, mysql bool) int {
	if mysql {
		return myTypeCodes[typ]
	}
	return pgOids[typ]
}

func columnYAML(sp colSpec, mysql bool) string {
	var b strings.Builder
	b.WriteString("schemas:\n  - table: t\n    columns:\n      - id\n      - c\n    encrypted:\n      - column: c\n")
	writeType := func() {
		if sp.byID {
			fmt.Fprintf(&b, "        data_type_db_identifier: %d\n", dbTypeID(sp.typ, mysql))
		} else {
			b.WriteString("        data_type: " + sp.typ + "\n")
		}
	}
	switch sp.kind {
	case "tokenized":
		if sp.typ != "none" {
			b.WriteString("        token_type: " + sp.typ + "\n")
			if sp.tokAndType {
				writeType()
			}
		}
	default:
		if sp.typ != "none" {
			writeType()
		}
	}
	switch sp.kind {
	case "searchable":
		b.WriteString("        searchable: true\n")
	case "masked":
		fmt.Fprintf(&b, "        masking: %q\n        plaintext_length: %d\n        plaintext_side: %q\n", maskPattern, maskPlainLen, maskPlainSide)
	}
	if sp.onFail != "empty" {
		b.WriteString("        response_on_fail: " + sp.onFail + "\n")
	}
	if sp.dflt != nil {
		b.WriteString("        default_data_value: " + yamlQuote(*sp.dflt) + "\n")
	}
	if sp.acrastruct {
		b.WriteString("        crypto_envelope: acrastruct\n")
	}
	if !sp.reencrypt {
		b.WriteString("        reencrypting_to_acrablocks: false\n")
	}
	return b.String()
}

func loadColumn(sp colSpec, mysql bool) (config.ColumnEncryptionSetting, config.TableSchemaStore, error) {
	if sp.kind == "tokenized" && sp.typ == "none" {
		return nil, nil, errors.New("a tokenized column needs a token type")
	}
	store, err := config.MapTableSchemaStoreFromConfig([]byte(columnYAML(sp, mysql)), mysql)
	if err != nil {
		return nil, nil, err
	}
	ts := store.GetTableSchema("t")
	if ts == nil {
		return nil, nil, errors.New("no table schema")
	}
	s := ts.GetColumnEncryptionSettings("c")
	if s == nil {
		return nil, nil, errors.New("no column setting")
	}
	return s, store, nil
}

// parseSpec: <kind> <byId> <tokAndType> <acrastruct> <reencrypt> <type> <onFail> <default>
func parseSpec(a []string) colSpec {
	return colSpec{kind: a[0], byID: a[1] == "true", tokAndType: a[2] == "true", acrastruct: a[3] == "true", reencrypt: a[4] == "true",
		typ: a[5], onFail: a[6], dflt: parseDefault(a[7])}
}

func (sp colSpec) tokens() string {
	dt, ut, bt := defaultTokens(sp.dflt)
	return fmt.Sprintf("%s %v %v %v %v %s %s %s %s %s", sp.kind, sp.byID, sp.tokAndType, sp.acrastruct, sp.reencrypt, sp.typ, sp.onFail, dt, ut, bt)
}

func sessionCtx() (base.ClientSession, context.Context) {
	session, ctx := chainSession("owner")
	return session, ctx
}

// rowDescriptionOID: the real handleRowDescription on `id int4, c <dbOid>`; returns the OID announced for `c`.
func rowDescriptionOID(setting config.ColumnEncryptionSetting, dbOid uint32, binaryFmt bool) (uint32, string) {
	session, ctx := sessionCtx()
	encryptor.SaveQueryDataItemsToClientSession(session, []*encryptor.QueryDataItem{nil, encryptor.NewQueryDataItem(setting, "t", "c", "")})
	rd := &pgproto3.RowDescription{Fields: []pgproto3.FieldDescription{
		{Name: []byte("id"), TableOID: 1, TableAttributeNumber: 1, DataTypeOID: 23, DataTypeSize: 4, TypeModifier: -1},
		{Name: []byte("c"), TableOID: 1, TableAttributeNumber: 2, DataTypeOID: dbOid, DataTypeSize: -1, TypeModifier: -1, Format: map[bool]int16{false: 0, true: 1}[binaryFmt]},
	}}
	raw, err := rd.Encode(nil)
	if err != nil {
		panic("harness: " + err.Error())
	}
	ph, _ := pg.NewDbSidePacketHandler(bytes.NewReader(raw), nil, quietLogger)
	if err := ph.ReadPacket(); err != nil {
		panic("harness: " + err.Error())
	}
	if err := pg.VerifHandleRowDescription(ctx, ph, quietLogger); err != nil {
		return 0, core.Err
	}
	out, _ := ph.Marshal()
	var rd2 pgproto3.RowDescription
	declared := int(binary.BigEndian.Uint32(out[1:5]))
	if declared != len(out)-1 || rd2.Decode(out[5:]) != nil || len(rd2.Fields) != 2 || rd2.Fields[0].DataTypeOID != 23 {
		return 0, "bad-rowdescription"
	}
	return rd2.Fields[1].DataTypeOID, ""
}

// paramDescriptionOID: the real handleParameterDescription on one parameter `$1 <dbOid>` bound to the column.
func paramDescriptionOID(setting config.ColumnEncryptionSetting, dbOid uint32) (uint32, string) {
	session, ctx := sessionCtx()
	encryptor.PlaceholderSettingsFromClientSession(session)[0] = setting
	defer encryptor.DeletePlaceholderSettingsFromClientSession(session)
	pd := &pgproto3.ParameterDescription{ParameterOIDs: []uint32{dbOid}}
	raw, err := pd.Encode(nil)
	if err != nil {
		panic("harness: " + err.Error())
	}
	ph, _ := pg.NewDbSidePacketHandler(bytes.NewReader(raw), nil, quietLogger)
	if err := ph.ReadPacket(); err != nil {
		panic("harness: " + err.Error())
	}
	if err := pg.VerifHandleParameterDescription(ctx, ph, quietLogger); err != nil {
		return 0, core.Err
	}
	out, _ := ph.Marshal()
	var pd2 pgproto3.ParameterDescription
	declared := int(binary.BigEndian.Uint32(out[1:5]))
	if declared != len(out)-1 || pd2.Decode(out[5:]) != nil || len(pd2.ParameterOIDs) != 1 {
		return 0, "bad-parameterdescription"
	}
	return pd2.ParameterOIDs[0], ""
}

// parseOID: the real replaceOIDsInParsePackets on `Parse("", "select $1", [clientOid])` with `$1` bound to the column.
func parseOID(setting config.ColumnEncryptionSetting, clientOid uint32) (uint32, string) {
	session, ctx := sessionCtx()
	encryptor.PlaceholderSettingsFromClientSession(session)[0] = setting
	defer encryptor.DeletePlaceholderSettingsFromClientSession(session)
	raw, err := (&pgproto3.Parse{Query: "select $1", ParameterOIDs: []uint32{clientOid}}).Encode(nil)
	if err != nil {
		panic("harness: " + err.Error())
	}
	ph, _ := pg.NewClientSidePacketHandler(bytes.NewReader(raw), bufio.NewWriter(io.Discard), quietLogger)
	ph.SetStarted()
	if err := ph.ReadClientPacket(); err != nil || !ph.IsParse() {
		panic("harness: parse packet")
	}
	parse, err := ph.GetParseData()
	if err != nil {
		panic("harness: " + err.Error())
	}
	if err := pg.VerifReplaceOIDsInParsePackets(ctx, ph, parse, quietLogger); err != nil {
		return 0, core.Err
	}
	out, _ := ph.Marshal()
	var p2 pgproto3.Parse
	declared := int(binary.BigEndian.Uint32(out[1:5]))
	if declared != len(out)-1 || p2.Decode(out[5:]) != nil || len(p2.ParameterOIDs) != 1 || p2.Query != "select $1" {
		return 0, "bad-parse"
	}
	return p2.ParameterOIDs[0], ""
}

// probeOid: what the database announces for the stored column in the C19.column.pg op (bytea)
const probeOid = 17

func init() {
	// C19.column.pg <spec ×8> <utf8> <b64> <clientOid>: Acra's loader on the column; policy, type awareness and the three
	// PostgreSQL descriptions (row / parameter for a bytea column, Parse for a parameter the client declared as clientOid)
	core.Register("C19.column.pg", func(a []string) string {
		chainSetup()
		setting, _, err := loadColumn(parseSpec(a), config.UsePostgreSQL)
		if err != nil {
			return core.Err
		}
		row, e1 := rowDescriptionOID(setting, probeOid, false)
		param, e2 := paramDescriptionOID(setting, probeOid)
		parse, e3 := parseOID(setting, uint32(core.Atoi(a[10])))
		if e1+e2+e3 != "" {
			return "desc-failed " + e1 + e2 + e3
		}
		return fmt.Sprintf("ok %s aware=%v binop=%v row=%d param=%d parse=%d", setting.GetResponseOnFail(),
			config.HasTypeAwareSupport(setting), config.IsBinaryDataOperation(setting), row, param, parse)
	})
	// C19.column.my <spec ×8> <utf8> <b64> <dbType>: the loader and the real updateFieldEncodedType on a column of type dbType
	core.Register("C19.column.my", func(a []string) string {
		setting, store, err := loadColumn(parseSpec(a), config.UseMySQL)
		if err != nil {
			return core.Err
		}
		field := &my.ColumnDescription{Table: []byte("t"), Name: []byte("c"), Type: mybase.Type(core.Atoi(a[10]))}
		my.VerifUpdateFieldEncodedType(field, store)
		return fmt.Sprintf("ok %s binop=%v type=%d", setting.GetResponseOnFail(), config.IsBinaryDataOperation(setting), field.Type)
	})
	// C19.pg.readk <kind> + the arguments of C19.pg.read: decoder → reveal → encoder with the setting of that kind
	core.Register("C19.pg.readk", func(a []string) string {
		setting, store, err := loadColumn(kindSpec(a[0], a[1], a[2], parseDefault(a[3])), config.UsePostgreSQL)
		if err != nil {
			return "badsetting"
		}
		dec, _ := pg.NewPgSQLDataDecoderProcessor()
		enc, _ := pg.NewPgSQLDataEncoderProcessor()
		proxy, ctx := newPgProxy(store, dec, revealOf(a[7]), enc)
		out, err := proxy.VerifOnColumnDecryption(ctx, 1, core.UnHex(a[8]), a[6] == "binary", setting)
		if err != nil {
			return showErr(err)
		}
		return "value " + core.Hex(out) + " false"
	})
	// C19.my.readk <kind> + the arguments of C19.my.read
	core.Register("C19.my.readk", func(a []string) string {
		setting, store, err := loadColumn(kindSpec(a[0], a[1], a[2], parseDefault(a[3])), config.UseMySQL)
		if err != nil {
			return "badsetting"
		}
		binaryFmt := a[6] == "binary"
		origType := mybase.Type(core.Atoi(a[7]))
		value := core.UnHex(a[9])
		field := &my.ColumnDescription{Table: []byte("t"), Name: []byte("c"), Type: origType}
		my.VerifUpdateFieldEncodedType(field, store)
		h := my.VerifNewHandler(quietLogger, &settingSubscriber{setting}, my.NewDataDecoderProcessor(), revealOf(a[8]), my.NewDataEncoderProcessor())
		ctx := base.SetAccessContextToContext(context.Background(), base.NewAccessContext(base.WithClientID([]byte("client"))))
		var out []byte
		hdr := 0
		if binaryFmt {
			hdr = 2
			out, err = h.VerifProcessBinaryDataRow(ctx, append([]byte{0, 0}, myWire(origType, value)...), []*my.ColumnDescription{field})
		} else {
			out, err = h.VerifProcessTextDataRow(ctx, mybase.PutLengthEncodedString(value), []*my.ColumnDescription{field})
		}
		if err != nil {
			return showErr(err)
		}
		changed, origin := field.VerifChanged()
		rollback := changed && field.Type == origin
		return fmt.Sprintf("value %s %v %d", core.Hex(out[hdr:]), rollback, field.Type)
	})
}
