package c19

// Generators and oracles for whole rows (rows.go): every column of a row is judged on its own – the value the client
// receives for column i must be what column i's setting, stored value and keys call for, in the result format the client
// asked for column i, whatever the other columns of the row are.

import (
	"bytes"
	"encoding/base64"
	"encoding/hex"
	"fmt"
	"strconv"
	"strings"

	mybase "github.com/cossacklabs/acra/decryptor/mysql/base"

	"verifharness/internal/core"
)

// colCase: one column of a generated row and what the reader can do with it
type colCase struct {
	typ      string // int32|int64|str|bytes
	pol      policyCase
	state    string // revealed | hidden | null   (chain rows: owner | other | garbage | null)
	plain    []byte // the plaintext (revealed / owner / other)
	blob     []byte // the stored bytes (hidden / garbage: an envelope-like blob; chain: what the write path stored)
	revealed bool
}

func (c colCase) effective() string {
	if c.pol.onFail == "empty" {
		if c.pol.dflt != nil {
			return "default_value"
		}
		return "ciphertext"
	}
	return c.pol.onFail
}

func rowPlain(rd *core.Rand, typ string) []byte {
	switch typ {
	case "int32":
		return []byte(core.Pick(rd, []string{"0", "-1", "42", "305419896", "2147483647", "-2147483648"}))
	case "int64":
		return []byte(core.Pick(rd, []string{"7", "-9223372036854775808", "9223372036854775807", "4294967296"}))
	case "str":
		return core.Pick(rd, [][]byte{[]byte("hello"), []byte("naïve ✓"), {0xff, 0xfe, 0x00, 0x41}, []byte("123")})
	}
	return core.Pick(rd, [][]byte{[]byte("bin\x00\xff"), {0, 1, 2, 3}, []byte("\\x41")})
}

func rowPolicy(rd *core.Rand, typ string) policyCase {
	switch rd.Intn(4) {
	case 0:
		return policyCase{"empty", nil}
	case 1:
		return policyCase{"ciphertext", nil}
	case 2:
		return policyCase{"error", nil}
	}
	ds := validDefaults(typ)
	return policyCase{"default_value", sp(ds[1+rd.Intn(len(ds)-1)])}
}

func envelopeLike(rd *core.Rand) []byte {
	return append([]byte("%%%"), rd.Bytes(20+rd.Intn(60))...)
}

// pgFormatOf: PostgreSQL's rule for result-format codes (specification side, written independently of Acra)
func pgFormatOf(codesTok string, i int) (binaryFmt bool, ok bool) {
	if codesTok == "simple" || codesTok == "_" {
		return false, true
	}
	codes := strings.Split(codesTok, ",")
	var c string
	switch {
	case len(codes) == 1:
		c = codes[0]
	case i < len(codes):
		c = codes[i]
	default:
		return false, false
	}
	switch c {
	case "0":
		return false, true
	case "1":
		return true, true
	}
	return false, false
}

func pgWire(stored []byte, binaryFmt bool) []byte {
	if binaryFmt {
		return stored
	}
	return append([]byte("\\x"), []byte(hex.EncodeToString(stored))...)
}

func defaultPlainOf(c colCase) []byte {
	dv := []byte(*c.pol.dflt)
	if c.typ == "bytes" {
		dv, _ = base64.StdEncoding.DecodeString(*c.pol.dflt)
	}
	return dv
}

// judgeRow: the oracle. vals = per column what the client received (nil entry = NULL), from the implementation's answer.
func judgeRow(r *core.Run, db string, cases []colCase, fmtOf func(i int) bool, got string, where string) {
	// a column that cannot be revealed and has policy `error` refuses the statement; nothing else does
	wantErr := -1
	for i, c := range cases {
		if c.state != "null" && !c.revealed && c.effective() == "error" {
			wantErr = i
			break
		}
	}
	if wantErr >= 0 {
		r.Check(got == "encerr", "row-policy-error", fmt.Sprintf("%s: column %d (%s) cannot be revealed and has response_on_fail: error, but the row is answered with %s", where, wantErr, cases[wantErr].typ, trunc(got, 300)))
		return
	}
	if !r.Check(strings.HasPrefix(got, "cols "), "row-delivered", fmt.Sprintf("%s: every column is deliverable but the row is answered with %s", where, trunc(got, 200))) {
		return
	}
	items := splitComma(got[5:])
	if !r.Check(len(items) == len(cases), "row-delivered", fmt.Sprintf("%s: %d columns sent, %d received", where, len(cases), len(items))) {
		return
	}
	for i, c := range cases {
		binaryFmt := fmtOf(i)
		col := fmt.Sprintf("%s: column %d of %d (%s, %s, policy %s, requested format %s; the other columns: %s)", where, i, len(cases), c.typ, c.state, c.effective(), fmtName(binaryFmt), otherStates(cases, i))
		if c.state == "null" {
			r.Check(items[i] == "null", "row-null", col+": NULL is not delivered as NULL: "+items[i])
			continue
		}
		var out []byte
		rb, ftype := false, 0
		if db == "pg" {
			out = core.UnHex(items[i])
		} else {
			parts := strings.Split(items[i], ":")
			if !r.Check(len(parts) == 3, "row-delivered", col+": unreadable answer "+items[i]) {
				continue
			}
			out = core.UnHex(parts[0])
			rb = parts[1] == "true"
			ftype, _ = strconv.Atoi(parts[2])
		}
		if out == nil {
			out = []byte{}
		}
		switch {
		case c.revealed:
			want := specEncode(db, c.typ, binaryFmt, c.plain)
			r.Check(bytes.Equal(out, want), "row-typed-owner", fmt.Sprintf("%s: the reader can decrypt it and must receive %q encoded as %s in %s format = %x, receives %x", col, c.plain, c.typ, fmtName(binaryFmt), want, out))
			if db == "my" {
				r.Check(!rb && ftype == myTypeCodes[c.typ], "row-describe", fmt.Sprintf("%s: typed value delivered but the column is described as type %d (rollback=%v)", col, ftype, rb))
			}
		case c.effective() == "default_value":
			want := specEncode(db, c.typ, binaryFmt, defaultPlainOf(c))
			r.Check(bytes.Equal(out, want), "row-policy-default", fmt.Sprintf("%s: cannot be revealed, the configured default %q must be delivered as %x, the client receives %x", col, *c.pol.dflt, want, trunc(hex.EncodeToString(out), 80)))
			if db == "my" {
				r.Check(!rb && ftype == myTypeCodes[c.typ], "row-describe", fmt.Sprintf("%s: default delivered but the column is described as type %d (rollback=%v)", col, ftype, rb))
			}
		default: // ciphertext
			if db == "pg" {
				hexForm := pgWire(c.blob, false)
				r.Check(bytes.Equal(out, pgWire(c.blob, binaryFmt)) || bytes.Equal(out, c.blob) || (!binaryFmt && bytes.Equal(out, hexForm)), "row-policy-ciphertext",
					fmt.Sprintf("%s: cannot be revealed, the stored value must be handed over, the client receives %x", col, trunc(hex.EncodeToString(out), 80)))
			} else {
				r.Check(bytes.Equal(out, mybase.PutLengthEncodedString(c.blob)), "row-policy-ciphertext", fmt.Sprintf("%s: cannot be revealed, the stored value must be handed over, the client receives %x", col, trunc(hex.EncodeToString(out), 80)))
				r.Check(rb && ftype == 253, "row-describe", fmt.Sprintf("%s: stored value delivered but the column is described as type %d (rollback=%v)", col, ftype, rb))
			}
		}
	}
}

func otherStates(cases []colCase, i int) string {
	var s []string
	for k, c := range cases {
		if k != i {
			s = append(s, fmt.Sprintf("%d:%s/%s", k, c.state, c.effective()))
		}
	}
	return strings.Join(s, " ")
}

func trunc(s string, n int) string {
	if len(s) > n {
		return s[:n] + "…"
	}
	return s
}

// genCases: n columns; `states` gives the state of every column
func genCases(rd *core.Rand, states []string) []colCase {
	cases := make([]colCase, len(states))
	for i, st := range states {
		typ := core.Pick(rd, []string{"int32", "int64", "str", "bytes"})
		c := colCase{typ: typ, pol: rowPolicy(rd, typ), state: st, plain: rowPlain(rd, typ)}
		switch st {
		case "revealed":
			c.revealed = true
			c.blob = envelopeLike(rd)
		case "hidden":
			c.blob = envelopeLike(rd)
		}
		cases[i] = c
	}
	return cases
}

func pgRowLine(op, codesTok string, cases []colCase) string {
	var b strings.Builder
	fmt.Fprintf(&b, "%s %s %d", op, codesTok, len(cases))
	for i, c := range cases {
		rc := rowCol{typ: c.typ, onFail: c.pol.onFail, dflt: c.pol.dflt, reveal: "none"}
		if c.revealed {
			rc.reveal = core.Hex(c.plain)
		}
		if c.state != "null" {
			f, _ := pgFormatOf(codesTok, i) // a column without a code gets the text form: the row is refused anyway
			rc.wire = pgWire(c.blob, f)
		}
		b.WriteString(" " + rc.pgTokens())
	}
	return b.String()
}

func myRowLine(op string, binaryFmt bool, cases []colCase) string {
	var b strings.Builder
	fmt.Fprintf(&b, "%s %s %d", op, fmtName(binaryFmt), len(cases))
	for _, c := range cases {
		rc := rowCol{typ: c.typ, onFail: c.pol.onFail, dflt: c.pol.dflt, reveal: "none", origType: 253}
		if c.revealed {
			rc.reveal = core.Hex(c.plain)
		}
		if c.state != "null" {
			rc.wire = c.blob
		}
		b.WriteString(" " + rc.myTokens())
	}
	return b.String()
}

func caseTags(db string, cases []colCase, extra ...string) []string {
	tags := []string{"stream:structured", "row:" + db, fmt.Sprintf("row-cols:%d", len(cases))}
	hidden := func(c colCase) bool { return c.state != "null" && !c.revealed }
	for i, c := range cases {
		if i > 0 && hidden(c) && cases[i-1].revealed && c.effective() != "ciphertext" {
			tags = append(tags, "row:hidden-after-revealed")
		}
		if i > 0 && c.revealed && hidden(cases[i-1]) && cases[i-1].effective() == "ciphertext" {
			tags = append(tags, "row:revealed-after-ciphertext")
		}
	}
	return append(tags, extra...)
}

var codeShapes = func(n int) []string {
	per := make([][]string, 0)
	// all 0/1 assignments for n ≤ 3 columns
	for m := 0; m < 1<<uint(n); m++ {
		var s []string
		for i := 0; i < n; i++ {
			s = append(s, strconv.Itoa((m>>uint(i))&1))
		}
		per = append(per, s)
	}
	out := []string{"simple", "_", "0", "1"}
	if n > 1 {
		for _, s := range per {
			out = append(out, strings.Join(s, ","))
		}
	}
	return out
}

// runRows: section 4 of the C19 run.
func runRows(r *core.Run) {
	rd := r.Rand
	// ---- 4a. PostgreSQL: result-format codes × position of the protected typed column (stand-in for the keys) ----
	// {no Bind, 0 codes, ONE code 0, ONE code 1, every per-column assignment} × a revealed typed column at index 0, 1, 2
	for _, codesTok := range codeShapes(3) {
		for pos := 0; pos < 3; pos++ {
			for _, typ := range []string{"int32", "int64", "str", "bytes"} {
				states := []string{"hidden", "hidden", "hidden"}
				states[pos] = "revealed"
				cases := genCases(rd, states)
				cases[pos].typ = typ
				cases[pos].plain = rowPlain(rd, typ)
				cases[pos].pol = rowPolicy(rd, typ)
				for i := range cases {
					if i != pos { // the neighbours are handed over as they are stored: the row is always delivered
						cases[i].pol = policyCase{"ciphertext", nil}
					}
				}
				line := pgRowLine("C19.pg.row", codesTok, cases)
				r.Begin(line, true, caseTags("pg", cases, "stream:boundary", "row-codes:"+codeShape(codesTok), fmt.Sprintf("row-typed-at:%d", pos))...)
				got := r.Do(line)
				judgeRow(r, "pg", cases, func(i int) bool { f, _ := pgFormatOf(codesTok, i); return f }, got,
					fmt.Sprintf("pg extended protocol, Bind result-format codes [%s]", codesTok))
			}
		}
	}
	// codes PostgreSQL itself rejects: an unknown code, fewer codes than columns (n ≥ 2): the row must not be delivered
	for _, codesTok := range []string{"2", "0,1", "1,1", "0,7,1"} {
		cases := genCases(rd, []string{"revealed", "hidden", "revealed"})
		line := pgRowLine("C19.pg.row", codesTok, cases)
		r.Begin(line, true, "stream:malformed", "row:pg-bad-codes")
		got := r.Do(line)
		r.Check(!strings.HasPrefix(got, "cols "), "row-bad-codes", fmt.Sprintf("pg: result-format codes [%s] for 3 columns are invalid, but the row is delivered: %s", codesTok, trunc(got, 200)))
	}
	// ---- 4b. random rows, both databases (stand-in) ----
	stateOf := func() string {
		switch rd.Intn(10) {
		case 0:
			return "null"
		case 1, 2, 3, 4:
			return "revealed"
		}
		return "hidden"
	}
	for k := 0; k < r.N(150, 4000); k++ {
		n := 2 + rd.Intn(3)
		states := make([]string, n)
		for i := range states {
			states[i] = stateOf()
		}
		cases := genCases(rd, states)
		// PostgreSQL
		shapes := []string{"simple", "_", "0", "1"}
		var per []string
		for i := 0; i < n; i++ {
			per = append(per, strconv.Itoa(rd.Intn(2)))
		}
		shapes = append(shapes, strings.Join(per, ","))
		codesTok := core.Pick(rd, shapes)
		line := pgRowLine("C19.pg.row", codesTok, cases)
		r.Begin(line, true, caseTags("pg", cases, "row-codes:"+codeShape(codesTok))...)
		judgeRow(r, "pg", cases, func(i int) bool { f, _ := pgFormatOf(codesTok, i); return f }, r.Do(line), fmt.Sprintf("pg, result-format codes [%s]", codesTok))
		// MySQL, both protocols
		for _, binaryFmt := range []bool{false, true} {
			line := myRowLine("C19.my.row", binaryFmt, cases)
			r.Begin(line, true, caseTags("my", cases, "fmt:"+fmtName(binaryFmt))...)
			judgeRow(r, "my", cases, func(int) bool { return binaryFmt }, r.Do(line), "mysql "+fmtName(binaryFmt)+" protocol")
		}
	}
	// ---- 4c. MySQL: every mixture for 2 columns, the interesting orders for 3 and 4 (stand-in) ----
	var mixes [][]string
	for _, a := range []string{"revealed", "hidden"} {
		for _, b := range []string{"revealed", "hidden"} {
			mixes = append(mixes, []string{a, b})
		}
	}
	mixes = append(mixes, []string{"revealed", "hidden", "revealed"}, []string{"hidden", "revealed", "hidden"}, []string{"revealed", "null", "hidden"},
		[]string{"revealed", "revealed", "hidden", "hidden"}, []string{"hidden", "revealed", "hidden", "revealed"})
	for _, states := range mixes {
		for _, pol := range []string{"ciphertext", "default_value", "error"} {
			for _, typ := range []string{"int32", "str", "bytes"} {
				cases := genCases(rd, states)
				for i := range cases {
					cases[i].typ = typ
					cases[i].plain = rowPlain(rd, typ)
					switch pol {
					case "default_value":
						cases[i].pol = policyCase{"default_value", sp(validDefaults(typ)[1])}
					default:
						cases[i].pol = policyCase{pol, nil}
					}
				}
				for _, binaryFmt := range []bool{false, true} {
					line := myRowLine("C19.my.row", binaryFmt, cases)
					r.Begin(line, true, caseTags("my", cases, "stream:boundary", "fmt:"+fmtName(binaryFmt), "row-policy:"+pol)...)
					judgeRow(r, "my", cases, func(int) bool { return binaryFmt }, r.Do(line), "mysql "+fmtName(binaryFmt)+" protocol")
				}
			}
		}
	}
	// ---- 4d. the factory-wired proxies with real keys: every column independently stored for the reader, for another
	//          client, or garbage ----
	runChainRows(r)
}

func codeShape(tok string) string {
	switch {
	case tok == "simple" || tok == "_":
		return tok
	case !strings.Contains(tok, ","):
		return "one-code-" + tok
	}
	return "per-column"
}

// protectFor: what the write path stores for a column of that type written by `who` (memoised: envelopes are random,
// the case lines must be reproducible within a run; the model never sees inside them)
var protectMemo = map[string][]byte{}

func protectFor(r *core.Run, who, typ string, plain []byte) []byte {
	key := who + "/" + typ + "/" + core.Hex(plain)
	if b, ok := protectMemo[key]; ok {
		return b
	}
	got := r.Impl(fmt.Sprintf("C19.chain.protect %s %s %s", who, typ, core.Hex(plain)))
	if !strings.HasPrefix(got, "ok ") {
		panic("harness: C19.chain.protect: " + got)
	}
	b := core.UnHex(got[3:])
	protectMemo[key] = b
	return b
}

func runChainRows(r *core.Run) {
	rd := r.Rand
	chainStates := []string{"owner", "other", "garbage"}
	mk := func(states []string, pols []string, typs []string) []colCase {
		cases := make([]colCase, len(states))
		for i, st := range states {
			typ := typs[i%len(typs)]
			c := colCase{typ: typ, state: st, plain: rowPlain(rd, typ)}
			switch pols[i%len(pols)] {
			case "default_value":
				c.pol = policyCase{"default_value", sp(validDefaults(typ)[1])}
			case "random":
				c.pol = rowPolicy(rd, typ)
			default:
				c.pol = policyCase{pols[i%len(pols)], nil}
			}
			switch st {
			case "owner":
				c.revealed = true
				c.blob = protectFor(r, "owner", typ, c.plain)
			case "other":
				c.blob = protectFor(r, "other", typ, c.plain)
			case "garbage":
				c.blob = envelopeLike(rd)
			}
			cases[i] = c
		}
		return cases
	}
	run := func(cases []colCase, tags ...string) {
		// PostgreSQL: every shape of the result-format codes
		n := len(cases)
		var per []string
		for i := 0; i < n; i++ {
			per = append(per, strconv.Itoa((i+1)%2))
		}
		for _, codesTok := range []string{"simple", "_", "0", "1", strings.Join(per, ",")} {
			line := pgRowLine("C19.chain.pgrow", codesTok, cases)
			r.Begin(line, true, caseTags("pg-chain", cases, append(tags, "row-codes:"+codeShape(codesTok))...)...)
			got := r.Impl(line)
			judgeRow(r, "pg", cases, func(i int) bool { f, _ := pgFormatOf(codesTok, i); return f }, got, fmt.Sprintf("pg proxy with real keys, result-format codes [%s]", codesTok))
			model := r.ModelOnly(pgRowLine("C19.pg.row", codesTok, cases))
			r.Check(model == got, "row-chain-vs-model", fmt.Sprintf("pg proxy with real keys delivers %s, the model of the column loop (told which columns the reader can decrypt) predicts %s", trunc(got, 300), trunc(model, 300)))
		}
		for _, binaryFmt := range []bool{false, true} {
			line := myRowLine("C19.chain.myrow", binaryFmt, cases)
			r.Begin(line, true, caseTags("my-chain", cases, append(tags, "fmt:"+fmtName(binaryFmt))...)...)
			got := r.Impl(line)
			judgeRow(r, "my", cases, func(int) bool { return binaryFmt }, got, "mysql proxy with real keys, "+fmtName(binaryFmt)+" protocol")
			model := r.ModelOnly(myRowLine("C19.my.row", binaryFmt, cases))
			r.Check(model == got, "row-chain-vs-model", fmt.Sprintf("mysql proxy with real keys delivers %s, the model of the row loop predicts %s", trunc(got, 300), trunc(model, 300)))
		}
	}
	// every pair of states × every policy (same policy on both columns), typed int32 / str
	for _, a := range chainStates {
		for _, b := range chainStates {
			for _, pol := range []string{"ciphertext", "default_value", "error"} {
				run(mk([]string{a, b}, []string{pol}, []string{"int32", "str"}), "stream:boundary", "row-policy:"+pol)
			}
		}
	}
	// three and four columns, mixed policies
	for k := 0; k < r.N(6, 200); k++ {
		n := 3 + rd.Intn(2)
		states := make([]string, n)
		for i := range states {
			states[i] = core.Pick(rd, chainStates)
		}
		run(mk(states, []string{"random"}, []string{core.Pick(rd, []string{"int32", "int64", "str", "bytes"}), core.Pick(rd, []string{"int32", "str", "bytes"}), "int64"}))
	}
}
