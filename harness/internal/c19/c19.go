// Package c19: implementation-side ops, generators and oracles for property C19.
package c19
