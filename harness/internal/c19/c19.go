// Package c19: implementation-side ops, generators and oracles for property C19
// (typed columns come back in the declared type or per the failure policy).
package c19

import (
	"context"
	"encoding/base64"
	"errors"
	"fmt"
	"io"
	"strconv"
	"strings"
	"unicode/utf8"

	"github.com/sirupsen/logrus"

	acracensor "github.com/cossacklabs/acra/acra-censor"
	"github.com/cossacklabs/acra/cmd/acra-server/common"
	"github.com/cossacklabs/acra/decryptor/base"
	my "github.com/cossacklabs/acra/decryptor/mysql"
	mybase "github.com/cossacklabs/acra/decryptor/mysql/base"
	pg "github.com/cossacklabs/acra/decryptor/postgresql"
	encryptor "github.com/cossacklabs/acra/encryptor/base"
	"github.com/cossacklabs/acra/encryptor/base/config"
	"github.com/cossacklabs/acra/sqlparser"

	"verifharness/internal/core"
)

var quietLogger = func() *logrus.Entry {
	l := logrus.New()
	l.SetOutput(io.Discard)
	l.SetLevel(logrus.PanicLevel)
	return logrus.NewEntry(l)
}()

// settingYAML renders the encryptor config of one encryption-only column `c` of table `t`.
// typ: int32|int64|str|bytes|none; onFail: ciphertext|default_value|error|empty; dflt: nil or the default string.
func settingYAML(typ, onFail string, dflt *string) string {
	var b strings.Builder
	b.WriteString("schemas:\n  - table: t\n    columns:\n      - id\n      - c\n    encrypted:\n      - column: c\n")
	if typ != "none" {
		b.WriteString("        data_type: " + typ + "\n")
	}
	if onFail != "empty" {
		b.WriteString("        response_on_fail: " + onFail + "\n")
	}
	if dflt != nil {
		b.WriteString("        default_data_value: " + yamlQuote(*dflt) + "\n")
	}
	return b.String()
}

// yamlQuote renders a (valid UTF-8) string as a YAML double-quoted scalar.
func yamlQuote(s string) string {
	var b strings.Builder
	b.WriteByte('"')
	for _, r := range s {
		switch {
		case r == '"':
			b.WriteString(`\"`)
		case r == '\\':
			b.WriteString(`\\`)
		case r < 0x20 || r == 0x7f:
			fmt.Fprintf(&b, `\x%02x`, r)
		default:
			b.WriteRune(r)
		}
	}
	b.WriteByte('"')
	return b.String()
}

func parseDefault(tok string) *string {
	if tok == "none" {
		return nil
	}
	s := string(core.UnHex(tok))
	return &s
}

// loadSetting parses the generated YAML with Acra's own loader and returns the column's setting object.
func loadSetting(typ, onFail, dfltTok string, mysql bool) (config.ColumnEncryptionSetting, config.TableSchemaStore, error) {
	store, err := config.MapTableSchemaStoreFromConfig([]byte(settingYAML(typ, onFail, parseDefault(dfltTok))), mysql)
	if err != nil {
		return nil, nil, err
	}
	ts := store.GetTableSchema("t")
	if ts == nil {
		return nil, nil, errors.New("no table schema")
	}
	s := ts.GetColumnEncryptionSettings("c")
	if s == nil {
		return nil, nil, errors.New("no column setting")
	}
	return s, store, nil
}

// revealSubscriber stands in for the detector/decrypt subscribers: it either reveals a fixed
// plaintext (marking the context as decrypted, as DecryptHandler does) or passes the data through.
type revealSubscriber struct{ plain []byte }

func (s *revealSubscriber) ID() string { return "verif-reveal" }
func (s *revealSubscriber) OnColumn(ctx context.Context, data []byte) (context.Context, []byte, error) {
	if s.plain == nil {
		return ctx, data, nil
	}
	return base.MarkDecryptedContext(ctx), append([]byte{}, s.plain...), nil
}

// settingSubscriber puts the column's setting into the context (what the MySQL query encryptor
// subscriber does for a matched SELECT; the PostgreSQL proxy does it itself in onColumnDecryption).
type settingSubscriber struct {
	setting config.ColumnEncryptionSetting
}

func (s *settingSubscriber) ID() string { return "verif-setting" }
func (s *settingSubscriber) OnColumn(ctx context.Context, data []byte) (context.Context, []byte, error) {
	return encryptor.NewContextWithEncryptionSetting(ctx, s.setting), data, nil
}

func revealOf(tok string) *revealSubscriber {
	if tok == "none" {
		return &revealSubscriber{}
	}
	p := core.UnHex(tok)
	if p == nil {
		p = []byte{}
	}
	return &revealSubscriber{plain: p}
}

func showErr(err error) string {
	var ee *base.EncodingError
	if errors.As(err, &ee) {
		return "encerr"
	}
	return core.Err
}

func newPgProxy(store config.TableSchemaStore, subs ...base.DecryptionSubscriber) (*pg.PgProxy, context.Context) {
	ctx := context.Background()
	session, err := common.NewClientSession(ctx, nil, nil)
	if err != nil {
		panic("harness: " + err.Error())
	}
	ctx = base.SetClientSessionToContext(ctx, session)
	ctx = base.SetAccessContextToContext(ctx, base.NewAccessContext(base.WithClientID([]byte("client"))))
	parser := sqlparser.New(sqlparser.ModeDefault)
	setting := base.NewProxySetting(parser, store, nil, nil, acracensor.NewAcraCensor(), nil)
	proxy, err := pg.NewPgProxy(session, parser, setting)
	if err != nil {
		panic("harness: " + err.Error())
	}
	for _, s := range subs {
		proxy.SubscribeOnAllColumnsDecryption(s)
	}
	return proxy, ctx
}

func init() {
	core.Register("C19.parseint", func(a []string) string {
		n, err := strconv.ParseInt(string(core.UnHex(a[1])), 10, core.Atoi(a[0]))
		if err != nil {
			return core.Err
		}
		return fmt.Sprintf("ok %d", n)
	})
	core.Register("C19.formatint", func(a []string) string {
		n, err := strconv.ParseInt(a[0], 10, 64)
		if err != nil {
			panic("harness: bad int " + a[0])
		}
		return core.OkHex([]byte(strconv.FormatInt(n, 10)))
	})
	// C19.setting <type> <onFail> <default> <utf8> <b64>: does Acra's config loader accept the column, and which policy results
	for _, db := range []string{"pg", "my"} {
		mysql := db == "my"
		core.Register("C19.setting."+db, func(a []string) string {
			s, _, err := loadSetting(a[0], a[1], a[2], mysql)
			if err != nil {
				return core.Err
			}
			return "ok " + policyName(string(s.GetResponseOnFail()))
		})
	}
	// PostgreSQL: one column through the real onColumnDecryption with decoder → reveal → encoder
	core.Register("C19.pg.read", func(a []string) string {
		setting, store, err := loadSetting(a[0], a[1], a[2], config.UsePostgreSQL)
		if err != nil {
			return "badsetting"
		}
		dec, _ := pg.NewPgSQLDataDecoderProcessor()
		enc, _ := pg.NewPgSQLDataEncoderProcessor()
		proxy, ctx := newPgProxy(store, dec, revealOf(a[6]), enc)
		out, err := proxy.VerifOnColumnDecryption(ctx, 1, core.UnHex(a[7]), a[5] == "binary", setting)
		if err != nil {
			return showErr(err)
		}
		return "value " + core.Hex(out) + " false"
	})
	// MySQL: one-column row through the real row processors with setting → decoder → reveal → encoder;
	// the column description is rewritten by the real updateFieldEncodedType and rolled back by the row processor.
	core.Register("C19.my.read", func(a []string) string {
		setting, store, err := loadSetting(a[0], a[1], a[2], config.UseMySQL)
		if err != nil {
			return "badsetting"
		}
		binary := a[5] == "binary"
		origType := mybase.Type(core.Atoi(a[6]))
		value := core.UnHex(a[8])
		field := &my.ColumnDescription{Table: []byte("t"), Name: []byte("c"), Type: origType}
		my.VerifUpdateFieldEncodedType(field, store)
		h := my.VerifNewHandler(quietLogger, &settingSubscriber{setting}, my.NewDataDecoderProcessor(), revealOf(a[7]), my.NewDataEncoderProcessor())
		ctx := base.SetAccessContextToContext(context.Background(), base.NewAccessContext(base.WithClientID([]byte("client"))))
		var out []byte
		hdr := 0
		if binary {
			row := append([]byte{0, 0}, myWire(origType, value)...)
			hdr = 2
			out, err = h.VerifProcessBinaryDataRow(ctx, row, []*my.ColumnDescription{field})
		} else {
			out, err = h.VerifProcessTextDataRow(ctx, mybase.PutLengthEncodedString(value), []*my.ColumnDescription{field})
		}
		if err != nil {
			return showErr(err)
		}
		changed, origin := field.VerifChanged()
		rollback := changed && field.Type == origin
		return fmt.Sprintf("value %s %v %d", core.Hex(out[hdr:]), rollback, field.Type)
	})
}

func policyName(p string) string { return p }

// myWire: a value as stored in a binary row under a type (fixed width as it is, otherwise length-encoded)
func myWire(t mybase.Type, v []byte) []byte {
	if _, ok := mybase.NumericTypesStorageBytes[t]; ok {
		return v
	}
	if v == nil {
		v = []byte{}
	}
	return mybase.PutLengthEncodedString(v)
}

// tokens describing a default for the model: utf8 validity and base64 decoding
func defaultTokens(d *string) (dflt, utf, b64 string) {
	if d == nil {
		return "none", "true", "none"
	}
	dflt = core.Hex([]byte(*d))
	utf = strconv.FormatBool(utf8.ValidString(*d))
	if b, err := base64.StdEncoding.DecodeString(*d); err == nil {
		b64 = core.Hex(b)
	} else {
		b64 = "none"
	}
	return
}
