package c19

// Whole result rows with several protected typed columns through the real column loops:
//
//	PostgreSQL  PgProxy.handleDatabasePacket → handleQueryDataPacket (result format of every column from the Bind
//	            packet's format codes, settings extracted from the pending query, onColumnDecryption per column)
//	MySQL       Handler.processTextDataRow / processBinaryDataRow (the context handed from column to column)
//
// C19.pg.row / C19.my.row use decoder → per-column reveal stand-in → encoder (compared with the Lean model of the loops);
// C19.chain.pgrow / C19.chain.myrow use the factory-wired proxies with a real key store: every column is independently
// stored for the reader (owner), for another client, or is garbage.

import (
	"bytes"
	"context"
	"encoding/binary"
	"errors"
	"fmt"
	"strings"

	acracensor "github.com/cossacklabs/acra/acra-censor"
	"github.com/cossacklabs/acra/decryptor/base"
	my "github.com/cossacklabs/acra/decryptor/mysql"
	mybase "github.com/cossacklabs/acra/decryptor/mysql/base"
	pg "github.com/cossacklabs/acra/decryptor/postgresql"
	encryptor "github.com/cossacklabs/acra/encryptor/base"
	"github.com/cossacklabs/acra/encryptor/base/config"
	"github.com/cossacklabs/acra/sqlparser"

	"verifharness/internal/core"
)

type rowCol struct {
	typ, onFail string
	dflt        *string
	origType    int    // MySQL: type code the database announces
	reveal      string // model/impl token: `none` or the plaintext in hex (stand-in ops)
	wire        []byte // PostgreSQL: the column value as the database sends it; MySQL: the stored value (the op puts it into the row); nil = NULL
}

func colName(i int) string { return fmt.Sprintf("c%d", i) }

// rowYAML: table t with columns c0…c(n-1), each an encryption-only column with its own type / policy / default.
func rowYAML(cols []rowCol) string {
	var b strings.Builder
	b.WriteString("schemas:\n  - table: t\n    columns:\n")
	for i := range cols {
		b.WriteString("      - " + colName(i) + "\n")
	}
	b.WriteString("    encrypted:\n")
	for i, c := range cols {
		b.WriteString("      - column: " + colName(i) + "\n")
		if c.typ != "none" {
			b.WriteString("        data_type: " + c.typ + "\n")
		}
		if c.onFail != "empty" {
			b.WriteString("        response_on_fail: " + c.onFail + "\n")
		}
		if c.dflt != nil {
			b.WriteString("        default_data_value: " + yamlQuote(*c.dflt) + "\n")
		}
	}
	return b.String()
}

func loadRow(cols []rowCol, mysql bool) (config.TableSchemaStore, []config.ColumnEncryptionSetting, error) {
	store, err := config.MapTableSchemaStoreFromConfig([]byte(rowYAML(cols)), mysql)
	if err != nil {
		return nil, nil, err
	}
	ts := store.GetTableSchema("t")
	if ts == nil {
		return nil, nil, errors.New("no table schema")
	}
	var settings []config.ColumnEncryptionSetting
	for i := range cols {
		s := ts.GetColumnEncryptionSettings(colName(i))
		if s == nil {
			return nil, nil, errors.New("no column setting")
		}
		settings = append(settings, s)
	}
	return store, settings, nil
}

func rowQuery(n int) string {
	names := make([]string, n)
	for i := range names {
		names[i] = colName(i)
	}
	return "select " + strings.Join(names, ", ") + " from t"
}

// revealIdx stands in for the detector/decrypt subscribers of every column: plains[i] == nil passes column i through.
type revealIdx struct{ plains [][]byte }

func (s *revealIdx) ID() string { return "verif-reveal-idx" }
func (s *revealIdx) OnColumn(ctx context.Context, data []byte) (context.Context, []byte, error) {
	info, ok := base.ColumnInfoFromContext(ctx)
	if !ok {
		panic("harness: no column info in context")
	}
	if info.Index() >= len(s.plains) || s.plains[info.Index()] == nil {
		return ctx, data, nil
	}
	return base.MarkDecryptedContext(ctx), append([]byte{}, s.plains[info.Index()]...), nil
}

// settingIdx puts the setting of the column into the context (what the MySQL query encryptor does for a matched SELECT).
type settingIdx struct {
	settings []config.ColumnEncryptionSetting
}

func (s *settingIdx) ID() string { return "verif-setting-idx" }
func (s *settingIdx) OnColumn(ctx context.Context, data []byte) (context.Context, []byte, error) {
	info, ok := base.ColumnInfoFromContext(ctx)
	if !ok {
		panic("harness: no column info in context")
	}
	if info.Index() < len(s.settings) && s.settings[info.Index()] != nil {
		return encryptor.NewContextWithEncryptionSetting(ctx, s.settings[info.Index()]), data, nil
	}
	return ctx, data, nil
}

func revealList(cols []rowCol) [][]byte {
	out := make([][]byte, len(cols))
	for i, c := range cols {
		if c.reveal != "none" {
			p := core.UnHex(c.reveal)
			if p == nil {
				p = []byte{}
			}
			out[i] = p
		}
	}
	return out
}

func be16(n int) []byte { return []byte{byte(n >> 8), byte(n)} }
func be32(n int) []byte { return []byte{byte(n >> 24), byte(n >> 16), byte(n >> 8), byte(n)} }

func pgDataRow(cols []rowCol) []byte {
	body := be16(len(cols))
	for _, c := range cols {
		if c.wire == nil {
			body = append(body, 0xff, 0xff, 0xff, 0xff)
			continue
		}
		body = append(body, be32(len(c.wire))...)
		body = append(body, c.wire...)
	}
	return append(append([]byte{'D'}, be32(len(body)+4)...), body...)
}

// parseCodes: `simple` → (nil, false); `_` → ([], true); `1,0` → ([1 0], true)
func parseCodes(tok string) ([]uint16, bool) {
	if tok == "simple" {
		return nil, false
	}
	codes := []uint16{}
	if tok != "_" {
		for _, t := range strings.Split(tok, ",") {
			codes = append(codes, uint16(core.Atoi(t)))
		}
	}
	return codes, true
}

func bindWithResultFormats(codes []uint16) *pg.BindPacket {
	var bind bytes.Buffer
	bind.Write([]byte{0, 0, 0, 0, 0, 0}) // portal "", statement "", 0 parameter formats, 0 parameters
	binary.Write(&bind, binary.BigEndian, uint16(len(codes)))
	for _, f := range codes {
		binary.Write(&bind, binary.BigEndian, f)
	}
	bp, err := pg.NewBindPacket(bind.Bytes())
	if err != nil {
		panic("harness: bind: " + err.Error())
	}
	return bp
}

// pgRowThrough sends the DataRow of `cols` through handleDatabasePacket of `proxy` as the answer to
// `select c0, … from t` (simple query, or Execute of a portal bound with the given result format codes).
func pgRowThrough(proxy *pg.PgProxy, ctx context.Context, codesTok string, cols []rowCol) string {
	query := rowQuery(len(cols))
	codes, extended := parseCodes(codesTok)
	var err error
	if extended {
		err = proxy.VerifAddPendingExtendedQuery("", query, bindWithResultFormats(codes))
	} else {
		err = proxy.VerifAddPendingQuery(query)
	}
	if err != nil {
		panic("harness: pending: " + err.Error())
	}
	ph, _ := pg.NewDbSidePacketHandler(bytes.NewReader(pgDataRow(cols)), nil, quietLogger)
	if err := ph.ReadPacket(); err != nil {
		panic("harness: data row: " + err.Error())
	}
	if err := proxy.VerifHandleDatabasePacket(ctx, ph, quietLogger); err != nil {
		return showErr(err)
	}
	out, err := ph.Marshal()
	if err != nil {
		return core.Err
	}
	// re-parse the DataRow the client receives
	if len(out) < 7 || out[0] != 'D' || int(binary.BigEndian.Uint32(out[1:5])) != len(out)-1 {
		return "bad-datarow"
	}
	n := int(binary.BigEndian.Uint16(out[5:7]))
	p := 7
	var vals []string
	for i := 0; i < n; i++ {
		if p+4 > len(out) {
			return "bad-datarow"
		}
		l := binary.BigEndian.Uint32(out[p : p+4])
		p += 4
		if l == 0xffffffff {
			vals = append(vals, "null")
			continue
		}
		if p+int(l) > len(out) {
			return "bad-datarow"
		}
		vals = append(vals, core.Hex(out[p:p+int(l)]))
		p += int(l)
	}
	if p != len(out) || n != len(cols) {
		return "bad-datarow"
	}
	return "cols " + joinComma(vals)
}

// myRowThrough runs one result row through the handler's row processor. Returns per column `<hex>:<rollback>:<type>`.
func myRowThrough(h *my.Handler, ctx context.Context, store config.TableSchemaStore, binaryFmt bool, cols []rowCol) string {
	fields := make([]*my.ColumnDescription, len(cols))
	for i, c := range cols {
		fields[i] = &my.ColumnDescription{Table: []byte("t"), Name: []byte(colName(i)), Type: mybase.Type(c.origType)}
		my.VerifUpdateFieldEncodedType(fields[i], store)
	}
	var row, out []byte
	var err error
	if binaryFmt {
		bitmap := make([]byte, (len(cols)+7+2)>>3)
		var vals []byte
		for i, c := range cols {
			if c.wire == nil {
				bitmap[(i+2)/8] |= 1 << (uint(i+2) % 8)
				continue
			}
			vals = append(vals, myWire(mybase.Type(c.origType), c.wire)...)
		}
		row = append(append([]byte{0}, bitmap...), vals...)
		out, err = h.VerifProcessBinaryDataRow(ctx, row, fields)
	} else {
		for _, c := range cols {
			if c.wire == nil {
				row = append(row, 0xfb)
			} else {
				row = append(row, mybase.PutLengthEncodedString(c.wire)...)
			}
		}
		out, err = h.VerifProcessTextDataRow(ctx, row, fields)
	}
	if err != nil {
		return showErr(err)
	}
	// split the row the client receives under the column types it is (finally) told
	p := 0
	if binaryFmt {
		p = 1 + (len(cols)+7+2)>>3
		if len(out) < p || !bytes.Equal(out[:p], row[:p]) {
			return "bad-row"
		}
	}
	var vals []string
	for i, c := range cols {
		if c.wire == nil {
			if !binaryFmt {
				if p >= len(out) || out[p] != 0xfb {
					return "bad-row"
				}
				p++
			}
			vals = append(vals, "null")
			continue
		}
		changed, origin := fields[i].VerifChanged()
		rollback := changed && fields[i].Type == origin
		var v []byte
		if w, ok := mybase.NumericTypesStorageBytes[fields[i].Type]; ok && binaryFmt {
			if p+int(w) > len(out) {
				return "bad-row"
			}
			v = out[p : p+int(w)]
			p += int(w)
		} else {
			_, n, err := mybase.LengthEncodedString(out[p:])
			if err != nil || p+n > len(out) {
				return "bad-row"
			}
			v = out[p : p+n]
			p += n
		}
		vals = append(vals, fmt.Sprintf("%s:%v:%d", core.Hex(v), rollback, fields[i].Type))
	}
	if p != len(out) {
		return "bad-row"
	}
	return "cols " + joinComma(vals)
}

// ---- argument parsing: `<n>` then k tokens per column ----

func parsePgRowCols(a []string) []rowCol {
	n := core.Atoi(a[0])
	a = a[1:]
	if len(a) != 7*n {
		panic("harness: C19.pg.row: bad argument count")
	}
	cols := make([]rowCol, n)
	for i := range cols {
		t := a[7*i : 7*i+7]
		cols[i] = rowCol{typ: t[0], onFail: t[1], dflt: parseDefault(t[2]), reveal: t[5], wire: parseWireTok(t[6])}
	}
	return cols
}

func parseMyRowCols(a []string) []rowCol {
	n := core.Atoi(a[0])
	a = a[1:]
	if len(a) != 8*n {
		panic("harness: C19.my.row: bad argument count")
	}
	cols := make([]rowCol, n)
	for i := range cols {
		t := a[8*i : 8*i+8]
		cols[i] = rowCol{typ: t[0], onFail: t[1], dflt: parseDefault(t[2]), origType: core.Atoi(t[5]), reveal: t[6], wire: parseWireTok(t[7])}
	}
	return cols
}

func parseWireTok(t string) []byte {
	if t == "null" {
		return nil
	}
	b := core.UnHex(t)
	if b == nil {
		b = []byte{}
	}
	return b
}

func showWireTok(b []byte) string {
	if b == nil {
		return "null"
	}
	return core.Hex(b)
}

func (c rowCol) pgTokens() string {
	dt, ut, bt := defaultTokens(c.dflt)
	return fmt.Sprintf("%s %s %s %s %s %s %s", c.typ, c.onFail, dt, ut, bt, c.reveal, showWireTok(c.wire))
}

func (c rowCol) myTokens() string {
	dt, ut, bt := defaultTokens(c.dflt)
	return fmt.Sprintf("%s %s %s %s %s %d %s %s", c.typ, c.onFail, dt, ut, bt, c.origType, c.reveal, showWireTok(c.wire))
}

func init() {
	// C19.pg.row <codes> <n> {<type> <onFail> <default> <utf8> <b64> <reveal> <wire>}×n
	core.Register("C19.pg.row", func(a []string) string {
		cols := parsePgRowCols(a[1:])
		store, _, err := loadRow(cols, config.UsePostgreSQL)
		if err != nil {
			return "badsetting"
		}
		dec, _ := pg.NewPgSQLDataDecoderProcessor()
		enc, _ := pg.NewPgSQLDataEncoderProcessor()
		proxy, ctx := newPgProxy(store, dec, &revealIdx{revealList(cols)}, enc)
		return pgRowThrough(proxy, ctx, a[0], cols)
	})
	// C19.my.row <text|binary> <n> {<type> <onFail> <default> <utf8> <b64> <origType> <reveal> <wire>}×n
	core.Register("C19.my.row", func(a []string) string {
		cols := parseMyRowCols(a[1:])
		store, settings, err := loadRow(cols, config.UseMySQL)
		if err != nil {
			return "badsetting"
		}
		h := my.VerifNewHandler(quietLogger, &settingIdx{settings}, my.NewDataDecoderProcessor(), &revealIdx{revealList(cols)}, my.NewDataEncoderProcessor())
		ctx := base.SetAccessContextToContext(context.Background(), base.NewAccessContext(base.WithClientID([]byte("client"))))
		return myRowThrough(h, ctx, store, a[0] == "binary", cols)
	})
	// the same rows through the factory-wired proxies of the reader `owner_a` with the real key store; the stored
	// values are given as they are (produced by C19.chain.protect)
	core.Register("C19.chain.pgrow", func(a []string) string {
		chainSetup()
		cols := parsePgRowCols(a[1:])
		store, _, err := loadRow(cols, config.UsePostgreSQL)
		if err != nil {
			return "badsetting"
		}
		proxy, _, ctx := pgChainProxy(store, "owner")
		return pgRowThrough(proxy, ctx, a[0], cols)
	})
	core.Register("C19.chain.myrow", func(a []string) string {
		chainSetup()
		cols := parseMyRowCols(a[1:])
		store, _, err := loadRow(cols, config.UseMySQL)
		if err != nil {
			return "badsetting"
		}
		session, ctx := chainSession("owner")
		parser := sqlparser.New(sqlparser.ModeDefault)
		ps := base.NewProxySetting(parser, store, chainStore, nil, acracensor.NewAcraCensor(), nil)
		f, err := my.NewProxyFactory(ps, chainStore, chainTok)
		if err != nil {
			panic("harness: " + err.Error())
		}
		p, err := f.New(readerID("owner"), session)
		if err != nil {
			panic("harness: proxy: " + err.Error())
		}
		h := p.(*my.Handler)
		if err := h.VerifOnQuery(ctx, rowQuery(len(cols))); err != nil {
			return core.Err
		}
		return myRowThrough(h, ctx, store, a[0] == "binary", cols)
	})
	// C19.chain.protect <owner|other> <type> <plain>: what the write path stores for an encryption-only column of that
	// type when the value is written by that client (AcraBlock envelope)
	core.Register("C19.chain.protect", func(a []string) string {
		chainSetup()
		setting, _, err := loadSetting(a[1], "empty", "none", false)
		if err != nil {
			panic("harness: protect: " + err.Error())
		}
		out, err := writeChain().EncryptWithClientID(readerID(a[0]), core.UnHex(a[2]), setting)
		if err != nil {
			panic("harness: protect: " + err.Error())
		}
		return core.OkHex(out)
	})
}
