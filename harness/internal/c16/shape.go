package c16

import (
	"verifharness/internal/sqlast"
)

// Shape is the specification twin of `AcraModel.Sql.shape` (Lean): the statement with every value
// position erased – a literal or bind variable becomes `?` (its cast is kept), a list argument and a
// tuple of values on the right of IN / NOT IN become `?list`. Redaction must not change it.
func Shape(t *sqlast.Tree) *sqlast.Tree {
	if t.IsAtom {
		return t
	}
	if ty, _, ok := t.SQLVal(); ok && (IsLiteralType(ty) || ty == ValArg) {
		return &sqlast.Tree{Kind: "?", Kids: shapeKids(t.Kids[2:])}
	}
	if t.Kind == "ListArg" {
		return &sqlast.Tree{Kind: "?list"}
	}
	kids := shapeKids(t.Kids)
	if t.Kind == "ComparisonExpr" && len(t.Kids) == 4 && t.Kids[0].IsAtom {
		op := string(t.Kids[0].Atom)
		right := t.Kids[2]
		if (op == "in" || op == "not in") && !right.IsAtom && right.Kind == "ValTuple" {
			all := true
			for _, it := range right.Kids {
				if ty, _, ok := it.SQLVal(); !ok || !(IsLiteralType(ty) || ty == ValArg) {
					all = false
				}
			}
			if all {
				kids[2] = &sqlast.Tree{Kind: "?list"}
			}
		}
	}
	return &sqlast.Tree{Kind: t.Kind, Kids: kids}
}

func shapeKids(ks []*sqlast.Tree) []*sqlast.Tree {
	out := make([]*sqlast.Tree, len(ks))
	for i, k := range ks {
		out[i] = Shape(k)
	}
	return out
}
