package c16

import (
	"bytes"
	"fmt"
	"os"
	"strings"

	"verifharness/internal/core"
	"verifharness/internal/sqlast"
)

func init() {
	core.RegisterProp("C16", run)
	// C16.shape <tree tokens…> → ok <tree tokens of the shape>   (specification twin of Sql.shape, see shape.go)
	core.Register("C16.shape", func(a []string) string {
		t, _, ok := sqlast.Parse(a)
		if !ok {
			return "bad-tree"
		}
		return "ok " + Shape(t).Tokens()
	})
}

var dialects = []string{"my", "pg", "myansi"}

func hexS(s string) string { return core.Hex([]byte(s)) }

func containsMarker(hay []byte, m string) bool {
	return bytes.Contains(bytes.ToLower(hay), []byte(strings.ToLower(m)))
}

// spellings whose leak is attributed to the spelling (the literal kind), not to the position
func spellingFamily(sp string) string {
	switch sp {
	case "hexstr", "hexnum", "bits", "estr", "estr-quote", "int-big", "int-leading-zero", "exponent-huge":
		return sp
	}
	return ""
}

// knownPosition: literal positions that the redaction does not reach by construction of the AST
// (known findings, each a decidable predicate on the input: where the literal sits in the parsed tree).
//
//	under a DDL statement            → unredacted:ddl
//	under a SHOW statement           → unredacted:show-filter
//	GROUP_CONCAT's SEPARATOR string  → unredacted:group-concat-separator
//	length/scale of a CONVERT/CAST type → unredacted:convert-type-length
func knownPosition(orig *sqlast.Tree, marker string) string {
	if orig == nil {
		return ""
	}
	cls := ""
	var rec func(t *sqlast.Tree, kinds []string)
	rec = func(t *sqlast.Tree, kinds []string) {
		if t.IsAtom {
			if cls == "" && containsMarker(t.Atom, marker) {
				for _, k := range kinds {
					switch k {
					case "DDL":
						cls = "unredacted:ddl"
					case "Show":
						cls = "unredacted:show-filter"
					case "ConvertType":
						cls = "unredacted:convert-type-length"
					}
				}
				if cls == "" && len(kinds) > 0 && kinds[len(kinds)-1] == "GroupConcatExpr" {
					cls = "unredacted:group-concat-separator" // a string field of the node itself, not a value node
				}
			}
			return
		}
		ks := append(kinds[:len(kinds):len(kinds)], t.Kind)
		for _, k := range t.Kids {
			rec(k, ks)
		}
	}
	rec(orig, nil)
	return cls
}

func leakClass(prefix, pos string, spellings, markers []string, leaked string, orig *sqlast.Tree) string {
	if k := knownPosition(orig, leaked); k != "" {
		return k
	}
	for i, m := range markers {
		if m == leaked {
			if f := spellingFamily(spellings[i]); f != "" {
				return prefix + ":spelling-" + f
			}
		}
	}
	return prefix + ":at-" + pos
}

// accepted counts, per template position, the generated statements the parser took
var accepted = map[string]int{}

type stmtCase struct {
	dialect, pos, stmt string
	markers, spellings []string
	expectParse        bool
	orig               *sqlast.Tree
}

// checkStatement runs every op and oracle on one parseable statement.
func checkStatement(r *core.Run, c stmtCase, prefix string, withLogs bool) {
	sh := hexS(c.stmt)
	p := r.Impl("C16.parse " + c.dialect + " " + sh)
	if !strings.HasPrefix(p, "ok ") {
		// some positions accept only some spellings (SET NAMES wants a name, NEXT n VALUES an integer …):
		// not a case. A template that is never accepted is a broken generator (checked at the end of the run).
		r.Tag("template-rejected:" + c.pos + ":" + c.dialect)
		return
	}
	accepted[c.pos]++
	tree := p[3:]
	orig, _, _ := sqlast.Parse(strings.Fields(tree))
	c.orig = orig
	// every marker must be found as a literal of the parsed statement, otherwise the generator is broken
	found := Literals(orig)
	r.Tag(fmt.Sprintf("literals:%d", min(len(found), 9)))

	// --- correspondence: real Normalize (any prefix) and the real two-pass redaction vs the model, same tree
	r.Do("C16.normalize " + c.dialect + " " + hexS(prefix) + " " + sh + " " + tree)
	r.Do("C16.lits " + tree)
	out := r.Do("C16.redacttree " + c.dialect + " " + sh + " " + tree)
	if strings.HasPrefix(out, "ok ") {
		norm, _, _ := sqlast.Parse(strings.Fields(out[3:]))
		// --- oracle 1 (tree): no literal node survives the redaction
		if left := Literals(norm); len(left) > 0 {
			leaked := string(left[0])
			cls := "redact-leak-tree:at-" + c.pos
			if k := knownPosition(orig, leaked); k != "" {
				cls = k
			}
			for i, m := range c.markers {
				if containsMarker(left[0], m) {
					cls = leakClass("redact-leak-tree", c.pos, c.spellings, c.markers, c.markers[i], orig)
				}
			}
			r.Fail(cls, fmt.Sprintf("literal %q is still in the tree after Normalize+maskLiterals: %s [%s]", leaked, c.stmt, c.dialect))
		}
		// --- oracle 1b (fresh names): a placeholder put in place of a literal never carries the name of a bind
		// variable that was already in the statement
		existing := map[string]bool{}
		orig.Walk(func(n *sqlast.Tree, _ []int) {
			if ty, v, ok := n.SQLVal(); ok && ty == ValArg && len(v) > 1 {
				existing[string(v[1:])] = true
			}
			if !n.IsAtom && n.Kind == "ListArg" && len(n.Kids) == 1 && len(n.Kids[0].Atom) > 2 {
				existing[string(n.Kids[0].Atom[2:])] = true
			}
		})
		var pair func(a, b *sqlast.Tree)
		pair = func(a, b *sqlast.Tree) {
			if a.IsAtom || b.IsAtom {
				return
			}
			if ty, _, ok := a.SQLVal(); ok && IsLiteralType(ty) {
				if ty2, v2, ok2 := b.SQLVal(); ok2 && ty2 == ValArg && len(v2) > 1 && existing[string(v2[1:])] {
					r.Fail("placeholder-name-collision", fmt.Sprintf("literal replaced by %s, the name of a bind variable already present: %s [%s]", v2, c.stmt, c.dialect))
				}
				return
			}
			if a.Kind == "ValTuple" && b.Kind == "ListArg" && len(b.Kids) == 1 && len(b.Kids[0].Atom) > 2 && existing[string(b.Kids[0].Atom[2:])] {
				r.Fail("placeholder-name-collision", fmt.Sprintf("IN list replaced by %s, the name of a list argument already present: %s [%s]", b.Kids[0].Atom, c.stmt, c.dialect))
			}
			if a.Kind != b.Kind || len(a.Kids) != len(b.Kids) {
				return
			}
			for i := range a.Kids {
				pair(a.Kids[i], b.Kids[i])
			}
		}
		pair(orig, norm)
		// --- oracle 2 (shape): placeholders stand exactly where literals stood
		so := r.Do("C16.shape " + tree)
		sn := r.Do("C16.shape " + out[3:])
		if so != sn {
			a, _, _ := sqlast.Parse(strings.Fields(so[3:]))
			b, _, _ := sqlast.Parse(strings.Fields(sn[3:]))
			r.Fail("redact-shape:at-"+c.pos, fmt.Sprintf("shape changed by the redaction (%s): %s [%s]", sqlast.FirstDiff(a, b, ""), c.stmt, c.dialect))
		}
	} else {
		r.Fail("redact-op-failed", "redaction op failed ("+out+") on "+c.stmt)
	}

	// --- oracle 3 (text): no marker in the redacted text of both entry points
	red := r.Impl("C16.redact " + c.dialect + " " + sh)
	if !r.Check(strings.HasPrefix(red, "ok "), "redact-rejects-parseable", "RedactSQLQuery fails on a parseable statement: "+c.stmt) {
		return
	}
	redText := core.UnHex(red[3:])
	for _, m := range c.markers {
		if containsMarker(redText, m) {
			r.Fail(leakClass("redact-leak", c.pos, c.spellings, c.markers, m, orig), fmt.Sprintf("literal %q appears in the redacted form %q of %q [%s]", m, redText, c.stmt, c.dialect))
		}
	}
	for _, mode := range []string{"strict", "default"} {
		hr := r.Impl("C16.handleraw " + c.dialect + " " + mode + " " + sh)
		f := strings.Fields(hr)
		if !r.Check(len(f) == 4 && f[0] == "ok" && f[3] == "parsed", "handleraw-rejects-parseable", "HandleRawSQLQuery("+mode+") = "+trunc(hr)+" on "+c.stmt) {
			continue
		}
		for _, m := range c.markers {
			if containsMarker(core.UnHex(f[2]), m) {
				r.Fail(leakClass("redact-leak", c.pos, c.spellings, c.markers, m, orig), fmt.Sprintf("literal %q appears in HandleRawSQLQuery's redacted text %q [%s]", m, core.UnHex(f[2]), c.dialect))
			}
		}
	}
	// --- oracle 4: the redacted text parses back to the same shape (it is a statement of the same form)
	rp := r.Impl("C16.parse " + c.dialect + " " + core.Hex(redText))
	if !strings.HasPrefix(rp, "ok ") {
		// a few grammar positions accept a string but no placeholder (SET NAMES, PostgreSQL INTERVAL): the
		// shape of those is judged on the tree only
		r.Tag("redacted-text-not-reparseable:" + c.pos)
	} else {
		a, _, _ := sqlast.Parse(strings.Fields(rp[3:]))
		if sa, sb := Shape(a), Shape(orig); !sqlast.Equal(sa, sb) {
			r.Fail("redact-shape-text:at-"+c.pos, fmt.Sprintf("redacted text %q has another shape than %q (%s) [%s]", redText, c.stmt, sqlast.FirstDiff(sb, sa, ""), c.dialect))
		}
	}
	// --- oracle 5 (logs): no marker in any captured log entry, whatever the firewall configuration and level
	if withLogs {
		cfg := core.Pick(r.Rand, CensorConfigNames)
		level := core.Pick(r.Rand, []string{"debug", "debug", "verbose", "discard"})
		format := core.Pick(r.Rand, []string{"plaintext", "json", "cef"})
		checkLog(r, c, cfg, level, format, false)
	}
}

func checkLog(r *core.Run, c stmtCase, cfg, level, format string, verbose bool) {
	v := "0"
	if verbose {
		v = "1"
	}
	lo := r.Impl(fmt.Sprintf("C16.log %s %s %s %s %s %s", c.dialect, cfg, level, format, v, hexS(c.stmt)))
	f := strings.Fields(lo)
	if len(f) != 3 {
		r.Fail("log-op-failed", "log capture failed: "+trunc(lo))
		return
	}
	r.Tag("log:"+level, "log-cfg:"+cfg, "log-verdict:"+f[0])
	logged := core.UnHex(f[2])
	if level == "debug" && !bytes.Contains(logged, []byte("verif")) {
		r.Fail("log-capture-empty", "debug level produced no captured entry – the capture is broken")
	}
	for _, m := range c.markers {
		if containsMarker(logged, m) {
			cls := leakClass("log-leak", c.pos, c.spellings, c.markers, m, c.orig)
			if !c.expectParse {
				cls = "log-leak-unparseable:" + level
				if verbose {
					cls = "log-leak-unparseable:debug-tokenizer-verbose"
				}
			}
			entry := string(logged)
			for _, l := range strings.Split(entry, "\n") {
				if containsMarker([]byte(l), m) {
					entry = l
					break
				}
			}
			r.Fail(cls, fmt.Sprintf("literal %q of %q reaches the log (cfg=%s level=%s format=%s): %s", m, c.stmt, cfg, level, format, trunc(entry)))
			return
		}
	}
}

func trunc(s string) string {
	if len(s) > 300 {
		return s[:300] + "…"
	}
	return s
}

// checkBroken: statements the parser rejects must not surface anywhere.
func checkBroken(r *core.Run, c stmtCase) {
	sh := hexS(c.stmt)
	p := r.Impl("C16.parse " + c.dialect + " " + sh)
	if strings.HasPrefix(p, "ok ") {
		r.Tag("broken-form-parses")
		return // not unparseable after all (dialect differences) – covered by the structured stream
	}
	red := r.Impl("C16.redact " + c.dialect + " " + sh)
	r.Check(red == core.Err, "redact-unparseable-text", "RedactSQLQuery returns text for an unparseable statement: "+trunc(red))
	hs := r.Impl("C16.handleraw " + c.dialect + " strict " + sh)
	r.Check(hs == core.Err, "handleraw-unparseable-text:strict", "HandleRawSQLQuery(strict) returns text for an unparseable statement: "+trunc(hs))
	hd := r.Impl("C16.handleraw " + c.dialect + " default " + sh)
	if f := strings.Fields(hd); len(f) >= 3 {
		for _, m := range c.markers {
			if containsMarker(core.UnHex(f[2]), m) {
				r.Fail("handleraw-unparseable-text:default", fmt.Sprintf("HandleRawSQLQuery of the server's default parser returns the raw unparseable statement as its redacted text (literal %q): %q", m, c.stmt))
				break
			}
		}
	}
	for _, level := range []string{"debug", "verbose", "discard"} {
		cfg := core.Pick(r.Rand, CensorConfigNames)
		checkLog(r, c, cfg, level, core.Pick(r.Rand, []string{"plaintext", "json", "cef"}), false)
	}
	// acra-server -d also switches the tokenizer's verbose errors on (token near the error is printed)
	checkLog(r, c, core.Pick(r.Rand, CensorConfigNames), "debug", "plaintext", true)
}

func run(r *core.Run) {
	r.Rule = "statements = templates (one per literal position: select list, conditions, IN, BETWEEN, LIKE, function arguments, VALUES rows, SET, LIMIT/OFFSET, HAVING, sub-selects, unions, RETURNING, EXECUTE …) × literal spellings (single/double quoted, escapes, E'', casts, integers incl. negative/huge/leading zero, decimals, exponents, X'', 0x, b'') with a unique marker per literal, both dialects; boundary: dedup threshold 256, colliding bind names; malformed: statements the parser rejects. A case is non-trivial when the statement holds ≥ 1 literal; distinct by statement text"
	rd := r.Rand
	if os.Getenv("VERIF_C16_ONLY") == "sessions" { // development aid: the session stream alone
		runSessions(r)
		return
	}

	// 0. regression corpus: witnesses of the defects found (fixed or known) run first
	for i, w := range regressionCorpus {
		r.Begin(fmt.Sprintf("corpus-%d", i), true, "stream:corpus")
		if w.broken {
			checkBroken(r, stmtCase{dialect: w.dialect, pos: w.pos, stmt: w.stmt, markers: w.markers, spellings: w.spellings})
		} else {
			checkStatement(r, stmtCase{dialect: w.dialect, pos: w.pos, stmt: w.stmt, markers: w.markers, spellings: w.spellings, expectParse: true}, "replaced", true)
		}
	}

	// 1. exhaustive small product: every template × every spelling forced at all holes (both dialects)
	for _, d := range dialects {
		for _, t := range templatesFor(Templates, d) {
			sps := spellingsFor(d, false)
			for si := range sps {
				sp := sps[si]
				if !r.Thorough() && !r.Widen && si%3 != int(r.Seed+uint64(len(t.Pos)))%3 && spellingFamily(sp.Name) == "" {
					continue // quick tier: a third of the ordinary spellings per template, all special ones
				}
				stmt, ms, ss := Instantiate(t, d, rd, &sp)
				r.Begin("tpl:"+d+":"+stmt, len(ms) > 0, "stream:structured", "pos:"+t.Pos, "dialect:"+d)
				checkStatement(r, stmtCase{d, t.Pos, stmt, ms, ss, true, nil}, "replaced", si%4 == 0)
			}
		}
	}
	r.Exhaustive = false

	// 2. random mixes
	for i := 0; i < r.N(400, 12000); i++ {
		d := core.Pick(rd, dialects)
		t := core.Pick(rd, templatesFor(Templates, d))
		stmt, ms, ss := Instantiate(t, d, rd, nil)
		prefix := core.Pick(rd, []string{"replaced", "replaced", "v", "bv"})
		r.Begin("mix:"+d+":"+stmt, len(ms) > 0, "stream:structured", "pos:"+t.Pos, "dialect:"+d)
		checkStatement(r, stmtCase{d, t.Pos, stmt, ms, ss, true, nil}, prefix, i%5 == 0)
	}

	// 3. boundary: dedup threshold, name collisions, duplicated values
	for _, d := range []string{"my", "pg"} {
		for _, n := range []int{0, 1, 255, 256, 257, 300} {
			v := strings.Repeat("k", n)
			stmt := fmt.Sprintf("select a from t where b = '%s' and c = '%s' and d = 17 and e = 17 and f = '17'", v, v)
			r.Begin("dedup:"+d+":"+stmt, true, "stream:boundary", "pos:dedup-threshold")
			checkStatement(r, stmtCase{d, "dedup-threshold", stmt, nil, nil, true, nil}, "replaced", false)
			stmt2 := fmt.Sprintf("update t set a = '%s', b = '%s', c = 17, d = 17", v, v)
			r.Begin("dedup:"+d+":"+stmt2, true, "stream:boundary", "pos:dedup-threshold")
			checkStatement(r, stmtCase{d, "dedup-threshold", stmt2, nil, nil, true, nil}, "replaced", false)
		}
	}
	for _, stmt := range []string{
		"select a from t where b = :replaced1 and c = 'Zq1x1z' and d = :replaced2 and e = 73100001",
		"select a from t where b = :replaced2 and c = 'Zq1x1z' and d in ::replaced1 and e = 73100001 and f = :replaced4",
		"select a from t where b = :v1 and c = 'Zq1x1z' and d = :v3 and e in ('Zq2x2z', 73100001)",
		"insert into t (a, b) values (:replaced1, 'Zq1x1z'), (:replaced3, 'Zq2x2z')",
		"select a from t where b = :replaced1 union select c from u where d = 'Zq1x1z' and e = :replaced2",
	} {
		for _, prefix := range []string{"replaced", "v"} {
			r.Begin("collide:"+prefix+":"+stmt, true, "stream:boundary", "pos:name-collision")
			checkStatement(r, stmtCase{"my", "name-collision", stmt, []string{"Zq1x1z"}, []string{"sq"}, true, nil}, prefix, false)
		}
	}

	// 4. positions the AST keeps outside value nodes / under DDL nodes
	for _, d := range []string{"my"} {
		for _, t := range templatesFor(SpecialTemplates, d) {
			for k := 0; k < 3; k++ {
				var force *Spelling
				if k == 0 {
					force = &Spellings[0] // plain single-quoted string (numeric holes fall back to a random number form)
				}
				stmt, ms, ss := Instantiate(t, d, rd, force)
				r.Begin("special:"+d+":"+stmt, true, "stream:structured", "pos:"+t.Pos)
				checkStatement(r, stmtCase{d, t.Pos, stmt, ms, ss, true, nil}, "replaced", k == 0)
			}
		}
	}

	// 4b. log trace correspondence: real censor + handlers vs the logging model (LogModel.lean), message by message
	handlerSpecs := [][]string{{}, {"allowall"}, {"denyall"}, {"denyt"}, {"allowt"}, {"denyq", "allowt"}, {"cap", "denyt", "allowall"},
		{"ign1", "denyall"}, {"ign0", "denyall"}, {"allowq", "denyall"}, {"denyq", "allowq", "allowt", "denyall"}, {"cap"}, {"allowt", "denyt"}}
	traceStmts := []string{"select a from t where b = 'Zq1x1z' and c = 731337", knownQuery, "select c from u where d = 'Zq1x1z'", "",
		"select a from t where b = 'Zq1x1z' and", "insert into t (a) values ('Zq1x1z')", "select 1 from dual"}
	for i := 0; i < r.N(150, 3000); i++ {
		specs := core.Pick(rd, handlerSpecs)
		stmt := core.Pick(rd, traceStmts)
		if rd.Chance(40) {
			d := core.Pick(rd, []string{"my", "pg"})
			t := core.Pick(rd, templatesFor(Templates, d))
			stmt, _, _ = Instantiate(t, d, rd, nil)
		}
		d := core.Pick(rd, []string{"my", "pg"})
		line := TraceLine(d, rd.Chance(60), rd.Chance(30), specs, stmt)
		r.Begin("trace:"+line, true, "stream:structured", "logtrace")
		got := r.Do(line)
		for _, e := range strings.Split(strings.TrimPrefix(strings.TrimPrefix(got, "allowed "), "denied "), ",") {
			if e == "-" || e == "" {
				continue
			}
			if !strings.HasSuffix(e, ":none") && !strings.HasSuffix(e, ":redacted") {
				r.Fail("log-payload-not-redacted", fmt.Sprintf("a log entry prints statement text that is not the redacted one (%s): handlers=%v stmt=%q", e, specs, stmt))
			}
		}
	}

	// 5. malformed: statements the parser rejects
	for i := 0; i < r.N(60, 1500); i++ {
		d := core.Pick(rd, dialects)
		form := brokenForms[i%len(brokenForms)]
		form = strings.ReplaceAll(form, "{M}", strMarker(9, rd))
		stmt, ms, ss := Instantiate(Template{"broken", "", form}, d, rd, nil)
		if strings.Contains(form, "Zq9x") {
			ms = append(ms, form[strings.Index(form, "Zq9x"):][:strings.IndexByte(form[strings.Index(form, "Zq9x"):], 'z')+1])
			ss = append(ss, "sq")
		}
		r.Begin("broken:"+d+":"+stmt, true, "stream:malformed", "pos:broken")
		checkBroken(r, stmtCase{dialect: d, pos: "broken", stmt: stmt, markers: ms, spellings: ss})
	}
	// 6. real sessions through the real proxies under the full log capture
	runSessions(r)

	// 7. the two functions that take the value out of an error text (repo patches 81, 82)
	runErrTexts(r)

	for _, t := range append(append([]Template{}, Templates...), SpecialTemplates...) {
		if accepted[t.Pos] == 0 {
			panic("harness: C16 generator: template " + t.Pos + " was never accepted by the parser: " + t.Text)
		}
	}
	r.Extra["templates"] = len(Templates) + len(SpecialTemplates)
	r.Extra["spellings"] = len(Spellings)
	r.Extra["censor_configs"] = len(CensorConfigNames)
}

type witness struct {
	dialect, pos, stmt string
	markers, spellings []string
	broken             bool
}

// regressionCorpus: failing inputs of the defects this check found on the pinned tree.
var regressionCorpus = []witness{
	{"pg", "where-eq", "select a from t where b = E'Zq1x1z'", []string{"Zq1x1z"}, []string{"estr"}, false},
	{"my", "where-eq", "select a from t where b = X'AB12CD' or c = 0xab34cd or d = b'1011001110001111'", []string{"AB12CD", "ab34cd", "1011001110001111"}, []string{"hexstr", "hexnum", "bits"}, false},
	{"my", "where-eq", "select a from t where b = 99999999999999731337", []string{"731337"}, []string{"int-big"}, false},
	{"my", "where-eq", "select a from t where b = 0899731337", []string{"731337"}, []string{"int-leading-zero"}, false},
	{"my", "where-eq", "select a from t where b = 1.731337e999", []string{"731337"}, []string{"exponent-huge"}, false},
	{"my", "in-list", "select a from t where b in ('Zq1x1z', X'AB12CD')", []string{"Zq1x1z", "AB12CD"}, []string{"sq", "hexstr"}, false},
	{"my", "union-order-limit", "select a from t union select c from u order by 'Zq1x1z' limit 731337", []string{"Zq1x1z", "731337"}, []string{"sq", "int"}, false},
	{"pg", "returning-insert", "insert into t (a) values ('Zq0x0z') returning a, 'Zq1x1z', id + 731337", []string{"Zq0x0z", "Zq1x1z", "731337"}, []string{"sq", "sq", "int"}, false},
	{"pg", "update-from", "update t set a = 'Zq0x0z' from (select x from u where y = 'Zq1x1z') as s where t.id = s.x returning 'Zq2x2z'", []string{"Zq0x0z", "Zq1x1z", "Zq2x2z"}, []string{"sq", "sq", "sq"}, false},
	{"pg", "returning-delete", "delete from t where a = 'Zq0x0z' returning 'Zq1x1z'", []string{"Zq0x0z", "Zq1x1z"}, []string{"sq", "sq"}, false},
	{"pg", "execute-values", "execute stmt1 ('Zq1x1z', 731337)", []string{"Zq1x1z", "731337"}, []string{"sq", "int"}, false},
	{"my", "broken", "select a from t where b = 'Zq1x1z' and", []string{"Zq1x1z"}, []string{"sq"}, true},
	{"my", "broken", "create table t (a int default 'Zq1x1z' garbage garbage)", []string{"Zq1x1z"}, []string{"sq"}, true},
}

func min(a, b int) int {
	if a < b {
		return a
	}
	return b
}
