package c16

import (
	"encoding/binary"
	"encoding/json"
	"fmt"
	"regexp"
	"strconv"
	"strings"

	"verifharness/internal/c04/fakemy"
	"verifharness/internal/core"
)

// Generator of sessions for C16.pgsession / C16.mysession and the oracle on their outcome.
//
// A session is 3–9 client actions taken from five sources:
//   template  – a statement template of gen.go (one per literal position) × literal spellings, sent as a simple query
//   bound     – the same templates with a part of the holes turned into placeholders, sent through the extended
//               protocol (PG: Parse/Bind/Describe/Execute/Sync, unnamed and named; MySQL: COM_STMT_PREPARE/EXECUTE/CLOSE)
//               with text and binary parameter values
//   rows      – INSERT / SELECT / UPDATE over the protected tables that the fake database really executes, so that
//               stored values travel back through the decrypting / detokenizing / masking response path
//   broken    – statements the parser rejects (simple and Parse)
//   dberror   – any of the above answered by the database with an error that quotes statement and parameter values

type sessMeta struct {
	unparseable map[int]bool // steps whose statement Acra's parser rejects
	sources     []string
}

var pgParamKinds = []string{"text-str", "text-str", "text-num", "bin-int4", "bin-int8", "bin-bytes", "bin-str"}
var myParamKinds = []string{"str", "str", "blob", "long", "longlong", "str-num"}

type genParam struct {
	p    Param
	oid  uint32
	kind string
	val  []byte // the value as the application meant it (marker inside)
	num  string // decimal spelling for integer kinds
}

// makeParam builds a bound value of the given kind around a fresh marker for hole k.
func makeParam(dialect, kind string, k int, numeric bool, rd *core.Rand) genParam {
	str := strMarker(k, rd)
	numS := numMarker(k, rd)
	n, _ := strconv.ParseInt(numS, 10, 64)
	g := genParam{kind: kind}
	switch kind {
	case "text-str", "str":
		g.val = []byte(str)
		if numeric {
			g.val, g.num = []byte(numS), numS
		}
		g.p = Param{Hex: core.Hex(g.val), Type: fakemy.TypeVarString}
		g.oid = 25
	case "text-num", "str-num":
		g.val, g.num = []byte(numS), numS
		g.p = Param{Hex: core.Hex(g.val), Type: fakemy.TypeVarString}
		g.oid = 23
	case "bin-int4":
		b := make([]byte, 4)
		binary.BigEndian.PutUint32(b, uint32(n))
		g.val, g.num = b, numS
		g.p = Param{Hex: core.Hex(b), Bin: true}
		g.oid = 23
	case "bin-int8":
		b := make([]byte, 8)
		binary.BigEndian.PutUint64(b, uint64(n))
		g.val, g.num = b, numS
		g.p = Param{Hex: core.Hex(b), Bin: true}
		g.oid = 20
	case "bin-bytes", "blob":
		g.val = append(append([]byte{0x00, 0xfe}, []byte(str)...), 0xff, 0x27)
		g.p = Param{Hex: core.Hex(g.val), Bin: true, Type: fakemy.TypeBlob}
		g.oid = 17
	case "bin-str":
		g.val = []byte(str)
		g.p = Param{Hex: core.Hex(g.val), Bin: true}
		g.oid = 25
	case "long":
		g.val, g.num = []byte(numS), numS
		g.p = Param{Hex: core.Hex(g.val), Type: fakemy.TypeLong}
	case "longlong":
		g.val, g.num = []byte(numS), numS
		g.p = Param{Hex: core.Hex(g.val), Type: fakemy.TypeLongLong}
	default:
		panic("harness: param kind " + kind)
	}
	return g
}

// needlesOfParam: every rendering of the bound value (and of the bytes it has on the wire).
func needlesOfParam(step, idx int, g genParam) []Needle {
	var out []Needle
	add := func(tag string, v []byte, asInt string) {
		for name, b := range Renderings(v, asInt) {
			if len(b) < 6 {
				continue // too short to be told from coincidence
			}
			out = append(out, Needle{ID: fmt.Sprintf("param:%d:%d:%s:%s%s", step, idx, g.kind, tag, name), Hex: core.Hex(b),
				Fold: name == "hex" || name == "raw" && g.num == "", Step: step})
		}
	}
	add("", g.val, g.num)
	switch g.kind {
	case "long":
		n, _ := strconv.ParseInt(g.num, 10, 64)
		b := make([]byte, 4)
		binary.LittleEndian.PutUint32(b, uint32(n))
		add("wire-", b, "")
	case "longlong":
		n, _ := strconv.ParseInt(g.num, 10, 64)
		b := make([]byte, 8)
		binary.LittleEndian.PutUint64(b, uint64(n))
		add("wire-", b, "")
	}
	return out
}

func needlesOfLits(step int, markers, spellings []string) []Needle {
	var out []Needle
	for i, m := range markers {
		out = append(out, Needle{ID: fmt.Sprintf("lit:%d:%d:%s", step, i, spellings[i]), Hex: core.Hex([]byte(m)), Fold: true, Step: step})
	}
	return out
}

var holeRe = regexp.MustCompile(`\{[LN]\}`)

// instantiateBound fills the holes of a template: each becomes a literal (a random spelling) or – with probability
// pBound % – a placeholder with a bound value.
func instantiateBound(t Template, dialect string, rd *core.Rand, pBound int, step int) (stmt string, lits, spells []string, params []genParam) {
	k := 0
	kinds := pgParamKinds
	if dialect == "my" {
		kinds = myParamKinds
	}
	stmt = holeRe.ReplaceAllStringFunc(t.Text, func(h string) string {
		defer func() { k++ }()
		numeric := h == "{N}"
		if rd.Chance(pBound) {
			kind := core.Pick(rd, kinds)
			if numeric {
				switch dialect {
				case "pg":
					kind = core.Pick(rd, []string{"text-num", "bin-int4", "bin-int8"})
				default:
					kind = core.Pick(rd, []string{"long", "longlong", "str-num"})
				}
			}
			params = append(params, makeParam(dialect, kind, k, numeric, rd))
			if dialect == "pg" {
				return fmt.Sprintf("$%d", len(params))
			}
			return "?"
		}
		sp := core.Pick(rd, spellingsFor(dialect, numeric))
		lit, m := sp.Render(k, rd)
		lits = append(lits, m)
		spells = append(spells, sp.Name)
		return lit
	})
	return
}

func acraParses(dialect, stmt string) bool {
	SetDialect(dialect)
	_, err := parseStrict(stripped(stmt))
	return err == nil
}

// rowsStatements: an INSERT, a SELECT and an UPDATE over table t (or u) that the fake database executes; the values
// are markers, literal or bound.
func rowsSteps(dialect string, rd *core.Rand, first int, bound bool) (steps []Step, needles []Needle) {
	table := core.Pick(rd, []string{"t", "t", "u"})
	idM := numMarker(0, rd)
	type cell struct {
		col     string
		numeric bool
	}
	cells := []cell{{"a", false}, {"b", false}, {"c", false}, {"d", true}, {"e", false}, {"f", false}}
	mk := func(kind string, sqlf func(ph func(c cell, k int) string) string, step int) {
		var params []genParam
		var lits, spells []string
		k := 0
		ph := func(c cell, _ int) string {
			k++
			if bound && rd.Chance(70) {
				var kind string
				switch {
				case dialect == "pg" && c.numeric:
					kind = core.Pick(rd, []string{"text-num", "bin-int4"})
				case dialect == "pg":
					kind = core.Pick(rd, []string{"text-str", "bin-str", "bin-bytes"})
				case c.numeric:
					kind = core.Pick(rd, []string{"long", "str-num"})
				default:
					kind = core.Pick(rd, []string{"str", "blob"})
				}
				params = append(params, makeParam(dialect, kind, k, c.numeric, rd))
				if dialect == "pg" {
					return fmt.Sprintf("$%d", len(params))
				}
				return "?"
			}
			if c.numeric {
				m := numMarker(k, rd)
				lits, spells = append(lits, m), append(spells, "int")
				return m
			}
			m := strMarker(k, rd)
			lits, spells = append(lits, m), append(spells, "sq")
			return "'" + m + "'"
		}
		sql := sqlf(ph)
		st := Step{SQL: sql}
		for i, g := range params {
			st.Params = append(st.Params, g.p)
			needles = append(needles, needlesOfParam(step, i, g)...)
		}
		needles = append(needles, needlesOfLits(step, lits, spells)...)
		switch {
		case len(params) == 0 && !bound:
			st.Kind = "simple"
			steps = append(steps, st)
		case dialect == "pg":
			st.Kind = "ext"
			if rd.Bool() {
				st.RFmt = []int16{int16(rd.Intn(2))}
			}
			steps = append(steps, st)
		default:
			st.Kind, st.Name = "prepare", fmt.Sprintf("r%d", step)
			ex := Step{Kind: "execute", Name: st.Name, Params: st.Params}
			st.Params = nil
			// the execute step carries the needles' step number of the prepare step + 1
			steps = append(steps, st, ex, Step{Kind: "close", Name: st.Name})
		}
	}
	next := func() int { return first + len(steps) }
	mk("insert", func(ph func(cell, int) string) string {
		var vs []string
		for i, c := range cells {
			vs = append(vs, ph(c, i))
		}
		return fmt.Sprintf("insert into %s (id, a, b, c, d, e, f) values (%s, %s)", table, idM, strings.Join(vs, ", "))
	}, next())
	needles = append(needles, Needle{ID: fmt.Sprintf("lit:%d:id:int", first), Hex: core.Hex([]byte(idM)), Fold: true, Step: first})
	mk("select", func(ph func(cell, int) string) string {
		return fmt.Sprintf("select id, a, b, c, d, e, f from %s where id = %s", table, idM)
	}, next())
	if rd.Bool() {
		mk("update", func(ph func(cell, int) string) string {
			c := core.Pick(rd, cells)
			c2 := core.Pick(rd, cells)
			if c2.col == c.col {
				return fmt.Sprintf("update %s set %s = %s where id = %s", table, c.col, ph(c, 0), idM)
			}
			return fmt.Sprintf("update %s set %s = %s, %s = %s where id = %s", table, c.col, ph(c, 0), c2.col, ph(c2, 1), idM)
		}, next())
		mk("select", func(ph func(cell, int) string) string {
			return fmt.Sprintf("select a, b, c, d, e, f from %s where id = %s", table, idM)
		}, next())
	}
	// a search by a protected column (searchable / tokenized columns rewrite the operand)
	if rd.Bool() {
		mk("search", func(ph func(cell, int) string) string {
			c := core.Pick(rd, cells)
			return fmt.Sprintf("select id, %s from %s where %s = %s", c.col, table, c.col, ph(c, 0))
		}, next())
	}
	return
}

// GenSession builds one session script.
func GenSession(rd *core.Rand, dialect string, thorough bool) (*Script, *sessMeta) {
	sc := &Script{Dialect: dialect, Seed: rd.U64()}
	meta := &sessMeta{unparseable: map[int]bool{}}
	sc.Level = core.Pick(rd, []string{"debug", "debug", "debug", "trace", "trace", "info", "info", "warn"})
	sc.Parser = core.Pick(rd, []string{"default", "default", "strict"})
	sc.Censor = core.Pick(rd, CensorConfigNames)
	if rd.Chance(35) {
		sc.Censor = core.Pick(rd, []string{"none", "allowall", "allowtables", "ignoreparse"}) // let more statements reach the encryptors
	}
	sc.Enc = core.Pick(rd, []string{"mixed1", "mixed1", "mixed2", "mixed2", "none"})
	sc.Keys = core.Pick(rd, []string{"full", "full", "full", "none"})
	sc.DeprecateEOF = dialect == "my" && rd.Chance(30)
	d := dialect
	nsrc := 2 + rd.Intn(4)
	for s := 0; s < nsrc; s++ {
		first := len(sc.Steps)
		src := core.Pick(rd, []string{"template", "template", "bound", "bound", "bound", "rows", "rows", "broken"})
		meta.sources = append(meta.sources, src)
		switch src {
		case "template":
			t := core.Pick(rd, templatesFor(Templates, d))
			stmt, ms, ss := Instantiate(t, d, rd, nil)
			st := Step{Kind: "simple", SQL: stmt}
			if d == "pg" && len(ms) > 0 && rd.Chance(35) {
				// the database answers with rows that hold the statement's own values (`select 'x'` echoes x; a
				// search returns what was searched for): they travel back through the response processors
				for k := 0; k < 1+rd.Intn(2); k++ {
					var row []string
					for c := 0; c < 1+rd.Intn(3); c++ {
						row = append(row, core.Hex([]byte(core.Pick(rd, ms))))
					}
					st.Rows = append(st.Rows, row)
				}
				st.Rows = [][]string{st.Rows[0]}
			}
			sc.Steps = append(sc.Steps, st)
			sc.Needles = append(sc.Needles, needlesOfLits(first, ms, ss)...)
		case "bound":
			t := core.Pick(rd, templatesFor(Templates, d))
			stmt, ms, ss, ps := instantiateBound(t, d, rd, 60, first)
			st := Step{SQL: stmt}
			for i, g := range ps {
				st.Params = append(st.Params, g.p)
				if rd.Chance(30) {
					st.OIDs = append(st.OIDs, g.oid)
				}
				sc.Needles = append(sc.Needles, needlesOfParam(first, i, g)...)
			}
			if len(st.OIDs) != len(ps) {
				st.OIDs = nil
			}
			sc.Needles = append(sc.Needles, needlesOfLits(first, ms, ss)...)
			switch {
			case d == "pg" && rd.Chance(50):
				st.Kind = "ext"
				if rd.Bool() {
					st.Name = fmt.Sprintf("s%d", first)
				}
				if rd.Chance(30) {
					st.MaxRows = 1
				}
				if rd.Chance(40) {
					st.RFmt = []int16{int16(rd.Intn(2))}
				}
				sc.Steps = append(sc.Steps, st)
			case d == "pg":
				p := st
				p.Kind, p.Name, p.Params = "parse", fmt.Sprintf("s%d", first), nil
				b := Step{Kind: "bind", Name: p.Name, Params: st.Params}
				sc.Steps = append(sc.Steps, p, b)
				if rd.Chance(30) {
					sc.Steps = append(sc.Steps, b) // executed twice
				}
			default:
				p := st
				p.Kind, p.Name, p.Params = "prepare", fmt.Sprintf("s%d", first), nil
				e := Step{Kind: "execute", Name: p.Name, Params: st.Params}
				sc.Steps = append(sc.Steps, p, e)
				if rd.Chance(30) {
					sc.Steps = append(sc.Steps, e)
				}
				if rd.Chance(60) {
					sc.Steps = append(sc.Steps, Step{Kind: "close", Name: p.Name})
				}
			}
		case "rows":
			steps, ns := rowsSteps(d, rd, first, rd.Chance(60))
			sc.Steps = append(sc.Steps, steps...)
			sc.Needles = append(sc.Needles, ns...)
		case "broken":
			form := brokenForms[rd.Intn(len(brokenForms))]
			form = strings.ReplaceAll(form, "{M}", strMarker(9, rd))
			stmt, ms, ss := Instantiate(Template{"broken", "", form}, d, rd, nil)
			if i := strings.Index(form, "Zq9x"); i >= 0 {
				ms = append(ms, form[i:][:strings.IndexByte(form[i:], 'z')+1])
				ss = append(ss, "sq")
			}
			if d == "pg" && rd.Chance(35) {
				// PostgreSQL rejects the statement AT a token that contains ` at or near ` (what ParseQuery cuts the message at)
				var tms []string
				stmt, tms = instantiateToken(pgTokenForms[rd.Intn(len(pgTokenForms))], rd)
				ms, ss = nil, nil
				for _, m := range tms {
					ms = append(ms, m)
					ss = append(ss, "sq")
				}
			}
			kind := "simple"
			if rd.Chance(40) {
				if d == "pg" {
					kind = "parse"
				} else {
					kind = "prepare"
				}
			}
			sc.Steps = append(sc.Steps, Step{Kind: kind, Name: fmt.Sprintf("x%d", first), SQL: stmt})
			for i := range ms {
				ss[i] = "unparsed-" + ss[i]
			}
			sc.Needles = append(sc.Needles, needlesOfLits(first, ms, ss)...)
		}
	}
	// database errors that quote the statement and its values
	for i := range sc.Steps {
		if sc.Steps[i].Kind != "close" && sc.Steps[i].Kind != "parse" && sc.Steps[i].Kind != "prepare" && rd.Chance(20) {
			sc.Steps[i].FailDB = true
		}
	}
	for i, st := range sc.Steps {
		if st.SQL != "" && !acraParses(d, st.SQL) {
			meta.unparseable[i] = true
			if len(st.SQL) >= 16 {
				sc.Needles = append(sc.Needles, Needle{ID: fmt.Sprintf("stmt:%d", i), Hex: core.Hex([]byte(st.SQL)), Fold: true, Step: i})
			}
		}
	}
	// acra-server -d: debug level and the tokenizer's verbose errors come together
	if sc.Level == "debug" && rd.Chance(15) {
		sc.TokVerbose = true
	}
	return sc, meta
}

// SessionLine is the op line of a script.
func SessionLine(sc *Script) string {
	b, _ := json.Marshal(sc)
	return fmt.Sprintf("C16.%ssession %s", sc.Dialect, core.Hex(b))
}

// ParseOutcome reads the op's answer.
func ParseOutcome(s string) *Outcome {
	if !strings.HasPrefix(s, "ok ") {
		return nil
	}
	var o Outcome
	if json.Unmarshal(core.UnHex(s[3:]), &o) != nil {
		return nil
	}
	return &o
}

var slugRe = regexp.MustCompile(`[^a-z0-9]+`)

func slug(s string) string {
	s = strings.Trim(slugRe.ReplaceAllString(strings.ToLower(s), "-"), "-")
	if len(s) > 40 {
		s = s[:40]
	}
	return s
}
