package c16

import (
	"fmt"
	"strings"

	"verifharness/internal/core"
)

// A literal spelling: how a marker value is written in a statement, and the text (the marker) that
// must not survive redaction nor reach a log.
type Spelling struct {
	Name    string
	Dialect string // "", "my", "pg": where it is valid
	Numeric bool
	// Render produces the literal text and the marker substring for position k
	Render func(k int, r *core.Rand) (text, marker string)
}

func strMarker(k int, r *core.Rand) string { return fmt.Sprintf("Zq%dx%dz", k, r.Intn(100000)) }
func numMarker(k int, r *core.Rand) string { return fmt.Sprintf("7%d3%05d", k%10, r.Intn(100000)) }

var Spellings = []Spelling{
	{"sq", "", false, func(k int, r *core.Rand) (string, string) { m := strMarker(k, r); return "'" + m + "'", m }},
	{"sq-doubled-quote", "", false, func(k int, r *core.Rand) (string, string) { m := strMarker(k, r); return "'it''s " + m + "'", m }},
	{"sq-backslash", "", false, func(k int, r *core.Rand) (string, string) { m := strMarker(k, r); return `'a\'b\\` + m + `\n'`, m }},
	{"sq-percent", "", false, func(k int, r *core.Rand) (string, string) { m := strMarker(k, r); return "'%" + m + "_%'", m }},
	{"sq-long", "", false, func(k int, r *core.Rand) (string, string) {
		m := strMarker(k, r)
		return "'" + strings.Repeat("p", 250+r.Intn(20)) + m + "'", m
	}},
	{"dq", "my!", false, func(k int, r *core.Rand) (string, string) { m := strMarker(k, r); return `"` + m + `"`, m }},
	{"dq-escaped", "my!", false, func(k int, r *core.Rand) (string, string) { m := strMarker(k, r); return `"a""b\"` + m + `"`, m }},
	{"estr", "pg", false, func(k int, r *core.Rand) (string, string) { m := strMarker(k, r); return `E'` + m + `\n\t'`, m }},
	{"estr-quote", "pg", false, func(k int, r *core.Rand) (string, string) { m := strMarker(k, r); return `E'a\'` + m + `'`, m }},
	{"str-cast", "pg", false, func(k int, r *core.Rand) (string, string) { m := strMarker(k, r); return "'" + m + "'::text", m }},
	{"int", "", true, func(k int, r *core.Rand) (string, string) { m := numMarker(k, r); return m, m }},
	{"int-neg", "", true, func(k int, r *core.Rand) (string, string) { m := numMarker(k, r); return "-" + m, m }},
	{"int-big", "", true, func(k int, r *core.Rand) (string, string) { m := numMarker(k, r); return "9999999999999" + m, m }},
	{"int-leading-zero", "", true, func(k int, r *core.Rand) (string, string) { m := numMarker(k, r); return "089" + m, m }},
	{"int-cast", "pg", true, func(k int, r *core.Rand) (string, string) { m := numMarker(k, r); return m + "::int", m }},
	{"decimal", "", true, func(k int, r *core.Rand) (string, string) { m := numMarker(k, r); return "3." + m, m }},
	{"decimal-leading-dot", "", true, func(k int, r *core.Rand) (string, string) { m := numMarker(k, r); return "." + m, m }},
	{"exponent", "", true, func(k int, r *core.Rand) (string, string) { m := numMarker(k, r); return m + "e3", m }},
	{"exponent-huge", "", true, func(k int, r *core.Rand) (string, string) { m := numMarker(k, r); return "1." + m + "e999", m }},
	{"hexstr", "", false, func(k int, r *core.Rand) (string, string) {
		m := fmt.Sprintf("AB%dC%06X", k%10, r.Intn(1<<24))
		if len(m)%2 == 1 {
			m += "0"
		}
		return "X'" + m + "'", m
	}},
	{"hexnum", "", true, func(k int, r *core.Rand) (string, string) {
		m := fmt.Sprintf("ab%dc%06x", k%10, r.Intn(1<<24))
		return "0x" + m, m
	}},
	{"bits", "", false, func(k int, r *core.Rand) (string, string) {
		m := fmt.Sprintf("1011%04b%016b", k%16, r.Intn(1<<16))
		return "b'" + m + "'", m
	}},
}

func spellingsFor(dialect string, numericOnly bool) []Spelling {
	var out []Spelling
	for _, s := range Spellings {
		if s.Dialect != "" && !dialectOK(s.Dialect, dialect) {
			continue
		}
		if numericOnly && !s.Numeric {
			continue
		}
		out = append(out, s)
	}
	return out
}

// Templates: `{L}` = any literal, `{N}` = a numeric literal (positions where the grammar wants a number).
// One entry per literal position named by the property (and more).
type Template struct {
	Pos     string // position class
	Dialect string // "", "my", "pg"
	Text    string
}

var Templates = []Template{
	{"select-list", "", "select {L}, a from t"},
	{"select-list-alias", "", "select {L} as x, {L} y from t"},
	{"where-eq", "", "select a from t where b = {L}"},
	{"where-cmp", "", "select a from t where b < {L} and c >= {L} or d != {L} and e <=> {L}"},
	{"where-nested", "", "select a from t where (b = {L} or (c = {L} and not d = {L}))"},
	{"in-list", "", "select a from t where b in ({L}, {L}, {L})"},
	{"not-in-list", "", "select a from t where b not in ({L}, {L})"},
	{"in-list-mixed", "", "select a from t where b in ({L}, c, {L})"},
	{"between", "", "select a from t where b between {L} and {L}"},
	{"not-between", "", "select a from t where b not between {L} and {L}"},
	{"like", "", "select a from t where b like {L}"},
	{"like-escape", "", "select a from t where b not like {L} escape {L}"},
	{"regexp", "my", "select a from t where b regexp {L}"},
	{"ilike", "pg", "select a from t where b ilike {L}"},
	{"func-arg", "", "select concat(a, {L}, lower({L})) from t where length(b) > {L}"},
	{"func-distinct", "", "select count(distinct a, {L}) from t"},
	{"arith", "", "select a + {L} * ({L} - b) / {L} from t"},
	{"bitops", "", "select a & {N} | {N} ^ {N} << {N} from t"},
	{"unary", "", "select -a, ~{N}, !{L} from t where b = - {L}"},
	{"values-row", "", "insert into t (a, b, c) values ({L}, {L}, {L})"},
	{"values-multi-row", "", "insert into t (a, b) values ({L}, {L}), ({L}, {L}), ({L}, {L})"},
	{"values-no-columns", "", "insert into t values ({L}, {L})"},
	{"replace", "my", "replace into t (a, b) values ({L}, {L})"},
	{"insert-set", "my", "insert into t set a = {L}, b = {L}"},
	{"on-dup", "my", "insert into t (a, b) values ({L}, {L}) on duplicate key update b = {L}, a = values(a) + {L}"},
	{"insert-select", "", "insert into t (a, b) select c, {L} from u where d = {L}"},
	{"update-set", "", "update t set a = {L}, b = b + {L} where c = {L}"},
	{"update-order-limit", "my", "update t set a = {L} where c = {L} order by d limit {N}"},
	{"update-multi", "my", "update t, u set t.a = {L} where t.id = u.id and u.b = {L}"},
	{"delete-where", "", "delete from t where a = {L} and b in ({L}, {L})"},
	{"delete-limit", "my", "delete from t where a = {L} order by b limit {N}"},
	{"delete-multi", "my", "delete t from t join u on t.id = u.id where u.b = {L}"},
	{"limit", "", "select a from t limit {N}"},
	{"limit-offset", "", "select a from t limit {N} offset {N}"},
	{"limit-comma", "my", "select a from t limit {N}, {N}"},
	{"having", "", "select a, count(*) from t group by a having count(*) > {L} and max(b) = {L}"},
	{"group-by-expr", "", "select a from t group by a + {L}, b"},
	{"order-by-expr", "", "select a from t order by field(a, {L}, {L}) desc, b + {L}"},
	{"subselect-where", "", "select a from t where b in (select c from u where d = {L}) and e = {L}"},
	{"subselect-from", "", "select s.a from (select a from u where d = {L}) as s where s.a = {L}"},
	{"subselect-list", "", "select (select max(c) from u where d = {L}), a from t"},
	{"exists", "", "select a from t where exists (select 1 from u where u.id = t.id and u.b = {L})"},
	{"union", "", "select a from t where b = {L} union select c from u where d = {L}"},
	{"union-all-three", "", "select {L} from t union all select {L} from u union select {L} from v"},
	{"union-order-limit", "", "select a from t union select c from u order by {L} limit {N}"},
	{"union-limit-offset", "", "select a from t union select c from u limit {N} offset {N}"},
	{"paren-union", "", "(select a from t where b = {L}) union (select c from u where d = {L} limit {N})"},
	{"join-on", "", "select t.a from t join u on t.id = u.id and u.b = {L} left join v on v.c = {L} where t.d = {L}"},
	{"case", "", "select case a when {L} then {L} when {L} then {L} else {L} end from t"},
	{"case-search", "", "select case when a > {L} then {L} else {L} end from t"},
	{"is-null-mix", "", "select a from t where b is null and c is not true and d = {L}"},
	{"interval", "my", "select a + interval {N} day from t where b > now() - interval {L} hour"},
	{"interval-pg", "pg", "select a from t where b > now() - interval {L}"},
	{"match-against", "my", "select a from t where match(a, b) against ({L} in boolean mode)"},
	{"substr", "", "select substr(a, {N}, {N}), substring(a from {N} for {N}) from t"},
	{"convert", "my", "select convert({L}, char), cast({L} as signed), convert({L} using utf8) from t"},
	{"collate", "my", "select a from t where b collate utf8_bin = {L}"},
	{"binary-op", "my", "select a from t where b = binary {L} and c = _binary {L}"},
	{"json-op", "my", "select a from t where b->{L} = {L} and c->>{L} = {L}"},
	{"group-concat", "my", "select group_concat(distinct a, {L} order by b) from t"},
	{"values-func", "my", "insert into t (a) values ({L}) on duplicate key update a = if(values(a) > {L}, {L}, a)"},
	{"set-var", "my", "set @a = {L}, @@session.b = {L}"},
	{"set-names", "my", "set names {L}"},
	{"next-values", "my", "select next {N} values from seq"},
	{"comment-inside", "", "select /* c */ a from t where b = {L}"},
	{"comment-margins", "", "/* lead */ select a from t where b = {L} /* trail */"},
	{"semicolon", "", "select a from t where b = {L};"},
	{"for-update", "", "select a from t where b = {L} for update"},
	{"index-hint", "my", "select a from t use index (i1) where b = {L}"},
	{"partition", "my", "select a from t partition (p0, p1) where b = {L}"},
	{"quoted-idents-my", "my", "select `a` from `t` where `b c` = {L}"},
	{"quoted-idents-pg", "pg", `select "A" from "T" where "b c" = {L}`},
	{"bindvar-mix", "my", "select a from t where b = ? and c = {L} and d = :replaced1 and e in (?, {L})"},
	{"dollar-mix", "pg", "select a from t where b = $1 and c = {L} and d = $2"},
	{"returning-insert", "pg", "insert into t (a) values ({L}) returning a, {L}, id + {L}"},
	{"returning-update", "pg", "update t set a = {L} where b = {L} returning {L}"},
	{"returning-delete", "pg", "delete from t where a = {L} returning {L}"},
	{"update-from", "pg", "update t set a = {L} from (select x from u where y = {L}) as s where t.id = s.x"},
	{"delete-using", "pg", "delete from t using u where t.a = {L} and u.b = {L}"},
	{"execute-values", "pg", "execute stmt1 ({L}, {L})"},
	{"prepare-as", "pg", "prepare stmt1 (int, text) as select a from t where b = $1 and c = {L}"},
	{"prepare-from", "my", "prepare stmt1 from 'select a from t where b = 12345'"},
	{"limit-all-offset", "pg", "select a from t limit all offset {N}"},
	{"nulls-order", "pg", "select a from t where b = {L} order by a desc nulls last limit {N}"},
	{"insert-default-mix", "", "insert into t (a, b, c) values (default, null, {L}), (true, false, {L})"},
	{"dup-values", "", "select a from t where b = {L} and c = {L} and d in (select e from u where f = {L})"},
}

// SpecialTemplates: literal positions that the AST keeps outside SQLVal nodes or under DDL nodes.
var SpecialTemplates = []Template{
	{"show-like", "my", "show tables like {L}"},
	{"show-where", "my", "show tables where a = {L}"},
	{"show-from-like", "my", "show full tables from db like {L}"},
	{"group-concat-separator", "my", "select group_concat(a separator {L}) from t"},
	{"ddl-column-default", "my", "create table t (a varchar(20) default {L}, b int default {N})"},
	{"ddl-column-comment", "my", "create table t (a int comment {L})"},
	{"ddl-type-length", "my", "create table t (a varchar({N}), b decimal({N}, 2))"},
	{"ddl-index-option", "my", "create table t (a int, key k (a) comment {L})"},
	{"convert-type-length", "my", "select convert(a, char({N})), cast(b as decimal({N}, {N})) from t"},
	{"ddl-partition", "my", "alter table t reorganize partition p into (partition q values less than ({N}))"},
}

// Instantiate fills the holes; returns the statement, the markers and the spelling names used.
func Instantiate(t Template, dialect string, r *core.Rand, force *Spelling) (stmt string, markers, spellings []string) {
	var sb strings.Builder
	text := t.Text
	k := 0
	for {
		i := strings.IndexByte(text, '{')
		if i < 0 || i+2 >= len(text) || text[i+2] != '}' {
			sb.WriteString(text)
			break
		}
		sb.WriteString(text[:i])
		numeric := text[i+1] == 'N'
		var sp Spelling
		cands := spellingsFor(dialect, numeric)
		if force != nil && (!numeric || force.Numeric) && (force.Dialect == "" || dialectOK(force.Dialect, dialect)) {
			sp = *force
		} else if force != nil && numeric {
			sp = cands[0] // plain integer
		} else {
			sp = core.Pick(r, cands)
		}
		lit, m := sp.Render(k, r)
		sb.WriteString(lit)
		markers = append(markers, m)
		spellings = append(spellings, sp.Name)
		text = text[i+3:]
		k++
	}
	return sb.String(), markers, spellings
}

// dialectOK: "my" = MySQL in either quoting mode, "my!" = MySQL without ANSI_QUOTES only, "pg" = PostgreSQL.
func dialectOK(want, dialect string) bool {
	if strings.HasSuffix(want, "!") {
		return dialect == strings.TrimSuffix(want, "!")
	}
	return strings.HasPrefix(dialect, want)
}

func templatesFor(ts []Template, dialect string) []Template {
	var out []Template
	for _, t := range ts {
		if t.Dialect == "" || dialectOK(t.Dialect, dialect) {
			out = append(out, t)
		}
	}
	return out
}

// Unparseable statements: each contains a marker and is rejected by the parser.
var brokenForms = []string{
	"select a from t where b = {L} and",
	"select a from where b = {L}",
	"selec a from t where b = {L}",
	"select a from t where b = {L} {L}",
	"select a from t where b = = {L}",
	"insert into t values ({L}, )",
	"update t set a = {L} where",
	"select a from t where b = {L} order",
	"select a from t where b in ({L}, {L}",
	"select a from t where b = {L} limit",
	"select a from t where b = 'unterminated {M}",
	"select a from t where b = {L} group group",
	"delete t where a = {L}",
	"select {L} from t union",
	"$$ select {L} $$",
	"select a from t where b = {L} # {L}\n and",
	"create table t (a int default {L} garbage garbage)",
	"alter table t add column c varchar(10) default {L} ,,,",
}
