// Package c16: implementation-side ops, generators and oracles for property C16
// (literal values never appear in logs nor in the redacted form; redaction keeps the shape;
// unparseable statements never appear in log messages).
package c16

import (
	"bytes"
	"fmt"
	"io"
	"strings"
	"sync"

	log "github.com/sirupsen/logrus"

	acracensor "github.com/cossacklabs/acra/acra-censor"
	"github.com/cossacklabs/acra/logging"
	"github.com/cossacklabs/acra/sqlparser"
	"github.com/cossacklabs/acra/sqlparser/dependency/querypb"
	"github.com/cossacklabs/acra/sqlparser/dialect/mysql"
	"github.com/cossacklabs/acra/sqlparser/dialect/postgresql"

	"verifharness/internal/core"
	"verifharness/internal/sqlast"
)

// SetDialect selects the parser's global default dialect ("my", "myansi", "pg").
func SetDialect(d string) {
	switch d {
	case "my":
		sqlparser.SetDefaultDialect(mysql.NewMySQLDialect())
	case "myansi":
		sqlparser.SetDefaultDialect(mysql.NewMySQLDialect(mysql.SetANSIMode(true)))
	case "pg":
		sqlparser.SetDefaultDialect(postgresql.NewPostgreSQLDialect())
	default:
		panic("harness: unknown dialect " + d)
	}
}

func parseStrict(stmt string) (sqlparser.Statement, error) {
	return sqlparser.New(sqlparser.ModeStrict).Parse(stmt)
}

// what HandleRawSQLQuery / RedactSQLQuery hand to the parser
func stripped(stmt string) string {
	s, _ := sqlparser.SplitMarginComments(stmt)
	return strings.TrimSuffix(s, ";")
}

func init() {
	// C16.parse <dialect> <stmt-hex>  →  ok <tree tokens> | err
	core.Register("C16.parse", func(a []string) string {
		SetDialect(a[0])
		stmt, err := parseStrict(stripped(string(core.UnHex(a[1]))))
		if err != nil {
			return core.Err
		}
		return "ok " + sqlast.FromNode(stmt).Tokens()
	})
	// C16.normalize <dialect> <prefix-hex> <stmt-hex> <tree tokens…>
	// The real Normalize on the real AST of stmt; the tree tokens are what the model works on and must be
	// the dump of that AST (checked). Result: the dump of the normalised AST.
	core.Register("C16.normalize", func(a []string) string {
		SetDialect(a[0])
		stmt, err := parseStrict(stripped(string(core.UnHex(a[2]))))
		if err != nil {
			return core.Err
		}
		if sqlast.FromNode(stmt).Tokens() != strings.Join(a[3:], " ") {
			return "bad-tree"
		}
		sqlparser.Normalize(stmt, map[string]*querypb.BindVariable{}, string(core.UnHex(a[1])))
		return "ok " + sqlast.FromNode(stmt).Tokens()
	})
	// C16.redacttree <dialect> <stmt-hex> <tree tokens…>: both passes of RedactSQLQuery / HandleRawSQLQuery
	// (Normalize with prefix ValueMask, then maskLiterals) on the real AST; result: dump of the redacted AST
	core.Register("C16.redacttree", func(a []string) string {
		SetDialect(a[0])
		stmt, err := parseStrict(stripped(string(core.UnHex(a[1]))))
		if err != nil {
			return core.Err
		}
		if sqlast.FromNode(stmt).Tokens() != strings.Join(a[2:], " ") {
			return "bad-tree"
		}
		sqlparser.Normalize(stmt, map[string]*querypb.BindVariable{}, sqlparser.ValueMask)
		sqlparser.VerifMaskLiterals(stmt, sqlparser.ValueMask)
		return "ok " + sqlast.FromNode(stmt).Tokens()
	})
	// C16.lits <dialect> <stmt-hex> <tree tokens…> : number and values of literal nodes of the parsed statement
	core.Register("C16.lits", func(a []string) string {
		t, _, ok := sqlast.Parse(a)
		if !ok {
			return "bad-tree"
		}
		ls := Literals(t)
		hs := make([]string, len(ls))
		for i, l := range ls {
			hs[i] = core.Hex(l)
		}
		return fmt.Sprintf("ok %d %s", len(ls), strings.Join(hs, ","))
	})
	// C16.redact <dialect> <stmt-hex>  →  ok <redacted-hex> | err          (sqlparser.RedactSQLQuery)
	core.Register("C16.redact", func(a []string) string {
		SetDialect(a[0])
		r, err := sqlparser.RedactSQLQuery(string(core.UnHex(a[1])))
		if err != nil {
			return core.Err
		}
		return "ok " + core.Hex([]byte(r))
	})
	// C16.handleraw <dialect> <strict|default> <stmt-hex> → ok <normalized-hex> <redacted-hex> <parsed|notparsed|nil> | err
	core.Register("C16.handleraw", func(a []string) string {
		SetDialect(a[0])
		mode := sqlparser.ModeStrict
		if a[1] == "default" {
			mode = sqlparser.ModeDefault
		}
		n, r, st, err := sqlparser.New(mode).HandleRawSQLQuery(string(core.UnHex(a[2])))
		if err != nil {
			if n != "" || r != "" || st != nil {
				return "err-with-text " + core.Hex([]byte(n)) + " " + core.Hex([]byte(r))
			}
			return core.Err
		}
		kind := "parsed"
		switch st.(type) {
		case nil:
			kind = "nil"
		case sqlparser.NotParsedStatement:
			kind = "notparsed"
		}
		return "ok " + core.Hex([]byte(n)) + " " + core.Hex([]byte(r)) + " " + kind
	})
	// C16.log <dialect> <cfg> <level> <format> <verbose01> <stmt-hex>
	//   → <allowed|denied> <entries> <hex of all formatted log output>
	// Real AcraCensor configured from YAML `cfg` (see censorConfigs) + the proxies' own debug logging of the
	// redacted statement, under a logrus output capturing every formatted entry.
	core.Register("C16.log", func(a []string) string {
		SetDialect(a[0])
		verdict, out := CaptureLog(a[1], a[2], a[3], a[4] == "1", string(core.UnHex(a[5])))
		return fmt.Sprintf("%s %d %s", verdict, bytes.Count(out, []byte("\n")), core.Hex(out))
	})
}

// Literals lists the values of all SQLVal nodes of a literal type anywhere in the tree.
func Literals(t *sqlast.Tree) [][]byte {
	var out [][]byte
	t.Walk(func(n *sqlast.Tree, _ []int) {
		if ty, v, ok := n.SQLVal(); ok && IsLiteralType(ty) {
			out = append(out, v)
		}
	})
	return out
}

// ValType numbers (iota order of ast.go; cross-checked against the model through C16.lits).
const (
	StrVal = iota
	IntVal
	FloatVal
	HexNum
	HexVal
	ValArg
	BitVal
	PgEscapeString
	PgPlaceholder
	UnknownVal
)

func IsLiteralType(ty int) bool {
	switch ty {
	case StrVal, IntVal, FloatVal, HexNum, HexVal, BitVal, PgEscapeString:
		return true
	}
	return false
}

// ---------- log capture ----------

var logMu sync.Mutex

// censorConfigs: named firewall configurations (YAML understood by AcraCensor.LoadConfiguration).
var censorConfigs = map[string]string{
	"none":            "",
	"allowall":        "version: 0.85.0\nhandlers:\n  - handler: allowall\n",
	"denyall":         "version: 0.85.0\nhandlers:\n  - handler: denyall\n",
	"denytables":      "version: 0.85.0\nhandlers:\n  - handler: deny\n    tables:\n      - t\n      - secret_table\n",
	"allowtables":     "version: 0.85.0\nhandlers:\n  - handler: allow\n    tables:\n      - t\n      - u\n",
	"denypatterns":    "version: 0.85.0\nhandlers:\n  - handler: deny\n    patterns:\n      - select %%COLUMN%% from u %%WHERE%%\n      - \"%%INSERT%%\"\n",
	"allowqueries":    "version: 0.85.0\nhandlers:\n  - handler: allow\n    queries:\n      - select 1 from dual\n",
	"denyqueries":     "version: 0.85.0\nhandlers:\n  - handler: deny\n    queries:\n      - select a from t where b = 'known'\n",
	"ignoreparse":     "version: 0.85.0\nignore_parse_error: true\nhandlers:\n  - handler: allowall\n",
	"ignoreparsedeny": "version: 0.85.0\nignore_parse_error: true\nhandlers:\n  - handler: deny\n    tables:\n      - secret_table\n",
	"queryignore":     "version: 0.85.0\nhandlers:\n  - handler: query_ignore\n    queries:\n      - select 1 from dual\n  - handler: denyall\n",
	"chain":           "version: 0.85.0\nhandlers:\n  - handler: deny\n    tables:\n      - secret_table\n  - handler: allow\n    tables:\n      - t\n  - handler: denyall\n",
}

// CensorConfigNames in a fixed order (generators pick from it).
var CensorConfigNames = []string{"none", "allowall", "denyall", "denytables", "allowtables", "denypatterns", "allowqueries", "denyqueries", "ignoreparse", "ignoreparsedeny", "queryignore", "chain"}

// CaptureLog runs one client statement through the query-logging path that both proxies share
// (decryptor/postgresql/pg_decryptor.go:handleQueryPacket, decryptor/mysql/response_proxy.go: the
// CommandQuery case): debug logging of HandleRawSQLQuery's redacted text with the server's parser, then
// AcraCensor.HandleQuery. Every formatted entry at the chosen level is captured.
//
//	level:  debug | verbose | discard  (acra-server's -d / -v / default)
//	format: plaintext | json | cef
//	tokenizerVerbose: acra-server switches the tokenizer's verbose errors on together with -d
func CaptureLog(cfg, level, format string, tokenizerVerbose bool, stmt string) (string, []byte) {
	logMu.Lock()
	defer logMu.Unlock()
	var buf bytes.Buffer
	oldOut, oldLevel, oldFmt := log.StandardLogger().Out, log.GetLevel(), log.StandardLogger().Formatter
	log.SetOutput(&buf)
	logging.CreateFormatter(format)
	switch level {
	case "debug":
		logging.SetLogLevel(logging.LogDebug)
	case "verbose":
		logging.SetLogLevel(logging.LogVerbose)
	default:
		logging.SetLogLevel(logging.LogDiscard)
	}
	sqlparser.SetTokenizerVerbosity(tokenizerVerbose)
	sqlparser.SetSQLParserErrorVerboseLevel(tokenizerVerbose)
	defer func() {
		sqlparser.SetTokenizerVerbosity(false)
		sqlparser.SetSQLParserErrorVerboseLevel(false)
		log.SetOutput(oldOut)
		log.SetLevel(oldLevel)
		log.SetFormatter(oldFmt)
	}()

	censor := acracensor.NewAcraCensor()
	defer censor.ReleaseAll()
	if y := censorConfigs[cfg]; y != "" {
		if err := censor.LoadConfiguration([]byte(y)); err != nil {
			panic("harness: censor config " + cfg + ": " + err.Error())
		}
	}
	// the server's parser: acra-server uses ModeDefault unless --sql_parse_on_error_exit_enable
	for _, mode := range []sqlparser.Mode{sqlparser.ModeDefault, sqlparser.ModeStrict} {
		parser := sqlparser.New(mode)
		logger := log.WithField("client_id", "verif")
		// == handleQueryPacket / CommandQuery: "Log query text -- if and only if we're in debug mode"
		if logging.GetLogLevel() == logging.LogDebug {
			_, queryWithHiddenValues, _, err := parser.HandleRawSQLQuery(stmt)
			if err == sqlparser.ErrQuerySyntaxError {
				logger.WithError(err).WithField(logging.FieldKeyEventCode, logging.EventCodeErrorCensorQueryParseError).
					Debugf("Parsing error on query: %s", queryWithHiddenValues)
			} else {
				logger.WithField("sql", queryWithHiddenValues).Debugln("New query")
			}
		}
	}
	verdict := "allowed"
	if err := censor.HandleQuery(stmt); err != nil {
		log.WithField(logging.FieldKeyEventCode, logging.EventCodeErrorCensorQueryIsNotAllowed).WithError(err).Errorln("AcraCensor blocked query")
		verdict = "denied"
	}
	return verdict, append([]byte{}, buf.Bytes()...)
}

var _ = io.Discard
