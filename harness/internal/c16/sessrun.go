package c16

import (
	"fmt"
	"os"
	"strings"

	"verifharness/internal/c04/fakemy"
	"verifharness/internal/core"
)

// runSessions: the session stream of the run (see sessgen.go for the generator).
func runSessions(r *core.Run) {
	rd := r.Rand
	n := r.N(300, 6000)
	if v := os.Getenv("VERIF_C16_SESSIONS"); v != "" {
		n = core.Atoi(v)
	}
	echoed := 0
	// regression corpus first: the sessions that leaked before repo patches 81 / 82
	for i, sc := range sessionCorpus() {
		meta := &sessMeta{unparseable: map[int]bool{}, sources: []string{"corpus"}}
		for k, st := range sc.Steps {
			if st.SQL != "" && !acraParses(sc.Dialect, st.SQL) {
				meta.unparseable[k] = true
			}
		}
		r.Tag(fmt.Sprintf("session-corpus-%d", i))
		echoed += checkSession(r, sc, meta)
	}
	for i := 0; i < n; i++ {
		d := core.Pick(rd, []string{"pg", "my"})
		sc, meta := GenSession(rd, d, r.Thorough())
		echoed += checkSession(r, sc, meta)
	}
	r.Extra["session_db_errors_relayed_with_values"] = echoed
	r.Extra["session_log_messages_distinct"] = len(sitesSeen)
	hit := map[string]bool{}
	for _, v := range siteVerdict {
		if f := strings.Fields(v); len(f) == 3 && f[0] == "known" {
			hit[strings.Split(f[2], ",")[0]] = true
		}
	}
	r.Extra["session_log_functions_hit"] = len(hit)
	if n >= 100 && echoed == 0 {
		panic("harness: C16 sessions: no database error quoting a value was ever relayed to the client – the error echo of the fake databases is broken")
	}
	if n >= 100 && len(hit) < 40 {
		panic(fmt.Sprintf("harness: C16 sessions: only %d logging functions of the table were hit – the capture or the session driver is broken", len(hit)))
	}
	if os.Getenv("VERIF_C16_TIMING") != "" {
		for s := range sitesSeen {
			fmt.Fprintf(os.Stderr, "SITE %s\n", s)
		}
	}
}

var sitesSeen = map[string]bool{}

// checkSession runs one script and judges its outcome; returns the number of value-quoting database errors that
// reached the client.
func checkSession(r *core.Run, sc *Script, meta *sessMeta) int {
	line := SessionLine(sc)
	r.Begin("session:"+line, len(sc.Needles) > 0, "stream:session", "dialect:"+sc.Dialect, "session-level:"+sc.Level,
		"session-censor:"+sc.Censor, "session-enc:"+sc.Enc, "session-keys:"+sc.Keys)
	for _, s := range meta.sources {
		r.Tag("session-source:" + s)
	}
	o := ParseOutcome(r.Impl(line))
	if o == nil {
		r.Fail("session-op-failed", "the session op did not answer")
		return 0
	}
	for i, s := range o.Steps {
		r.Tag("session-step:" + sc.Steps[i].Kind + ":" + s)
	}
	if os.Getenv("VERIF_C16_TIMING") != "" {
		fmt.Fprintf(os.Stderr, "session %s steps=%v ms=%v\n", sc.Dialect, o.Steps, o.StepMs)
	}
	for _, s := range o.Sites {
		sitesSeen[s] = true
		checkSite(r, sc, s)
	}
	if o.Panic != "" {
		// a proxy goroutine panicked: acra-server's recoverConnection drops the session. The property is C14's
		// ("no input can crash a handler"); it is judged here too because these sessions are what reaches the code.
		last := ""
		for i, st := range o.Steps {
			if st != "skipped" && i < len(sc.Steps) && sc.Steps[i].SQL != "" {
				last = sc.Steps[i].SQL
			}
		}
		r.Tag("session-panic")
		r.Fail(PanicClass(o), fmt.Sprintf("a proxy goroutine of a real %s session (enc=%s keys=%s censor=%s) panicked with %q in %s; last statement sent: %q", sc.Dialect, sc.Enc, sc.Keys, sc.Censor, trunc(o.Panic), o.PanicSite, trunc(last)))
	}
	seen := map[string]bool{}
	for _, h := range o.Hits {
		cls := hitClass(sc, meta, h)
		if seen[cls] {
			continue
		}
		seen[cls] = true
		step := Step{}
		for _, n := range sc.Needles {
			if n.ID == h.Needle && n.Step < len(sc.Steps) {
				step = sc.Steps[n.Step]
			}
		}
		r.Fail(cls, fmt.Sprintf("%s reaches the log of a real %s session (level=%s censor=%s enc=%s keys=%s parser=%s; formats %s) in field %q of %q [%s]; statement %q: %s",
			h.Needle, sc.Dialect, sc.Level, sc.Censor, sc.Enc, sc.Keys, sc.Parser, h.Format, h.Field, h.Msg, h.Level, trunc(step.SQL), trunc(h.Entry)))
	}
	return o.Echoed
}

// hitClass: <dialect>-session-leak:<what leaked>:<message constant>[:<field>]
func hitClass(sc *Script, meta *sessMeta, h Hit) string {
	what := strings.SplitN(h.Needle, ":", 2)[0]
	if strings.Contains(h.Needle, ":unparsed-") || what == "stmt" {
		what = "unparseable"
	}
	msg := h.Msg
	if i := strings.IndexAny(msg, ":'"); i > 0 {
		msg = msg[:i]
	}
	if sc.TokVerbose && strings.Contains(h.Entry, " near '") {
		// by design (known finding): with -d the tokenizer's errors carry the token next to the syntax error
		return "log-leak-unparseable:debug-tokenizer-verbose"
	}
	cls := sc.Dialect + "-session-leak:" + what + ":" + slug(msg)
	if h.Field != "" {
		cls += ":" + slug(h.Field)
	}
	return cls
}

// siteVerdict caches the model's answer per (level, message).
var siteVerdict = map[string]string{}

// checkSite: every entry a real session produced must be explained by a call site of the regenerated table
// (Generated/LogSites.lean, matched by Sql.LogSites.sitesOf): a log call that fires without being in the table is code
// on the query path that the static facts do not cover.
func checkSite(r *core.Run, sc *Script, site string) {
	i := strings.IndexByte(site, '|')
	level, msg := site[:i], site[i+1:]
	v, ok := siteVerdict[site]
	if !ok {
		v = r.ModelOnly("C16.logsite " + level + " " + hexS(msg))
		siteVerdict[site] = v
	}
	if strings.HasPrefix(v, "known ") {
		return
	}
	r.Fail("log-site-not-in-table:"+slug(msg), fmt.Sprintf("a %s session logged %q at level %s, which no call site of the regenerated table (Generated/LogSites.lean) explains: model says %q", sc.Dialect, trunc(msg), level, v))
}

// sessionCorpus: witnesses of the leaks found by the session stream (all repaired: repo patches 81, 82). Markers are
// fixed; the needles are the markers.
func sessionCorpus() []*Script {
	lit := func(step int, m string) Needle {
		return Needle{ID: fmt.Sprintf("lit:%d:0:sq", step), Hex: core.Hex([]byte(m)), Fold: true, Step: step}
	}
	par := func(step int, m string) Needle {
		return Needle{ID: fmt.Sprintf("param:%d:0:text-str:raw", step), Hex: core.Hex([]byte(m)), Fold: true, Step: step}
	}
	text := func(m string, ty byte) Param { return Param{Hex: core.Hex([]byte(m)), Type: ty} }
	base := func(d, level, enc string) *Script {
		return &Script{Dialect: d, Level: level, Parser: "default", Censor: "none", Enc: enc, Keys: "full", Seed: 7}
	}
	var out []*Script
	// 1/2: a text literal for a column tokenized as int32: strconv's error quoted it, logged at error level
	s := base("pg", "warn", "mixed2")
	s.Steps = []Step{{Kind: "simple", SQL: "update t set a = 'Zq1x00001z' where id = 70300001"}}
	s.Needles = []Needle{lit(0, "Zq1x00001z"), lit(0, "70300001")}
	out = append(out, s)
	s = base("my", "warn", "mixed2")
	s.Steps = []Step{{Kind: "simple", SQL: "insert into t (id, a) values (70300002, 'Zq1x00002z')"}}
	s.Needles = []Needle{lit(0, "Zq1x00002z"), lit(0, "70300002")}
	out = append(out, s)
	// 3/4: the same through a bound parameter ("Failed to handle Bind packet", "Failed to encrypt column")
	s = base("pg", "info", "mixed2")
	s.Steps = []Step{{Kind: "ext", Name: "c1", SQL: "insert into t (id, a) values (70300003, $1)", Params: []Param{text("Zq1x00003z", 0)}}}
	s.Needles = []Needle{par(0, "Zq1x00003z"), lit(0, "70300003")}
	out = append(out, s)
	s = base("my", "debug", "mixed2")
	s.Steps = []Step{{Kind: "prepare", Name: "c1", SQL: "insert into t (id, a) values (70300004, ?)"},
		{Kind: "execute", Name: "c1", Params: []Param{text("Zq1x00004z", fakemy.TypeVarString)}}}
	s.Needles = []Needle{par(1, "Zq1x00004z"), lit(0, "70300004")}
	out = append(out, s)
	// 5: a stored text value detokenized as int64 on the way back ("Error on column data processing", session ended with "Unexpected error")
	s = base("pg", "warn", "mixed1")
	s.Steps = []Step{{Kind: "simple", SQL: "insert into u (id, e) values (70300005, 'Zq5x00005z')"}, {Kind: "simple", SQL: "select id, e from u where id = 70300005"}}
	s.Needles = []Needle{lit(0, "Zq5x00005z"), lit(0, "70300005")}
	out = append(out, s)
	// 6/7: PostgreSQL's syntax error quoted the token next to it – a literal; the error ended the session and was logged at error level
	s = base("pg", "warn", "mixed1")
	s.Steps = []Step{{Kind: "simple", SQL: "select a from t where b = 70300006 'Zq1x00006z'"}}
	s.Needles = []Needle{lit(0, "Zq1x00006z"), lit(0, "70300006")}
	out = append(out, s)
	s = base("pg", "debug", "mixed1")
	s.Steps = []Step{{Kind: "parse", Name: "c2", SQL: "select a from t where b = 'unterminated Zq9x00007z"}}
	s.Needles = []Needle{lit(0, "Zq9x00007z")}
	out = append(out, s)
	// 8: proxy-goroutine-panic (C14, repo patch 83): rows arrive while an INSERT without RETURNING is pending – the settings
	// extractor (a query encryptor without data encryptor) went on to encrypt the literal: nil pointer dereference
	s = base("pg", "warn", "mixed1")
	s.Steps = []Step{{Kind: "simple", SQL: "insert into t (id, a) values (70300008, 'Zq1x00008z')", Rows: [][]string{{core.Hex([]byte("Zq1x00008z"))}}}}
	s.Needles = []Needle{lit(0, "Zq1x00008z"), lit(0, "70300008")}
	out = append(out, s)
	// 9: proxy-goroutine-panic (C14, repo patch 84): a searchable comparison inside a sub-select is listed twice, the second
	// time already rewritten: unchecked type assertion in MySQL HashQuery.OnQuery
	s = base("my", "warn", "mixed2")
	s.Steps = []Step{{Kind: "simple", SQL: "select a from t where c = 'Zq0x00009z' and d in (select e from u where f = 'Zq2x00009z')"}}
	s.Needles = []Needle{lit(0, "Zq0x00009z"), lit(0, "Zq2x00009z")}
	out = append(out, s)
	return out
}

// PanicClass: proxy-goroutine-panic:<function of /repo that panicked>
func PanicClass(o *Outcome) string {
	site := o.PanicSite
	if site == "" {
		site = "unknown"
	}
	return "proxy-goroutine-panic:" + site
}

// PanicCorpus: the sessions of the corpus that made a proxy goroutine panic (C14 runs them too).
func PanicCorpus() []*Script {
	all := sessionCorpus()
	return all[len(all)-2:]
}
