package c16

import (
	"fmt"
	"os"
	"strings"

	"verifharness/internal/core"
)

// runSessions: the session stream of the run (see sessgen.go for the generator).
func runSessions(r *core.Run) {
	rd := r.Rand
	n := r.N(120, 2500)
	if v := os.Getenv("VERIF_C16_SESSIONS"); v != "" {
		n = core.Atoi(v)
	}
	echoed := 0
	for i := 0; i < n; i++ {
		d := core.Pick(rd, []string{"pg", "my"})
		sc, meta := GenSession(rd, d, r.Thorough())
		echoed += checkSession(r, sc, meta)
	}
	r.Extra["session_db_errors_relayed_with_values"] = echoed
	if os.Getenv("VERIF_C16_TIMING") != "" {
		for s := range sitesSeen {
			fmt.Fprintf(os.Stderr, "SITE %s\n", s)
		}
	}
}

var sitesSeen = map[string]bool{}

// checkSession runs one script and judges its outcome; returns the number of value-quoting database errors that
// reached the client.
func checkSession(r *core.Run, sc *Script, meta *sessMeta) int {
	line := SessionLine(sc)
	r.Begin("session:"+line, len(sc.Needles) > 0, "stream:session", "dialect:"+sc.Dialect, "session-level:"+sc.Level,
		"session-censor:"+sc.Censor, "session-enc:"+sc.Enc, "session-keys:"+sc.Keys)
	for _, s := range meta.sources {
		r.Tag("session-source:" + s)
	}
	o := ParseOutcome(r.Impl(line))
	if o == nil {
		r.Fail("session-op-failed", "the session op did not answer")
		return 0
	}
	for i, s := range o.Steps {
		r.Tag("session-step:" + sc.Steps[i].Kind + ":" + s)
	}
	if os.Getenv("VERIF_C16_TIMING") != "" {
		fmt.Fprintf(os.Stderr, "session %s steps=%v ms=%v\n", sc.Dialect, o.Steps, o.StepMs)
	}
	for _, s := range o.Sites {
		sitesSeen[s] = true
		checkSite(r, sc, s)
	}
	if o.Panic != "" {
		r.Tag("session-panic")
		r.Note("C16 session: proxy panic %q", trunc(o.Panic))
	}
	seen := map[string]bool{}
	for _, h := range o.Hits {
		cls := hitClass(sc, meta, h)
		if seen[cls] {
			continue
		}
		seen[cls] = true
		step := Step{}
		for _, n := range sc.Needles {
			if n.ID == h.Needle && n.Step < len(sc.Steps) {
				step = sc.Steps[n.Step]
			}
		}
		r.Fail(cls, fmt.Sprintf("%s reaches the log of a real %s session (level=%s censor=%s enc=%s keys=%s parser=%s; formats %s) in field %q of %q [%s]; statement %q: %s",
			h.Needle, sc.Dialect, sc.Level, sc.Censor, sc.Enc, sc.Keys, sc.Parser, h.Format, h.Field, h.Msg, h.Level, trunc(step.SQL), trunc(h.Entry)))
	}
	return o.Echoed
}

// hitClass: <dialect>-session-leak:<what leaked>:<message constant>[:<field>]
func hitClass(sc *Script, meta *sessMeta, h Hit) string {
	what := strings.SplitN(h.Needle, ":", 2)[0]
	if strings.Contains(h.Needle, ":unparsed-") || what == "stmt" {
		what = "unparseable"
	}
	msg := h.Msg
	if i := strings.IndexAny(msg, ":'"); i > 0 {
		msg = msg[:i]
	}
	if sc.TokVerbose && strings.Contains(h.Entry, " near '") {
		// by design (known finding): with -d the tokenizer's errors carry the token next to the syntax error
		return "log-leak-unparseable:debug-tokenizer-verbose"
	}
	cls := sc.Dialect + "-session-leak:" + what + ":" + slug(msg)
	if h.Field != "" {
		cls += ":" + slug(h.Field)
	}
	return cls
}

// siteVerdict caches the model's answer per (level, message).
var siteVerdict = map[string]string{}

// checkSite: every entry a real session produced must be explained by a call site of the regenerated table
// (Generated/LogSites.lean, matched by Sql.LogSites.sitesOf): a log call that fires without being in the table is code
// on the query path that the static facts do not cover.
func checkSite(r *core.Run, sc *Script, site string) {
	i := strings.IndexByte(site, '|')
	level, msg := site[:i], site[i+1:]
	v, ok := siteVerdict[site]
	if !ok {
		v = r.ModelOnly("C16.logsite " + level + " " + hexS(msg))
		siteVerdict[site] = v
	}
	if strings.HasPrefix(v, "known ") {
		return
	}
	r.Fail("log-site-not-in-table:"+slug(msg), fmt.Sprintf("a %s session logged %q at level %s, which no call site of the regenerated table (Generated/LogSites.lean) explains: model says %q", sc.Dialect, trunc(msg), level, v))
}
