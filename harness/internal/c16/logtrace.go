package c16

import (
	"bytes"
	"encoding/json"
	"fmt"
	"os"
	"path/filepath"
	"strings"

	log "github.com/sirupsen/logrus"

	acracensor "github.com/cossacklabs/acra/acra-censor"
	"github.com/cossacklabs/acra/acra-censor/common"
	"github.com/cossacklabs/acra/acra-censor/handlers"
	"github.com/cossacklabs/acra/logging"
	"github.com/cossacklabs/acra/sqlparser"

	"verifharness/internal/core"
)

// Log trace correspondence (model: AcraModel/Sql/LogModel.lean).
//
//	C16.logtrace <dialect> <debug01> <ignoreParse01> <handlers> <stmt-hex>
//	   handlers: comma list of  cap | ign0 | ign1 | allowall | denyall | denyt | allowt | denyq | allowq
//	   (ign1 = a query-ignore handler that holds exactly this statement, ign0 = one that holds another;
//	    denyt/allowt = table rules for table `t`; denyq/allowq = query rule for `select a from t where b = 'known'`)
//	→ <allowed|denied> <entries>   with entries = msgkind:payload joined by ',' (payload ∈ none|redacted|normalized|raw|other)
//
// The implementation runs the proxies' debug block + the real AcraCensor.HandleQuery with the real handlers and
// maps every captured entry (JSON formatter) to a message kind and the provenance of the statement text in it.
// For the model the same line carries what it cannot know: whether the statement parses and what each security
// handler decides – appended by the harness as `| <parse> <decisions>` (see TraceLine).
func init() {
	core.Register("C16.logtrace", func(a []string) string {
		SetDialect(a[0])
		// a[5], a[6] (parse outcome, handler decisions) are inputs of the model only
		return LogTrace(a[1] == "1", a[2] == "1", strings.Split(a[3], ","), string(core.UnHex(a[4])))
	})
}

type builtHandler struct {
	name string
	h    acracensor.QueryHandlerInterface
}

const knownQuery = "select a from t where b = 'known'"

func buildHandlers(specs []string, stmt string, parser *sqlparser.Parser, tmp string) []builtHandler {
	var out []builtHandler
	for i, s := range specs {
		switch s {
		case "", "none":
		case "cap":
			h, err := handlers.NewQueryCaptureHandler(filepath.Join(tmp, fmt.Sprintf("cap%d.log", i)), parser)
			if err != nil {
				panic("harness: query capture handler: " + err.Error())
			}
			go h.Start()
			out = append(out, builtHandler{s, h})
		case "ign0", "ign1":
			h := handlers.NewQueryIgnoreHandler(parser)
			if s == "ign1" {
				h.AddQueries([]string{stmt})
			} else {
				h.AddQueries([]string{"select 1 from dual"})
			}
			out = append(out, builtHandler{s, h})
		case "allowall":
			out = append(out, builtHandler{s, handlers.NewAllowallHandler()})
		case "denyall":
			out = append(out, builtHandler{s, handlers.NewDenyallHandler()})
		case "denyt":
			h := handlers.NewDenyHandler(parser)
			h.AddTables([]string{"t"})
			out = append(out, builtHandler{s, h})
		case "allowt":
			h := handlers.NewAllowHandler(parser)
			h.AddTables([]string{"t"})
			out = append(out, builtHandler{s, h})
		case "denyq":
			h := handlers.NewDenyHandler(parser)
			if err := h.AddQueries([]string{knownQuery}); err != nil {
				panic("harness: " + err.Error())
			}
			out = append(out, builtHandler{s, h})
		case "allowq":
			h := handlers.NewAllowHandler(parser)
			if err := h.AddQueries([]string{knownQuery}); err != nil {
				panic("harness: " + err.Error())
			}
			out = append(out, builtHandler{s, h})
		default:
			panic("harness: unknown handler spec " + s)
		}
	}
	return out
}

func withLogging(level log.Level, f func()) []byte {
	logMu.Lock()
	defer logMu.Unlock()
	var buf bytes.Buffer
	oldOut, oldLevel, oldFmt := log.StandardLogger().Out, log.GetLevel(), log.StandardLogger().Formatter
	log.SetOutput(&buf)
	log.SetFormatter(&log.JSONFormatter{})
	log.SetLevel(level)
	defer func() {
		log.SetOutput(oldOut)
		log.SetLevel(oldLevel)
		log.SetFormatter(oldFmt)
	}()
	f()
	return append([]byte{}, buf.Bytes()...)
}

// Decisions asks every handler on its own (logging discarded) what it decides for the statement: the inputs of the
// model that belong to C05's matching logic. Returns the parse outcome and one token per handler.
func Decisions(dialect string, specs []string, stmt string) (parse string, decisions []string) {
	SetDialect(dialect)
	parser := sqlparser.New(sqlparser.ModeStrict)
	tmp, _ := os.MkdirTemp("", "c16log")
	defer os.RemoveAll(tmp)
	normalized, redacted, parsed, err := parser.HandleRawSQLQuery(stmt)
	parse = "ok"
	if err != nil {
		parse = "fail"
	} else if redacted == "" {
		parse = "okempty"
	}
	withLogging(log.PanicLevel, func() {
		for _, bh := range buildHandlers(specs, stmt, parser, tmp) {
			switch bh.name {
			case "cap":
				decisions = append(decisions, "cap")
			case "ign0", "ign1":
				cont, _ := bh.h.CheckQuery(stmt, parsed)
				if cont {
					decisions = append(decisions, "ign:0")
				} else {
					decisions = append(decisions, "ign:1")
				}
			default:
				cont, err := bh.h.CheckQuery(normalized, parsed)
				d := "continue"
				if err != nil {
					d = "deny"
				} else if !cont {
					d = "allow"
				}
				logs := bh.name == "allowall" || bh.name == "denyall" || (strings.HasPrefix(bh.name, "deny") && d == "deny")
				decisions = append(decisions, fmt.Sprintf("sec:%s:%v", d, logs))
			}
			bh.h.Release()
		}
	})
	return parse, decisions
}

// LogTrace – see the op comment.
func LogTrace(debug, ignoreParse bool, specs []string, stmt string) string {
	parser := sqlparser.New(sqlparser.ModeStrict)
	tmp, _ := os.MkdirTemp("", "c16log")
	defer os.RemoveAll(tmp)
	normalized, redacted, _, _ := parser.HandleRawSQLQuery(stmt)
	level := log.InfoLevel
	if debug {
		level = log.DebugLevel
	}
	verdict := "allowed"
	// configuration (may log about its own rules) happens before the capture starts
	var censor *acracensor.AcraCensor
	withLogging(log.PanicLevel, func() {
		censor = acracensor.NewAcraCensor()
		if ignoreParse {
			if err := censor.LoadConfiguration([]byte("version: 0.85.0\nignore_parse_error: true\n")); err != nil {
				panic("harness: " + err.Error())
			}
		}
		for _, bh := range buildHandlers(specs, stmt, parser, tmp) {
			censor.AddHandler(bh.h)
		}
	})
	out := withLogging(level, func() {
		defer censor.ReleaseAll()
		logger := log.WithField("client_id", "verif")
		// == pg_decryptor.go handleQueryPacket / response_proxy.go CommandQuery (server parser in strict mode here;
		//    the default mode is exercised by C16.log)
		if logging.GetLogLevel() == logging.LogDebug {
			_, queryWithHiddenValues, _, err := parser.HandleRawSQLQuery(stmt)
			if err == sqlparser.ErrQuerySyntaxError {
				logger.WithError(err).WithField(logging.FieldKeyEventCode, logging.EventCodeErrorCensorQueryParseError).
					Debugf("Parsing error on query: %s", queryWithHiddenValues)
			} else {
				logger.WithField("sql", queryWithHiddenValues).Debugln("New query")
			}
		}
		if err := censor.HandleQuery(stmt); err != nil {
			logger.WithField(logging.FieldKeyEventCode, logging.EventCodeErrorCensorQueryIsNotAllowed).WithError(err).Errorln("AcraCensor blocked query")
			verdict = "denied"
		}
	})
	classify := func(text string) string {
		switch {
		case text == "":
			return "none"
		case text == redacted || text == common.TrimStringToN(redacted, common.LogQueryLength):
			return "redacted"
		case text == normalized || text == common.TrimStringToN(normalized, common.LogQueryLength):
			return "normalized"
		case text == stmt || text == common.TrimStringToN(stmt, common.LogQueryLength):
			return "raw"
		}
		return "other"
	}
	var entries []string
	for _, line := range bytes.Split(out, []byte("\n")) {
		if len(line) == 0 {
			continue
		}
		var e map[string]interface{}
		if json.Unmarshal(line, &e) != nil {
			entries = append(entries, "unparsed-entry:other")
			continue
		}
		msg, _ := e["msg"].(string)
		sqlField, hasSQL := e["sql"].(string)
		kind, payload := "", "none"
		switch {
		case msg == "New query":
			kind = "proxyNewQuery"
			if hasSQL {
				payload = classify(sqlField)
				if sqlField == "" {
					payload = "redacted" // the empty statement: its redacted text is empty
				}
			}
		case strings.HasPrefix(msg, "Parsing error on query: "):
			kind, payload = "proxyParsingError", classify(strings.TrimPrefix(msg, "Parsing error on query: "))
		case msg == "Failed to parse input query":
			kind = "failedToParse"
		case msg == "Unparsed query has been denied":
			kind = "unparsedDenied"
		case strings.HasPrefix(msg, "Allowed query: '"):
			kind, payload = "allowedShown", classify(strings.TrimSuffix(strings.TrimPrefix(msg, "Allowed query: '"), "'"))
		case msg == "Allowed query can't be shown in plaintext":
			kind = "allowedHidden"
		case strings.HasPrefix(msg, "Denied query: '"):
			kind, payload = "deniedShown", classify(strings.TrimSuffix(strings.TrimPrefix(msg, "Denied query: '"), "'"))
		case msg == "Denied query can't be shown in plaintext":
			kind = "deniedHidden"
		case strings.HasPrefix(msg, "Denied query by "):
			kind = "deniedBy"
		case strings.HasPrefix(msg, "parsedQuery: "):
			kind = "debugState"
			i := strings.Index(msg, "queryWithHiddenValues: ")
			rest := msg[i+len("queryWithHiddenValues: "):]
			payload = classify(rest)
			if rest == "" {
				payload = "redacted"
			}
		case msg == "Query has been allowed by Allowall handler", msg == "Query has been denied by Denyall handler", strings.HasPrefix(msg, "Query has been blocked by DENY"):
			kind = "handlerOwn"
		case msg == "AcraCensor blocked query":
			kind = "censorBlocked"
		default:
			kind = "other[" + strings.ReplaceAll(msg, " ", "_") + "]"
		}
		// no field of any entry may carry statement text either
		for k, v := range e {
			if s, ok := v.(string); ok && k != "msg" && k != "sql" && len(stmt) > 8 && (strings.Contains(s, stmt) || (normalized != "" && strings.Contains(s, normalized))) {
				payload = "raw-in-field-" + k
			}
		}
		entries = append(entries, kind+":"+payload)
	}
	if len(entries) == 0 {
		return verdict + " -"
	}
	return verdict + " " + strings.Join(entries, ",")
}

// TraceLine builds the protocol line for one case: the decisions of the real handlers are appended for the model.
func TraceLine(dialect string, debug, ignoreParse bool, specs []string, stmt string) string {
	parse, dec := Decisions(dialect, specs, stmt)
	b := func(x bool) string {
		if x {
			return "1"
		}
		return "0"
	}
	d := strings.Join(dec, ",")
	if d == "" {
		d = "-"
	}
	h := strings.Join(specs, ",")
	if h == "" {
		h = "none"
	}
	return fmt.Sprintf("C16.logtrace %s %s %s %s %s %s %s", dialect, b(debug), b(ignoreParse), h, core.Hex([]byte(stmt)), parse, d)
}
