package c16

import (
	"fmt"
	"io"
	"regexp"
	"sort"
	"sync"
	"time"

	log "github.com/sirupsen/logrus"

	"github.com/cossacklabs/acra/logging"
)

// Capture of EVERY log entry of the process-wide logrus logger, at every level, rendered by all of Acra's
// formatters: plaintext, JSON, CEF – each without and with the audit-log integrity hook (logging.NewHooks).
//
// The capture is a logrus hook: it sees the entry itself (level, message, fields) whatever formatter and output
// the process uses; the six renderings are produced from copies of the entry, so the formatters' own additions
// (unixTime, product, integrity) never touch the entry Acra goes on using.

// FormatNames: the renderings kept for every entry, in this order.
var FormatNames = []string{"plaintext", "json", "cef", "plaintext+integrity", "json+integrity", "cef+integrity"}

// Captured is one log entry.
type Captured struct {
	Level     log.Level
	Msg       string
	Fields    map[string]string // field name → fmt.Sprint(value) (what `%v` printing shows)
	Formatted [][]byte          // parallel to FormatNames
}

type captureHook struct {
	mu      sync.Mutex
	fmts    []log.Formatter
	entries []Captured
}

func newCaptureHook() *captureHook {
	h := &captureHook{}
	key := []byte("verif-audit-log-key-0123456789ab")
	for _, withIntegrity := range []bool{false, true} {
		for _, name := range []string{logging.PlaintextFormatString, logging.JSONFormatString, logging.CefFormatString} {
			var f logging.Formatter
			switch name {
			case logging.JSONFormatString:
				f = logging.JSONFormatter()
			case logging.CefFormatString:
				f = logging.CEFFormatter()
			default:
				f = logging.TextFormatter()
			}
			f.SetServiceName("acra-server")
			if withIntegrity {
				hooks, err := logging.NewHooks(key, name)
				if err != nil {
					panic("harness: audit log hooks: " + err.Error())
				}
				f.SetHooks(hooks)
			}
			h.fmts = append(h.fmts, f)
		}
	}
	return h
}

func (h *captureHook) Levels() []log.Level { return log.AllLevels }

var fixedTime = time.Date(2024, 1, 2, 3, 4, 5, 0, time.UTC)

func (h *captureHook) Fire(e *log.Entry) error {
	c := Captured{Level: e.Level, Msg: e.Message, Fields: map[string]string{}}
	for k, v := range e.Data {
		c.Fields[k] = fmt.Sprint(v)
	}
	h.mu.Lock()
	defer h.mu.Unlock()
	for _, f := range h.fmts {
		ne := log.NewEntry(e.Logger)
		ne.Level, ne.Message, ne.Time = e.Level, e.Message, fixedTime
		for k, v := range e.Data {
			ne.Data[k] = v
		}
		b, err := f.Format(ne)
		if err != nil {
			b = []byte("format-error: " + err.Error())
		}
		c.Formatted = append(c.Formatted, maskIntegrity(append([]byte{}, b...)))
	}
	h.entries = append(h.entries, c)
	return nil
}

// integrityValue: the value the audit-log hook appends – 64 hex digits of an HMAC chain over ALL earlier entries of the
// process (their order depends on goroutine scheduling). It is no statement data, and random hex digits do collide with
// short numeric needles now and then (seen: needle 70301244 inside …a370301244e5…): the LAST such value of an entry is
// blanked before the entry is searched.
var integrityValue = regexp.MustCompile(`(integrity(?:=|":"))([0-9a-f]{64})`)

func maskIntegrity(b []byte) []byte {
	ms := integrityValue.FindAllSubmatchIndex(b, -1)
	if len(ms) == 0 {
		return b
	}
	m := ms[len(ms)-1]
	for i := m[4]; i < m[5]; i++ {
		b[i] = 'h'
	}
	return b
}

type nullFormatter struct{}

func (nullFormatter) Format(*log.Entry) ([]byte, error) { return nil, nil }

// ParseLevel: the four settings a session is run under. Acra's own notion (logging.GetLogLevel) is debug for
// "debug", verbose for "info" and discard for both "warn" and "trace" – at "trace" logrus lets every call through
// while Acra believes it is NOT in debug mode.
func ParseLevel(s string) log.Level {
	switch s {
	case "trace":
		return log.TraceLevel
	case "debug":
		return log.DebugLevel
	case "info":
		return log.InfoLevel
	case "warn":
		return log.WarnLevel
	}
	panic("harness: unknown log level " + s)
}

// CaptureAll runs f with the process-wide logger at `level` and returns every entry logged meanwhile (by any
// goroutine), rendered in all formats.
func CaptureAll(level log.Level, f func()) []Captured {
	logMu.Lock()
	defer logMu.Unlock()
	std := log.StandardLogger()
	h := newCaptureHook()
	oldOut, oldLevel, oldFmt := std.Out, std.GetLevel(), std.Formatter
	oldHooks := std.ReplaceHooks(log.LevelHooks{})
	std.AddHook(h)
	std.SetOutput(io.Discard)
	std.SetFormatter(nullFormatter{})
	std.SetLevel(level)
	defer func() {
		std.ReplaceHooks(oldHooks)
		std.SetOutput(oldOut)
		std.SetLevel(oldLevel)
		std.SetFormatter(oldFmt)
	}()
	f()
	h.mu.Lock()
	defer h.mu.Unlock()
	return append([]Captured{}, h.entries...)
}

// SiteKey identifies the call site of an entry as far as the entry shows it: level, message and the names of its fields.
func (c *Captured) SiteKey() string {
	var ks []string
	for k := range c.Fields {
		ks = append(ks, k)
	}
	sort.Strings(ks)
	return fmt.Sprintf("%s|%s", c.Level, c.Msg)
}
