package c16

import (
	"bytes"
	"encoding/base64"
	"encoding/hex"
	"encoding/json"
	"errors"
	"fmt"
	"io"
	"net"
	"os"
	"runtime/debug"
	"sort"
	"strconv"
	"strings"
	"time"

	acracensor "github.com/cossacklabs/acra/acra-censor"
	"github.com/cossacklabs/acra/decryptor/base"
	"github.com/cossacklabs/acra/keystore/filesystem"
	"github.com/cossacklabs/acra/logging"
	"github.com/cossacklabs/acra/sqlparser"
	log "github.com/sirupsen/logrus"

	"verifharness/internal/c04"
	"verifharness/internal/c04/fakemy"
	"verifharness/internal/c04/fakepg"
	"verifharness/internal/core"
	env "verifharness/internal/envops"
)

// Real sessions under the log capture.
//
//	C16.pgsession <hex of JSON Script>   → ok <hex of JSON Outcome>
//	C16.mysession <hex of JSON Script>   → ok <hex of JSON Outcome>
//
// The script is run by a fake client through the REAL proxy of the dialect (postgresql/mysql proxyFactory.New →
// PgProxy / mysql.Handler, both goroutines, query observers for encryption / search / tokenization / masking wired by
// the factory as in acra-server) to a fake database over net.Pipe – the harness of C04 – with the REAL AcraCensor
// built from YAML. Everything the process logs meanwhile is captured (CaptureAll) and searched for the needles the
// script names: literal markers, bound parameter values in every rendering, unparseable statement texts.

// Script is one generated session.
type Script struct {
	Dialect      string   `json:"dialect"` // pg | my
	Level        string   `json:"level"`   // trace | debug | info | warn
	Parser       string   `json:"parser"`  // default | strict   (acra-server --sql_parse_on_error_exit_enable)
	TokVerbose   bool     `json:"tokverbose,omitempty"`
	Censor       string   `json:"censor"`                  // name in censorConfigs
	Enc          string   `json:"enc"`                     // name in encConfigs
	Keys         string   `json:"keys"`                    // full | none   (does the client own keys)
	Seed         uint64   `json:"seed"`                    // keys and crypto/rand of the session
	DeprecateEOF bool     `json:"deprecate_eof,omitempty"` // MySQL: the client announces CLIENT_DEPRECATE_EOF
	Steps        []Step   `json:"steps"`
	Needles      []Needle `json:"needles"`
}

// Step is one client action.
type Step struct {
	// simple: Query (PG) / COM_QUERY (MySQL)
	// ext: PG Parse+Bind+Describe+Execute+Sync in one round; parse: Parse+Sync of a named statement; bind: Bind+Execute+Sync of it
	// prepare / execute / close: MySQL COM_STMT_PREPARE / COM_STMT_EXECUTE / COM_STMT_CLOSE of a named statement
	Kind    string     `json:"kind"`
	Name    string     `json:"name,omitempty"`
	SQL     string     `json:"sql,omitempty"`
	Params  []Param    `json:"params,omitempty"`
	OIDs    []uint32   `json:"oids,omitempty"`
	RFmt    []int16    `json:"rfmt,omitempty"`
	MaxRows uint32     `json:"maxrows,omitempty"`
	FailDB  bool       `json:"faildb,omitempty"` // the database answers this step with an error (quoting statement and values)
	Rows    [][]string `json:"rows,omitempty"`   // canned rows (hex; "" = NULL) the database answers a row-returning step with
}

// Param is a bound parameter.
type Param struct {
	Hex  string `json:"hex"`
	Bin  bool   `json:"bin,omitempty"` // PG: binary format code
	Null bool   `json:"null,omitempty"`
	Type byte   `json:"type,omitempty"` // MySQL parameter type
}

// Needle is a byte string that must not occur in any log entry.
type Needle struct {
	ID   string `json:"id"` // e.g. lit:3:estr, param:2:bin-int4:hex, stmt:5
	Hex  string `json:"hex"`
	Fold bool   `json:"fold,omitempty"` // compare case-insensitively
	Step int    `json:"step"`
}

// Hit is a needle found in an entry.
type Hit struct {
	Needle string `json:"needle"`
	Format string `json:"format"`
	Level  string `json:"level"`
	Msg    string `json:"msg"`   // the entry's message constant
	Field  string `json:"field"` // the field that carries it, "" = the message itself
	Entry  string `json:"entry"` // the rendered entry (truncated)
}

// Outcome of a session.
type Outcome struct {
	Steps     []string `json:"steps"` // per step: ok | dberr | dberr-echo | denied | timeout | closed | skipped
	Entries   int      `json:"entries"`
	Sites     []string `json:"sites"` // distinct "<level>|<message>" of the captured entries
	Hits      []Hit    `json:"hits"`
	Panic     string   `json:"panic,omitempty"`
	PanicSite string   `json:"panic_site,omitempty"` // the function of /repo in which a proxy goroutine panicked
	Echoed    int      `json:"echoed"`               // error responses relayed to the client that quoted a needle
	StepMs    []int64  `json:"step_ms,omitempty"`    // diagnostics only: wall time per step and of the shutdown (last)
}

func init() {
	core.Register("C16.pgsession", func(a []string) string { return runSessionOp(a, "pg") })
	core.Register("C16.mysession", func(a []string) string { return runSessionOp(a, "my") })
}

func runSessionOp(a []string, dialect string) string {
	var sc Script
	if err := json.Unmarshal(core.UnHex(a[0]), &sc); err != nil {
		return "bad-script"
	}
	if sc.Dialect != dialect {
		return "bad-script"
	}
	out := RunSession(&sc)
	b, _ := json.Marshal(out)
	return "ok " + core.Hex(b)
}

// encConfigs: encryptor configurations of the tables the statement templates use (t, u). Every kind of column
// protection occurs, so that the query encryptor, the searchable-query filter, the tokenizer and the masking /
// type-aware response processors all run (and log) on the generated statements.
var encConfigs = map[string]string{
	"none": "schemas: []\n",
	"mixed1": `schemas:
  - table: t
    columns: [id, a, b, c, d, e, f]
    encrypted:
      - column: a
        crypto_envelope: acrablock
      - column: b
        searchable: true
        crypto_envelope: acrablock
      - column: c
        token_type: str
        tokenized: true
        consistent_tokenization: true
      - column: d
        token_type: int32
        tokenized: true
      - column: e
        masking: "xxxx"
        plaintext_length: 3
        plaintext_side: left
      - column: f
        crypto_envelope: acrastruct
        data_type: str
        response_on_fail: default_value
        default_data_value: "hidden"
  - table: u
    columns: [id, b, c, d, e, f]
    encrypted:
      - column: d
        searchable: true
      - column: c
        token_type: email
        tokenized: true
        consistent_tokenization: true
      - column: e
        token_type: int64
        tokenized: true
      - column: f
        data_type: int32
        response_on_fail: error
`,
	"mixed2": `schemas:
  - table: t
    columns: [id, a, b, c, d, e, f]
    encrypted:
      - column: a
        token_type: int32
        tokenized: true
        consistent_tokenization: true
      - column: b
        masking: "**"
        plaintext_length: 2
        plaintext_side: right
        crypto_envelope: acrablock
      - column: c
        searchable: true
        data_type: str
        response_on_fail: ciphertext
      - column: d
        data_type: int32
        response_on_fail: default_value
        default_data_value: "0"
      - column: e
        token_type: bytes
        tokenized: true
      - column: f
        searchable: true
        crypto_envelope: acrastruct
  - table: u
    columns: [id, b, c, d, e, f]
    encrypted:
      - column: b
        crypto_envelope: acrablock
      - column: c
        data_type: int64
        response_on_fail: error
      - column: d
        token_type: int64
        tokenized: true
        consistent_tokenization: true
`,
}

// EncConfigNames in a fixed order.
var EncConfigNames = []string{"none", "mixed1", "mixed2"}

var sessionCols = []string{"id", "a", "b", "c", "d", "e", "f"}

func pgTables() []fakepg.TableDef {
	var out []fakepg.TableDef
	for _, n := range []string{"t", "u", "v"} {
		d := fakepg.TableDef{Name: n}
		for _, c := range sessionCols {
			ty := fakepg.Bytea
			switch c {
			case "id", "d":
				ty = fakepg.Int4
			case "c", "e":
				ty = fakepg.Text
			}
			d.Cols = append(d.Cols, fakepg.Column{Name: c, Type: ty})
		}
		out = append(out, d)
	}
	return out
}

func myTables() []fakemy.TableDef {
	var out []fakemy.TableDef
	for _, n := range []string{"t", "u", "v"} {
		d := fakemy.TableDef{Name: n}
		for _, c := range sessionCols {
			ty := fakemy.TypeBlob
			switch c {
			case "id", "d":
				ty = fakemy.TypeLong
			case "c", "e":
				ty = fakemy.TypeVarString
			}
			d.Cols = append(d.Cols, fakemy.Column{Name: c, Type: ty})
		}
		out = append(out, d)
	}
	return out
}

const sessionClient = "verifclient"

func sessionKeys(sc *Script, rd *core.Rand) *env.TKS {
	ks := &env.TKS{Clients: map[string]*env.KV{}, Poison: env.NewKV(rd, 1, 1), Hmac: map[string][]byte{}}
	if sc.Keys != "none" {
		ks.Clients[sessionClient] = env.NewKV(rd, 1, 1)
		ks.Hmac[sessionClient] = rd.Bytes(32)
	}
	return ks
}

func sessionCensor(name string) *acracensor.AcraCensor {
	censor := acracensor.NewAcraCensor()
	y, ok := censorConfigs[name]
	if !ok {
		panic("harness: unknown censor config " + name)
	}
	if y != "" {
		if err := censor.LoadConfiguration([]byte(y)); err != nil {
			panic("harness: censor config " + name + ": " + err.Error())
		}
	}
	return censor
}

// RunSession runs the script and scans the captured log.
func RunSession(sc *Script) *Outcome {
	out := &Outcome{}
	switch sc.Dialect {
	case "pg":
		SetDialect("pg")
	case "my":
		SetDialect("my")
	default:
		panic("harness: dialect " + sc.Dialect)
	}
	needles := make([][]byte, len(sc.Needles))
	for i, n := range sc.Needles {
		needles[i] = core.UnHex(n.Hex)
		if n.Fold {
			needles[i] = bytes.ToLower(needles[i])
		}
	}
	echo := func(msg string) {
		for i, n := range needles {
			hay := []byte(msg)
			if sc.Needles[i].Fold {
				hay = bytes.ToLower(hay)
			}
			if len(n) > 0 && bytes.Contains(hay, n) {
				out.Echoed++
				return
			}
		}
	}
	rd := core.NewRand(sc.Seed)
	ks := sessionKeys(sc, rd)
	mode := sqlparser.ModeDefault
	if sc.Parser == "strict" {
		mode = sqlparser.ModeStrict
	}
	yaml, ok := encConfigs[sc.Enc]
	if !ok {
		panic("harness: unknown encryptor config " + sc.Enc)
	}
	// configuration (the censor may log about its own rules) happens before the capture starts
	var censor *acracensor.AcraCensor
	CaptureAll(ParseLevel("warn"), func() { censor = sessionCensor(sc.Censor) })
	defer censor.ReleaseAll()
	sqlparser.SetTokenizerVerbosity(sc.TokVerbose)
	sqlparser.SetSQLParserErrorVerboseLevel(sc.TokVerbose)
	defer func() {
		sqlparser.SetTokenizerVerbosity(false)
		sqlparser.SetSQLParserErrorVerboseLevel(false)
	}()
	opts := c04.WorldOpts{Censor: censor, Parser: sqlparser.New(mode), Rand: rd.Fork()}

	entries := CaptureAll(ParseLevel(sc.Level), func() {
		defer func() {
			if p := recover(); p != nil {
				out.Panic = fmt.Sprint(p)
				if os.Getenv("VERIF_PANIC_STACK") != "" {
					os.Stderr.Write(debug.Stack())
				}
			}
		}()
		if sc.Dialect == "pg" {
			runPg(sc, ks, yaml, opts, out, echo)
		} else {
			runMy(sc, ks, yaml, opts, out, echo)
		}
	})

	out.Entries = len(entries)
	if d := os.Getenv("VERIF_C16_DUMP"); d != "" {
		for i := range entries {
			if strings.Contains(entries[i].Msg, d) {
				fmt.Fprintf(os.Stderr, "DUMP %s", entries[i].Formatted[0])
			}
		}
	}
	sites := map[string]bool{}
	for i := range entries {
		e := &entries[i]
		sites[e.SiteKey()] = true
		for fi, raw := range e.Formatted {
			low := bytes.ToLower(raw)
			for ni, n := range needles {
				if len(n) == 0 {
					continue
				}
				hay := raw
				if sc.Needles[ni].Fold {
					hay = low
				}
				if !bytes.Contains(hay, n) {
					continue
				}
				h := Hit{Needle: sc.Needles[ni].ID, Format: FormatNames[fi], Level: e.Level.String(), Msg: e.Msg, Entry: trunc(string(raw))}
				// which part of the entry carries it
				inMsg := bytes.Contains(foldIf([]byte(e.Msg), sc.Needles[ni].Fold), n)
				if !inMsg {
					var fs []string
					for k, v := range e.Fields {
						if bytes.Contains(foldIf([]byte(v), sc.Needles[ni].Fold), n) {
							fs = append(fs, k)
						}
					}
					sort.Strings(fs)
					h.Field = strings.Join(fs, ",")
					if h.Field == "" {
						h.Field = "?"
					}
				}
				out.Hits = append(out.Hits, h)
			}
		}
	}
	for s := range sites {
		out.Sites = append(out.Sites, s)
	}
	sort.Strings(out.Sites)
	// one hit per (needle, message, field) is enough – the formats are listed together
	out.Hits = mergeHits(out.Hits)
	return out
}

func foldIf(b []byte, fold bool) []byte {
	if fold {
		return bytes.ToLower(b)
	}
	return b
}

func mergeHits(hs []Hit) []Hit {
	idx := map[string]int{}
	var out []Hit
	for _, h := range hs {
		k := h.Needle + "\x00" + h.Msg + "\x00" + h.Field + "\x00" + h.Level
		if i, ok := idx[k]; ok {
			if !strings.Contains(","+out[i].Format+",", ","+h.Format+",") {
				out[i].Format += "," + h.Format
			}
			continue
		}
		idx[k] = len(out)
		out = append(out, h)
	}
	return out
}

const stepTimeout = 3 * time.Second

// serverSessionEnd is what cmd/acra-server/common.SServer.handleClientSession does with the errors the two proxy
// goroutines report (that function itself needs a listening server): the first error ends the session and is logged,
// the second is logged at debug level. Replicated here line by line; `closeSession` is clientSession.Close.
func serverSessionEnd(errCh <-chan base.ProxyError, closeSession func(), done chan<- struct{}) {
	defer close(done)
	sessionLogger := log.WithField("session", "verif")
	proxyErr, ok := <-errCh
	if !ok {
		return
	}
	sessionLogger = sessionLogger.WithField("interrupt_side", proxyErr.InterruptSide())
	sessionLogger.Debugln("Stop to proxy")
	err := errors.Unwrap(proxyErr)
	if err == io.EOF {
		sessionLogger.Debugln("EOF connection closed")
	} else if err == nil {
		sessionLogger.Debugln("Err == nil from proxy goroutine")
	} else if netErr, ok := err.(net.Error); ok {
		sessionLogger.WithError(netErr).WithField(logging.FieldKeyEventCode, logging.EventCodeErrorGeneralConnectionProcessing).Errorln("Network error")
	} else if opErr, ok := err.(*net.OpError); ok {
		sessionLogger.WithError(opErr).WithField(logging.FieldKeyEventCode, logging.EventCodeErrorGeneralConnectionProcessing).Errorln("Network error")
	} else if filesystem.IsKeyReadError(err) {
		sessionLogger.WithError(err).WithField(logging.FieldKeyEventCode, logging.EventCodeErrorGeneralConnectionProcessing).Errorln("Key found error")
	} else {
		sessionLogger.WithError(err).WithField(logging.FieldKeyEventCode, logging.EventCodeErrorGeneralConnectionProcessing).Errorln("Unexpected error")
	}
	sessionLogger.Infof("Closing client's connection")
	closeSession()
	select {
	case e2 := <-errCh:
		if errors.Unwrap(e2) == nil {
			// (the server would hand a ProxyError without a cause to the formatter, whose Error() dereferences nil – not this property's business)
			sessionLogger.Debugln("Second proxy goroutine stopped")
		} else {
			sessionLogger.WithError(e2).Debugln("Second proxy goroutine stopped")
		}
	case <-time.After(2 * time.Second):
	}
	sessionLogger.Infoln("Finished processing client's connection")
}

func cannedPg(rows [][]string) [][]fakepg.Val {
	var out [][]fakepg.Val
	for _, r := range rows {
		var vs []fakepg.Val
		for _, c := range r {
			if c == "" {
				vs = append(vs, nil)
			} else {
				vs = append(vs, fakepg.V(core.UnHex(c)))
			}
		}
		out = append(out, vs)
	}
	return out
}

func runPg(sc *Script, ks *env.TKS, yaml string, opts c04.WorldOpts, out *Outcome, echo func(string)) {
	w, err := c04.NewWorldOpts(yaml, ks, pgTables(), opts)
	if err != nil {
		panic("harness: " + err.Error())
	}
	defer w.Close()
	w.DB.EchoErrors = true
	s, err := w.OpenPumped(sessionClient)
	if err != nil {
		panic("harness: open: " + err.Error())
	}
	s.C.Timeout = stepTimeout
	ended := make(chan struct{})
	go serverSessionEnd(s.ErrCh(), func() { s.C.Close() }, ended)
	dead := false
	for _, st := range sc.Steps {
		if dead {
			out.Steps = append(out.Steps, "skipped")
			continue
		}
		w.DB.FailNext = st.FailDB
		if st.Rows != nil {
			w.DB.Canned = cannedPg(st.Rows)
		} else {
			w.DB.Canned = nil
		}
		var params [][]byte
		var pfmt []int16
		for _, p := range st.Params {
			if p.Null {
				params = append(params, nil)
			} else {
				b := core.UnHex(p.Hex)
				if b == nil {
					b = []byte{}
				}
				params = append(params, b)
			}
			if p.Bin {
				pfmt = append(pfmt, 1)
			} else {
				pfmt = append(pfmt, 0)
			}
		}
		var res []*fakepg.Result
		t0 := time.Now()
		switch st.Kind {
		case "simple":
			res, err = s.C.Simple(st.SQL)
		case "ext":
			res, err = s.C.Extended(fakepg.Ext{Parse: true, Name: st.Name, SQL: st.SQL, ParamOIDs: st.OIDs, Bind: true, Params: params, PFmt: pfmt,
				RFmt: st.RFmt, DescribeS: st.Name != "", DescribeP: true, Execute: true, MaxRows: st.MaxRows})
		case "parse":
			res, err = s.C.Extended(fakepg.Ext{Parse: true, Name: st.Name, SQL: st.SQL, ParamOIDs: st.OIDs, DescribeS: true})
		case "bind":
			res, err = s.C.Extended(fakepg.Ext{Name: st.Name, Bind: true, Params: params, PFmt: pfmt, RFmt: st.RFmt, Execute: true, MaxRows: st.MaxRows})
		default:
			panic("harness: pg step kind " + st.Kind)
		}
		w.DB.FailNext = false
		out.StepMs = append(out.StepMs, time.Since(t0).Milliseconds())
		o := "ok"
		if err != nil {
			o = "closed"
			if err == fakepg.ErrTimeout {
				o = "timeout"
			}
			dead = true
		} else {
			for _, r := range res {
				if r.Err != "" {
					o = "dberr"
					before := out.Echoed
					echo(r.ErrMsg)
					if out.Echoed > before {
						o = "dberr-echo"
					}
					if strings.Contains(r.ErrMsg, "AcraCensor") || strings.Contains(strings.ToLower(r.ErrMsg), "censor") {
						o = "denied"
					}
				}
			}
		}
		out.Steps = append(out.Steps, o)
		if err != nil && os.Getenv("VERIF_C16_TIMING") != "" {
			fmt.Fprintf(os.Stderr, "  step %s %q: %v; proxy errors %q\n", st.Kind, st.SQL, err, s.ProxyErrors())
		}
	}
	t1 := time.Now()
	s.C.Close()
	s.Close()
	select {
	case <-ended:
	case <-time.After(3 * time.Second):
	}
	out.StepMs = append(out.StepMs, time.Since(t1).Milliseconds())
	if p := s.Panicked(); p != nil {
		out.Panic = fmt.Sprint(p)
		out.PanicSite = s.PanicSite()
	}
}

func runMy(sc *Script, ks *env.TKS, yaml string, opts c04.WorldOpts, out *Outcome, echo func(string)) {
	w, err := c04.NewMyWorldOpts(yaml, ks, myTables(), opts)
	if err != nil {
		panic("harness: " + err.Error())
	}
	defer w.Close()
	w.DB.EchoErrors = true
	caps := uint32(0)
	if sc.DeprecateEOF {
		caps = fakemy.CapProtocol41 | fakemy.CapSecureConnection | fakemy.CapDeprecateEOF
	}
	s, err := w.OpenPumped(sessionClient, caps)
	if err != nil {
		panic("harness: open: " + err.Error())
	}
	s.C.Timeout = stepTimeout
	ended := make(chan struct{})
	go serverSessionEnd(s.ErrCh(), func() { s.C.Close() }, ended)
	stmts := map[string]*fakemy.Stmt{}
	dead := false
	for _, st := range sc.Steps {
		if dead {
			out.Steps = append(out.Steps, "skipped")
			continue
		}
		w.DB.FailNext = st.FailDB
		if st.Rows != nil {
			var rows [][]fakemy.Val
			for _, r := range st.Rows {
				var vs []fakemy.Val
				for _, c := range r {
					if c == "" {
						vs = append(vs, nil)
					} else {
						vs = append(vs, fakemy.V(core.UnHex(c)))
					}
				}
				rows = append(rows, vs)
			}
			w.DB.SetCanned(rows)
		}
		var params []fakemy.Param
		for _, p := range st.Params {
			params = append(params, fakemy.Param{Type: p.Type, Null: p.Null, Data: core.UnHex(p.Hex)})
		}
		var res *fakemy.Result
		t0 := time.Now()
		switch st.Kind {
		case "simple":
			res, err = s.C.Query(st.SQL)
		case "prepare":
			var ps *fakemy.Stmt
			ps, res, err = s.C.Prepare(st.SQL)
			if ps != nil {
				stmts[st.Name] = ps
			}
		case "execute":
			ps := stmts[st.Name]
			if ps == nil {
				out.Steps = append(out.Steps, "skipped")
				continue
			}
			if len(params) > ps.NParams {
				params = params[:ps.NParams]
			}
			for len(params) < ps.NParams {
				params = append(params, fakemy.Param{Type: fakemy.TypeNull, Null: true})
			}
			res, err = s.C.Execute(ps, params, true)
		case "close":
			if ps := stmts[st.Name]; ps != nil {
				err = s.C.CloseStmt(ps)
				delete(stmts, st.Name)
			}
			res = &fakemy.Result{OK: true}
		default:
			panic("harness: mysql step kind " + st.Kind)
		}
		w.DB.FailNext = false
		out.StepMs = append(out.StepMs, time.Since(t0).Milliseconds())
		o := "ok"
		if err != nil {
			o = "closed"
			if ne, ok := err.(interface{ Timeout() bool }); ok && ne.Timeout() {
				o = "timeout"
			}
			dead = true
		} else if res != nil && res.Err != "" {
			o = "dberr"
			before := out.Echoed
			echo(res.Err)
			if out.Echoed > before {
				o = "dberr-echo"
			}
			if strings.Contains(strings.ToLower(res.Err), "censor") {
				o = "denied"
			}
		}
		out.Steps = append(out.Steps, o)
		if err != nil && os.Getenv("VERIF_C16_TIMING") != "" {
			fmt.Fprintf(os.Stderr, "  step %s %q: %v; proxy errors %q\n", st.Kind, st.SQL, err, s.ProxyErrors())
		}
	}
	t1 := time.Now()
	s.C.Close()
	s.Close()
	select {
	case <-ended:
	case <-time.After(3 * time.Second):
	}
	out.StepMs = append(out.StepMs, time.Since(t1).Milliseconds())
	if p := s.Panicked(); p != nil {
		out.Panic = fmt.Sprint(p)
		out.PanicSite = s.PanicSite()
	}
}

// ---------- renderings of a bound value ----------

// Renderings lists the byte strings under which a value could show up in a log entry: as it is, in hexadecimal
// (both cases), base64 (standard and URL alphabet), Go-quoted (`%q`), as a decimal byte list (`%v` of a []byte) and
// – for fixed-width integers – as the decimal number.
func Renderings(v []byte, asInt string) map[string][]byte {
	out := map[string][]byte{}
	if len(v) == 0 {
		return out
	}
	out["raw"] = v
	out["hex"] = []byte(hex.EncodeToString(v))
	out["base64"] = []byte(strings.TrimRight(base64.StdEncoding.EncodeToString(v), "="))
	if u := strings.TrimRight(base64.URLEncoding.EncodeToString(v), "="); u != string(out["base64"]) {
		out["base64url"] = []byte(u)
	}
	if q := strconv.Quote(string(v)); q[1:len(q)-1] != string(v) {
		out["quoted"] = []byte(q[1 : len(q)-1])
	}
	var ds []string
	for _, b := range v {
		ds = append(ds, strconv.Itoa(int(b)))
	}
	out["bytelist"] = []byte(strings.Join(ds, " "))
	if asInt != "" {
		out["decimal"] = []byte(asInt)
	}
	return out
}
