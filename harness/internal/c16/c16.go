// Package c16: implementation-side ops, generators and oracles for property C16.
package c16
