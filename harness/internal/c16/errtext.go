package c16

import (
	"errors"
	"fmt"
	"strconv"
	"strings"
	"sync"

	pg_query "github.com/cossacklabs/pg_query_go/v5"
	pg_query_parser "github.com/cossacklabs/pg_query_go/v5/parser"

	pgenc "github.com/cossacklabs/acra/encryptor/postgresql"
	"github.com/cossacklabs/acra/utils"

	"verifharness/internal/core"
)

// Error texts that must not carry a value (model: AcraModel/Sql/ErrText.lean).
//
//	C16.numerr <ParseInt|ParseUint|ParseFloat|Atoi> <bits> <value-hex> <cause>
//	   the real strconv function on the value, its error through the real utils.ErrorWithoutValue
//	   → ok <hex of the error text> | noerr          (<cause> ∈ syntax|range|none is an input of the model only)
//	C16.pgerr <stmt-hex> <raw-message-hex|-> <cursor>
//	   the real encryptor/postgresql.ParseQuery → ok <hex of the error text> | parsed
//	   (raw message and cursor position of pg_query's own error are inputs of the model only)
//	C16.pgsan <message-hex> <cursor>
//	   the REAL rewriting code of ParseQuery (zz_parsequery.go: the function as it stands in /repo, regenerated on every
//	   run, with pg_query.Parse replaced by a parser that fails with the given message) → ok <hex of the error text>
func init() {
	core.Register("C16.numerr", func(a []string) string {
		err := convErr(a[0], core.Atoi(a[1]), string(core.UnHex(a[2])))
		if err == nil {
			return "noerr"
		}
		return "ok " + core.Hex([]byte(utils.ErrorWithoutValue(err).Error()))
	})
	core.Register("C16.pgsan", func(a []string) string {
		pgSanMu.Lock()
		defer pgSanMu.Unlock()
		old := pgParseInjected
		defer func() { pgParseInjected = old }()
		pgParseInjected = func(string) (*pg_query.ParseResult, error) {
			return nil, &pg_query_parser.Error{Message: string(core.UnHex(a[0])), Cursorpos: core.Atoi(a[1])}
		}
		_, err := parseQueryCopy("select")
		if err == nil {
			return "parsed"
		}
		return "ok " + core.Hex([]byte(err.Error()))
	})
	core.Register("C16.pgerr", func(a []string) string {
		_, err := pgenc.ParseQuery(string(core.UnHex(a[0])))
		if err == nil {
			return "parsed"
		}
		return "ok " + core.Hex([]byte(err.Error()))
	})
}

var pgSanMu sync.Mutex

// pgKinds: the fixed texts PostgreSQL's scanner and grammar put in front of ` at or near "<token>"` (Props/C16.pgKinds)
var pgKinds = []string{"syntax error", "unterminated quoted string", "unterminated dollar-quoted string", "unterminated quoted identifier",
	"unterminated /* comment", "unterminated bit string literal", "unterminated hexadecimal string literal", "zero-length delimited identifier",
	"trailing junk after numeric literal", "invalid Unicode escape", "operator too long"}

// pgTokenForms: statements the PostgreSQL parser rejects AT a token that contains the words ` at or near ` – a string
// literal in a wrong place, the rest of an unterminated quoted / dollar-quoted / E string, a quoted identifier in a wrong
// place. {M} is a marker inside the token (before and after the phrase).
var pgTokenForms = []string{
	"select a from t where b = 'x' '{M} was seen at or near the gate {M}'",
	"select a from t where b = {L} 'note: {M} at or near {M}'",
	"select a from t where b = 'unterminated {M} was seen at or near the {M} gate",
	"select a from t where b = {L} and c = '{M} at or near \"quoted\" {M}\nnext line at or near end",
	"select a from t where b = $q${M} seen at or near the gate {M}",
	"select a from t where b = $${M} at or near {M} $ $",
	"select a from t where b = E'esc \\' {M} at or near {M}",
	"select a from t \"alias\" \"{M} at or near {M}\"",
	"insert into t (a) values ('ok') '{M} at or near {M} at or near {M}'",
	"update t set a = 'v' '{M} at or near '' {M}' where b = 1",
	"select 1 /* comment {M} at or near {M}",
	"select a from t where b = '{M} at or near ",
	"select a from t where b = 'x' ' at or near {M}'",
}

// instantiateToken fills a pgTokenForm: every {M} gets its own marker (returned), {L} an ordinary literal.
func instantiateToken(form string, rd *core.Rand) (stmt string, markers []string) {
	for strings.Contains(form, "{M}") {
		m := strMarker(9, rd)
		form = strings.Replace(form, "{M}", m, 1)
		markers = append(markers, m)
	}
	stmt, ms, _ := Instantiate(Template{"broken", "", form}, "pg", rd, nil)
	return stmt, append(markers, ms...)
}

func convErr(fn string, bits int, v string) error {
	var err error
	switch fn {
	case "ParseInt":
		_, err = strconv.ParseInt(v, 10, bits)
	case "ParseUint":
		_, err = strconv.ParseUint(v, 10, bits)
	case "ParseFloat":
		_, err = strconv.ParseFloat(v, bits)
	case "Atoi":
		_, err = strconv.Atoi(v)
	default:
		panic("harness: conversion " + fn)
	}
	return err
}

// NumErrLine builds the op line: the cause of the raw error is appended for the model.
func NumErrLine(fn string, bits int, v string) string {
	cause := "none"
	if err := convErr(fn, bits, v); err != nil {
		var ne *strconv.NumError
		switch {
		case errors.As(err, &ne) && ne.Err == strconv.ErrSyntax:
			cause = "syntax"
		case errors.As(err, &ne) && ne.Err == strconv.ErrRange:
			cause = "range"
		default:
			cause = "other"
		}
	}
	return fmt.Sprintf("C16.numerr %s %d %s %s", fn, bits, core.Hex([]byte(v)), cause)
}

// PgErrLine builds the op line: pg_query's own message and cursor position are appended for the model.
func PgErrLine(stmt string) string {
	raw, pos := "-", 0
	if _, err := pg_query.Parse(stmt); err != nil {
		var pe *pg_query_parser.Error
		if errors.As(err, &pe) {
			raw, pos = core.Hex([]byte(pe.Message)), pe.Cursorpos
		} else {
			raw = core.Hex([]byte(err.Error()))
		}
	}
	return fmt.Sprintf("C16.pgerr %s %s %d", core.Hex([]byte(stmt)), raw, pos)
}

// runErrTexts: correspondence and oracle for the two error-text functions.
func runErrTexts(r *core.Run) {
	rd := r.Rand
	// conversions: values with a marker that fail (not a number, out of range) and values that convert
	for i := 0; i < r.N(150, 3000); i++ {
		fn := core.Pick(rd, []string{"ParseInt", "ParseInt", "ParseFloat", "ParseUint", "Atoi"})
		bits := core.Pick(rd, []int{8, 16, 32, 64})
		if fn == "ParseFloat" {
			bits = core.Pick(rd, []int{32, 64})
		}
		m := strMarker(i%10, rd)
		var v string
		switch rd.Intn(7) {
		case 0:
			v = m
		case 1:
			v = numMarker(i%10, rd) + "999999999999999999999" // out of range
		case 2:
			v = numMarker(i%10, rd)
			m = ""
		case 3:
			v = "12" + m
		case 4:
			v = "\x00\xfe" + m + "'\""
		case 5:
			v = "-" + numMarker(i%10, rd) + "e999" + m
		default:
			v = " " + numMarker(i%10, rd)
			m = strings.TrimSpace(v)
		}
		line := NumErrLine(fn, bits, v)
		r.Begin("numerr:"+line, true, "stream:structured", "errtext:numerr")
		out := r.Do(line)
		if strings.HasPrefix(out, "ok ") && m != "" {
			text := core.UnHex(out[3:])
			r.Check(!containsMarker(text, m), "conversion-error-quotes-value", fmt.Sprintf("utils.ErrorWithoutValue(strconv.%s(%q)) = %q still carries the value", fn, v, text))
		}
	}
	// PostgreSQL syntax errors: statements the PostgreSQL parser rejects (the broken forms, MySQL spellings) and ones it takes
	for i := 0; i < r.N(150, 3000); i++ {
		var stmt string
		var ms []string
		phrase := false
		if i%3 == 0 {
			// the offending token itself contains ` at or near `
			stmt, ms = instantiateToken(pgTokenForms[(i/3)%len(pgTokenForms)], rd)
			phrase = true
		} else if rd.Chance(50) {
			form := strings.ReplaceAll(brokenForms[rd.Intn(len(brokenForms))], "{M}", strMarker(9, rd))
			stmt, ms, _ = Instantiate(Template{"broken", "", form}, "pg", rd, nil)
			if j := strings.Index(form, "Zq9x"); j >= 0 {
				ms = append(ms, form[j:][:strings.IndexByte(form[j:], 'z')+1])
			}
		} else {
			d := core.Pick(rd, []string{"pg", "my"})
			stmt, ms, _ = Instantiate(core.Pick(rd, templatesFor(Templates, d)), d, rd, nil)
		}
		line := PgErrLine(stmt)
		r.Begin("pgerr:"+line, true, "stream:malformed", "errtext:pgerr")
		out := r.Do(line)
		r.Tag("pgerr:" + strings.Fields(out)[0])
		if phrase {
			r.Tag("pgerr:token-contains-phrase")
		}
		if strings.HasPrefix(out, "ok ") {
			text := core.UnHex(out[3:])
			for _, m := range ms {
				if containsMarker(text, m) {
					r.Fail("pg-syntax-error-quotes-token", fmt.Sprintf("postgresql.ParseQuery(%q) fails with %q, which carries the literal %q", stmt, text, m))
					break
				}
			}
		}
	}
	// the rewriting code of ParseQuery on GENERATED parser messages `<kind> at or near <token>`: PostgreSQL's kinds, tokens
	// of every sort (quotes, line breaks, non-ASCII, the phrase itself once or several times, nothing at all), and messages
	// without the phrase
	tokPieces := []string{" at or near ", "at or near", " at or near", "\"", "'", "\n", "\r\n", " ", "é", "\x00", "$$", "\\", " at position ", "%s", "%d", "%!d(string="}
	for i := 0; i < r.N(200, 4000); i++ {
		kind := core.Pick(rd, pgKinds)
		var ms []string
		var tok strings.Builder
		tok.WriteString("\"")
		for k := 1 + rd.Intn(5); k > 0; k-- {
			if rd.Chance(50) {
				m := strMarker(k, rd)
				ms = append(ms, m)
				tok.WriteString(m)
			} else {
				tok.WriteString(core.Pick(rd, tokPieces))
			}
		}
		if rd.Chance(70) {
			tok.WriteString("\"")
		}
		msg := kind + " at or near " + tok.String()
		switch rd.Intn(12) {
		case 0:
			msg = kind // no token at all (e.g. "syntax error at end of input" style messages)
			ms = nil
		case 1:
			msg = kind + " at end of input"
			ms = nil
		case 2:
			msg = ""
			ms = nil
		}
		pos := rd.Intn(2000)
		line := fmt.Sprintf("C16.pgsan %s %d", core.Hex([]byte(msg)), pos)
		r.Begin("pgsan:"+line, true, "stream:structured", "errtext:pgsan")
		out := r.Do(line)
		if strings.HasPrefix(out, "ok ") {
			text := core.UnHex(out[3:])
			for _, m := range ms {
				if containsMarker(text, m) {
					r.Fail("pg-syntax-error-quotes-token", fmt.Sprintf("ParseQuery's rewriting of the parser message %q gives %q, which carries %q of the token", msg, text, m))
					break
				}
			}
			if len(ms) > 0 {
				want := fmt.Sprintf("%s at position %d", kind, pos)
				r.Check(string(text) == want, "pg-syntax-error-quotes-token", fmt.Sprintf("ParseQuery's rewriting of the parser message %q gives %q; kind and position alone give %q", msg, text, want))
			}
		}
	}
}
