package c16

import (
	"errors"
	"fmt"
	"strconv"
	"strings"

	pg_query "github.com/cossacklabs/pg_query_go/v5"
	pg_query_parser "github.com/cossacklabs/pg_query_go/v5/parser"

	pgenc "github.com/cossacklabs/acra/encryptor/postgresql"
	"github.com/cossacklabs/acra/utils"

	"verifharness/internal/core"
)

// Error texts that must not carry a value (model: AcraModel/Sql/ErrText.lean).
//
//	C16.numerr <ParseInt|ParseUint|ParseFloat|Atoi> <bits> <value-hex> <cause>
//	   the real strconv function on the value, its error through the real utils.ErrorWithoutValue
//	   → ok <hex of the error text> | noerr          (<cause> ∈ syntax|range|none is an input of the model only)
//	C16.pgerr <stmt-hex> <raw-message-hex|-> <cursor>
//	   the real encryptor/postgresql.ParseQuery → ok <hex of the error text> | parsed
//	   (raw message and cursor position of pg_query's own error are inputs of the model only)
func init() {
	core.Register("C16.numerr", func(a []string) string {
		err := convErr(a[0], core.Atoi(a[1]), string(core.UnHex(a[2])))
		if err == nil {
			return "noerr"
		}
		return "ok " + core.Hex([]byte(utils.ErrorWithoutValue(err).Error()))
	})
	core.Register("C16.pgerr", func(a []string) string {
		_, err := pgenc.ParseQuery(string(core.UnHex(a[0])))
		if err == nil {
			return "parsed"
		}
		return "ok " + core.Hex([]byte(err.Error()))
	})
}

func convErr(fn string, bits int, v string) error {
	var err error
	switch fn {
	case "ParseInt":
		_, err = strconv.ParseInt(v, 10, bits)
	case "ParseUint":
		_, err = strconv.ParseUint(v, 10, bits)
	case "ParseFloat":
		_, err = strconv.ParseFloat(v, bits)
	case "Atoi":
		_, err = strconv.Atoi(v)
	default:
		panic("harness: conversion " + fn)
	}
	return err
}

// NumErrLine builds the op line: the cause of the raw error is appended for the model.
func NumErrLine(fn string, bits int, v string) string {
	cause := "none"
	if err := convErr(fn, bits, v); err != nil {
		var ne *strconv.NumError
		switch {
		case errors.As(err, &ne) && ne.Err == strconv.ErrSyntax:
			cause = "syntax"
		case errors.As(err, &ne) && ne.Err == strconv.ErrRange:
			cause = "range"
		default:
			cause = "other"
		}
	}
	return fmt.Sprintf("C16.numerr %s %d %s %s", fn, bits, core.Hex([]byte(v)), cause)
}

// PgErrLine builds the op line: pg_query's own message and cursor position are appended for the model.
func PgErrLine(stmt string) string {
	raw, pos := "-", 0
	if _, err := pg_query.Parse(stmt); err != nil {
		var pe *pg_query_parser.Error
		if errors.As(err, &pe) {
			raw, pos = core.Hex([]byte(pe.Message)), pe.Cursorpos
		} else {
			raw = core.Hex([]byte(err.Error()))
		}
	}
	return fmt.Sprintf("C16.pgerr %s %s %d", core.Hex([]byte(stmt)), raw, pos)
}

// runErrTexts: correspondence and oracle for the two error-text functions.
func runErrTexts(r *core.Run) {
	rd := r.Rand
	// conversions: values with a marker that fail (not a number, out of range) and values that convert
	for i := 0; i < r.N(150, 3000); i++ {
		fn := core.Pick(rd, []string{"ParseInt", "ParseInt", "ParseFloat", "ParseUint", "Atoi"})
		bits := core.Pick(rd, []int{8, 16, 32, 64})
		if fn == "ParseFloat" {
			bits = core.Pick(rd, []int{32, 64})
		}
		m := strMarker(i%10, rd)
		var v string
		switch rd.Intn(7) {
		case 0:
			v = m
		case 1:
			v = numMarker(i%10, rd) + "999999999999999999999" // out of range
		case 2:
			v = numMarker(i%10, rd)
			m = ""
		case 3:
			v = "12" + m
		case 4:
			v = "\x00\xfe" + m + "'\""
		case 5:
			v = "-" + numMarker(i%10, rd) + "e999" + m
		default:
			v = " " + numMarker(i%10, rd)
			m = strings.TrimSpace(v)
		}
		line := NumErrLine(fn, bits, v)
		r.Begin("numerr:"+line, true, "stream:structured", "errtext:numerr")
		out := r.Do(line)
		if strings.HasPrefix(out, "ok ") && m != "" {
			text := core.UnHex(out[3:])
			r.Check(!containsMarker(text, m), "conversion-error-quotes-value", fmt.Sprintf("utils.ErrorWithoutValue(strconv.%s(%q)) = %q still carries the value", fn, v, text))
		}
	}
	// PostgreSQL syntax errors: statements the PostgreSQL parser rejects (the broken forms, MySQL spellings) and ones it takes
	for i := 0; i < r.N(150, 3000); i++ {
		var stmt string
		var ms []string
		if rd.Chance(50) {
			form := strings.ReplaceAll(brokenForms[rd.Intn(len(brokenForms))], "{M}", strMarker(9, rd))
			stmt, ms, _ = Instantiate(Template{"broken", "", form}, "pg", rd, nil)
			if j := strings.Index(form, "Zq9x"); j >= 0 {
				ms = append(ms, form[j:][:strings.IndexByte(form[j:], 'z')+1])
			}
		} else {
			d := core.Pick(rd, []string{"pg", "my"})
			stmt, ms, _ = Instantiate(core.Pick(rd, templatesFor(Templates, d)), d, rd, nil)
		}
		line := PgErrLine(stmt)
		r.Begin("pgerr:"+line, true, "stream:malformed", "errtext:pgerr")
		out := r.Do(line)
		r.Tag("pgerr:" + strings.Fields(out)[0])
		if strings.HasPrefix(out, "ok ") {
			text := core.UnHex(out[3:])
			for _, m := range ms {
				if containsMarker(text, m) {
					r.Fail("pg-syntax-error-quotes-token", fmt.Sprintf("postgresql.ParseQuery(%q) fails with %q, which carries the literal %q", stmt, text, m))
					break
				}
			}
		}
	}
}
