package c06

import (
	"fmt"

	"verifharness/internal/core"
)

// GenSeq draws one op sequence focused on a few slots. est tracks a rough count of rotated keys per
// slot so that most destroy indices fall inside the listing; the rest probe its bounds.
func GenSeq(rd *core.Rand, n int, withDestroyCurrent bool) []string {
	all := AllSlots()
	focus := []Slot{core.Pick(rd, all)}
	for len(focus) < 3 && rd.Chance(55) {
		if rd.Chance(50) {
			// a sibling slot of the same client (cache entries of pair and symmetric keys interact)
			s := focus[0]
			focus = append(focus, core.Pick(rd, []Slot{{StoragePair, s.Client}, {StorageSym, s.Client}, {Hmac, s.Client}, {PoisonPair, 0}, {PoisonSym, 0}}))
		} else {
			focus = append(focus, core.Pick(rd, all))
		}
	}
	gens := map[Slot]int{}
	destroyed := map[Slot]int{}
	var toks []string
	for len(toks) < n {
		s := core.Pick(rd, focus)
		rot := gens[s] - 1 - destroyed[s]
		if rot < 0 {
			rot = 0
		}
		w := rd.Intn(100)
		switch {
		case w < 30 || gens[s] == 0:
			toks = append(toks, "g:"+s.String())
			gens[s]++
		case w < 42:
			toks = append(toks, "c:"+s.String())
		case w < 58:
			if s.HasAll() {
				toks = append(toks, "a:"+s.String())
			} else {
				toks = append(toks, "c:"+s.String())
			}
		case w < 61:
			if s.IsPair() {
				toks = append(toks, "p:"+s.String())
			}
		case w < 64:
			toks = append(toks, "l")
		case w < 70:
			toks = append(toks, "r")
		case w < 74:
			if withDestroyCurrent && s.CanDestroy() {
				toks = append(toks, "dc:"+s.String())
				destroyed[s]++
			}
		case w < 88:
			if s.CanDestroy() {
				idx := 2
				switch rd.Intn(6) {
				case 0:
					idx = rot + 1 // last listed
				case 1:
					idx = rot + 2 // first index past the listing
				case 2:
					idx = rot + 3
				case 3:
					idx = 2
				default:
					if rot > 0 {
						idx = 2 + rd.Intn(rot)
					}
				}
				if idx < 2 {
					idx = 2
				}
				toks = append(toks, fmt.Sprintf("dr:%s:%d", s, idx))
				if idx <= rot+1 {
					destroyed[s]++
				}
			}
		case w < 95:
			toks = append(toks, "x")
		default:
			toks = append(toks, "o")
		}
	}
	return toks
}

func pickFormat(rd *core.Rand) (Format, int) {
	w := rd.Intn(100)
	switch {
	case w < 15:
		return V1, -1
	case w < 35:
		return V1, 0
	case w < 45:
		return V1, 1
	case w < 60:
		return V1, 2 + rd.Intn(7)
	case w < 85:
		return V2Mem, -1
	default:
		return V2Dir, -1
	}
}

func runGenerated(r *core.Run) {
	rd := r.Rand.Fork() // Fork: streams of adjacent seeds of core.Rand are shifted copies of each other
	n := r.N(350, 8000)
	for i := 0; i < n; i++ {
		f, cache := pickFormat(rd)
		ln := 4 + rd.Intn(37)
		if f == V2Dir && ln > 24 {
			ln = 24
		}
		// most sequences avoid destroy-current (its aftermath is a known finding that would mask
		// everything after it in the same slot); a share keeps it in.
		toks := GenSeq(rd, ln, rd.Chance(25))
		runCase(r, f, cache, toks, "stream:structured")
	}
	runBoundary(r)
}

// runBoundary: for each destroyable kind and both formats, k+1 generations followed by a destroy at
// every index 2..k+3, then reads; and cache sizes around the working set of an all-keys read.
func runBoundary(r *core.Run) {
	kinds := []Slot{{StoragePair, 0}, {StorageSym, 1}, {Hmac, 2}, {PoisonPair, 0}, {PoisonSym, 0}}
	maxK := 3
	if r.Thorough() {
		maxK = 5
	}
	for _, f := range []Format{V1, V2Mem} {
		for _, s := range kinds {
			for k := 0; k <= maxK; k++ {
				for idx := 2; idx <= k+3; idx++ {
					var toks []string
					for g := 0; g <= k; g++ {
						toks = append(toks, "g:"+s.String())
					}
					toks = append(toks, "r", fmt.Sprintf("dr:%s:%d", s, idx), "r", "c:"+s.String())
					if s.HasAll() {
						toks = append(toks, "a:"+s.String())
					}
					toks = append(toks, "o", "c:"+s.String())
					runCase(r, f, -1, toks, "stream:boundary")
				}
			}
		}
	}
	for _, s := range []Slot{{StoragePair, 0}, {StorageSym, 0}, {PoisonPair, 0}, {PoisonSym, 0}} {
		for cache := 1; cache <= 6; cache++ {
			toks := []string{"g:" + s.String(), "g:" + s.String(), "a:" + s.String(), "g:" + s.String(), "a:" + s.String(), "c:" + s.String(), "a:" + s.String(), "x", "a:" + s.String()}
			runCase(r, V1, cache, toks, "stream:boundary")
		}
	}
}
