package c06

import (
	"context"
	"os"
	"path/filepath"
	"sort"

	"github.com/cossacklabs/acra/keystore"
	v2 "github.com/cossacklabs/acra/keystore/v2/keystore"
	v2api "github.com/cossacklabs/acra/keystore/v2/keystore/api"
	v2fs "github.com/cossacklabs/acra/keystore/v2/keystore/filesystem"
	v2backend "github.com/cossacklabs/acra/keystore/v2/keystore/filesystem/backend"
	backendapi "github.com/cossacklabs/acra/keystore/v2/keystore/filesystem/backend/api"
)

// Ground truth: what is *stored*, read without the functions under test.
//
//	v1: the key files themselves (os.ReadFile + the master-key cell), current file first, then the
//	    <name>.old directory in descending name order;
//	v2: the ring through the low-level KeyRing API (AllKeys/State/PrivateKey/SymmetricKey per seqnum),
//	    destroyed keys skipped.
//
// The result is the list of surviving key values, newest first; an undecryptable (torn/corrupt)
// file yields a nil entry.

// V1PrivName / V1PubName are the v1 file names (relative to the key directory) of a slot.
func V1PrivName(s Slot) string {
	switch s.Kind {
	case StoragePair:
		return ClientIDs[s.Client] + "_storage"
	case StorageSym:
		return ClientIDs[s.Client] + "_storage_sym"
	case Hmac:
		return ClientIDs[s.Client] + "_hmac"
	case PoisonPair:
		return ".poison_key/poison_key"
	case PoisonSym:
		return ".poison_key/poison_key_sym"
	default:
		return "secure_log_key"
	}
}

func V1PubName(s Slot) string { return V1PrivName(s) + ".pub" }

// V2RingPath is the v2 key ring path of a slot.
func V2RingPath(s Slot) string {
	switch s.Kind {
	case StoragePair:
		return "client/" + ClientIDs[s.Client] + "/storage"
	case StorageSym:
		return "client/" + ClientIDs[s.Client] + "/storage-sym"
	case Hmac:
		return "client/" + ClientIDs[s.Client] + "/hmac-sym"
	case PoisonPair:
		return "poison-record"
	case PoisonSym:
		return "poison-record-sym"
	default:
		return "audit-log"
	}
}

func v1Context(s Slot) keystore.KeyContext {
	switch s.Kind {
	case StoragePair:
		return keystore.NewClientIDKeyContext(keystore.PurposeStorageClientPrivateKey, s.ID())
	case StorageSym:
		return keystore.NewClientIDKeyContext(keystore.PurposeStorageClientSymmetricKey, s.ID())
	case Hmac:
		return keystore.NewClientIDKeyContext(keystore.PurposeSearchHMAC, s.ID())
	case PoisonPair:
		return keystore.NewKeyContext(keystore.PurposePoisonRecordKeyPair, []byte(".poison_key/poison_key"))
	case PoisonSym:
		return keystore.NewKeyContext(keystore.PurposePoisonRecordSymmetricKey, []byte(".poison_key/poison_key_sym"))
	default:
		return keystore.NewKeyContext(keystore.PurposeAuditLog, []byte("secure_log_key"))
	}
}

// v1Files returns the stored versions of one key file newest first: the current file (when present)
// followed by the history directory in descending order. curPresent tells whether the current file exists.
func v1Files(dir, name string) (contents [][]byte, curPresent bool) {
	p := filepath.Join(dir, name)
	if b, err := os.ReadFile(p); err == nil {
		contents = append(contents, b)
		curPresent = true
	}
	es, err := os.ReadDir(p + ".old")
	if err == nil {
		names := make([]string, 0, len(es))
		for _, e := range es {
			if e.Type().IsRegular() {
				names = append(names, e.Name())
			}
		}
		sort.Sort(sort.Reverse(sort.StringSlice(names)))
		for _, n := range names {
			b, err := os.ReadFile(filepath.Join(p+".old", n))
			if err != nil {
				b = nil
			}
			contents = append(contents, b)
		}
	}
	return contents, curPresent
}

// Truth is the stored state of one slot.
type Truth struct {
	Priv       [][]byte // surviving private/symmetric values, newest first (nil = unreadable)
	Pub        [][]byte // pair slots, v1: stored public values newest first; v2: same order as Priv
	CurPresent bool     // v1: current file exists; v2: ring has a current key that is not destroyed
	CurPriv    []byte   // value the format designates as current (nil when none)
	CurPub     []byte
	RingExists bool // v2
	NoCurrent  bool // v2: the ring exists and its Current is NoKey
}

func (w *World) TruthOf(s Slot) Truth {
	if w.Format == V1 {
		return w.truthV1(s)
	}
	return w.truthV2(s)
}

func (w *World) truthV1(s Slot) Truth {
	var t Truth
	enc, _ := keystore.NewSCellKeyEncryptor(MasterKey)
	raw, cur := v1Files(w.Dir, V1PrivName(s))
	t.CurPresent = cur
	for _, b := range raw {
		var v []byte
		if b != nil {
			d, err := enc.Decrypt(context.Background(), b, v1Context(s))
			if err == nil {
				v = d
			}
		}
		t.Priv = append(t.Priv, v)
	}
	if cur && len(t.Priv) > 0 {
		t.CurPriv = t.Priv[0]
	}
	if s.IsPair() {
		rawPub, curPub := v1Files(w.Dir, V1PubName(s))
		t.Pub = rawPub
		if curPub && len(rawPub) > 0 {
			t.CurPub = rawPub[0]
		}
	}
	return t
}

func (w *World) rawBackend() (backendapi.Backend, func()) {
	if w.Format == V2Mem {
		return w.Mem, func() {}
	}
	d, err := v2backend.CreateDirectoryBackend(w.Dir)
	if err != nil {
		panic("harness: " + err.Error())
	}
	return d, func() { d.Close() }
}

func (w *World) truthV2(s Slot) Truth {
	var t Truth
	suite, _ := v2.NewSCellSuite(MasterKey, SignKey)
	be, done := w.rawBackend()
	defer done()
	ks, err := v2fs.CustomKeyStore(be, suite)
	if err != nil {
		panic("harness: " + err.Error())
	}
	ring, err := ks.OpenKeyRing(V2RingPath(s))
	if err != nil {
		return t
	}
	t.RingExists = true
	seqs, _ := ring.AllKeys() // newest first
	cur, curErr := ring.CurrentKey()
	t.NoCurrent = curErr != nil
	for _, q := range seqs {
		st, _ := ring.State(q)
		if st == v2api.KeyDestroyed {
			continue
		}
		var priv, pub []byte
		if s.IsPair() {
			priv, _ = ring.PrivateKey(q, v2api.ThemisKeyPairFormat)
			pub, _ = ring.PublicKey(q, v2api.ThemisKeyPairFormat)
		} else {
			priv, _ = ring.SymmetricKey(q, v2api.ThemisSymmetricKeyFormat)
		}
		t.Priv = append(t.Priv, priv)
		if s.IsPair() {
			t.Pub = append(t.Pub, pub)
		}
		if curErr == nil && q == cur {
			t.CurPresent = true
			t.CurPriv, t.CurPub = priv, pub
		}
	}
	return t
}
