package c06

import (
	"fmt"
	"os"
	"strings"

	"verifharness/internal/core"
)

// Witness is a regression-corpus entry: a sequence that exhibited a defect of the pinned tree.
type Witness struct {
	Name   string
	Format Format
	Cache  int
	Toks   string
}

// Corpus: witnesses of every defect found (fixed or known); run first on every run.
var Corpus = []Witness{
	{"#8 v1 destroy rotated removes files[index-1]: 4 generations, destroy listed index 2", V1, -1, "g:ss0 g:ss0 g:ss0 g:ss0 r dr:ss0:2 a:ss0 r"},
	{"#8 v1 destroy rotated with a single rotated key indexes out of range", V1, -1, "g:ss0 g:ss0 r dr:ss0:2 a:ss0"},
	{"#8 same for a key pair (private and public history)", V1, -1, "g:sp1 g:sp1 g:sp1 r dr:sp1:3 a:sp1 r"},
	{"#8 poison pair / hmac / poison sym", V1, -1, "g:pp g:pp g:pp dr:pp:2 a:pp g:hm2 g:hm2 dr:hm2:2 g:ps g:ps g:ps dr:ps:3 a:ps"},
	{"#9 v1 warm cache, key-pair rotation, read all private keys", V1, 0, "g:sp0 a:sp0 g:sp0 a:sp0 x a:sp0"},
	{"#9 same for the poison pair", V1, 0, "g:pp a:pp g:pp a:pp x a:pp"},
	{"#9 with a bounded cache large enough to keep the list", V1, 8, "g:sp0 a:sp0 g:sp0 a:sp0"},
	{"#10 v2 read all after destroying a rotated key", V2Mem, -1, "g:ss0 g:ss0 g:ss0 dr:ss0:2 a:ss0 c:ss0"},
	{"#10 key pair, directory back end", V2Dir, -1, "g:sp0 g:sp0 g:sp0 dr:sp0:3 a:sp0 r"},
	{"#10 poison kinds", V2Mem, -1, "g:pp g:pp dr:pp:2 a:pp g:ps g:ps dr:ps:2 a:ps"},
	{"#14 destroy current, then read (v1)", V1, -1, "g:ss0 g:ss0 dc:ss0 c:ss0 a:ss0 g:ss0 a:ss0 c:ss0"},
	{"#14 destroy current, then read (v2)", V2Mem, -1, "g:ss0 g:ss0 dc:ss0 c:ss0 a:ss0 g:ss0 a:ss0 c:ss0"},
	{"#19 v1 destroying the current symmetric key purges the key pair's cache entry", V1, 0, "g:sp0 g:ss0 c:sp0 a:sp0 dc:ss0 c:sp0 a:sp0 x c:sp0"},
	{"#19 same for the poison kinds", V1, 0, "g:pp g:ps c:pp a:pp dc:ps c:pp a:pp"},
}

func formatTag(f Format, cache int) string {
	switch f {
	case V1:
		return fmt.Sprintf("v1/cache=%d", cache)
	case V2Mem:
		return "v2/mem"
	}
	return "v2/dir"
}

// runCase executes one sequence on implementation and model and feeds the oracle findings to the run.
func runCase(r *core.Run, f Format, cache int, toks []string, tags ...string) {
	line := lineFor(f, cache, toks)
	writes := 0
	for _, t := range toks {
		if strings.HasPrefix(t, "g:") || strings.HasPrefix(t, "d") {
			writes++
		}
	}
	r.Begin(line, writes >= 2, append(tags, "format:"+formatTag(f, cache), fmt.Sprintf("len:%d", (len(toks)+4)/5*5))...)
	for _, t := range toks {
		r.Tag("op:" + strings.SplitN(t, ":", 2)[0])
	}
	var out string
	if os.Getenv("VERIF_IMPL_ONLY") != "" {
		out = r.Impl(line)
	} else {
		out = r.Do(line)
	}
	for _, o := range strings.Split(out, "|") {
		r.Tag("obs:" + strings.SplitN(o, ":", 2)[0])
	}
	for _, fd := range takeFindings() {
		r.Fail(fd.Class, fd.Desc+"   [sequence: "+line+"] => "+out)
	}
}

func run(r *core.Run) {
	r.Rule = "op sequences over {generate/rotate, read current, read public, read all, list, list rotated, destroy current, destroy rotated by listed index, reset cache, reopen} on 6 key kinds x 3 client ids, run on fresh real keystores (v1 with cache off/1/small/unbounded; v2 in-memory and directory back ends); structured stream: rotation-heavy sequences focused on 1-3 slots; boundary stream: every destroy index around the listing bounds, cache sizes around the working set; a case is non-trivial when it contains at least two writes; distinct by (format, cache, sequence)"
	for _, w := range Corpus {
		runCase(r, w.Format, w.Cache, strings.Fields(w.Toks), "stream:corpus")
	}
	runGenerated(r)
}
