// Package c06: implementation-side ops, generators and oracles for property C06
// (rotation keeps old data readable; destruction removes exactly the chosen key).
//
// The real Acra keystores (v1 filesystem.KeyStore over an injectable filesystem.Storage, v2
// ServerKeyStore over an injectable api.Backend) are driven through one small adapter. Keys are
// never compared by bytes in the line protocol: every key value is mapped to its *identity*, the
// 1-based index of the generation that produced it within its slot (kind, client).
package c06

import (
	"fmt"
	"os"
	"path/filepath"
	"sort"
	"strings"
	"time"

	"github.com/cossacklabs/themis/gothemis/keys"

	"github.com/cossacklabs/acra/keystore"
	fsv1 "github.com/cossacklabs/acra/keystore/filesystem"
	v2 "github.com/cossacklabs/acra/keystore/v2/keystore"
	v2api "github.com/cossacklabs/acra/keystore/v2/keystore/api"
	v2fs "github.com/cossacklabs/acra/keystore/v2/keystore/filesystem"
	v2backend "github.com/cossacklabs/acra/keystore/v2/keystore/filesystem/backend"
	backendapi "github.com/cossacklabs/acra/keystore/v2/keystore/filesystem/backend/api"
)

// ---------- slots ----------

// Kind of key. The order is the protocol's: sp ss hm pp ps al.
type Kind int

const (
	StoragePair Kind = iota
	StorageSym
	Hmac
	PoisonPair
	PoisonSym
	AuditLog
)

var kindTok = []string{"sp", "ss", "hm", "pp", "ps", "al"}

// ClientIDs used by the generators (valid per keystore.ValidateID; one contains '_' and one '-',
// which the v1 name parser has to cope with).
var ClientIDs = []string{"client_a", "user-b2", "zeta_9 x"}

type Slot struct {
	Kind   Kind
	Client int // index into ClientIDs; 0 for the kinds without an owner
}

func (s Slot) HasClient() bool { return s.Kind <= Hmac }
func (s Slot) IsPair() bool    { return s.Kind == StoragePair || s.Kind == PoisonPair }
func (s Slot) HasAll() bool    { return s.Kind != Hmac && s.Kind != AuditLog }
func (s Slot) CanDestroy() bool {
	return s.Kind != AuditLog
}
func (s Slot) ID() []byte { return []byte(ClientIDs[s.Client]) }
func (s Slot) String() string {
	if s.HasClient() {
		return fmt.Sprintf("%s%d", kindTok[s.Kind], s.Client)
	}
	return kindTok[s.Kind]
}

func ParseSlot(t string) (Slot, bool) {
	for k, p := range kindTok {
		if strings.HasPrefix(t, p) {
			rest := t[len(p):]
			s := Slot{Kind: Kind(k)}
			if s.HasClient() {
				if len(rest) != 1 || rest[0] < '0' || int(rest[0]-'0') >= len(ClientIDs) {
					return s, false
				}
				s.Client = int(rest[0] - '0')
				return s, true
			}
			return s, rest == ""
		}
	}
	return Slot{}, false
}

// AllSlots lists every slot of the protocol.
func AllSlots() []Slot {
	var out []Slot
	for k := StoragePair; k <= Hmac; k++ {
		for c := range ClientIDs {
			out = append(out, Slot{k, c})
		}
	}
	return append(out, Slot{PoisonPair, 0}, Slot{PoisonSym, 0}, Slot{AuditLog, 0})
}

// ---------- the API both real keystores offer ----------

type acraStore interface {
	GenerateDataEncryptionKeys(id []byte) error
	GenerateClientIDSymmetricKey(id []byte) error
	GenerateHmacKey(id []byte) error
	GeneratePoisonKeyPair() error
	GeneratePoisonSymmetricKey() error
	GenerateLogKey() error
	SaveDataEncryptionKeys(id []byte, keypair *keys.Keypair) error

	GetServerDecryptionPrivateKey(id []byte) (*keys.PrivateKey, error)
	GetServerDecryptionPrivateKeys(id []byte) ([]*keys.PrivateKey, error)
	GetClientIDEncryptionPublicKey(id []byte) (*keys.PublicKey, error)
	GetClientIDSymmetricKey(id []byte) ([]byte, error)
	GetClientIDSymmetricKeys(id []byte) ([][]byte, error)
	GetHMACSecretKey(id []byte) ([]byte, error)
	GetPoisonKeyPair() (*keys.Keypair, error)
	GetPoisonPrivateKeys() ([]*keys.PrivateKey, error)
	GetPoisonSymmetricKey() ([]byte, error)
	GetPoisonSymmetricKeys() ([][]byte, error)
	GetLogSecretKey() ([]byte, error)

	ListKeys() ([]keystore.KeyDescription, error)
	ListRotatedKeys() ([]keystore.KeyDescription, error)

	DestroyClientIDEncryptionKeyPair(id []byte) error
	DestroyClientIDSymmetricKey(id []byte) error
	DestroyHmacSecretKey(id []byte) error
	DestroyPoisonKeyPair() error
	DestroyPoisonSymmetricKey() error
	DestroyRotatedClientIDEncryptionKeyPair(id []byte, index int) error
	DestroyRotatedClientIDSymmetricKey(id []byte, index int) error
	DestroyRotatedHmacSecretKey(id []byte, index int) error
	DestroyRotatedPoisonKeyPair(index int) error
	DestroyRotatedPoisonSymmetricKey(index int) error

	Reset()
}

var (
	_ acraStore = (*fsv1.KeyStore)(nil)
	_ acraStore = (*v2.ServerKeyStore)(nil)
)

// MasterKey / SignKey are fixed: nothing in the properties depends on their value.
var (
	MasterKey = []byte("0123456789abcdef0123456789abcdef")
	SignKey   = []byte("fedcba9876543210fedcba9876543210")
)

// ---------- a keystore under test ----------

// Format selects the keystore implementation.
type Format int

const (
	V1 Format = iota
	V2Mem
	V2Dir
)

// World is one keystore's persistent storage plus the currently open handle on it.
type World struct {
	Format Format
	Cache  int    // v1 only: -1 off, 0 unbounded, n>0 LRU of n entries
	Dir    string // temp dir (v1, v2dir)
	Mem    *v2backend.InMemory
	// optional wrappers (fault injection, call logging) installed by C08
	WrapStorage func(fsv1.Storage) fsv1.Storage
	WrapBackend func(backendapi.Backend) backendapi.Backend

	H      acraStore // the open handle
	closer func()
	// spelling selects how the key directory path is written for the handle under test (v1)
	spelling int
}

var worldCounter int

func NewWorld(f Format, cache int) (*World, error) {
	worldCounter++
	w := &World{Format: f, Cache: cache, spelling: worldCounter}
	if f == V1 || f == V2Dir {
		d, err := os.MkdirTemp("", "verif-ks-")
		if err != nil {
			return nil, err
		}
		w.Dir = d
	}
	if f == V2Mem {
		w.Mem = v2backend.NewInMemory()
	}
	return w, nil
}

// Open (re)opens a handle on the storage; the previous handle is dropped.
func (w *World) Open() error {
	h, c, err := w.open(w.Cache, true)
	if err != nil {
		return err
	}
	if w.closer != nil {
		w.closer()
	}
	w.H, w.closer = h, c
	return nil
}

// Fresh opens an independent, uncached, unwrapped handle on the same storage (the oracle's view).
func (w *World) Fresh() (acraStore, func(), error) {
	return w.open(keystore.WithoutCache, false)
}

// HandleFor returns the handle under test itself (same == true; what the running process sees) or a
// Fresh one (what a restarted process sees). Used by C08's same-handle follow-ups.
func (w *World) HandleFor(same bool) (acraStore, func(), error) {
	if same {
		return w.H, func() {}, nil
	}
	return w.Fresh()
}

func (w *World) open(cache int, wrap bool) (acraStore, func(), error) {
	switch w.Format {
	case V1:
		enc, err := keystore.NewSCellKeyEncryptor(MasterKey)
		if err != nil {
			return nil, nil, err
		}
		var st fsv1.Storage = &fsv1.DummyStorage{}
		if wrap && w.WrapStorage != nil {
			st = w.WrapStorage(st)
		}
		dir := w.Dir
		if wrap && w.WrapStorage == nil {
			// operators spell the key directory in many ways (--keys_dir=.acrakeys/ , ./keys, a//b): the handle under
			// test gets one of them, the oracle's own handle (Fresh) the clean path. Deterministic per world.
			switch w.spelling % 4 {
			case 1:
				dir = w.Dir + "/"
			case 2:
				dir = w.Dir + "//"
			case 3:
				dir = filepath.Dir(w.Dir) + "/./" + filepath.Base(w.Dir)
			}
		}
		ks, err := fsv1.NewCustomFilesystemKeyStore().KeyDirectory(dir).Encryptor(enc).Storage(st).CacheSize(cache).Build()
		if err != nil {
			return nil, nil, err
		}
		return ks, func() {}, nil
	default:
		suite, err := v2.NewSCellSuite(MasterKey, SignKey)
		if err != nil {
			return nil, nil, err
		}
		var be backendapi.Backend
		if w.Format == V2Mem {
			be = w.Mem
		} else {
			d, err := v2backend.CreateDirectoryBackend(w.Dir)
			if err != nil {
				return nil, nil, err
			}
			be = d
		}
		if wrap && w.WrapBackend != nil {
			be = w.WrapBackend(be)
		}
		ks, err := v2fs.CustomKeyStore(be, suite)
		if err != nil {
			return nil, nil, err
		}
		closer := func() {
			if w.Format == V2Dir {
				ks.Close()
			}
		}
		return v2.NewServerKeyStore(ks), closer, nil
	}
}

func (w *World) Close() {
	if w.closer != nil {
		w.closer()
		w.closer = nil
	}
	if w.Dir != "" {
		os.RemoveAll(w.Dir)
	}
}

// ---------- slot-generic operations on a handle ----------

func Gen(h acraStore, s Slot) error {
	switch s.Kind {
	case StoragePair:
		return h.GenerateDataEncryptionKeys(s.ID())
	case StorageSym:
		return h.GenerateClientIDSymmetricKey(s.ID())
	case Hmac:
		return h.GenerateHmacKey(s.ID())
	case PoisonPair:
		return h.GeneratePoisonKeyPair()
	case PoisonSym:
		return h.GeneratePoisonSymmetricKey()
	default:
		return h.GenerateLogKey()
	}
}

// Cur reads the current key: the private/symmetric value and, for the poison pair, the public half.
func Cur(h acraStore, s Slot) (priv, pub []byte, err error) {
	switch s.Kind {
	case StoragePair:
		k, err := h.GetServerDecryptionPrivateKey(s.ID())
		if err != nil {
			return nil, nil, err
		}
		return k.Value, nil, nil
	case StorageSym:
		k, err := h.GetClientIDSymmetricKey(s.ID())
		return k, nil, err
	case Hmac:
		k, err := h.GetHMACSecretKey(s.ID())
		return k, nil, err
	case PoisonPair:
		kp, err := h.GetPoisonKeyPair()
		if err != nil {
			return nil, nil, err
		}
		return kp.Private.Value, kp.Public.Value, nil
	case PoisonSym:
		k, err := h.GetPoisonSymmetricKey()
		return k, nil, err
	default:
		k, err := h.GetLogSecretKey()
		return k, nil, err
	}
}

// Pub reads the current public key of a pair slot.
func Pub(h acraStore, s Slot) ([]byte, error) {
	switch s.Kind {
	case StoragePair:
		k, err := h.GetClientIDEncryptionPublicKey(s.ID())
		if err != nil {
			return nil, err
		}
		return k.Value, nil
	case PoisonPair:
		kp, err := h.GetPoisonKeyPair()
		if err != nil {
			return nil, err
		}
		return kp.Public.Value, nil
	}
	return nil, fmt.Errorf("no public key for %v", s)
}

// All reads every key offered for decryption, newest first.
func All(h acraStore, s Slot) ([][]byte, error) {
	privs := func(ks []*keys.PrivateKey, err error) ([][]byte, error) {
		if err != nil {
			return nil, err
		}
		out := make([][]byte, len(ks))
		for i, k := range ks {
			out[i] = k.Value
		}
		return out, nil
	}
	switch s.Kind {
	case StoragePair:
		return privs(h.GetServerDecryptionPrivateKeys(s.ID()))
	case StorageSym:
		return h.GetClientIDSymmetricKeys(s.ID())
	case PoisonPair:
		return privs(h.GetPoisonPrivateKeys())
	case PoisonSym:
		return h.GetPoisonSymmetricKeys()
	}
	return nil, fmt.Errorf("no all-keys reader for %v", s)
}

func DestroyCur(h acraStore, s Slot) error {
	switch s.Kind {
	case StoragePair:
		return h.DestroyClientIDEncryptionKeyPair(s.ID())
	case StorageSym:
		return h.DestroyClientIDSymmetricKey(s.ID())
	case Hmac:
		return h.DestroyHmacSecretKey(s.ID())
	case PoisonPair:
		return h.DestroyPoisonKeyPair()
	case PoisonSym:
		return h.DestroyPoisonSymmetricKey()
	}
	return fmt.Errorf("no destroy for %v", s)
}

func DestroyRot(h acraStore, s Slot, idx int) error {
	switch s.Kind {
	case StoragePair:
		return h.DestroyRotatedClientIDEncryptionKeyPair(s.ID(), idx)
	case StorageSym:
		return h.DestroyRotatedClientIDSymmetricKey(s.ID(), idx)
	case Hmac:
		return h.DestroyRotatedHmacSecretKey(s.ID(), idx)
	case PoisonPair:
		return h.DestroyRotatedPoisonKeyPair(idx)
	case PoisonSym:
		return h.DestroyRotatedPoisonSymmetricKey(idx)
	}
	return fmt.Errorf("no destroy for %v", s)
}

// ---------- listings, canonicalised to slot tokens ----------

// descSlot maps a KeyDescription of either format to "<slot>" or "<slot>.pub"; "" = unknown.
func descSlot(d keystore.KeyDescription, v2fmt bool) string {
	client := func(id string) int {
		for i, c := range ClientIDs {
			if c == id {
				return i
			}
		}
		return -1
	}
	withClient := func(k Kind, suffix string) string {
		id := d.ClientID
		if v2fmt {
			// v2 DescribeKeyRing fills ClientID inconsistently ("client" for two of three kinds):
			// the ring path in KeyID is the reliable source.
			parts := strings.Split(d.KeyID, "/")
			if len(parts) == 3 {
				id = parts[1]
			}
		}
		c := client(id)
		if c < 0 {
			return ""
		}
		return Slot{k, c}.String() + suffix
	}
	switch d.Purpose {
	case keystore.PurposeStorageClientPrivateKey, v2.PurposeStorageClient:
		return withClient(StoragePair, "")
	case keystore.PurposeStorageClientPublicKey:
		return withClient(StoragePair, ".pub")
	case keystore.PurposeStorageClientSymmetricKey, v2.PurposeStorageClientSym:
		return withClient(StorageSym, "")
	case keystore.PurposeSearchHMAC, v2.PurposeSearchHMAC:
		return withClient(Hmac, "")
	case keystore.PurposePoisonRecordKeyPair, v2.PurposePoisonRecord, "poison-record":
		if d.KeyID == "poison_key.pub" {
			return "pp.pub"
		}
		return "pp"
	case keystore.PurposePoisonRecordSymmetricKey, v2.PurposePoisonSym, "poison-record-sym":
		return "ps"
	case keystore.PurposeAuditLog, v2.PurposeAuditLog:
		return "al"
	}
	return ""
}

// ListCanon renders ListKeys as a sorted, comma-joined list of slot tokens.
func ListCanon(h acraStore, v2fmt bool) (string, error) {
	ds, err := h.ListKeys()
	if err != nil {
		return "", err
	}
	var toks []string
	for _, d := range ds {
		t := descSlot(d, v2fmt)
		if t == "" {
			t = "?" + string(d.Purpose)
		}
		toks = append(toks, t)
	}
	sort.Strings(toks)
	return strings.Join(toks, ","), nil
}

// RotEntry is one line of the rotated-key listing.
type RotEntry struct {
	Slot  string
	Index int
	Time  time.Time
}

func ListRot(h acraStore, v2fmt bool) ([]RotEntry, error) {
	ds, err := h.ListRotatedKeys()
	if err != nil {
		return nil, err
	}
	var out []RotEntry
	for _, d := range ds {
		t := descSlot(d, v2fmt)
		if t == "" {
			t = "?" + string(d.Purpose)
		}
		e := RotEntry{Slot: t, Index: d.Index}
		if d.CreationTime != nil {
			e.Time = *d.CreationTime
		}
		out = append(out, e)
	}
	return out, nil
}

// ListRotCanon renders the rotated listing as "slot=i,i,i;slot=…" sorted by slot (indices in
// listing order).
func ListRotCanon(es []RotEntry) string {
	by := map[string][]string{}
	for _, e := range es {
		by[e.Slot] = append(by[e.Slot], fmt.Sprint(e.Index))
	}
	var ks []string
	for k := range by {
		ks = append(ks, k)
	}
	sort.Strings(ks)
	var parts []string
	for _, k := range ks {
		parts = append(parts, k+"="+strings.Join(by[k], "."))
	}
	return strings.Join(parts, ",")
}

var _ = v2api.KeyDestroyed
