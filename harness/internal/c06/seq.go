package c06

import (
	"bytes"
	"fmt"
	"strconv"
	"strings"
)

// An op sequence is a list of tokens (no spaces):
//
//	g:<slot>  generate / rotate            c:<slot>  read current      p:<slot>  read current public (pairs)
//	a:<slot>  read all (newest first)      l         list keys         r         list rotated keys
//	dc:<slot> destroy current              dr:<slot>:<i> destroy rotated key by listed index (i ≥ 2)
//	x         reset the cache              o         reopen the store
//
// Observations (one per op): ok | err | panic | ok:<id> | ok:<id>/<pubid> | ok:<id>.<id>… | ok:<listing>.
// A key id is the 1-based number of the generation (within its slot) that produced the value; "?" is
// a value that no generation produced.

type Op struct {
	Kind string // g c p a l r dc dr x o
	Slot Slot
	Idx  int
	Tok  string
}

func ParseOp(t string) (Op, bool) {
	f := strings.Split(t, ":")
	op := Op{Kind: f[0], Tok: t}
	switch f[0] {
	case "l", "r", "x", "o":
		return op, len(f) == 1
	case "g", "c", "p", "a", "dc":
		if len(f) != 2 {
			return op, false
		}
		s, ok := ParseSlot(f[1])
		op.Slot = s
		return op, ok
	case "dr":
		if len(f) != 3 {
			return op, false
		}
		s, ok := ParseSlot(f[1])
		op.Slot = s
		i, err := strconv.Atoi(f[2])
		op.Idx = i
		return op, ok && err == nil
	}
	return op, false
}

// Finding is an oracle failure found while running a sequence.
type Finding struct {
	Class string
	Desc  string
	At    int // op index
}

// registry maps key values to identities, per slot.
type registry struct {
	priv map[Slot][][]byte
	pub  map[Slot][][]byte
}

func newRegistry() *registry { return &registry{map[Slot][][]byte{}, map[Slot][][]byte{}} }

func lookup(vals [][]byte, v []byte) int {
	if v == nil {
		return 0
	}
	for i, k := range vals {
		if bytes.Equal(k, v) {
			return i + 1
		}
	}
	return 0
}

func idTok(i int) string {
	if i == 0 {
		return "?"
	}
	return strconv.Itoa(i)
}

func (g *registry) privID(s Slot, v []byte) int { return lookup(g.priv[s], v) }
func (g *registry) pubID(s Slot, v []byte) int  { return lookup(g.pub[s], v) }

func (g *registry) ids(s Slot, vs [][]byte) []int {
	out := make([]int, len(vs))
	for i, v := range vs {
		out[i] = g.privID(s, v)
	}
	return out
}

func idsTok(ids []int) string {
	if len(ids) == 0 {
		return "-"
	}
	p := make([]string, len(ids))
	for i, x := range ids {
		p[i] = idTok(x)
	}
	return strings.Join(p, ".")
}

// slotOracle is what the statement of C06 needs to remember about one slot.
type slotOracle struct {
	n       int          // generations so far
	alive   map[int]bool // surviving identities
	offered map[int]bool // identities offered by reads since the last cache reset
}

func (o *slotOracle) survivorsNewestFirst() []int {
	var out []int
	for i := o.n; i >= 1; i-- {
		if o.alive[i] {
			out = append(out, i)
		}
	}
	return out
}

// newestDestroyed: the most recently generated key of the slot has been destroyed (input class of
// the known finding "no promotion after destroy-current").
func (o *slotOracle) newestDestroyed() bool { return o.n > 0 && !o.alive[o.n] }

func eqInts(a, b []int) bool {
	if len(a) != len(b) {
		return false
	}
	for i := range a {
		if a[i] != b[i] {
			return false
		}
	}
	return true
}

func without(xs []int, x int) []int {
	var out []int
	for _, y := range xs {
		if y != x {
			out = append(out, y)
		}
	}
	return out
}

// Runner executes op sequences on one World and judges the statement of C06 directly.
type Runner struct {
	W        *World
	Reg      *registry
	or       map[Slot]*slotOracle
	clean    bool // no write through the handle since the cache was last emptied
	Findings []Finding
	Obs      []string
	fmtName  string
}

func NewRunner(w *World) *Runner {
	name := map[Format]string{V1: "v1", V2Mem: "v2", V2Dir: "v2"}[w.Format]
	return &Runner{W: w, Reg: newRegistry(), or: map[Slot]*slotOracle{}, clean: true, fmtName: name}
}

func (r *Runner) o(s Slot) *slotOracle {
	if r.or[s] == nil {
		r.or[s] = &slotOracle{alive: map[int]bool{}, offered: map[int]bool{}}
	}
	return r.or[s]
}

func (r *Runner) fail(at int, class, format string, a ...any) {
	r.Findings = append(r.Findings, Finding{Class: class, Desc: fmt.Sprintf("op %d: ", at) + fmt.Sprintf(format, a...), At: at})
}

func (r *Runner) cached() bool { return r.W.Format == V1 && r.W.Cache != -1 }
func (r *Runner) exact() bool  { return !r.cached() || r.clean }

func outcome(err error) string {
	if err != nil {
		return "err"
	}
	return "ok"
}

// truthIDs returns the stored survivors newest-first as identities (0 = unknown / unreadable value).
func (r *Runner) truthIDs(s Slot) []int { return r.Reg.ids(s, r.W.TruthOf(s).Priv) }

// Step runs one op (panics of the implementation are recovered into the observation "panic").
func (r *Runner) Step(i int, op Op) (obs string) {
	defer func() {
		if p := recover(); p != nil {
			msg := fmt.Sprint(p)
			if strings.HasPrefix(msg, "harness:") {
				panic(p)
			}
			obs = "panic"
			r.afterPanic(i, op, msg)
		}
	}()
	h := r.W.H
	v2fmt := r.W.Format != V1
	switch op.Kind {
	case "x":
		h.Reset()
		r.cacheEmptied()
		return "ok"
	case "o":
		if err := r.W.Open(); err != nil {
			r.fail(i, "reopen-failed:"+r.fmtName, "reopening the keystore fails: %v", err)
			return "err"
		}
		r.cacheEmptied()
		return "ok"
	case "l":
		s, err := ListCanon(h, v2fmt)
		if err != nil {
			return "err"
		}
		if s == "" {
			s = "-"
		}
		return "ok:" + s
	case "r":
		es, err := ListRot(h, v2fmt)
		if err != nil {
			return "err"
		}
		r.checkListing(i, es)
		s := ListRotCanon(es)
		if s == "" {
			s = "-"
		}
		return "ok:" + s
	case "g":
		return r.stepGen(i, op.Slot)
	case "c":
		return r.stepCur(i, op.Slot)
	case "p":
		v, err := Pub(h, op.Slot)
		if err != nil {
			return "err"
		}
		return "ok:" + idTok(r.Reg.pubID(op.Slot, v))
	case "a":
		return r.stepAll(i, op.Slot)
	case "dc":
		return r.stepDestroyCur(i, op.Slot)
	case "dr":
		return r.stepDestroyRot(i, op.Slot, op.Idx)
	}
	panic("harness: bad op " + op.Tok)
}

func (r *Runner) cacheEmptied() {
	r.clean = true
	for _, o := range r.or {
		o.offered = map[int]bool{}
	}
}

func (r *Runner) wrote() {
	if r.cached() {
		r.clean = false
	}
}

func (r *Runner) stepGen(i int, s Slot) string {
	o := r.o(s)
	before := r.truthIDs(s)
	err := Gen(r.W.H, s)
	r.wrote()
	if err != nil {
		r.fail(i, "generate-error:"+r.fmtName, "generate %v fails without any fault: %v", s, err)
		return "err"
	}
	t := r.W.TruthOf(s)
	// the newest stored value is the new generation: register its identity
	if len(t.Priv) == 0 || t.Priv[0] == nil || r.Reg.privID(s, t.Priv[0]) != 0 {
		r.fail(i, "generate-not-stored:"+r.fmtName, "after generate %v the newest stored key is not a new value (stored ids %v)", s, r.Reg.ids(s, t.Priv))
		return "ok"
	}
	r.Reg.priv[s] = append(r.Reg.priv[s], t.Priv[0])
	if s.IsPair() {
		var pub []byte
		if len(t.Pub) > 0 {
			pub = t.Pub[0]
		}
		r.Reg.pub[s] = append(r.Reg.pub[s], pub)
		if t.CurPub == nil || r.Reg.pubID(s, t.CurPub) != o.n+1 {
			r.fail(i, "generate-pair-mismatch:"+r.fmtName, "after generate %v the current public key is not the new pair's", s)
		}
	}
	o.n++
	o.alive[o.n] = true
	after := r.Reg.ids(s, t.Priv)
	want := append([]int{o.n}, before...)
	if !eqInts(after, want) {
		r.fail(i, "generate-lost-keys:"+r.fmtName, "generate %v: stored keys %v, want %v (rotation must keep every older key)", s, after, want)
	}
	return "ok"
}

func (r *Runner) stepCur(i int, s Slot) string {
	o := r.o(s)
	priv, pub, err := Cur(r.W.H, s)
	surv := o.survivorsNewestFirst()
	got := 0
	obs := "err"
	if err == nil {
		got = r.Reg.privID(s, priv)
		obs = "ok:" + idTok(got)
		if s.Kind == PoisonPair {
			obs += "/" + idTok(r.Reg.pubID(s, pub))
		}
	}
	if r.exact() {
		want := 0
		if len(surv) > 0 {
			want = surv[0]
		}
		okNow := (err == nil && got == want && want != 0) || (err != nil && want == 0)
		if !okNow {
			class := "current-key-wrong:" + r.fmtName
			if o.newestDestroyed() {
				class = "destroy-current-no-promotion:" + r.fmtName
			}
			r.fail(i, class, "read current %v = %s, want key %d (most recently generated surviving; survivors %v)", s, obs, want, surv)
		}
	} else if err != nil && !o.newestDestroyed() {
		// cached handle before a reset: it must not stop offering a surviving key it offered earlier
		for _, id := range surv {
			if o.offered[id] {
				r.fail(i, "cache-stops-offering:"+r.cacheClass(s), "read current %v fails although key %d was offered earlier and survives", s, id)
				break
			}
		}
	}
	if err == nil && got != 0 {
		o.offered[got] = true
	}
	return obs
}

// cacheClass names the input class of a cache monotonicity failure.
func (r *Runner) cacheClass(s Slot) string { return kindTok[s.Kind] }

func (r *Runner) stepAll(i int, s Slot) string {
	o := r.o(s)
	vals, err := All(r.W.H, s)
	surv := o.survivorsNewestFirst()
	var got []int
	obs := "err"
	if err == nil {
		got = r.Reg.ids(s, vals)
		obs = "ok:" + idsTok(got)
	}
	if r.exact() {
		okNow := (err == nil && eqInts(got, surv)) || (err != nil && len(surv) == 0)
		if !okNow {
			class := "all-keys-wrong:" + r.fmtName
			switch {
			case o.newestDestroyed():
				class = "destroy-current-no-promotion:" + r.fmtName
			case err != nil && len(surv) < o.n:
				class = "all-keys-fail-after-destroy:" + r.fmtName
			}
			r.fail(i, class, "read all %v = %s, want %v (every surviving key, newest first)", s, obs, surv)
		}
	} else if !o.newestDestroyed() {
		in := map[int]bool{}
		for _, id := range got {
			in[id] = true
		}
		for _, id := range surv {
			if o.offered[id] && !in[id] {
				r.fail(i, "cache-stops-offering:"+r.cacheClass(s), "read all %v = %s: key %d was offered earlier, survives, and is no longer offered (cache not reset)", s, obs, id)
				break
			}
		}
	}
	for _, id := range got {
		if id != 0 {
			o.offered[id] = true
		}
	}
	return obs
}

func (r *Runner) stepDestroyCur(i int, s Slot) string {
	o := r.o(s)
	before := r.truthIDs(s)
	wasNewestDestroyed := o.newestDestroyed()
	err := DestroyCur(r.W.H, s)
	r.wrote()
	after := r.truthIDs(s)
	surv := o.survivorsNewestFirst()
	if len(surv) == 0 {
		// nothing to destroy: any outcome is fine as long as nothing changed
		if !eqInts(before, after) {
			r.fail(i, "destroy-current-changed-empty:"+r.fmtName, "destroy current %v on an empty slot changed the stored keys %v → %v", s, before, after)
		}
		return outcome(err)
	}
	want := without(before, surv[0])
	if err == nil && eqInts(after, want) {
		o.alive[surv[0]] = false
		return "ok"
	}
	class := "destroy-current-wrong:" + r.fmtName
	if wasNewestDestroyed {
		class = "destroy-current-no-promotion:" + r.fmtName
	}
	r.fail(i, class, "destroy current %v: outcome %s, stored keys %v → %v, want %v", s, outcome(err), before, after, want)
	r.resync(s, after)
	return outcome(err)
}

// resync makes the oracle's survivor set follow the storage after a reported failure, so that one
// defect is not reported again by every later op.
func (r *Runner) resync(s Slot, stored []int) {
	o := r.o(s)
	in := map[int]bool{}
	for _, id := range stored {
		in[id] = true
	}
	for id := range o.alive {
		if o.alive[id] && !in[id] {
			o.alive[id] = false
		}
	}
}

func (r *Runner) rotatedCount(s Slot) (int, bool) {
	es, err := ListRot(r.W.H, r.W.Format != V1)
	if err != nil {
		return 0, false
	}
	n := 0
	for _, e := range es {
		if e.Slot == s.String() {
			n++
		}
	}
	return n, true
}

func (r *Runner) stepDestroyRot(i int, s Slot, idx int) string {
	o := r.o(s)
	before := r.truthIDs(s)
	k, listed := r.rotatedCount(s)
	surv := o.survivorsNewestFirst()
	// the listing numbers the surviving non-current keys from 2, oldest first
	var rotated []int
	for j := len(surv) - 1; j >= 1; j-- {
		rotated = append(rotated, surv[j])
	}
	known := o.newestDestroyed()
	if listed && k != len(rotated) && !known {
		r.fail(i, "rotated-listing-wrong:"+r.fmtName, "rotated listing shows %d keys of %v, want %d (%v)", k, s, len(rotated), rotated)
	}
	var err error
	panicked := ""
	func() {
		defer func() {
			if p := recover(); p != nil {
				panicked = fmt.Sprint(p)
			}
		}()
		err = DestroyRot(r.W.H, s, idx)
	}()
	r.wrote()
	after := r.truthIDs(s)
	obs := outcome(err)
	if panicked != "" {
		obs = "panic"
	}
	class := "destroy-rotated-index:" + r.fmtName
	if known {
		class = "destroy-current-no-promotion:" + r.fmtName
	}
	if idx >= 2 && idx-2 < len(rotated) {
		target := rotated[idx-2]
		want := without(before, target)
		if obs == "ok" && eqInts(after, want) {
			o.alive[target] = false
			return obs
		}
		r.fail(i, class, "destroy rotated %v index %d (the listing shows key %d there): outcome %s, stored keys %v → %v, want %v", s, idx, target, obs, before, after, want)
		r.resync(s, after)
		return obs
	}
	// index not in the listing: must be refused and change nothing
	if obs != "err" || !eqInts(before, after) {
		r.fail(i, class, "destroy rotated %v index %d (not in the listing of %d keys): outcome %s, stored keys %v → %v, want an error and no change", s, idx, len(rotated), obs, before, after)
		r.resync(s, after)
	}
	return obs
}

func (r *Runner) afterPanic(i int, op Op, msg string) {
	r.fail(i, "panic:"+op.Kind+":"+r.fmtName, "%s panics: %s", op.Tok, msg)
}

func (r *Runner) checkListing(i int, es []RotEntry) {
	last := map[string]RotEntry{}
	for _, e := range es {
		if p, ok := last[e.Slot]; ok {
			if e.Index != p.Index+1 || e.Time.Before(p.Time) {
				r.fail(i, "rotated-listing-order:"+r.fmtName, "rotated listing of %s is not numbered oldest-first (index %d time %v after index %d time %v)", e.Slot, e.Index, e.Time, p.Index, p.Time)
			}
		} else if e.Index != 2 {
			r.fail(i, "rotated-listing-order:"+r.fmtName, "rotated listing of %s starts at index %d", e.Slot, e.Index)
		}
		last[e.Slot] = e
	}
}

// RunSeq executes a whole token sequence on a fresh World and returns observations and findings.
func RunSeq(f Format, cache int, toks []string) (obs []string, findings []Finding) {
	w, err := NewWorld(f, cache)
	if err != nil {
		panic("harness: " + err.Error())
	}
	defer w.Close()
	if err := w.Open(); err != nil {
		panic("harness: cannot open keystore: " + err.Error())
	}
	r := NewRunner(w)
	for i, t := range toks {
		op, ok := ParseOp(t)
		if !ok {
			panic("harness: bad op token " + t)
		}
		obs = append(obs, r.Step(i, op))
	}
	return obs, r.Findings
}

// ---------- exported helpers for C08 (fault injection reuses the runner and the registry) ----------

// PrivID / PubID map a key value to its identity (0 = unknown).
func (r *Runner) PrivID(s Slot, v []byte) int { return r.Reg.privID(s, v) }
func (r *Runner) PubID(s Slot, v []byte) int  { return r.Reg.pubID(s, v) }

// Generations returns the number of identities handed out for the slot.
func (r *Runner) Generations(s Slot) int { return len(r.Reg.priv[s]) }

// ConsumeIdentity registers the identity of a generation that was interrupted by a fault: the
// interrupted generation always consumes the next identity; priv/pub are the values that reached
// the storage completely (nil when they did not).
func (r *Runner) ConsumeIdentity(s Slot, priv, pub []byte) {
	r.Reg.priv[s] = append(r.Reg.priv[s], priv)
	if s.IsPair() {
		r.Reg.pub[s] = append(r.Reg.pub[s], pub)
	}
	o := r.o(s)
	o.n++
	o.alive[o.n] = priv != nil
}

// IDTok renders an identity for the protocol.
func IDTok(i int) string { return idTok(i) }

// IDsTok renders a list of identities.
func IDsTok(ids []int) string { return idsTok(ids) }

// ResetFindings drops the C06 oracle's findings (C08 judges its own statement).
func (r *Runner) ResetFindings() { r.Findings = nil }

// CacheEmptied tells the runner that the handle was replaced (reopen after a crash).
func (r *Runner) CacheEmptied() { r.cacheEmptied() }
