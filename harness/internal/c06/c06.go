package c06

import (
	"fmt"
	"strings"
	"sync"

	"verifharness/internal/core"
)

// Line protocol (implementation and Lean model answer the same line):
//
//	C06.v1 <cache> <op>…     whole sequence on a fresh v1 keystore (cache: -1 off, 0 unbounded, n LRU size)
//	C06.v2m <op>…            … on a fresh v2 keystore, in-memory back end
//	C06.v2d <op>…            … on a fresh v2 keystore, directory back end (the model does not distinguish)
//
// Answer: the observations of all ops joined by '|'.

var (
	lastMu       sync.Mutex
	lastFindings []Finding
)

// takeFindings returns the oracle findings of the most recent sequence op.
func takeFindings() []Finding {
	lastMu.Lock()
	defer lastMu.Unlock()
	f := lastFindings
	lastFindings = nil
	return f
}

func runOp(f Format, cache int, toks []string) string {
	obs, fs := RunSeq(f, cache, toks)
	lastMu.Lock()
	lastFindings = fs
	lastMu.Unlock()
	return strings.Join(obs, "|")
}

func init() {
	core.Register("C06.v1", func(a []string) string { return runOp(V1, core.Atoi(a[0]), a[1:]) })
	core.Register("C06.v2m", func(a []string) string { return runOp(V2Mem, -1, a) })
	core.Register("C06.v2d", func(a []string) string { return runOp(V2Dir, -1, a) })
	core.RegisterProp("C06", run)
}

func lineFor(f Format, cache int, toks []string) string {
	switch f {
	case V1:
		return fmt.Sprintf("C06.v1 %d %s", cache, strings.Join(toks, " "))
	case V2Mem:
		return "C06.v2m " + strings.Join(toks, " ")
	default:
		return "C06.v2d " + strings.Join(toks, " ")
	}
}
