// Package c06: implementation-side ops, generators and oracles for property C06.
package c06
