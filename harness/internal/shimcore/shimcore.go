// Package shimcore ties the Go Themis stand-in (/verif/gothemis) to its Lean twin
// (AcraModel/Crypto/Shim.lean): ops `core.*` and the self-test "SHIM" run before every property
// whose correspondence involves cryptographic values.
package shimcore

import (
	"crypto/hmac"
	"crypto/sha256"
	"fmt"

	"github.com/cossacklabs/themis/gothemis/cell"
	"github.com/cossacklabs/themis/gothemis/keys"
	"github.com/cossacklabs/themis/gothemis/message"

	"verifharness/internal/core"
)

func opt(b []byte, err error) string {
	if err != nil {
		return "none"
	}
	return "some " + core.Hex(b)
}

func init() {
	core.Register("core.sha256", func(a []string) string { h := sha256.Sum256(core.UnHex(a[0])); return core.Hex(h[:]) })
	core.Register("core.hmac", func(a []string) string {
		m := hmac.New(sha256.New, core.UnHex(a[0]))
		m.Write(core.UnHex(a[1]))
		return core.Hex(m.Sum(nil))
	})
	core.Register("core.seal", func(a []string) string { // key ctx msg iv
		return opt(cell.SealWithIV(core.UnHex(a[0]), core.UnHex(a[2]), core.UnHex(a[1]), core.UnHex(a[3])))
	})
	core.Register("core.unseal", func(a []string) string { // key ctx ct
		return opt(cell.New(core.UnHex(a[0]), cell.ModeSeal).Unprotect(core.UnHex(a[2]), nil, core.UnHex(a[1])))
	})
	core.Register("core.keypair", func(a []string) string { // seed(32) -> priv pub
		kp := keys.NewFromSeed(core.UnHex(a[0]))
		return core.Hex(kp.Private.Value) + " " + core.Hex(kp.Public.Value)
	})
	core.Register("core.wrap", func(a []string) string { // priv pub msg iv
		sm := message.New(&keys.PrivateKey{Value: core.UnHex(a[0])}, &keys.PublicKey{Value: core.UnHex(a[1])})
		return opt(sm.WrapWithIV(core.UnHex(a[2]), core.UnHex(a[3])))
	})
	core.Register("core.unwrap", func(a []string) string { // priv pub ct
		sm := message.New(&keys.PrivateKey{Value: core.UnHex(a[0])}, &keys.PublicKey{Value: core.UnHex(a[1])})
		return opt(sm.Unwrap(core.UnHex(a[2])))
	})
	core.RegisterProp("SHIM", selftest)
}

func selftest(r *core.Run) {
	r.Rule = "random and boundary inputs to the Themis stand-in vs its Lean twin; non-trivial = an accepted seal/unseal/wrap/unwrap"
	rd := r.Rand
	lens := []int{0, 1, 2, 31, 32, 33, 63, 64, 65, 100, 1000}
	n := r.N(150, 3000)
	for i := 0; i < n; i++ {
		key := rd.Bytes(rd.Intn(40))
		ctx := rd.Bytes(rd.Intn(20))
		msg := rd.Bytes(core.Pick(rd, lens))
		iv := rd.Bytes(12)
		r.Begin(fmt.Sprintf("seal-%d", i), len(key) > 0 && len(msg) > 0)
		r.Do("core.sha256 " + core.Hex(msg))
		r.Do("core.hmac " + core.Hex(key) + " " + core.Hex(msg))
		out := r.Do("core.seal " + core.Hex(key) + " " + core.Hex(ctx) + " " + core.Hex(msg) + " " + core.Hex(iv))
		if len(out) > 5 {
			ct := core.UnHex(out[5:])
			back := r.Do("core.unseal " + core.Hex(key) + " " + core.Hex(ctx) + " " + core.Hex(ct))
			r.Check(back == "some "+core.Hex(msg), "shim-roundtrip", "unseal(seal m) != m")
			// tamper
			ct2 := append([]byte{}, ct...)
			ct2[rd.Intn(len(ct2))] ^= 1 << uint(rd.Intn(8))
			r.Do("core.unseal " + core.Hex(key) + " " + core.Hex(ctx) + " " + core.Hex(ct2))
			r.Do("core.unseal " + core.Hex(key) + " " + core.Hex(rd.Bytes(3)) + " " + core.Hex(ct))
			r.Do("core.unseal " + core.Hex(key) + " " + core.Hex(ctx) + " " + core.Hex(ct[:rd.Intn(len(ct))]))
		}
		// asymmetric
		a := r.Do("core.keypair " + core.Hex(rd.Bytes(32)))
		b := r.Do("core.keypair " + core.Hex(rd.Bytes(32)))
		var ap, aP, bp, bP string
		fmt.Sscan(a, &ap, &aP)
		fmt.Sscan(b, &bp, &bP)
		w := r.Do("core.wrap " + ap + " " + bP + " " + core.Hex(msg) + " " + core.Hex(iv))
		if len(w) > 5 {
			back := r.Do("core.unwrap " + bp + " " + aP + " " + w[5:])
			r.Check(back == "some "+core.Hex(msg), "shim-msg-roundtrip", "unwrap(wrap m) != m")
			wt := core.UnHex(w[5:])
			wt[rd.Intn(len(wt))] ^= 1 << uint(rd.Intn(8))
			r.Do("core.unwrap " + bp + " " + aP + " " + core.Hex(wt))
			r.Do("core.unwrap " + ap + " " + aP + " " + w[5:])
		}
		// malformed containers
		bad := core.UnHex(ap)
		bad[rd.Intn(len(bad))] ^= 0x10
		r.Do("core.wrap " + core.Hex(bad) + " " + bP + " " + core.Hex(msg) + " " + core.Hex(iv))
		r.Do("core.unwrap " + bp + " " + core.Hex(rd.Bytes(45)) + " " + core.Hex(rd.Bytes(60)))
	}
}
