// Package core is the shared machinery of the verification harness: deterministic PRNG, the
// implementation-side op registry (same line protocol as the Lean model driver), the pipe to the
// model, the per-run bookkeeping (cases, disagreements, oracle failures, known findings) and the
// result file the `check` script turns into evidence.
package core

import (
	"bufio"
	"encoding/hex"
	"encoding/json"
	"fmt"
	"io"
	"os"
	"os/exec"
	"path/filepath"
	"runtime/debug"
	"sort"
	"strconv"
	"strings"
	"sync"
	"time"
)

// ---------- PRNG (splitmix64); every random choice of a run derives from VERIF_SEED ----------

type Rand struct{ s uint64 }

// NewRand scrambles the seed first: the generator's state advances by a constant per draw, so
// un-scrambled adjacent seeds would produce streams that are shifted copies of each other.
func NewRand(seed uint64) *Rand {
	z := seed*0x9E3779B97F4A7C15 + 0x1234567
	z = (z ^ (z >> 30)) * 0xBF58476D1CE4E5B9
	z = (z ^ (z >> 27)) * 0x94D049BB133111EB
	return &Rand{s: z ^ (z >> 31)}
}

func (r *Rand) U64() uint64 {
	r.s += 0x9E3779B97F4A7C15
	z := r.s
	z = (z ^ (z >> 30)) * 0xBF58476D1CE4E5B9
	z = (z ^ (z >> 27)) * 0x94D049BB133111EB
	return z ^ (z >> 31)
}
func (r *Rand) Intn(n int) int {
	if n <= 0 {
		return 0
	}
	return int(r.U64() % uint64(n))
}
func (r *Rand) Bool() bool        { return r.U64()&1 == 1 }
func (r *Rand) Chance(p int) bool { return r.Intn(100) < p }
func (r *Rand) Bytes(n int) []byte {
	b := make([]byte, n)
	for i := range b {
		b[i] = byte(r.U64())
	}
	return b
}

// Read implements io.Reader so a Rand can stand in for crypto/rand where an API accepts a reader.
func (r *Rand) Read(p []byte) (int, error) {
	for i := range p {
		p[i] = byte(r.U64())
	}
	return len(p), nil
}
func (r *Rand) Fork() *Rand { return NewRand(r.U64()) }
func Pick[T any](r *Rand, xs []T) T { return xs[r.Intn(len(xs))] }

// ---------- line protocol helpers ----------

// Hex renders bytes for the protocol: "-" for empty, lower-case hex otherwise.
func Hex(b []byte) string {
	if len(b) == 0 {
		return "-"
	}
	return hex.EncodeToString(b)
}

// UnHex parses the protocol's byte strings; it panics on malformed input (harness bug).
func UnHex(s string) []byte {
	if s == "-" {
		return []byte{}
	}
	b, err := hex.DecodeString(s)
	if err != nil {
		panic("harness: bad hex " + s)
	}
	// capacity == length: the model's reading of Go slices (DESIGN §4.1)
	return b[:len(b):len(b)]
}

func Atoi(s string) int {
	n, err := strconv.Atoi(s)
	if err != nil {
		panic("harness: bad int " + s)
	}
	return n
}
func AtoU64(s string) uint64 {
	n, err := strconv.ParseUint(s, 10, 64)
	if err != nil {
		panic("harness: bad uint " + s)
	}
	return n
}

// OkHex / Err are canonical result renderings.
func OkHex(b []byte) string { return "ok " + Hex(b) }

const (
	Err   = "err"
	Panic = "panic"
)

// ---------- implementation-side op registry ----------

type OpFunc func(args []string) string

var (
	ops   = map[string]OpFunc{}
	opsMu sync.Mutex
)

// Register makes an implementation op available under `name` (e.g. "C12.lenenc").
func Register(name string, f OpFunc) {
	opsMu.Lock()
	defer opsMu.Unlock()
	if _, dup := ops[name]; dup {
		panic("duplicate op " + name)
	}
	ops[name] = f
}

// LastPanic holds the text of the most recent recovered implementation panic (diagnostics only).
var LastPanic string

// Exec runs one protocol line against the real implementation in-process. A Go panic inside the
// implementation is recovered and reported as the outcome "panic".
func Exec(line string) (out string) {
	f := strings.Fields(line)
	if len(f) == 0 {
		return "bad-op"
	}
	opsMu.Lock()
	fn, ok := ops[f[0]]
	opsMu.Unlock()
	if !ok {
		return "bad-op"
	}
	defer func() {
		if r := recover(); r != nil {
			s := fmt.Sprint(r)
			if strings.HasPrefix(s, "harness:") {
				panic(r)
			}
			LastPanic = s + "\n" + string(debug.Stack())
			out = Panic
		}
	}()
	return fn(f[1:])
}

// ExecIsolated runs one line in a child process (`vh exec-op`) under a wall-clock and memory
// limit; used for ops that may not terminate or may exhaust memory. Outcomes: the op's own
// result, "panic", "timeout" or "oom".
func ExecIsolated(line string, timeout time.Duration) string {
	self, err := os.Executable()
	if err != nil {
		panic("harness: " + err.Error())
	}
	cmd := exec.Command(self, "exec-op")
	cmd.Env = append(os.Environ(), "GOMEMLIMIT=1GiB")
	cmd.Stdin = strings.NewReader(line + "\n")
	var sb strings.Builder
	cmd.Stdout = &sb
	if err := cmd.Start(); err != nil {
		panic("harness: " + err.Error())
	}
	done := make(chan error, 1)
	go func() { done <- cmd.Wait() }()
	select {
	case <-time.After(timeout):
		cmd.Process.Kill()
		<-done
		return "timeout"
	case err := <-done:
		res := strings.TrimSpace(sb.String())
		if err != nil && res == "" {
			return Panic
		}
		return res
	}
}

// ServeOps implements `vh exec-op`: run lines from stdin, print results. A watchdog aborts the
// process when the heap grows beyond 1.5 GiB (reported as "oom").
func ServeOps(in io.Reader, out io.Writer) {
	go func() {
		for {
			time.Sleep(50 * time.Millisecond)
			var m debug.GCStats
			_ = m
			if heapInUse() > 1536<<20 {
				fmt.Fprintln(out, "oom")
				os.Exit(3)
			}
		}
	}()
	sc := bufio.NewScanner(in)
	sc.Buffer(make([]byte, 1<<20), 1<<28)
	for sc.Scan() {
		fmt.Fprintln(out, Exec(sc.Text()))
	}
}

// ---------- the model process ----------

type Model struct {
	cmd  *exec.Cmd
	in   *bufio.Writer
	out  *bufio.Reader
	Asks int
}

func StartModel(path string) (*Model, error) {
	cmd := exec.Command(path)
	stdin, err := cmd.StdinPipe()
	if err != nil {
		return nil, err
	}
	stdout, err := cmd.StdoutPipe()
	if err != nil {
		return nil, err
	}
	cmd.Stderr = os.Stderr
	if err := cmd.Start(); err != nil {
		return nil, err
	}
	return &Model{cmd: cmd, in: bufio.NewWriterSize(stdin, 1<<16), out: bufio.NewReaderSize(stdout, 1<<16)}, nil
}

// Ask sends one line to the model driver and returns its one-line answer.
func (m *Model) Ask(line string) string {
	m.Asks++
	if strings.ContainsAny(line, "\n\r") {
		panic("harness: newline in op line")
	}
	m.in.WriteString(line)
	m.in.WriteByte('\n')
	if err := m.in.Flush(); err != nil {
		panic("harness: model pipe: " + err.Error())
	}
	s, err := m.out.ReadString('\n')
	if err != nil {
		panic("harness: model died on: " + trunc(line, 300))
	}
	return strings.TrimRight(s, "\n")
}

func (m *Model) Close() {
	if m == nil {
		return
	}
	m.in.Flush()
	m.cmd.Process.Kill()
	m.cmd.Wait()
}

func trunc(s string, n int) string {
	if len(s) > n {
		return s[:n] + fmt.Sprintf("…(%d bytes)", len(s))
	}
	return s
}

// ---------- per-run bookkeeping ----------

type Disagreement struct {
	Op    string `json:"op"`
	Impl  string `json:"impl"`
	Model string `json:"model"`
	Case  string `json:"case"`
}

type Failure struct {
	Class  string   `json:"class"`  // decidable input class (matched against known_findings.json)
	Desc   string   `json:"desc"`   // what failed
	Lines  []string `json:"lines"`  // op lines of the case (replay)
	Known  bool     `json:"known"`  // matched a known finding
	Replay string   `json:"replay"` // path of the replay file written
}

type KnownFinding struct {
	Property string `json:"property"`
	Status   string `json:"status"` // "known" | "fixed"
	Class    string `json:"class"`
	Site     string `json:"site"`
	Witness  string `json:"witness"`
	Commit   string `json:"commit,omitempty"`
	Text     string `json:"text"`
}

type Run struct {
	Prop  string
	Tier  string
	Seed  uint64
	Rand  *Rand
	Model *Model
	Dir   string // /verif

	Evaluations   int
	distinct      map[string]struct{}
	Hist          map[string]int
	Samples       []string
	Disagreements []Disagreement
	Failures      []Failure
	KnownHits     map[string]int
	known         []KnownFinding
	curKey        string
	curLines      []string
	maxSamples    int
	Notes         []string
	Exhaustive    bool
	Rule          string
	Extra         map[string]any
	start         time.Time
	Widen         bool // search mode after a broken obligation / disagreement
	ModelOps      int
}

func NewRun(prop, tier string, seed uint64, model *Model, dir string) *Run {
	r := &Run{Prop: prop, Tier: tier, Seed: seed, Rand: NewRand(seed), Model: model, Dir: dir,
		distinct: map[string]struct{}{}, Hist: map[string]int{}, KnownHits: map[string]int{}, maxSamples: 12,
		Extra: map[string]any{}, start: time.Now()}
	b, err := os.ReadFile(filepath.Join(dir, "known_findings.json"))
	if err == nil {
		var all []KnownFinding
		if err := json.Unmarshal(b, &all); err != nil {
			panic("harness: known_findings.json: " + err.Error())
		}
		for _, k := range all {
			if k.Property == prop {
				r.known = append(r.known, k)
			}
		}
	}
	return r
}

func (r *Run) Thorough() bool { return r.Tier == "thorough" }

// N scales a case count by tier (and by 4 in widened search mode).
func (r *Run) N(quick, thorough int) int {
	n := quick
	if r.Thorough() {
		n = thorough
	}
	if r.Widen {
		n *= 4
	}
	return n
}

// Begin starts a case. key identifies it for the distinct count; nontrivial says whether it counts
// as non-trivial by the property's rule (stated in Rule).
func (r *Run) Begin(key string, nontrivial bool, tags ...string) {
	r.Evaluations++
	r.curKey = key
	r.curLines = r.curLines[:0]
	if nontrivial {
		r.distinct[key] = struct{}{}
	}
	for _, t := range tags {
		r.Hist[t]++
	}
}

func (r *Run) Tag(tags ...string) {
	for _, t := range tags {
		r.Hist[t]++
	}
}

func (r *Run) sample(s string) {
	if len(r.Samples) < r.maxSamples {
		r.Samples = append(r.Samples, trunc(s, 400))
	}
}

// Impl executes a line on the implementation only.
func (r *Run) Impl(line string) string {
	r.curLines = append(r.curLines, line)
	return Exec(line)
}

// ImplIsolated executes a line in a child process with a timeout.
func (r *Run) ImplIsolated(line string, d time.Duration) string {
	r.curLines = append(r.curLines, line)
	return ExecIsolated(line, d)
}

// Record notes a line that was executed on the implementation elsewhere (e.g. in a batch of lines served by
// one child process) so that it appears in the replay file of the current case; follow with Diff.
func (r *Run) Record(line string) { r.curLines = append(r.curLines, line) }

// ModelOnly asks the model only.
func (r *Run) ModelOnly(line string) string {
	r.ModelOps++
	return r.Model.Ask(line)
}

// Do executes a line on implementation and model and records a disagreement if they differ.
// It returns the implementation's answer (the oracle judges the implementation).
func (r *Run) Do(line string) string {
	impl := r.Impl(line)
	return r.Diff(line, impl)
}

// Diff compares an already computed implementation answer with the model's.
func (r *Run) Diff(line, impl string) string {
	r.ModelOps++
	mod := r.Model.Ask(line)
	if mod == "bad-op" {
		panic("harness: model does not know op: " + trunc(line, 200))
	}
	r.Hist["outcome:"+firstWord(impl)]++
	if mod != impl {
		r.Hist["DISAGREE"]++
		if len(r.Disagreements) < 20 {
			r.Disagreements = append(r.Disagreements, Disagreement{Op: trunc(line, 2000), Impl: trunc(impl, 600), Model: trunc(mod, 600), Case: r.curKey})
		}
	}
	if r.Evaluations%97 == 1 {
		r.sample(line + " => " + impl)
	}
	return impl
}

func firstWord(s string) string {
	if i := strings.IndexByte(s, ' '); i >= 0 {
		return s[:i]
	}
	return s
}

// Fail records an oracle failure: the property does not hold on the implementation for the
// current case. class names the decidable input class used to match known findings.
func (r *Run) Fail(class, desc string) {
	f := Failure{Class: class, Desc: desc, Lines: append([]string{}, r.curLines...)}
	for _, k := range r.known {
		if k.Status == "known" && k.Class == class {
			f.Known = true
			r.KnownHits[class]++
			if r.KnownHits[class] == 1 {
				fmt.Printf("KNOWN-FINDING: property=%s %s [%s] %s\n", r.Prop, k.Site, class, k.Text)
			}
			return
		}
	}
	// keep the first (and the shortest) failure per class
	for i, g := range r.Failures {
		if g.Class == class {
			if total(f.Lines) < total(g.Lines) {
				r.Failures[i] = f
			}
			return
		}
	}
	r.Failures = append(r.Failures, f)
}

// Check is Fail guarded by a condition that must hold.
func (r *Run) Check(ok bool, class, desc string) bool {
	if !ok {
		r.Fail(class, desc)
	}
	return ok
}

func total(ls []string) int {
	n := 0
	for _, l := range ls {
		n += len(l)
	}
	return n
}

func (r *Run) Note(format string, a ...any) { r.Notes = append(r.Notes, fmt.Sprintf(format, a...)) }

// Result is what `vh run` writes for the check script.
type Result struct {
	Property      string         `json:"property"`
	Tier          string         `json:"tier"`
	Seed          uint64         `json:"seed"`
	Evaluations   int            `json:"evaluations"`
	Distinct      int            `json:"distinct_nontrivial"`
	Rule          string         `json:"rule"`
	Samples       []string       `json:"samples"`
	Hist          map[string]int `json:"histogram"`
	Disagreements []Disagreement `json:"disagreements"`
	Failures      []Failure      `json:"failures"`
	KnownHits     map[string]int `json:"known_hits"`
	ModelOps      int            `json:"model_ops"`
	Exhaustive    bool           `json:"exhaustive"`
	Notes         []string       `json:"notes"`
	Extra         map[string]any `json:"extra"`
	WallS         float64        `json:"wall_s"`
}

// Finish writes replay files for new failures and the result file; it returns the process exit
// code: 0 all fine, 1 property failure with a failing input, 2 model/implementation disagreement
// without a failing input.
func (r *Run) Finish(outPath string) int {
	code := 0
	os.MkdirAll(filepath.Join(r.Dir, "replays"), 0o755)
	for i := range r.Failures {
		f := &r.Failures[i]
		name := fmt.Sprintf("%s-%s-seed%d-%d.json", r.Prop, sanitize(f.Class), r.Seed, i)
		f.Replay = filepath.Join(r.Dir, "replays", name)
		b, _ := json.MarshalIndent(map[string]any{"property": r.Prop, "kind": "failing-input", "class": f.Class, "what_fails": f.Desc,
			"lines": f.Lines, "how_to_replay": "./check " + r.Prop + " --replay " + f.Replay}, "", " ")
		os.WriteFile(f.Replay, b, 0o644)
		fmt.Printf("FAILING-INPUT property=%s class=%s %s\n", r.Prop, f.Class, trunc(f.Desc, 300))
		code = 1
	}
	if code == 0 && len(r.Disagreements) > 0 {
		code = 2
		for _, d := range r.Disagreements {
			fmt.Printf("DISAGREEMENT property=%s op=%s impl=%s model=%s\n", r.Prop, trunc(d.Op, 200), trunc(d.Impl, 120), trunc(d.Model, 120))
		}
	}
	res := Result{Property: r.Prop, Tier: r.Tier, Seed: r.Seed, Evaluations: r.Evaluations, Distinct: len(r.distinct), Rule: r.Rule,
		Samples: r.Samples, Hist: r.Hist, Disagreements: r.Disagreements, Failures: r.Failures, KnownHits: r.KnownHits, ModelOps: r.ModelOps,
		Exhaustive: r.Exhaustive, Notes: r.Notes, Extra: r.Extra, WallS: time.Since(r.start).Seconds()}
	if res.Samples == nil {
		res.Samples = []string{}
	}
	b, _ := json.MarshalIndent(res, "", " ")
	if outPath != "" {
		if err := os.WriteFile(outPath, b, 0o644); err != nil {
			panic("harness: " + err.Error())
		}
	}
	keys := make([]string, 0, len(r.Hist))
	for k := range r.Hist {
		keys = append(keys, k)
	}
	sort.Strings(keys)
	fmt.Printf("SUMMARY property=%s tier=%s seed=%d evaluations=%d distinct_nontrivial=%d model_ops=%d disagreements=%d failures=%d known_hits=%d wall=%.1fs\n",
		r.Prop, r.Tier, r.Seed, r.Evaluations, len(r.distinct), r.ModelOps, len(r.Disagreements), len(r.Failures), len(r.KnownHits), res.WallS)
	return code
}

func sanitize(s string) string {
	var sb strings.Builder
	for _, c := range s {
		if c >= 'a' && c <= 'z' || c >= 'A' && c <= 'Z' || c >= '0' && c <= '9' || c == '-' || c == '.' {
			sb.WriteRune(c)
		} else {
			sb.WriteByte('_')
		}
	}
	return sb.String()
}

// ---------- property registry ----------

type PropFunc func(r *Run)

var props = map[string]PropFunc{}

func RegisterProp(id string, f PropFunc) { props[id] = f }
func Prop(id string) PropFunc          { return props[id] }
