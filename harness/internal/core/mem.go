package core

import "runtime"

func heapInUse() uint64 {
	var m runtime.MemStats
	runtime.ReadMemStats(&m)
	return m.HeapInuse
}
