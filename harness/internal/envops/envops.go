// Package envops registers the implementation-side ops of the envelope models ("C01.*"): the real
// acrastruct / acrablock / crypto (registry handler, envelope detector) code, driven with a fixed
// key view and a deterministic crypto/rand stream. Shared by C01, C02, C03, C11, C14, C15.
package envops

import (
	"bytes"
	"context"
	crand "crypto/rand"
	"errors"
	"fmt"
	"io"
	"strings"
	"sync"

	"github.com/cossacklabs/acra/acrablock"
	"github.com/cossacklabs/acra/acrastruct"
	"github.com/cossacklabs/acra/crypto"
	"github.com/cossacklabs/acra/decryptor/base"
	"github.com/cossacklabs/acra/encryptor/base/config"
	"github.com/cossacklabs/acra/keystore"
	"github.com/cossacklabs/themis/gothemis/keys"

	"verifharness/internal/core"
)

// KV is the harness twin of the model's KeyView.
type KV struct {
	Pub   []byte   // nil = none
	Privs [][]byte // nil = none (error); empty non-nil = empty list
	Sym   []byte
	Syms  [][]byte
	NoPub, NoPrivs, NoSym, NoSyms bool
}

func (k *KV) GetClientIDSymmetricKeys(id []byte) ([][]byte, error) {
	if k.NoSyms {
		return nil, keystore.ErrKeysNotFound
	}
	out := make([][]byte, len(k.Syms))
	for i, s := range k.Syms {
		out[i] = append([]byte{}, s...)
	}
	return out, nil
}
func (k *KV) GetClientIDSymmetricKey(id []byte) ([]byte, error) {
	if k.NoSym {
		return nil, keystore.ErrKeysNotFound
	}
	return append([]byte{}, k.Sym...), nil
}
func (k *KV) GetServerDecryptionPrivateKey(id []byte) (*keys.PrivateKey, error) {
	if k.NoPrivs || len(k.Privs) == 0 {
		return nil, keystore.ErrKeysNotFound
	}
	return &keys.PrivateKey{Value: append([]byte{}, k.Privs[0]...)}, nil
}
func (k *KV) GetServerDecryptionPrivateKeys(id []byte) ([]*keys.PrivateKey, error) {
	if k.NoPrivs {
		return nil, keystore.ErrKeysNotFound
	}
	out := make([]*keys.PrivateKey, len(k.Privs))
	for i, s := range k.Privs {
		out[i] = &keys.PrivateKey{Value: append([]byte{}, s...)}
	}
	return out, nil
}
func (k *KV) GetClientIDEncryptionPublicKey(id []byte) (*keys.PublicKey, error) {
	if k.NoPub {
		return nil, keystore.ErrKeysNotFound
	}
	return &keys.PublicKey{Value: append([]byte{}, k.Pub...)}, nil
}

// ---- protocol encoding of key views and lists ----

func List(bs [][]byte) string {
	if len(bs) == 0 {
		return "_"
	}
	s := make([]string, len(bs))
	for i, b := range bs {
		s[i] = core.Hex(b)
	}
	return strings.Join(s, ",")
}

func ParseList(s string) [][]byte {
	if s == "_" {
		return [][]byte{}
	}
	var out [][]byte
	for _, p := range strings.Split(s, ",") {
		out = append(out, core.UnHex(p))
	}
	return out
}

// Tokens renders the key view as the four protocol tokens `pub privs sym syms`.
func (k *KV) Tokens() string {
	t := func(no bool, s string) string {
		if no {
			return "none"
		}
		return s
	}
	return t(k.NoPub, core.Hex(k.Pub)) + " " + t(k.NoPrivs, List(k.Privs)) + " " + t(k.NoSym, core.Hex(k.Sym)) + " " + t(k.NoSyms, List(k.Syms))
}

func ParseKV(a []string) *KV {
	k := &KV{}
	if a[0] == "none" {
		k.NoPub = true
	} else {
		k.Pub = core.UnHex(a[0])
	}
	if a[1] == "none" {
		k.NoPrivs = true
	} else {
		k.Privs = ParseList(a[1])
	}
	if a[2] == "none" {
		k.NoSym = true
	} else {
		k.Sym = core.UnHex(a[2])
	}
	if a[3] == "none" {
		k.NoSyms = true
	} else {
		k.Syms = ParseList(a[3])
	}
	return k
}

// ---- deterministic crypto/rand ----

var randMu sync.Mutex

type errReader struct{}

func (errReader) Read([]byte) (int, error) { return 0, errors.New("verif: random stream exhausted") }

// WithRand runs f with crypto/rand.Reader replaced by the given byte stream (then an error).
func WithRand(rnd []byte, f func()) {
	randMu.Lock()
	old := crand.Reader
	crand.Reader = io.MultiReader(bytes.NewReader(rnd), errReader{})
	defer func() { crand.Reader = old; randMu.Unlock() }()
	f()
}

var initOnce sync.Once

// Init registers Acra's envelope handlers (crypto.InitRegistry) once.
func Init() {
	initOnce.Do(func() {
		if err := crypto.InitRegistry(nil); err != nil {
			panic("harness: InitRegistry: " + err.Error())
		}
	})
}

func out(b []byte, err error) string {
	if err != nil {
		return core.Err
	}
	return core.OkHex(b)
}

// Ctx builds the request context carrying the client identity.
func Ctx(clientID []byte) context.Context {
	return base.SetAccessContextToContext(context.Background(), base.NewAccessContext(base.WithClientID(clientID)))
}

func handlerOf(kind string) crypto.ContainerHandler {
	name := "acrastruct"
	if kind == "block" {
		name = "acrablock"
	}
	h, err := crypto.GetHandlerByName(name)
	if err != nil {
		panic("harness: no handler " + name)
	}
	return h
}

func init() {
	Init()
	core.Register("C01.struct.create", func(a []string) (res string) { // pub ctx m rnd
		WithRand(core.UnHex(a[3]), func() {
			res = out(acrastruct.CreateAcrastruct(core.UnHex(a[2]), &keys.PublicKey{Value: core.UnHex(a[0])}, nilIfEmpty(core.UnHex(a[1]))))
		})
		return
	})
	core.Register("C01.struct.validate", func(a []string) string {
		if acrastruct.ValidateAcraStructLength(core.UnHex(a[0])) != nil {
			return core.Err
		}
		return "ok"
	})
	core.Register("C01.struct.extract", func(a []string) string {
		n, b, err := acrastruct.ExtractAcraStruct(core.UnHex(a[0]))
		if err != nil {
			return core.Err
		}
		return fmt.Sprintf("ok %d %s", n, core.Hex(b))
	})
	core.Register("C01.struct.decrypt", func(a []string) string { // privs ctx d
		var ps []*keys.PrivateKey
		for _, p := range ParseList(a[0]) {
			ps = append(ps, &keys.PrivateKey{Value: p})
		}
		return out(acrastruct.DecryptRotatedAcrastruct(core.UnHex(a[2]), ps, nilIfEmpty(core.UnHex(a[1]))))
	})
	core.Register("C01.block.create", func(a []string) (res string) { // key ctx m rnd
		WithRand(core.UnHex(a[3]), func() {
			res = out(acrablock.CreateAcraBlock(core.UnHex(a[2]), core.UnHex(a[0]), nilIfEmpty(core.UnHex(a[1]))))
		})
		return
	})
	core.Register("C01.block.extract", func(a []string) string {
		n, b, err := acrablock.ExtractAcraBlockFromData(core.UnHex(a[0]))
		if err != nil {
			return core.Err
		}
		return fmt.Sprintf("ok %d %s", n, core.Hex(b))
	})
	core.Register("C01.block.decrypt", func(a []string) string { // keys ctx d   (d used as a block as is)
		return out(acrablock.AcraBlock(core.UnHex(a[2])).Decrypt(ParseList(a[0]), nilIfEmpty(core.UnHex(a[1]))))
	})
	core.Register("C01.container.ser", func(a []string) string {
		return out(crypto.SerializeEncryptedData(core.UnHex(a[0]), byte(core.Atoi(a[1]))))
	})
	core.Register("C01.container.deser", func(a []string) string {
		b, id, err := crypto.DeserializeEncryptedData(core.UnHex(a[0]))
		if err != nil {
			return core.Err
		}
		return fmt.Sprintf("ok %s %d", core.Hex(b), id)
	})
	core.Register("C01.container.extract", func(a []string) string {
		n, b, err := crypto.ExtractSerializedContainer(core.UnHex(a[0]))
		if err != nil {
			return core.Err
		}
		return fmt.Sprintf("ok %d %s", n, core.Hex(b))
	})
	core.Register("C01.handler.match", func(a []string) string {
		return fmt.Sprint(crypto.NewRegistryHandler(nil).MatchDataSignature(core.UnHex(a[0])))
	})
	core.Register("C01.handler.matchkind", func(a []string) string {
		return fmt.Sprint(handlerOf(a[0]).MatchDataSignature(core.UnHex(a[1])))
	})
	core.Register("C01.handler.protect", func(a []string) (res string) { // kind pub privs sym syms d rnd
		kv := ParseKV(a[1:5])
		WithRand(core.UnHex(a[6]), func() {
			res = out(crypto.NewRegistryHandler(kv).EncryptWithHandler(handlerOf(a[0]), []byte("client"), core.UnHex(a[5])))
		})
		return
	})
	// the same decision through the settings-driven entry point used by the SQL proxies' encryptor chain
	core.Register("C01.handler.protectcfg", func(a []string) (res string) { // kind pub privs sym syms d rnd
		kv := ParseKV(a[1:5])
		envl := "acrastruct"
		if a[0] == "block" {
			envl = "acrablock"
		}
		y := "schemas:\n  - table: t\n    columns: [c]\n    encrypted:\n      - column: c\n        crypto_envelope: " + envl + "\n"
		st, err := config.MapTableSchemaStoreFromConfig([]byte(y), config.UsePostgreSQL)
		if err != nil {
			panic("harness: " + err.Error())
		}
		setting := st.GetTableSchema("t").GetColumnEncryptionSettings("c")
		WithRand(core.UnHex(a[6]), func() {
			res = out(crypto.NewRegistryHandler(kv).EncryptWithClientID([]byte("client"), core.UnHex(a[5]), setting))
		})
		return
	})
	core.Register("C01.handler.reveal", func(a []string) string { // pub privs sym syms d
		kv := ParseKV(a[0:4])
		return out(crypto.NewRegistryHandler(kv).Process(core.UnHex(a[4]), &base.DataProcessorContext{Keystore: kv, Context: Ctx([]byte("client"))}))
	})
	core.Register("C01.detector.oncolumn", func(a []string) string {
		kv := ParseKV(a[0:4])
		det := crypto.NewEnvelopeDetector()
		det.AddCallback(crypto.NewDecryptHandler(kv, crypto.NewRegistryHandler(kv)))
		_, o, err := det.OnColumn(Ctx([]byte("client")), core.UnHex(a[4]))
		if err != nil {
			return "fatal"
		}
		return core.OkHex(o)
	})
	core.Register("C01.detector.compat", func(a []string) string {
		kv := ParseKV(a[0:4])
		det := crypto.NewEnvelopeDetector()
		w := crypto.NewOldContainerDetectorWrapper(det)
		det.AddCallback(crypto.NewDecryptHandler(kv, crypto.NewRegistryHandler(kv)))
		_, o, err := w.OnColumn(Ctx([]byte("client")), core.UnHex(a[4]))
		if err != nil {
			return "fatal"
		}
		return core.OkHex(o)
	})
}

func nilIfEmpty(b []byte) []byte {
	if len(b) == 0 {
		return nil
	}
	return b
}
