package envops

import (
	"errors"

	"github.com/cossacklabs/acra/keystore"
	"github.com/cossacklabs/themis/gothemis/keys"
)

// TKS is a fake keystore.TranslationKeyStore / ServerKeyStore subset over fixed key views:
// per-client data keys, poison keys and HMAC keys.
type TKS struct {
	Clients map[string]*KV
	Poison  *KV
	Hmac    map[string][]byte
}

func (t *TKS) kv(id []byte) *KV {
	if k, ok := t.Clients[string(id)]; ok {
		return k
	}
	return &KV{NoPub: true, NoPrivs: true, NoSym: true, NoSyms: true}
}

func (t *TKS) GetClientIDEncryptionPublicKey(id []byte) (*keys.PublicKey, error) {
	return t.kv(id).GetClientIDEncryptionPublicKey(id)
}
func (t *TKS) GetClientIDSymmetricKeys(id []byte) ([][]byte, error) { return t.kv(id).GetClientIDSymmetricKeys(id) }
func (t *TKS) GetClientIDSymmetricKey(id []byte) ([]byte, error)   { return t.kv(id).GetClientIDSymmetricKey(id) }
func (t *TKS) GetServerDecryptionPrivateKey(id []byte) (*keys.PrivateKey, error) {
	return t.kv(id).GetServerDecryptionPrivateKey(id)
}
func (t *TKS) GetServerDecryptionPrivateKeys(id []byte) ([]*keys.PrivateKey, error) {
	return t.kv(id).GetServerDecryptionPrivateKeys(id)
}
func (t *TKS) poison() *KV {
	if t.Poison == nil {
		return &KV{NoPub: true, NoPrivs: true, NoSym: true, NoSyms: true}
	}
	return t.Poison
}
func (t *TKS) GetPoisonKeyPair() (*keys.Keypair, error) {
	p := t.poison()
	if p.NoPub || p.NoPrivs || len(p.Privs) == 0 {
		return nil, keystore.ErrKeysNotFound
	}
	return &keys.Keypair{Public: &keys.PublicKey{Value: append([]byte{}, p.Pub...)}, Private: &keys.PrivateKey{Value: append([]byte{}, p.Privs[0]...)}}, nil
}
func (t *TKS) GetPoisonPrivateKeys() ([]*keys.PrivateKey, error) {
	return t.poison().GetServerDecryptionPrivateKeys(nil)
}
func (t *TKS) GetPoisonSymmetricKeys() ([][]byte, error) { return t.poison().GetClientIDSymmetricKeys(nil) }
func (t *TKS) GetPoisonSymmetricKey() ([]byte, error)    { return t.poison().GetClientIDSymmetricKey(nil) }
func (t *TKS) GeneratePoisonKeyPair() error               { return errors.New("verif: not generating") }
func (t *TKS) GeneratePoisonSymmetricKey() error          { return errors.New("verif: not generating") }
func (t *TKS) GetHMACSecretKey(id []byte) ([]byte, error) {
	if k, ok := t.Hmac[string(id)]; ok {
		return append([]byte{}, k...), nil
	}
	return nil, keystore.ErrKeysNotFound
}
func (t *TKS) GetLogSecretKey() ([]byte, error) { return nil, keystore.ErrKeysNotFound }
func (t *TKS) CacheOnStart() error              { return nil }
