package envops

import (
	"crypto/sha256"
	"fmt"

	"github.com/cossacklabs/themis/gothemis/keys"

	"verifharness/internal/core"
)

// World is a generated set of identities with key histories (newest first), as the model's KeyView sees them.
type World struct {
	Clients []*KV
}

// NewKV builds a key view with histories of the given lengths.
func NewKV(rd *core.Rand, nPairs, nSyms int) *KV {
	kv := &KV{}
	for i := 0; i < nPairs; i++ {
		kp := keys.NewFromSeed(rd.Bytes(32))
		kv.Privs = append(kv.Privs, kp.Private.Value)
		if i == 0 {
			kv.Pub = kp.Public.Value
		}
	}
	for i := 0; i < nSyms; i++ {
		k := rd.Bytes(32)
		kv.Syms = append(kv.Syms, k)
		if i == 0 {
			kv.Sym = k
		}
	}
	if kv.Privs == nil {
		kv.Privs = [][]byte{}
	}
	if kv.Syms == nil {
		kv.Syms = [][]byte{}
	}
	return kv
}

// PubOf returns the public key container for a private one (stand-in specific).
func PubOf(priv []byte) []byte {
	body, ok := keys.Unpack(keys.PrivTag, priv)
	if !ok {
		panic("harness: bad private key")
	}
	return keys.Pack(keys.PubTag, keys.PublicFromPrivateBody(body))
}

// KeyID is AcraBlock's 2-byte key id.
func KeyID(key, ctx []byte) [2]byte {
	h := sha256.New()
	h.Write(key)
	h.Write(ctx)
	s := h.Sum(nil)
	return [2]byte{s[0], s[1]}
}

// CollidingKeys returns two different 32-byte keys with the same 2-byte id under ctx.
func CollidingKeys(rd *core.Rand, ctx []byte) ([]byte, []byte) {
	seen := map[[2]byte][]byte{}
	for {
		k := rd.Bytes(32)
		id := KeyID(k, ctx)
		if o, ok := seen[id]; ok {
			return o, k
		}
		seen[id] = k
	}
}

// Lens is the boundary table of plaintext lengths (around every header size and encoding threshold).
var Lens = []int{1, 2, 3, 4, 7, 8, 9, 11, 12, 13, 14, 15, 17, 18, 19, 31, 32, 33, 43, 44, 45, 46, 63, 64, 65, 83, 84, 85, 128, 129, 136, 137, 138, 144, 145, 146, 255, 256, 257, 300}

// Plain generates a plaintext of one of several content classes; it returns the class name too.
func Plain(rd *core.Rand, n int) ([]byte, string) {
	switch rd.Intn(6) {
	case 0:
		return rd.Bytes(n), "random"
	case 1:
		b := make([]byte, n)
		for i := range b {
			b[i] = '"'
		}
		return b, "struct-tags"
	case 2:
		b := make([]byte, n)
		for i := range b {
			b[i] = '%'
		}
		return b, "container-tags"
	case 3: // tag runs mixed with random bytes and header-like fragments
		b := rd.Bytes(n)
		for i := 0; i+12 <= n; i += 5 + rd.Intn(20) {
			copy(b[i:], "%%%")
			if i+11 < n {
				b[i+3] = byte(rd.Intn(64))
				for j := 4; j < 11; j++ {
					b[i+j] = 0
				}
				b[i+11] = byte(0xF0 + rd.Intn(2))
			}
		}
		return b, "fake-containers"
	case 4:
		b := rd.Bytes(n)
		for i := 0; i+18 <= n; i += 7 + rd.Intn(30) {
			copy(b[i:], "\"\"\"\"")
			b[i+4] = byte(14 + rd.Intn(40))
			for j := 5; j < 12; j++ {
				b[i+j] = 0
			}
			b[i+12], b[i+15] = 0, 0
		}
		return b, "fake-blocks"
	default:
		b := make([]byte, n)
		for i := range b {
			b[i] = alphabet[rd.Intn(len(alphabet))]
		}
		return b, "alphabet"
	}
}

var alphabet = []byte{'"', '%', ' ', 0, 0xf0, 0xf1, 'a', 0x22}

// Junk builds a prefix/suffix that cannot contain anything decryptable: tag bytes, partial headers, random.
func Junk(rd *core.Rand, max int) []byte {
	n := rd.Intn(max + 1)
	b, _ := Plain(rd, n)
	return b
}

// Rnd draws the crypto/rand stream for one protect call.
func Rnd(rd *core.Rand) []byte { return rd.Bytes(96) }

// Protect runs handler.protect through the run (implementation + model) and returns the produced value.
func Protect(r *core.Run, kind string, kv *KV, m []byte) ([]byte, bool) {
	// two entry points make the same decision: EncryptWithHandler (translator) and the settings-driven
	// EncryptWithClientID (SQL proxies); alternate between them
	op := "C01.handler.protect"
	if r.Rand.Bool() {
		op = "C01.handler.protectcfg"
	}
	out := r.Do(fmt.Sprintf("%s %s %s %s %s", op, kind, kv.Tokens(), core.Hex(m), core.Hex(Rnd(r.Rand))))
	if len(out) < 4 || out[:3] != "ok " {
		return nil, false
	}
	return core.UnHex(out[3:]), true
}
