// Package sqlast turns Acra's sqlparser AST into the generic tree of the Lean model
// (AcraModel/Sql/Tree.lean) by reflection, and back into protocol tokens.
//
//	struct (or pointer to struct)  → node <TypeName> [fields in declaration order, `_` skipped]
//	nil pointer / nil interface    → node nil []
//	named slice type               → node <TypeName> [elements]        (SelectExprs, ValTuple, Comments …)
//	unnamed slice (not []byte)     → node [] [elements]
//	[]byte, string                 → atom bytes
//	bool, integers                 → atom "true"/"false", decimal
//	named non-struct SQLNode types → node <TypeName> [atom]            (BoolVal, ListArg)
//
// Caches that formatting mutates (`lowered`) and analyser scratch space (`Metadata`) are dumped as the
// constant atom "-" so that positions stay aligned with the regenerated field table.
package sqlast

import (
	"encoding/hex"
	"fmt"
	"reflect"
	"strconv"
	"strings"

	"github.com/cossacklabs/acra/sqlparser"
)

type Tree struct {
	IsAtom bool
	Atom   []byte
	Kind   string
	Kids   []*Tree
	// Names: for a struct node the field names of Kids (same length); nil for lists. Not part of the protocol form.
	Names []string
}

func atom(b []byte) *Tree                { return &Tree{IsAtom: true, Atom: append([]byte{}, b...)} }
func atomS(s string) *Tree               { return &Tree{IsAtom: true, Atom: []byte(s)} }
func node(k string, kids ...*Tree) *Tree { return &Tree{Kind: k, Kids: kids} }

var sqlNodeType = reflect.TypeOf((*sqlparser.SQLNode)(nil)).Elem()

// FromNode dumps any AST value (statement, expression, list …).
func FromNode(v interface{}) *Tree {
	if v == nil {
		return node("nil")
	}
	return dump(reflect.ValueOf(v))
}

func dump(v reflect.Value) *Tree {
	switch v.Kind() {
	case reflect.Invalid:
		return node("nil")
	case reflect.Interface, reflect.Ptr:
		if v.IsNil() {
			return node("nil")
		}
		return dump(v.Elem())
	case reflect.Struct:
		t := v.Type()
		n := node(t.Name())
		n.Names = []string{}
		for i := 0; i < t.NumField(); i++ {
			f := t.Field(i)
			if f.Name == "_" {
				continue
			}
			n.Names = append(n.Names, f.Name)
			if f.Name == "lowered" || f.Name == "Metadata" {
				n.Kids = append(n.Kids, atomS("-"))
				continue
			}
			n.Kids = append(n.Kids, dump(v.Field(i)))
		}
		return n
	case reflect.Slice:
		t := v.Type()
		if t.Elem().Kind() == reflect.Uint8 {
			if t.Name() != "" && t.Implements(sqlNodeType) {
				return node(t.Name(), atom(v.Bytes()))
			}
			return atom(v.Bytes())
		}
		name := t.Name()
		if name == "" {
			name = "[]"
		}
		n := node(name)
		for i := 0; i < v.Len(); i++ {
			n.Kids = append(n.Kids, dump(v.Index(i)))
		}
		return n
	case reflect.String:
		return atomS(v.String())
	case reflect.Bool:
		a := atomS(strconv.FormatBool(v.Bool()))
		if v.Type().Name() != "bool" && v.Type().Implements(sqlNodeType) {
			return node(v.Type().Name(), a)
		}
		return a
	case reflect.Int, reflect.Int8, reflect.Int16, reflect.Int32, reflect.Int64:
		return atomS(strconv.FormatInt(v.Int(), 10))
	case reflect.Uint, reflect.Uint8, reflect.Uint16, reflect.Uint32, reflect.Uint64:
		return atomS(strconv.FormatUint(v.Uint(), 10))
	case reflect.Array:
		n := node("[]")
		for i := 0; i < v.Len(); i++ {
			n.Kids = append(n.Kids, dump(v.Index(i)))
		}
		return n
	}
	panic(fmt.Sprintf("harness: sqlast: unsupported kind %s (%s)", v.Kind(), v.Type()))
}

// filled: the child holds something – a non-nil pointer to a node, a non-empty list, a non-empty string, `true`, a
// number other than 0, a struct value with a filled field.
func filled(k *Tree) bool {
	if k.IsAtom {
		return len(k.Atom) > 0 && string(k.Atom) != "false" && string(k.Atom) != "-" && string(k.Atom) != "0"
	}
	if k.Kind == "nil" {
		return false
	}
	if k.Names == nil {
		return len(k.Kids) > 0 // list
	}
	// a struct value (TableName, TableIdent, ColIdent): filled when one of its fields is
	for _, c := range k.Kids {
		if filled(c) {
			return true
		}
	}
	return false
}

// PresentFields: the names of the filled fields of a struct node, in declaration order.
func PresentFields(t *Tree) []string {
	var out []string
	if t.IsAtom || len(t.Names) != len(t.Kids) {
		return nil
	}
	for i, k := range t.Kids {
		if filled(k) {
			out = append(out, t.Names[i])
		}
	}
	return out
}

// Census adds to m the multiset of clause kinds of the tree: `Type.Field` for every filled field of every struct
// node and `#ListType` with the number of elements for every list.
func Census(t *Tree, m map[string]int) {
	if t.IsAtom {
		return
	}
	if t.Names == nil && t.Kind != "nil" {
		m["#"+t.Kind] += len(t.Kids)
	}
	for i, k := range t.Kids {
		if len(t.Names) == len(t.Kids) && filled(k) {
			m[t.Kind+"."+t.Names[i]]++
		}
		Census(k, m)
	}
}

func hx(b []byte) string {
	if len(b) == 0 {
		return "-"
	}
	return hex.EncodeToString(b)
}

// Tokens renders the tree in the prefix token form of the line protocol.
func (t *Tree) Tokens() string {
	var sb strings.Builder
	t.write(&sb)
	return sb.String()
}

func (t *Tree) write(sb *strings.Builder) {
	if sb.Len() > 0 {
		sb.WriteByte(' ')
	}
	if t.IsAtom {
		sb.WriteString("a ")
		sb.WriteString(hx(t.Atom))
		return
	}
	sb.WriteString("n ")
	sb.WriteString(t.Kind)
	sb.WriteByte(' ')
	sb.WriteString(strconv.Itoa(len(t.Kids)))
	for _, k := range t.Kids {
		k.write(sb)
	}
}

// Parse reads one tree from tokens and returns the rest.
func Parse(toks []string) (*Tree, []string, bool) {
	if len(toks) < 2 {
		return nil, nil, false
	}
	switch toks[0] {
	case "a":
		if toks[1] == "-" {
			return atom(nil), toks[2:], true
		}
		b, err := hex.DecodeString(toks[1])
		if err != nil {
			return nil, nil, false
		}
		return atom(b), toks[2:], true
	case "n":
		if len(toks) < 3 {
			return nil, nil, false
		}
		n, err := strconv.Atoi(toks[2])
		if err != nil || n < 0 {
			return nil, nil, false
		}
		t := node(toks[1])
		rest := toks[3:]
		for i := 0; i < n; i++ {
			k, r, ok := Parse(rest)
			if !ok {
				return nil, nil, false
			}
			t.Kids = append(t.Kids, k)
			rest = r
		}
		return t, rest, true
	}
	return nil, nil, false
}

func Equal(a, b *Tree) bool {
	if a.IsAtom != b.IsAtom {
		return false
	}
	if a.IsAtom {
		return string(a.Atom) == string(b.Atom)
	}
	if a.Kind != b.Kind || len(a.Kids) != len(b.Kids) {
		return false
	}
	for i := range a.Kids {
		if !Equal(a.Kids[i], b.Kids[i]) {
			return false
		}
	}
	return true
}

// Walk calls f on every node (pre-order) with the path of child indices.
func (t *Tree) Walk(f func(t *Tree, path []int)) { t.walk(f, nil) }

func (t *Tree) walk(f func(t *Tree, path []int), path []int) {
	f(t, path)
	for i, k := range t.Kids {
		k.walk(f, append(path[:len(path):len(path)], i))
	}
}

// SQLVal returns (type number, value) when t is an SQLVal node.
func (t *Tree) SQLVal() (int, []byte, bool) {
	if t.IsAtom || t.Kind != "SQLVal" || len(t.Kids) < 2 || !t.Kids[0].IsAtom || !t.Kids[1].IsAtom {
		return 0, nil, false
	}
	n, err := strconv.Atoi(string(t.Kids[0].Atom))
	if err != nil {
		return 0, nil, false
	}
	return n, t.Kids[1].Atom, true
}

// Pretty is a compact human-readable rendering for failure descriptions.
func (t *Tree) Pretty() string {
	if t.IsAtom {
		return strconv.Quote(string(t.Atom))
	}
	parts := make([]string, len(t.Kids))
	for i, k := range t.Kids {
		parts[i] = k.Pretty()
	}
	return t.Kind + "(" + strings.Join(parts, ",") + ")"
}

// FirstDiff describes the first position where two trees differ.
func FirstDiff(a, b *Tree, path string) string {
	if a.IsAtom != b.IsAtom {
		return fmt.Sprintf("%s: %s vs %s", path, clip(a.Pretty()), clip(b.Pretty()))
	}
	if a.IsAtom {
		if string(a.Atom) != string(b.Atom) {
			return fmt.Sprintf("%s: atom %q vs %q", path, clip(string(a.Atom)), clip(string(b.Atom)))
		}
		return ""
	}
	if a.Kind != b.Kind {
		return fmt.Sprintf("%s: kind %s vs %s", path, a.Kind, b.Kind)
	}
	if len(a.Kids) != len(b.Kids) {
		return fmt.Sprintf("%s(%s): %d vs %d children", path, a.Kind, len(a.Kids), len(b.Kids))
	}
	for i := range a.Kids {
		if d := FirstDiff(a.Kids[i], b.Kids[i], fmt.Sprintf("%s/%s.%d", path, a.Kind, i)); d != "" {
			return d
		}
	}
	return ""
}

func clip(s string) string {
	if len(s) > 120 {
		return s[:120] + "…"
	}
	return s
}
