// Package c03: implementation-side ops, generators and oracles for property C03.
package c03
