// Package c03: any modification of a protected value is detected, never mis-decrypted, and never
// brings the handler down (C03). Uses the envelope ops "C01.*" on a malformed stream derived from
// valid values.
package c03

import (
	"bytes"
	"encoding/binary"
	"fmt"

	"verifharness/internal/core"
	env "verifharness/internal/envops"
)

func init() { core.RegisterProp("C03", run) }

func okHex(out string) ([]byte, bool) {
	if len(out) >= 4 && out[:3] == "ok " {
		f := out[3:]
		for i := 0; i < len(f); i++ {
			if f[i] == ' ' {
				f = f[:i]
				break
			}
		}
		return core.UnHex(f), true
	}
	return nil, false
}

// interesting values for length fields taken from the wire
var lengthEdits = []uint64{0, 1, 2, 11, 12, 13, 14, 17, 18, 19, 1 << 15, 1<<16 - 1, 1 << 16, 1 << 31, 1<<32 - 1, 1 << 32,
	1<<63 - 145, 1<<63 - 12, 1<<63 - 5, 1<<63 - 4, 1<<63 - 1, 1 << 63, 1<<63 + 4, 1<<64 - 146, 1<<64 - 145, 1<<64 - 19, 1<<64 - 18, 1<<64 - 13, 1<<64 - 12, 1<<64 - 5, 1<<64 - 4, 1<<64 - 3, 1<<64 - 1}

type value struct {
	kind   string // struct | block
	m      []byte // plaintext
	bare   []byte // bare envelope
	cont   []byte // serialized container
	kv     *env.KV
	ctxLib []byte
}

func mkValue(r *core.Run, kind string, l int) (*value, bool) {
	rd := r.Rand
	m := rd.Bytes(l) // random plaintexts: a damaged value must never be accepted "by accident"
	kv := env.NewKV(rd, 1+rd.Intn(3), 1+rd.Intn(3))
	p, ok := env.Protect(r, kind, kv, m)
	if !ok || bytes.Equal(p, m) {
		return nil, false
	}
	return &value{kind: kind, m: m, cont: p, bare: p[12:], kv: kv}, true
}

// judge applies the C03 oracle to one reveal-type outcome
func judge(r *core.Run, op, out string, v *value, what string) {
	if !r.Check(out != core.Panic, "panic:"+op, fmt.Sprintf("%s panics on a %s (%s)", op, what, v.kind)) {
		return
	}
	r.Check(out != "timeout" && out != "oom", "hang:"+op, fmt.Sprintf("%s does not terminate on a %s", op, what))
	if b, ok := okHex(out); ok {
		r.Check(bytes.Equal(b, v.m), "misdecrypt:"+op, fmt.Sprintf("%s returned DIFFERENT plaintext for a %s (%s)", op, what, v.kind))
	}
}

func run(r *core.Run) {
	r.Rule = "malformed stream: for valid protected values of both kinds (random plaintexts, lengths 1–300) every header bit flip + sampled payload flips, truncations, extensions, every length/type/key-id field set to boundary values (2^15 … 2^64-1), pairwise splices at field boundaries; for searchable values the 33-byte search hash replaced by the hash of another value / of another stored value / under another key, every hash byte flipped, truncated, extended, function byte changed – through the library searchable decrypts, NewHashProcessor, translator Decrypt*Searchable (hash concatenated or separate) and the two-pass hmac.Processor column chain; each mutant goes to every decoder and reveal entry point and, embedded in junk, to both column detectors; non-trivial = mutant differs from the valid value; distinct by mutant bytes"
	rd := r.Rand
	nvals := r.N(6, 40)
	var vals []*value
	for i := 0; i < nvals; i++ {
		kind := []string{"struct", "block"}[i%2]
		r.Begin(fmt.Sprintf("mk-%d", i), false)
		if v, ok := mkValue(r, kind, []int{1, 5, 16, 33, 100, 300}[rd.Intn(6)]); ok {
			vals = append(vals, v)
		}
	}
	for vi, v := range vals {
		var mutants []mutant
		hdr := 12 + 18 // container header + block header
		if v.kind == "struct" {
			hdr = 12 + 145
		}
		// bit flips: every header bit position (thorough: every byte of the value), sampled payload
		for pos := 0; pos < len(v.cont); pos++ {
			if pos < hdr || r.Thorough() || rd.Intn(len(v.cont)) < 48 {
				bits := []uint{uint(rd.Intn(8))}
				if pos < 30 || r.Thorough() {
					bits = []uint{0, 1, 2, 3, 4, 5, 6, 7}
				}
				for _, bit := range bits {
					x := append([]byte{}, v.cont...)
					x[pos] ^= 1 << bit
					mutants = append(mutants, mutant{x, fmt.Sprintf("bit flip at byte %d bit %d", pos, bit)})
				}
			}
		}
		// truncations
		for n := 0; n < len(v.cont); n++ {
			if n < hdr+2 || r.Thorough() || rd.Intn(len(v.cont)) < 24 {
				mutants = append(mutants, mutant{append([]byte{}, v.cont[:n]...), fmt.Sprintf("truncation to %d bytes", n)})
			}
		}
		// extension
		for _, n := range []int{1, 2, 12, 50} {
			mutants = append(mutants, mutant{append(append([]byte{}, v.cont...), rd.Bytes(n)...), fmt.Sprintf("extension by %d bytes", n)})
		}
		// length / type / id field edits
		type field struct {
			off, size int
			name      string
		}
		fields := []field{{3, 8, "container length"}, {11, 1, "envelope id"}}
		if v.kind == "block" {
			fields = append(fields, field{12 + 4, 8, "block rest length"}, field{12 + 12, 1, "key backend"}, field{12 + 13, 2, "key id"}, field{12 + 15, 1, "data backend"}, field{12 + 16, 2, "key length"})
		} else {
			fields = append(fields, field{12 + 137, 8, "struct data length"}, field{12 + 8, 4, "public key header"}, field{12 + 53, 8, "wrapped key header"})
		}
		for _, f := range fields {
			var cur uint64
			buf := make([]byte, 8)
			copy(buf, v.cont[f.off:f.off+f.size])
			cur = binary.LittleEndian.Uint64(buf)
			edits := append([]uint64{cur - 1, cur + 1, cur + 12, cur - 12, cur + 4, cur - 4}, lengthEdits...)
			for _, e := range edits {
				x := append([]byte{}, v.cont...)
				binary.LittleEndian.PutUint64(buf, e)
				copy(x[f.off:f.off+f.size], buf[:f.size])
				if !bytes.Equal(x, v.cont) {
					mutants = append(mutants, mutant{x, fmt.Sprintf("%s set to %d", f.name, e)})
				}
			}
		}
		// splices with another value of the same kind: header of one, payload of the other
		for _, w := range vals {
			if w == v || w.kind != v.kind {
				continue
			}
			cuts := []int{12, 12 + 4, 12 + 12, 12 + 18}
			if v.kind == "struct" {
				cuts = []int{12, 12 + 8, 12 + 53, 12 + 137, 12 + 145}
			} else {
				cuts = append(cuts, 12+18+76)
			}
			for _, c := range cuts {
				if c < len(v.cont) && c < len(w.cont) {
					x := append(append([]byte{}, v.cont[:c]...), w.cont[c:]...)
					mutants = append(mutants, mutant{x, fmt.Sprintf("splice at %d with another value", c)})
				}
			}
			break
		}
		for mi, mu := range mutants {
			x := mu.b[:len(mu.b):len(mu.b)]
			key := fmt.Sprintf("v%d-%s-%s", vi, v.kind, core.Hex(x))
			if len(key) > 200 {
				key = fmt.Sprintf("v%d-m%d-%s", vi, mi, mu.what)
			}
			r.Begin(key, !bytes.Equal(x, v.cont), "stream:malformed", "kind:"+v.kind, "mut:"+firstWords(mu.what))
			what := "value with " + mu.what
			judge(r, "handler.reveal", r.Do(fmt.Sprintf("C01.handler.reveal %s %s", v.kv.Tokens(), core.Hex(x))), v, what)
			for _, op := range []string{"container.deser", "container.extract", "handler.match"} {
				out := r.Do("C01." + op + " " + core.Hex(x))
				r.Check(out != core.Panic, "panic:"+op, fmt.Sprintf("%s panics on a %s", op, what))
			}
			// the bare envelope carrying the same damage (when the damage is inside it)
			if len(x) > 12 {
				bare := x[12:len(x):len(x)]
				if v.kind == "struct" {
					for _, op := range []string{"struct.validate", "struct.extract"} {
						out := r.Do("C01." + op + " " + core.Hex(bare))
						r.Check(out != core.Panic, "panic:"+op, fmt.Sprintf("%s panics on a bare struct with %s", op, mu.what))
					}
					judge(r, "struct.decrypt", r.Do(fmt.Sprintf("C01.struct.decrypt %s - %s", env.List(v.kv.Privs), core.Hex(bare))), v, "bare struct with "+mu.what)
				} else {
					out := r.Do("C01.block.extract " + core.Hex(bare))
					r.Check(out != core.Panic, "panic:block.extract", "ExtractAcraBlockFromData panics on a bare block with "+mu.what)
					// AcraBlock(raw).Decrypt on unvalidated bytes is not a path Acra takes (every caller goes through
					// NewAcraBlockFromData first): compared with the model, not judged
					r.Do(fmt.Sprintf("C01.block.decrypt %s - %s", env.List(v.kv.Syms), core.Hex(bare)))
					// what the handler does: extract, then decrypt the extracted block
					var n int
					var hb string
					if _, err := fmt.Sscanf(out, "ok %d %s", &n, &hb); err == nil {
						judge(r, "block.extract+decrypt", r.Do(fmt.Sprintf("C01.block.decrypt %s - %s", env.List(v.kv.Syms), hb)), v, "extracted bare block with "+mu.what)
					}
				}
			}
			// transparent column processing: damaged value embedded in junk comes back unchanged
			// (or, when the damage left the envelope itself intact, with exactly that envelope revealed)
			if mi%3 == 0 || r.Thorough() {
				pre, suf := env.Junk(rd, 16), env.Junk(rd, 16)
				col := append(append(append([]byte{}, pre...), x...), suf...)
				for _, op := range []string{"C01.detector.oncolumn", "C01.detector.compat"} {
					out := r.Do(fmt.Sprintf("%s %s %s", op, v.kv.Tokens(), core.Hex(col)))
					if !r.Check(out != core.Panic && out != "fatal", "panic:"+op, fmt.Sprintf("%s fails (%s) on a column holding a %s", op, out, what)) {
						continue
					}
					got, _ := okHex(out)
					// acceptable: unchanged, or an envelope that survived the damage INTACT (the whole container, or –
					// for the compatibility wrapper – the bare envelope inside a damaged container header) replaced by
					// exactly the original plaintext
					okOut := bytes.Equal(got, col) ||
						(bytes.Contains(col, v.cont) && bytes.Equal(got, bytes.Replace(col, v.cont, v.m, 1))) ||
						(op == "C01.detector.compat" && bytes.Contains(col, v.bare) && bytes.Equal(got, bytes.Replace(col, v.bare, v.m, 1)))
					r.Check(okOut, "column-damaged:"+op, fmt.Sprintf("%s: a column holding a %s came back neither unchanged nor with an intact envelope replaced by the original plaintext", op, what))
				}
			}
		}
	}
	// a swapped search hash in front of an intact envelope, through every searchable reveal entry point
	hashMutants(r)
	// something between the search hash and the envelope (splices of stored values, inserted bytes)
	spliceStream(r)
	// foreign-key style damage is covered by C02; pure garbage of boundary lengths here
	for _, l := range []int{0, 1, 3, 4, 8, 11, 12, 13, 17, 18, 19, 144, 145, 146, 157} {
		for _, fill := range []byte{'"', '%', 0, 0xff} {
			x := bytes.Repeat([]byte{fill}, l)
			r.Begin(fmt.Sprintf("garbage-%d-%d", l, fill), l > 0, "stream:malformed", "mut:garbage")
			kv := env.NewKV(rd, 1, 1)
			for _, op := range []string{"struct.validate", "struct.extract", "block.extract", "container.deser", "container.extract", "handler.match"} {
				out := r.Do("C01." + op + " " + core.Hex(x))
				r.Check(out != core.Panic, "panic:"+op, fmt.Sprintf("%s panics on %d bytes of 0x%02x", op, l, fill))
			}
			for _, op := range []string{"handler.reveal", "detector.oncolumn", "detector.compat"} {
				out := r.Do(fmt.Sprintf("C01.%s %s %s", op, kv.Tokens(), core.Hex(x)))
				r.Check(out != core.Panic, "panic:"+op, fmt.Sprintf("%s panics on %d bytes of 0x%02x", op, l, fill))
			}
			r.Do(fmt.Sprintf("C01.block.decrypt %s - %s", env.List(kv.Syms), core.Hex(x)))
		}
	}
}

type mutant struct {
	b    []byte
	what string
}

func firstWords(s string) string {
	n := 0
	for i := 0; i < len(s); i++ {
		if s[i] == ' ' {
			n++
			if n == 2 {
				return s[:i]
			}
		}
	}
	return s
}
