package c03

// "… or a swapped search hash": mutants of the 33-byte search hash in front of an intact envelope,
// sent through every searchable reveal entry point. The ops are the registered ops of c09 (library
// DecryptRotatedSearchableAcraStruct/AcraBlock, NewHashProcessor, translator Decrypt*Searchable with the
// hash concatenated, the two-pass hmac.Processor chain wired as in proxy.go) and of c01 (translator
// Decrypt*Searchable with the hash as separate argument), called by name.

import (
	"bytes"
	"fmt"
	"strings"

	"verifharness/internal/core"
	env "verifharness/internal/envops"

	_ "verifharness/internal/c01" // registers C01.tr.*
	_ "verifharness/internal/c09" // registers C09.*
)

type svalue struct {
	kind   string
	m      []byte
	hash   []byte // genuine 33-byte search hash
	cont   []byte // serialized container
	bare   []byte // inner envelope
	kv     *env.KV
	hk     []byte
	stored []byte // hash ++ cont, as the searchable encryptor writes it
}

func mkSearchable(r *core.Run, kind string, l int) (*svalue, bool) {
	rd := r.Rand
	m := rd.Bytes(l)
	kv := env.NewKV(rd, 1+rd.Intn(3), 1+rd.Intn(3))
	hk := rd.Bytes(32)
	out := r.Do(fmt.Sprintf("C09.encrypt %s %s %s %s %s", kind, core.Hex(hk), kv.Tokens(), core.Hex(m), core.Hex(env.Rnd(rd))))
	st, ok := okHex(out)
	if !ok || len(st) < 33+12+18 || bytes.Equal(st[33:], m) {
		return nil, false
	}
	return &svalue{kind: kind, m: m, hash: st[:33:33], cont: st[33:len(st):len(st)], bare: st[45:len(st):len(st)], kv: kv, hk: hk, stored: st}, true
}

type hmutant struct {
	h          []byte
	what       string
	wellFormed bool // 33 bytes starting with the function number, different from the genuine hash
}

func cat(a, b []byte) []byte {
	x := append(append(make([]byte, 0, len(a)+len(b)), a...), b...)
	return x[:len(x):len(x)]
}

// trSepOutcome strips the alarm count of the C01.tr.* decrypt ops: "ok <hex> <n>" → "ok <hex>", "err <n>" → "err"
func trSepOutcome(out string) string {
	f := strings.Fields(out)
	if len(f) >= 2 && f[0] == "ok" {
		return "ok " + f[1]
	}
	if len(f) >= 1 {
		return f[0]
	}
	return out
}

func hashMutants(r *core.Run) {
	rd := r.Rand
	var vals []*svalue
	for i := 0; i < r.N(4, 24); i++ {
		kind := []string{"struct", "block"}[i%2]
		r.Begin(fmt.Sprintf("mk-searchable-%d", i), false)
		if v, ok := mkSearchable(r, kind, []int{1, 5, 16, 33, 34, 100, 300}[rd.Intn(7)]); ok {
			vals = append(vals, v)
		}
	}
	hmacOf := func(key, data []byte) []byte {
		return core.UnHex(r.Do(fmt.Sprintf("C09.hmac %s %s", core.Hex(key), core.Hex(data))))
	}
	for vi, v := range vals {
		var ms []hmutant
		add := func(h []byte, what string) {
			wf := len(h) == 33 && h[0] == v.hash[0] && !bytes.Equal(h, v.hash)
			ms = append(ms, hmutant{h[:len(h):len(h)], what, wf})
		}
		// hash of value A in front of the envelope of value B
		flipped := append([]byte{}, v.m...)
		flipped[rd.Intn(len(flipped))] ^= 1 << uint(rd.Intn(8))
		others := [][]byte{rd.Bytes(1 + rd.Intn(40)), flipped, v.m[:len(v.m)-1], append(append([]byte{}, v.m...), 0), {}}
		for _, a := range others {
			if !bytes.Equal(a, v.m) {
				add(hmacOf(v.hk, a), "hash of another value")
			}
		}
		// the stored hash of another stored value (same client key or not), and the same value under another HMAC key
		for _, w := range vals {
			if w != v {
				add(w.hash, "hash of another stored value")
				add(hmacOf(v.hk, w.m), "hash of another stored value's plaintext")
				break
			}
		}
		add(hmacOf(rd.Bytes(32), v.m), "hash under another key")
		// hash bytes flipped
		for pos := 0; pos < 33; pos++ {
			bits := []uint{uint(rd.Intn(8))}
			if pos == 0 || r.Thorough() {
				bits = []uint{0, 1, 2, 3, 4, 5, 6, 7}
			}
			for _, bit := range bits {
				x := append([]byte{}, v.hash...)
				x[pos] ^= 1 << bit
				add(x, fmt.Sprintf("hash bit flip at byte %d", pos))
			}
		}
		// hash truncated / extended
		for n := 0; n < 33; n++ {
			if n < 3 || n > 29 || r.Thorough() || rd.Intn(4) == 0 {
				add(append([]byte{}, v.hash[:n]...), fmt.Sprintf("hash truncated to %d", n))
			}
		}
		add(append(append([]byte{}, v.hash...), rd.Bytes(1)...), "hash extended by 1")
		add(append(append([]byte{}, v.hash...), rd.Bytes(2+rd.Intn(30))...), "hash extended by some")
		add(append(append([]byte{}, v.hash...), v.hash...), "hash doubled")
		add(append([]byte{v.hash[0]}, v.hash...), "hash function byte doubled")
		add(append([]byte{}, v.hash[1:]...), "hash function byte removed")
		// hash function byte changed
		for _, b := range []byte{0, 1, 126, 128, 255, '"', '%'} {
			x := append([]byte{}, v.hash...)
			x[0] = b
			add(x, "hash function byte changed")
		}
		st := fmt.Sprintf("false false none none none none %s %s %s", core.Hex([]byte("client")), v.kv.Tokens(), core.Hex(v.hk))
		for mi, mu := range ms {
			key := fmt.Sprintf("hs-v%d-%s-%s", vi, v.kind, core.Hex(mu.h))
			r.Begin(key, true, "stream:malformed", "kind:"+v.kind, "mut:"+firstWords(mu.what), "mut:search-hash")
			what := mu.what + " in front of an intact envelope"
			type ep struct{ name, line string }
			lib := ep{"searchable.library", fmt.Sprintf("C09.decrypt.struct %s %s - %s", core.Hex(v.hk), env.List(v.kv.Privs), core.Hex(cat(mu.h, v.bare)))}
			trSep := "C01.tr.DecryptSearchable"
			if v.kind == "block" {
				lib = ep{"searchable.library", fmt.Sprintf("C09.decrypt.block %s %s - %s", core.Hex(v.hk), env.List(v.kv.Syms), core.Hex(cat(mu.h, v.bare)))}
				trSep = "C01.tr.DecryptSymSearchable"
			}
			eps := []ep{
				lib,
				{"searchable.hashproc", fmt.Sprintf("C09.hashproc %s %s %s", core.Hex(v.hk), v.kv.Tokens(), core.Hex(cat(mu.h, v.cont)))},
				{"searchable.translator-cat", fmt.Sprintf("C09.tr.decrypt %s %s %s %s", v.kind, core.Hex(v.hk), v.kv.Tokens(), core.Hex(cat(mu.h, v.cont)))},
				{"searchable.translator-sep", fmt.Sprintf("%s %s %s nil %s %s", trSep, st, core.Hex([]byte("client")), core.Hex(mu.h), core.Hex(v.cont))},
			}
			for _, e := range eps {
				out := r.Do(e.line)
				if e.name == "searchable.translator-sep" {
					out = trSepOutcome(out)
				}
				val := &value{kind: v.kind, m: v.m}
				judge(r, e.name, out, val, "value with "+what)
				if mu.wellFormed {
					r.Check(out != "ok "+core.Hex(v.m), "hash-swap-accepted:"+e.name, fmt.Sprintf("%s accepted a value with %s (the hash is not the index of the plaintext)", e.name, what))
				}
			}
			// transparent path: hmacProcessor → detector → hmacProcessor; followed by the genuine value through
			// the SAME processor object (nothing may leak into the next column)
			col := cat(mu.h, v.cont)
			out := r.Do(fmt.Sprintf("C09.columns %s %s %s", core.Hex(v.hk), v.kv.Tokens(), env.List([][]byte{col, v.stored})))
			if r.Check(out != core.Panic && out != core.Err, "panic:searchable.columns", fmt.Sprintf("the proxy column chain fails (%s) on a column holding a value with %s", out, what)) {
				f := strings.Fields(out)
				cols := []string{}
				if len(f) == 3 {
					cols = strings.Split(f[2], ",")
				}
				if r.Check(len(cols) == 2 && cols[0] != "fatal" && cols[1] != "fatal", "fatal:searchable.columns", "the proxy column chain reported a fatal error: "+out) {
					got := core.UnHex(cols[0])
					if mu.wellFormed {
						r.Check(bytes.Equal(got, col), "column-hash-swap", fmt.Sprintf("transparent path: a column holding a value with %s did not come back as stored", what))
					} else {
						okOut := bytes.Equal(got, col) || bytes.Equal(got, bytes.Replace(col, v.cont, v.m, 1)) ||
							(bytes.Contains(col, v.bare) && bytes.Equal(got, bytes.Replace(col, v.bare, v.m, 1)))
						r.Check(okOut, "column-damaged:searchable.columns", fmt.Sprintf("transparent path: a column holding a value with %s came back neither as stored nor with the intact envelope replaced by the original plaintext", what))
					}
					r.Check(bytes.Equal(core.UnHex(cols[1]), v.m), "column-state-leak", fmt.Sprintf("transparent path: the genuine value after a column with %s did not come back as its plaintext", what))
				}
			}
			_ = mi
		}
		// the genuine value through every entry point (the mutants above must not be "rejected" because the
		// entry point rejects everything)
		r.Begin(fmt.Sprintf("hs-genuine-%d", vi), true, "stream:structured", "kind:"+v.kind)
		gen := r.Do(fmt.Sprintf("C09.tr.decrypt %s %s %s %s", v.kind, core.Hex(v.hk), v.kv.Tokens(), core.Hex(v.stored)))
		r.Check(gen == "ok "+core.Hex(v.m), "searchable-genuine", "the unmodified searchable value is not revealed by the translator: "+gen)
		gen = r.Do(fmt.Sprintf("C09.hashproc %s %s %s", core.Hex(v.hk), v.kv.Tokens(), core.Hex(v.stored)))
		r.Check(gen == "ok "+core.Hex(v.m), "searchable-genuine", "the unmodified searchable value is not revealed by the hash processor: "+gen)
	}
}
