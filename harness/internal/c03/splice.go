package c03

// Splices behind a search hash: the column still starts with a well-formed 33-byte search hash, but the
// envelope no longer follows it directly – hashA||hashB||envB (the hash of one stored value in front of the
// whole of another), hashA||junk||envA, hashA||envB, hash||clear window||envelope, envelope followed by more.
// Through the two-pass column chain of the SQL proxies (`C09.columns`: hmac.Processor -> detector with the
// decrypt handler -> hmac.Processor, compared with the model `Searchable.columns`) and `C09.match`
// (`EnvelopeMatcher.Match`, model `Searchable.matchEnvelope`).
//
// Oracles = the statements of `Props.C03.searchable_splice_no_partial_reveal` / `match_finds_envelope_anywhere`
// judged on the implementation's output:
//   * what the client receives is either the STORED column, byte for byte, or exactly the plaintext `m` whose
//     genuine search hash stands in front (class `searchable-splice-partially-revealed` otherwise: e.g.
//     hashA||hashB||plaintextB – an envelope decrypted in place behind a hash that was never verified);
//   * `Match` answers true for data that holds an intact serialized envelope at any offset (class
//     `match-misses-envelope`).

import (
	"bytes"
	"fmt"
	"strings"

	"verifharness/internal/core"
	env "verifharness/internal/envops"
)

func mkSearchableWith(r *core.Run, kind string, l int, kv *env.KV, hk []byte) (*svalue, bool) {
	rd := r.Rand
	m := rd.Bytes(l)
	out := r.Do(fmt.Sprintf("C09.encrypt %s %s %s %s %s", kind, core.Hex(hk), kv.Tokens(), core.Hex(m), core.Hex(env.Rnd(rd))))
	st, ok := okHex(out)
	if !ok || len(st) < 33+12+18 || bytes.Equal(st[33:], m) {
		return nil, false
	}
	return &svalue{kind: kind, m: m, hash: st[:33:33], cont: st[33:len(st):len(st)], bare: st[45:len(st):len(st)], kv: kv, hk: hk, stored: st}, true
}

type splice struct {
	col      []byte
	what     string
	envAt    int  // offset (behind the 33-byte hash) at which an intact serialized envelope starts
	revealsM bool // the unmodified value: the chain must deliver m
}

func cat3(xs ...[]byte) []byte {
	var out []byte
	for _, x := range xs {
		out = append(out, x...)
	}
	return out[:len(out):len(out)]
}

func spliceStream(r *core.Run) {
	rd := r.Rand
	lens := []int{1, 5, 16, 33, 34, 100, 300}
	for pi := 0; pi < r.N(5, 40); pi++ {
		kv := env.NewKV(rd, 1+rd.Intn(3), 1+rd.Intn(3))
		hk := rd.Bytes(32)
		kindA := []string{"struct", "block"}[pi%2]
		kindB := []string{"block", "struct", "block"}[pi%3]
		r.Begin(fmt.Sprintf("mk-splice-%d", pi), false)
		a, ok1 := mkSearchableWith(r, kindA, lens[rd.Intn(len(lens))], kv, hk)
		b, ok2 := mkSearchableWith(r, kindB, lens[rd.Intn(len(lens))], kv, hk)
		if !ok1 || !ok2 || bytes.Equal(a.m, b.m) {
			continue
		}
		junk := func(n int) []byte {
			j := rd.Bytes(n)
			for i := range j { // no accidental tag bytes: the envelope under test is the only one
				if j[i] == '%' || j[i] == '"' {
					j[i] = 'x'
				}
			}
			return j
		}
		window := a.m
		if len(window) > 4 {
			window = window[:4]
		}
		var ss []splice
		add := func(col []byte, what string, envAt int) { ss = append(ss, splice{col: col, what: what, envAt: envAt}) }
		ss = append(ss, splice{col: a.stored, what: "the unmodified value hashA||envA", envAt: 0, revealsM: true})
		add(cat3(a.hash, b.hash, b.cont), "hashA||hashB||envB (hash of A in front of the whole stored value B)", 33)
		add(cat3(a.hash, a.hash, a.cont), "hashA||hashA||envA (hash doubled)", 33)
		add(cat3(a.hash, junk(1), a.cont), "hashA||1 byte||envA", 1)
		add(cat3(a.hash, junk(2+rd.Intn(40)), a.cont), "hashA||junk||envA", -1)
		add(cat3(a.hash, junk(2+rd.Intn(40)), b.cont), "hashA||junk||envB", -1)
		add(cat3(a.hash, b.cont), "hashA||envB (plainly swapped hash)", 0)
		add(cat3(a.hash, window, a.cont), "hashA||clear window of A||envA", len(window))
		add(cat3(a.hash, []byte("%%"), a.cont), "hashA||\"%%\"||envA (a broken tag in front of the envelope)", 2)
		add(cat3(a.hash, a.cont[:12], a.cont), "hashA||container header||envA", 12)
		add(cat3(a.hash, b.hash, junk(3), b.cont), "hashA||hashB||junk||envB", 36)
		add(cat3(a.hash, a.cont, junk(1+rd.Intn(8))), "hashA||envA||appended bytes", 0)
		add(cat3(a.hash, junk(5), a.cont, b.stored), "hashA||junk||envA||hashB||envB", 5)
		add(cat3(a.hash, b.stored, a.cont), "hashA||hashB||envB||envA", 33)
		for i := range ss {
			if ss[i].envAt < 0 { // junk of random length: locate the envelope
				ss[i].envAt = bytes.Index(ss[i].col[33:], []byte("%%%"))
			}
		}
		for si, sp := range ss {
			r.Begin(fmt.Sprintf("splice-%d-%d-%s", pi, si, core.Hex(sp.col[:40])), true, "stream:malformed", "mut:search-splice", "kind:"+a.kind, "splice:"+firstWords(sp.what))
			x := sp.col[33:]
			// Match over everything behind the hash
			mo := r.Do("C09.match " + core.Hex(x))
			r.Check(mo == "ok true", "match-misses-envelope", fmt.Sprintf("EnvelopeMatcher.Match answers %q for %s without its hash: an intact envelope starts at offset %d", mo, sp.what, sp.envAt))
			// the column chain, followed by the genuine value B through the SAME processor
			out := r.Do(fmt.Sprintf("C09.columns %s %s %s", core.Hex(hk), kv.Tokens(), env.List([][]byte{sp.col, b.stored})))
			if !r.Check(out != core.Panic && out != core.Err, "panic:searchable.columns", fmt.Sprintf("the proxy column chain fails (%s) on a column holding %s", out, sp.what)) {
				continue
			}
			f := strings.Fields(out)
			cols := []string{}
			if len(f) == 3 {
				cols = strings.Split(f[2], ",")
			}
			if !r.Check(len(cols) == 2 && cols[0] != "fatal" && cols[1] != "fatal", "fatal:searchable.columns", "the proxy column chain reported a fatal error: "+out) {
				continue
			}
			got := core.UnHex(cols[0])
			if sp.revealsM {
				r.Check(bytes.Equal(got, a.m), "searchable-genuine", "the unmodified searchable value does not come back as its plaintext through the column chain")
			} else {
				r.Check(bytes.Equal(got, sp.col) || bytes.Equal(got, a.m), "searchable-splice-partially-revealed",
					fmt.Sprintf("transparent path: the column %s came back neither as stored nor as the plaintext its leading hash is the index of: stored %s, delivered %s (plaintext A %s, plaintext B %s)",
						sp.what, core.Hex(sp.col), core.Hex(got), core.Hex(a.m), core.Hex(b.m)))
			}
			r.Check(bytes.Equal(core.UnHex(cols[1]), b.m), "column-state-leak", fmt.Sprintf("transparent path: the genuine value after a column holding %s did not come back as its plaintext", sp.what))
		}
	}
}
