package c04

import (
	"strconv"
	"strings"

	"verifharness/internal/c04/fakemy"
	"verifharness/internal/core"
	env "verifharness/internal/envops"
)

// myMiniWorld builds a one-client MySQL world from the op's tokens.
func myMiniWorld(schTok string, kvToks []string, rnd []byte) (*MyWorld, *MySess) {
	sch := parseSchemaTok(schTok)
	ks := &env.TKS{Clients: map[string]*env.KV{"alice": env.ParseKV(kvToks)}}
	// the table the configuration does not know is not part of the schema token
	defs := append(sch.MyDefs(), fakemy.TableDef{Name: "plain", Cols: []fakemy.Column{{Name: "id", Type: fakemy.TypeLong}, {Name: "c0", Type: fakemy.TypeBlob}, {Name: "c1", Type: fakemy.TypeVarString}}})
	w, err := NewMyWorld(sch.YAML(), ks, defs, rnd)
	if err != nil {
		panic("harness: world: " + err.Error() + "\n" + sch.YAML())
	}
	s, err := w.Open("alice", 0)
	if err != nil {
		w.Close()
		panic("harness: open: " + err.Error())
	}
	return w, s
}

func init() {
	// myfwd <q|p> schema [kv×4] stmt rnd → the statement as the MySQL database received it (COM_QUERY / COM_STMT_PREPARE)
	core.Register("C04.myfwd", func(a []string) string {
		w, s := myMiniWorld(a[1], a[2:6], core.UnHex(a[7]))
		defer w.Close()
		sql := parseStmtTok(a[6]).MySQL()
		parser := w.DB.Parser()
		if a[0] == "q" {
			if _, err := s.C.Query(sql); err != nil {
				return "closed"
			}
			if len(w.DB.Log) == 0 {
				return "nothing"
			}
			return "ok " + myDescribe(parser, w.DB.Log[len(w.DB.Log)-1])
		}
		if _, _, err := s.C.Prepare(sql); err != nil {
			return "closed"
		}
		if len(w.DB.Prepares) == 0 {
			return "nothing"
		}
		return "ok " + myDescribe(parser, w.DB.Prepares[len(w.DB.Prepares)-1])
	})

	// mybind schema [kv×4] stmt params modelparams order rnd → the parameter values as the database received them
	core.Register("C04.mybind", func(a []string) string {
		w, s := myMiniWorld(a[0], a[1:5], core.UnHex(a[9]))
		defer w.Close()
		stmt := parseStmtTok(a[5])
		params := parseMyParamsTok(a[6])
		// the statement token carries no WHERE clause: one parameter more than placeholders = `where id = ?`
		if np := strings.Count(stmt.MySQL(), "?"); stmt.Kind == 'U' && len(params) == np+1 {
			stmt.Where = &Cell{K: 'P', N: len(params)}
		}
		sql := stmt.MySQL()
		st, _, err := s.C.Prepare(sql)
		if err != nil || st == nil {
			return "closed"
		}
		if _, err := s.C.Execute(st, toClientParams(params), true); err != nil {
			return "closed"
		}
		if len(w.DB.Execs) == 0 {
			return "nothing"
		}
		return "vals " + myValsTok(w.DB.Execs[len(w.DB.Execs)-1].Params)
	})

	// myrow schema [kv×4] stmt fmt types cols → the row as the client received it (raw value bytes per column)
	core.Register("C04.myrow", func(a []string) string {
		w, s := myMiniWorld(a[0], a[1:5], core.NewRand(3).Bytes(4096))
		defer w.Close()
		sql := parseStmtTok(a[5]).MySQL()
		types := splitTok(a[7], ",")
		var row []fakemy.Val
		for j, v := range splitTok(a[8], ",") {
			if v == "Z" {
				row = append(row, nil)
				continue
			}
			b := core.UnHex(v[1:])
			// the canned row holds values as stored: integers as decimal text
			if a[6] == "b" && j < len(types) && types[j] != "s" {
				var n int64
				for k := len(b) - 1; k >= 0; k-- {
					n = n<<8 | int64(b[k])
				}
				if len(b) == 4 {
					n = int64(int32(n))
				}
				b = []byte(strconv.FormatInt(n, 10))
			}
			row = append(row, fakemy.V(b))
		}
		w.DB.SetCanned([][]fakemy.Val{row})
		var res *fakemy.Result
		var err error
		if a[6] == "t" {
			res, err = s.C.Query(sql)
		} else {
			var st *fakemy.Stmt
			st, res, err = s.C.Prepare(sql)
			if err == nil && st != nil {
				ps := make([]fakemy.Param, st.NParams)
				for i := range ps {
					ps[i] = fakemy.Param{Type: fakemy.TypeLong, Data: []byte("1")}
				}
				res, err = s.C.Execute(st, ps, true)
			}
		}
		if err != nil || res == nil || res.Err != "" {
			return core.Err
		}
		if len(res.Wire) == 1 {
			return "ok " + myValsTok(res.Wire[0])
		}
		return "ok " + orNone(nil, ",")
	})
}
