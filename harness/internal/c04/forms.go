package c04

import (
	"bytes"
	"fmt"

	"verifharness/internal/c04/fakemy"
	"verifharness/internal/c04/fakepg"
	"verifharness/internal/core"
	env "verifharness/internal/envops"
)

// Statement forms beyond plain VALUES / SET lists, each in a world of its own (so that a value that reaches
// the database in clear through one form cannot contaminate the oracles of later statements):
//
//	upsert   INSERT … ON CONFLICT (id) DO UPDATE SET c = v   /   INSERT … ON DUPLICATE KEY UPDATE c = v
//	select   INSERT INTO t (cols) SELECT v, …                (both front ends)
//	multi    UPDATE t SET (a, b) = (x, y)                    (PostgreSQL)
//
// with the values as literals or as bound parameters. What the encryptors do with them (see Placement.lean):
// upsert assignments are transformed like SET assignments (after the fix: commits; MySQL literals always were),
// INSERT … SELECT and the multi-column SET are not analysed at all – a protected column is written in clear:
// known findings `insert-select-plaintext` and `pg-update-multiassign-plaintext`.

type formCase struct {
	front string // pg | my
	form  string // upsert | select | multi
	prep  bool   // values as bound parameters (extended protocol / COM_STMT_EXECUTE)
}

func (f formCase) class() string {
	switch f.form {
	case "select":
		return "insert-select-plaintext"
	case "multi":
		return "pg-update-multiassign-plaintext"
	}
	return "plaintext-at-database"
}

func formsOps(r *core.Run) {
	n := r.N(30, 800)
	all := []formCase{}
	for _, front := range []string{"pg", "my"} {
		for _, form := range []string{"upsert", "select", "multi"} {
			if front == "my" && form == "multi" {
				continue
			}
			all = append(all, formCase{front, form, false}, formCase{front, form, true})
		}
	}
	for i := 0; i < n; i++ {
		runForm(r, all[i%len(all)], i)
	}
}

// pickProtected returns a configured table with a column list and the protected columns to write.
func pickProtected(rd *core.Rand, sch Schema) (*Tab, []*Col) {
	for tries := 0; tries < 50; tries++ {
		t := core.Pick(rd, sch)
		if !t.Configured || t.NoColumns {
			continue
		}
		var prot []*Col
		for i := range t.Cols {
			if t.Cols[i].Set != nil {
				prot = append(prot, &t.Cols[i])
			}
		}
		if len(prot) > 0 {
			return t, prot
		}
	}
	return nil, nil
}

func runForm(r *core.Run, f formCase, idx int) {
	rd := r.Rand
	var sch Schema
	var t *Tab
	var prot []*Col
	for t == nil {
		sch = genSchema(rd)
		t, prot = pickProtected(rd, sch)
	}
	kv := env.NewKV(rd, 1, 1)
	ks := &env.TKS{Clients: map[string]*env.KV{"alice": kv}}
	rnd := rd.Bytes(1 << 14)

	// the values: first a complete row with id 1 (plain VALUES, literals), then the statement under test
	mkVal := func(c *Col) []byte {
		textual := c.Type == fakepg.Text || (c.Set != nil && c.Set.DType == "str")
		return marker(rd, textual)
	}
	lit := func(c *Col, v []byte) Cell {
		if f.front == "my" {
			return Cell{K: 'L', B: v, Spell: rd.Intn(3)}
		}
		if c.Type == fakepg.Text || (c.Set != nil && c.Set.DType == "str") {
			return Cell{K: 'L', B: v}
		}
		return Cell{K: 'L', B: textForm(rd, v)}
	}
	first := &Stmt{Kind: 'I', Table: t.Name}
	row0 := map[string][]byte{}
	var r0 []Cell
	for i := range t.Cols {
		c := &t.Cols[i]
		first.Cols = append(first.Cols, c.Name)
		if c.Name == "id" {
			r0 = append(r0, Cell{K: 'N', B: []byte("1")})
			continue
		}
		v := mkVal(c)
		row0[c.Name] = v
		r0 = append(r0, lit(c, v))
	}
	first.Rows = [][]Cell{r0}

	// the statement under test writes fresh values into one or two protected columns of row 1
	targets := []*Col{core.Pick(rd, prot)}
	if len(prot) > 1 && rd.Bool() {
		for _, c := range prot {
			if c != targets[0] {
				targets = append(targets, c)
				break
			}
		}
	}
	if f.form == "multi" && len(targets) == 1 {
		// SET (a, b) = … needs two targets: add an uncovered one (or the id itself)
		for i := range t.Cols {
			if c := &t.Cols[i]; c.Set == nil && c.Name != "id" {
				targets = append(targets, c)
				break
			}
		}
		if len(targets) == 1 {
			targets = append(targets, &t.Cols[0])
		}
	}
	st := &Stmt{Kind: 'I', Table: t.Name, Upper: rd.Bool()}
	newVals := map[string][]byte{}
	var pgParams []param
	var myParams []myParam
	var secrets [][]byte
	value := func(c *Col) Cell {
		if c.Name == "id" {
			return Cell{K: 'N', B: []byte("1")}
		}
		v := mkVal(c)
		newVals[c.Name] = v
		if c.Set != nil {
			secrets = append(secrets, v)
		}
		if f.prep {
			if f.front == "pg" {
				bin := rd.Chance(40)
				data := v
				if !bin && !(c.Type == fakepg.Text || (c.Set != nil && c.Set.DType == "str")) {
					data = textForm(rd, v)
				}
				pgParams = append(pgParams, param{bin: bin, data: data})
				return Cell{K: 'P', N: len(pgParams)}
			}
			myParams = append(myParams, myParam{typ: core.Pick(rd, []byte{fakemy.TypeVarString, fakemy.TypeBlob}), data: v})
			return Cell{K: 'P', N: len(myParams)}
		}
		return lit(c, v)
	}
	switch f.form {
	case "upsert":
		// INSERT (id, <all columns of the first row>) VALUES (1, …old values…) ON CONFLICT/DUPLICATE … SET target = new
		st.Cols = []string{"id"}
		st.Rows = [][]Cell{{Cell{K: 'N', B: []byte("1")}}}
		for _, c := range targets {
			st.OnDup = append(st.OnDup, c.Name)
			st.OnDupV = append(st.OnDupV, value(c))
		}
	case "select":
		// a new row with id 2 whose values come from a SELECT list
		st.SelSrc = true
		st.Cols = []string{"id"}
		row := []Cell{{K: 'N', B: []byte("2")}}
		for _, c := range targets {
			st.Cols = append(st.Cols, c.Name)
			row = append(row, value(c))
		}
		st.Rows = [][]Cell{row}
	case "multi":
		st.Kind, st.MultiSet = 'U', true
		for _, c := range targets {
			st.Sets = append(st.Sets, c.Name)
			st.SetV = append(st.SetV, value(c))
		}
		st.Where = &Cell{K: 'N', B: []byte("1")}
	}
	proto := map[bool]string{false: "literal", true: "parameter"}[f.prep]
	r.Begin(fmt.Sprintf("form|%s|%s|%s|%s|%s", f.front, f.form, proto, sch.Token(), st.Token()), true, "case:statement-form", "form:"+f.front+"-"+f.form+"-"+proto)

	leaked := func(hay []byte) ([]byte, bool) {
		for _, v := range secrets {
			for _, form := range Forms(v) {
				if bytes.Contains(hay, form) {
					return v, true
				}
			}
		}
		return nil, false
	}
	expectID := 1
	if f.form == "select" {
		expectID = 2
	}

	if f.front == "pg" {
		w, err := NewWorld(sch.YAML(), ks, sch.Defs(), rnd)
		if err != nil {
			panic("harness: " + err.Error())
		}
		defer w.Close()
		a, err := w.Open("alice")
		if err != nil {
			panic("harness: open " + err.Error())
		}
		bob, err := w.Open("bob")
		if err != nil {
			panic("harness: open " + err.Error())
		}
		if rs, err := a.C.Simple(first.SQL()); err != nil || len(rs) == 0 || rs[len(rs)-1].Err != "" {
			r.Fail("session-broken", fmt.Sprintf("form case: first insert %q failed: %v", first.SQL(), err))
			return
		}
		p0 := w.Rnd.Pos()
		din0 := w.DB.In.Len()
		sql := st.SQL()
		var rs []*fakepg.Result
		if f.prep {
			vals, fm := extParams(pgParams)
			rs, err = a.C.Extended(fakepg.Ext{Parse: true, Name: "s", SQL: sql, Bind: true, Params: vals, PFmt: fm, Execute: true})
		} else {
			rs, err = a.C.Simple(sql)
		}
		if err != nil || len(rs) == 0 || rs[len(rs)-1].Err != "" {
			msg := ""
			if len(rs) > 0 {
				msg = rs[len(rs)-1].Err + " " + rs[len(rs)-1].ErrMsg
			}
			r.Fail("statement-rejected", fmt.Sprintf("form statement %q failed through the proxy: %v %s; forwarded %q", sql, err, msg, lastSQL(w.DB)))
			return
		}
		used := w.Rnd.data[p0:]
		tail := core.Hex(used[:min(len(used), 2048)])
		r.Do(fmt.Sprintf("C04.stmt %s %s %s %s %s", map[bool]string{false: "q", true: "p"}[f.prep], sch.Token(), kvToks(kv), st.Token(), tail))
		if f.prep {
			// at most two protected parameters: try both orders for the model
			prot := protectedParamsOf(t, st)
			base := fmt.Sprintf("C04.bind %s %s %s %s", sch.Token(), kvToks(kv), st.Token(), paramsTok(pgParams))
			first := fmt.Sprintf("%s %s %s", base, intsTok(prot), tail)
			impl := r.Impl(first)
			line := first
			for _, p := range perms(prot) {
				l := fmt.Sprintf("%s %s %s", base, intsTok(p), tail)
				if r.ModelOnly(l) == impl {
					line = l
					break
				}
			}
			r.Diff(line, impl)
		}
		if v, bad := leaked(w.DB.In.Bytes()[din0:]); bad {
			r.Fail(f.class(), fmt.Sprintf("PostgreSQL %s: plaintext %x of a protected column reached the database: %s (forwarded: %q)", f.form, v, sql, lastSQL(w.DB)))
		}
		// the owner reads the new values
		q := fmt.Sprintf("select * from %s where id = %d", t.Name, expectID)
		ors, err := a.C.Simple(q)
		if err != nil || len(ors) == 0 || len(ors[len(ors)-1].Rows) != 1 {
			r.Fail("session-broken", fmt.Sprintf("form case: owner SELECT failed: %v", err))
			return
		}
		row := ors[len(ors)-1].Rows[0]
		for j := range t.Cols {
			c := &t.Cols[j]
			want, ok := newVals[c.Name]
			if !ok {
				if want, ok = row0[c.Name]; !ok || f.form == "select" {
					continue
				}
			}
			if row[j] == nil {
				r.Fail("owner-read-mismatch", fmt.Sprintf("%s then %s: column %s came back NULL", sql, q, c.Name))
				continue
			}
			dec, okd := clientDecode(c.Type.OID(), false, *row[j])
			if c.Set != nil && c.Set.DType == "str" {
				dec, okd = *row[j], true
			}
			class := "uncovered-column-altered"
			if c.Set != nil {
				class = "owner-read-mismatch"
			}
			r.Check(okd && bytes.Equal(dec, want), class, fmt.Sprintf("%s then %s: column %s wrote %x, owner read %x", sql, q, c.Name, want, dec))
		}
		b0, _ := bob.C.Marks()
		if _, err := bob.C.Simple(q); err != nil {
			r.Fail("session-broken", fmt.Sprintf("form case: keyless SELECT failed: %v", err))
			return
		}
		b1, _ := bob.C.Marks()
		if v, bad := leaked(bob.C.In.Bytes()[b0:b1]); bad {
			cl := f.class()
			if cl == "plaintext-at-database" {
				cl = "plaintext-to-keyless-client"
			}
			r.Fail(cl, fmt.Sprintf("PostgreSQL %s: the client without keys received plaintext %x: %s", f.form, v, sql))
		}
		return
	}

	// MySQL
	w, err := NewMyWorld(sch.YAML(), ks, sch.MyDefs(), rnd)
	if err != nil {
		panic("harness: " + err.Error())
	}
	defer w.Close()
	a, err := w.Open("alice", 0)
	if err != nil {
		panic("harness: open " + err.Error())
	}
	bob, err := w.Open("bob", 0)
	if err != nil {
		panic("harness: open " + err.Error())
	}
	if res, err := a.C.Query(first.MySQL()); err != nil || res.Err != "" {
		r.Fail("session-broken", fmt.Sprintf("form case: first insert %q failed: %v %v", first.MySQL(), err, res))
		return
	}
	p0 := w.Rnd.Pos()
	din0 := w.DB.In.Len()
	sql := st.MySQL()
	var res *fakemy.Result
	if f.prep {
		var ps *fakemy.Stmt
		ps, res, err = a.C.Prepare(sql)
		if err == nil && ps != nil {
			res, err = a.C.Execute(ps, toClientParams(myParams), true)
		}
	} else {
		res, err = a.C.Query(sql)
	}
	if err != nil || res == nil || res.Err != "" {
		r.Fail("statement-rejected", fmt.Sprintf("MySQL form statement %q failed through the proxy: %v %v (panic %v)", sql, err, res, a.panicked()))
		return
	}
	used := w.Rnd.data[p0:]
	tail := core.Hex(used[:min(len(used), 2048)])
	r.Do(fmt.Sprintf("C04.myfwd %s %s %s %s %s", map[bool]string{false: "q", true: "p"}[f.prep], sch.Token(), kvToks(kv), st.Token(), tail))
	if f.prep {
		prot := protectedParamsOf(t, st)
		base := fmt.Sprintf("C04.mybind %s %s %s %s %s", sch.Token(), kvToks(kv), st.Token(), myParamsTok(myParams), modelParamsTok(myParams))
		first := fmt.Sprintf("%s %s %s", base, intsTok(prot), tail)
		impl := r.Impl(first)
		line := first
		for _, p := range perms(prot) {
			l := fmt.Sprintf("%s %s %s", base, intsTok(p), tail)
			if r.ModelOnly(l) == impl {
				line = l
				break
			}
		}
		r.Diff(line, impl)
	}
	if v, bad := leaked(w.DB.In.Bytes()[din0:]); bad {
		r.Fail(f.class(), fmt.Sprintf("MySQL %s: plaintext %x of a protected column reached the database: %s", f.form, v, sql))
	}
	q := fmt.Sprintf("select * from %s where id = %d", t.Name, expectID)
	ores, err := a.C.Query(q)
	if err != nil || ores.Err != "" || len(ores.Rows) != 1 {
		r.Fail("session-broken", fmt.Sprintf("form case: MySQL owner SELECT failed: %v %v", err, ores))
		return
	}
	for j := range t.Cols {
		c := &t.Cols[j]
		want, ok := newVals[c.Name]
		if !ok {
			if want, ok = row0[c.Name]; !ok || f.form == "select" {
				continue
			}
		}
		class := "uncovered-column-altered"
		if c.Set != nil {
			class = "owner-read-mismatch"
		}
		got := ores.Rows[0][j]
		r.Check(got != nil && bytes.Equal(*got, want), class, fmt.Sprintf("%s then %s: column %s wrote %x, owner read %v", sql, q, c.Name, want, got))
	}
	b0, _ := bob.C.Marks()
	if _, err := bob.C.Query(q); err != nil {
		r.Fail("session-broken", fmt.Sprintf("form case: MySQL keyless SELECT failed: %v", err))
		return
	}
	b1, _ := bob.C.Marks()
	if v, bad := leaked(bob.C.In.Bytes()[b0:b1]); bad {
		cl := f.class()
		if cl == "plaintext-at-database" {
			cl = "plaintext-to-keyless-client"
		}
		r.Fail(cl, fmt.Sprintf("MySQL %s: the client without keys received plaintext %x: %s", f.form, v, sql))
	}
}

// protectedParamsOf: the parameters (0-based) a form statement binds to protected columns, in statement order.
func protectedParamsOf(t *Tab, st *Stmt) []int {
	var prot []int
	mark := func(col string, c Cell) {
		if cc := t.col(col); cc != nil && cc.Set != nil && c.K == 'P' {
			prot = append(prot, c.N-1)
		}
	}
	if st.Kind == 'I' {
		for _, row := range st.Rows {
			for j, c := range row {
				if j < len(st.Cols) {
					mark(st.Cols[j], c)
				}
			}
		}
		for j, c := range st.OnDupV {
			mark(st.OnDup[j], c)
		}
	} else {
		for j, c := range st.SetV {
			mark(st.Sets[j], c)
		}
	}
	return prot
}
