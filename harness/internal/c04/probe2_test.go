package c04

import (
	"testing"

	"verifharness/internal/c04/fakepg"
	"verifharness/internal/core"
	env "verifharness/internal/envops"
)

func TestProbePending(t *testing.T) {
	rd := core.NewRand(1)
	ks := &env.TKS{Clients: map[string]*env.KV{"alice": env.NewKV(rd, 1, 1)}}
	tabs := []fakepg.TableDef{
		{Name: "t1", Cols: []fakepg.Column{{Name: "id", Type: fakepg.Int4}, {Name: "data", Type: fakepg.Bytea}, {Name: "note", Type: fakepg.Text}}},
		{Name: "t2", Cols: []fakepg.Column{{Name: "id", Type: fakepg.Int4}, {Name: "data", Type: fakepg.Bytea}, {Name: "note", Type: fakepg.Text}}},
	}
	w, err := NewWorld(probeYAML, ks, tabs, rd.Bytes(1<<16))
	if err != nil {
		t.Fatal(err)
	}
	defer w.Close()
	a, _ := w.Open("alice")
	rs, err := a.C.Simple("insert into t2 (id, data, note) values (1, 'MARKER000004', 'hello')")
	t.Log(show(rs, err))
	rs, err = a.C.Simple("select data from t2")
	t.Log("before:", show(rs, err))
	w.DB.FailNext = true
	rs, err = a.C.Pipeline([]fakepg.Ext{
		{Parse: true, Name: "s1", SQL: "insert into t1 (id, data, note) values ($1, $2, $3)", Bind: true, Params: [][]byte{[]byte("11"), []byte("MARKER000008"), []byte("x")}, Execute: true, NoSync: true},
		{Bind: true, Name: "s1", Params: [][]byte{[]byte("12"), []byte("MARKER000009"), []byte("x")}, Execute: true},
	})
	t.Log(show(rs, err))
	rs, err = a.C.Simple("select data from t2")
	t.Log("after:", show(rs, err))
	rs, err = a.C.Simple("select data from t2")
	t.Log("after2:", show(rs, err))
	// literal for an encrypted column inside a prepared statement
	rs, err = a.C.Extended(fakepg.Ext{Parse: true, Name: "s2", SQL: "update t1 set data = 'MARKER000010' where id = $1", Bind: true, Params: [][]byte{[]byte("11")}, Execute: true})
	t.Log("lit in prepared:", show(rs, err), "panic:", a.Panic)
	b, _ := w.Open("alice")
	rs, err = b.C.Extended(fakepg.Ext{Parse: true, Name: "s3", SQL: "insert into t1 (id, data) values ($1, $2)", Bind: true, Params: [][]byte{[]byte("21"), []byte("line1\nMARKER000011")}, Execute: true})
	t.Log("newline text param:", show(rs, err), "panic:", b.Panic)
	for _, l := range w.DB.Log[len(w.DB.Log)-2:] {
		t.Logf("DB: %s err=%s rows=%q", l.SQL, l.Err, l.Raw)
	}
	for _, r := range w.DB.Rows("t1") {
		t.Logf("t1 row: %q %q", *r[0], *r[1])
	}
}
