package c04

import (
	"context"
	crand "crypto/rand"
	"io"
	"net"
	"os"
	"runtime/debug"
	"strings"
	"sync"
	"time"

	acracensor "github.com/cossacklabs/acra/acra-censor"
	"github.com/cossacklabs/acra/decryptor/base"
	"github.com/cossacklabs/acra/decryptor/mysql"
	"github.com/cossacklabs/acra/decryptor/postgresql"
	"github.com/cossacklabs/acra/encryptor/base/config"
	"github.com/cossacklabs/acra/poison"
	"github.com/cossacklabs/acra/pseudonymization"
	"github.com/cossacklabs/acra/pseudonymization/storage"
	"github.com/cossacklabs/acra/sqlparser"

	"verifharness/internal/c04/fakemy"
	"verifharness/internal/c04/fakepg"
	env "verifharness/internal/envops"
)

// WorldOpts: what other checks (C16) vary when they drive the same real proxies: the firewall of the session, the
// server's parser mode and the source of crypto/rand for the lifetime of the world.
type WorldOpts struct {
	Censor acracensor.AcraCensorInterface // nil = an empty AcraCensor
	Parser *sqlparser.Parser              // nil = sqlparser.New(ModeDefault), as acra-server
	Rand   io.Reader                      // crypto/rand.Reader while the world lives
}

func (o *WorldOpts) fill() {
	if o.Censor == nil {
		o.Censor = acracensor.NewAcraCensor()
	}
	if o.Parser == nil {
		o.Parser = sqlparser.New(sqlparser.ModeDefault)
	}
}

// NewWorldOpts is NewWorld with a chosen censor / parser / random source.
func NewWorldOpts(yaml string, ks *env.TKS, tables []fakepg.TableDef, o WorldOpts) (*World, error) {
	o.fill()
	store, err := config.MapTableSchemaStoreFromConfig([]byte(yaml), config.UsePostgreSQL)
	if err != nil {
		return nil, err
	}
	tokenStorage, err := storage.NewMemoryTokenStorage()
	if err != nil {
		return nil, err
	}
	tokenizer, err := pseudonymization.NewPseudoanonymizer(tokenStorage)
	if err != nil {
		return nil, err
	}
	setting := base.NewProxySetting(o.Parser, store, ks, nil, o.Censor, poison.NewCallbackStorage())
	factory, err := postgresql.NewProxyFactory(setting, ks, tokenizer)
	if err != nil {
		return nil, err
	}
	w := &World{KS: ks, Store: store, DB: fakepg.NewDB(tables), Rnd: &stream{}, factory: factory, oldRand: crand.Reader}
	if o.Rand != nil {
		crand.Reader = o.Rand
	}
	return w, nil
}

// NewMyWorldOpts is NewMyWorld with a chosen censor / parser / random source.
func NewMyWorldOpts(yaml string, ks *env.TKS, tables []fakemy.TableDef, o WorldOpts) (*MyWorld, error) {
	o.fill()
	store, err := config.MapTableSchemaStoreFromConfig([]byte(yaml), config.UseMySQL)
	if err != nil {
		return nil, err
	}
	tokenStorage, err := storage.NewMemoryTokenStorage()
	if err != nil {
		return nil, err
	}
	tokenizer, err := pseudonymization.NewPseudoanonymizer(tokenStorage)
	if err != nil {
		return nil, err
	}
	setting := base.NewProxySetting(o.Parser, store, ks, nil, o.Censor, poison.NewCallbackStorage())
	factory, err := mysql.NewProxyFactory(setting, ks, tokenizer)
	if err != nil {
		return nil, err
	}
	w := &MyWorld{KS: ks, DB: fakemy.NewDB(tables), Rnd: &stream{}, factory: factory, oldRand: crand.Reader}
	if o.Rand != nil {
		crand.Reader = o.Rand
	}
	return w, nil
}

// Panicked reports a panic of one of the proxy goroutines of the session (nil if none).
func (s *Sess) Panicked() interface{} { return s.Panic }

// Panicked reports a panic of one of the proxy goroutines of the session (nil if none).
func (s *MySess) Panicked() interface{} { return s.panicked() }

// ---- client connections that never block the proxy ----

// pumpConn decouples the fake client from the synchronous net.Pipe: a goroutine reads everything the proxy writes
// into an unbounded buffer at once. Without it a proxy that answers in the middle of a client's pipelined write (the
// censor's ErrorResponse to a denied Parse while Bind/Execute/Sync are still being written) would block against the
// client's own Write until a deadline fires.
type pumpConn struct {
	net.Conn
	mu       sync.Mutex
	cond     *sync.Cond
	buf      []byte
	err      error
	deadline time.Time
}

func newPumpConn(c net.Conn) *pumpConn {
	p := &pumpConn{Conn: c}
	p.cond = sync.NewCond(&p.mu)
	go func() {
		tmp := make([]byte, 8192)
		for {
			n, err := c.Read(tmp)
			p.mu.Lock()
			p.buf = append(p.buf, tmp[:n]...)
			if err != nil {
				p.err = err
			}
			p.cond.Broadcast()
			p.mu.Unlock()
			if err != nil {
				return
			}
		}
	}()
	return p
}

type pumpTimeout struct{}

func (pumpTimeout) Error() string   { return "pumpConn: i/o timeout" }
func (pumpTimeout) Timeout() bool   { return true }
func (pumpTimeout) Temporary() bool { return true }

func (p *pumpConn) Read(b []byte) (int, error) {
	p.mu.Lock()
	defer p.mu.Unlock()
	for len(p.buf) == 0 && p.err == nil {
		dl := p.deadline
		if !dl.IsZero() {
			left := time.Until(dl)
			if left <= 0 {
				return 0, pumpTimeout{}
			}
			t := time.AfterFunc(left, func() { p.mu.Lock(); p.cond.Broadcast(); p.mu.Unlock() })
			p.cond.Wait()
			t.Stop()
			continue
		}
		p.cond.Wait()
	}
	if len(p.buf) == 0 {
		return 0, p.err
	}
	n := copy(b, p.buf)
	p.buf = p.buf[n:]
	return n, nil
}

func (p *pumpConn) SetReadDeadline(t time.Time) error {
	p.mu.Lock()
	p.deadline = t
	p.cond.Broadcast()
	p.mu.Unlock()
	return nil
}

func (p *pumpConn) SetDeadline(t time.Time) error {
	p.SetReadDeadline(t)
	return p.Conn.SetWriteDeadline(t)
}

// OpenPumped is Open with the client's end of the pipe read continuously (see pumpConn).
func (w *World) OpenPumped(clientID string) (*Sess, error) {
	c1, c2 := net.Pipe() // client <-> proxy
	d1, d2 := net.Pipe() // proxy <-> database
	cs := &session{client: c2, db: d1, data: map[string]interface{}{}}
	proxy, _, err := w.proxyFor(clientID, cs)
	if err != nil {
		return nil, err
	}
	s := &Sess{C: fakepg.NewClient(newPumpConn(c1)), Proxy: proxy, errCh: make(chan base.ProxyError, 16), conns: []net.Conn{c1, c2, d1, d2}}
	go w.DB.Serve(d2)
	run := func(f func(context.Context, chan<- base.ProxyError)) {
		s.done.Add(1)
		go func() {
			defer s.done.Done()
			defer func() {
				if r := recover(); r != nil {
					s.Panic = r
					notePanic(s, debug.Stack())
					for _, c := range s.conns {
						c.Close()
					}
				}
			}()
			f(cs.ctx, s.errCh)
			// the server closes both connections when either direction ends
			for _, c := range s.conns {
				c.Close()
			}
		}()
	}
	run(proxy.ProxyClientConnection)
	run(proxy.ProxyDatabaseConnection)
	w.sess = append(w.sess, s)
	if err := s.C.Startup(); err != nil {
		return s, err
	}
	return s, nil
}

// OpenPumped is Open with the client's end of the pipe read continuously (see pumpConn).
func (w *MyWorld) OpenPumped(clientID string, caps uint32) (*MySess, error) {
	c1, c2 := net.Pipe() // client <-> proxy
	d1, d2 := net.Pipe() // proxy <-> database
	cs := &session{client: c2, db: d1, data: map[string]interface{}{}}
	ctx := base.SetClientSessionToContext(context.Background(), cs)
	cs.ctx = ctx
	proxy, err := w.factory.New([]byte(clientID), cs)
	if err != nil {
		return nil, err
	}
	accessContext := base.NewAccessContext(base.WithClientID([]byte(clientID)))
	proxy.AddClientIDObserver(accessContext)
	cs.ctx = base.SetAccessContextToContext(cs.ctx, accessContext)
	s := &MySess{C: fakemy.NewClient(newPumpConn(c1)), Proxy: proxy, errCh: make(chan base.ProxyError, 16), conns: []net.Conn{c1, c2, d1, d2}}
	if caps != 0 {
		s.C.Caps = caps
	}
	go w.DB.Serve(d2)
	run := func(f func(context.Context, chan<- base.ProxyError)) {
		s.done.Add(1)
		go func() {
			defer s.done.Done()
			defer func() {
				if r := recover(); r != nil {
					s.mu.Lock()
					s.Panic = r
					s.mu.Unlock()
					notePanic(s, debug.Stack())
					for _, c := range s.conns {
						c.Close()
					}
				}
			}()
			f(cs.ctx, s.errCh)
			for _, c := range s.conns {
				c.Close()
			}
		}()
	}
	run(proxy.ProxyClientConnection)
	run(proxy.ProxyDatabaseConnection)
	w.sess = append(w.sess, s)
	if err := s.C.Handshake(); err != nil {
		return s, err
	}
	return s, nil
}

func drainErrors(ch chan base.ProxyError) []string {
	var out []string
	for {
		select {
		case e := <-ch:
			out = append(out, e.Error())
		default:
			return out
		}
	}
}

// ProxyErrors returns (and removes) the errors the proxy goroutines reported so far – what makes acra-server end the session.
func (s *Sess) ProxyErrors() []string { return drainErrors(s.errCh) }

// ProxyErrors returns (and removes) the errors the proxy goroutines reported so far.
func (s *MySess) ProxyErrors() []string { return drainErrors(s.errCh) }

// ErrCh is the channel the proxy goroutines report their terminal errors on (acra-server's handleClientSession reads it).
func (s *Sess) ErrCh() <-chan base.ProxyError { return s.errCh }

// ErrCh is the channel the proxy goroutines report their terminal errors on.
func (s *MySess) ErrCh() <-chan base.ProxyError { return s.errCh }

// ---- where a proxy goroutine panicked ----

var (
	panicMu    sync.Mutex
	panicSites = map[interface{}]string{}
)

// notePanic keeps, per session, the first function of /repo on the panicking goroutine's stack.
func notePanic(sess interface{}, stack []byte) {
	site := "unknown"
	lines := strings.Split(string(stack), "\n")
	after := false
	for _, l := range lines {
		if strings.HasPrefix(l, "panic(") {
			after = true
			continue
		}
		if after && strings.HasPrefix(l, "github.com/cossacklabs/acra/") {
			site = strings.TrimPrefix(l, "github.com/cossacklabs/acra/")
			if i := strings.LastIndexByte(site, '('); i > 0 {
				site = site[:i]
			}
			break
		}
	}
	if os.Getenv("VERIF_PANIC_STACK") != "" {
		os.Stderr.Write(stack)
	}
	panicMu.Lock()
	if _, ok := panicSites[sess]; !ok {
		panicSites[sess] = site
	}
	panicMu.Unlock()
}

func takePanicSite(sess interface{}) string {
	panicMu.Lock()
	defer panicMu.Unlock()
	s := panicSites[sess]
	delete(panicSites, sess)
	return s
}

// PanicSite names the function of /repo in which a proxy goroutine of this session panicked ("" if none did).
func (s *Sess) PanicSite() string { return takePanicSite(s) }

// PanicSite names the function of /repo in which a proxy goroutine of this session panicked ("" if none did).
func (s *MySess) PanicSite() string { return takePanicSite(s) }
