package c04

import (
	"bytes"
	"fmt"
	"testing"

	"verifharness/internal/c04/fakepg"
	"verifharness/internal/core"
	env "verifharness/internal/envops"
)

const probeYAML = `
schemas:
  - table: t1
    columns: [id, data, note]
    encrypted:
      - column: data
  - table: t2
    columns: [id, data, note]
    encrypted:
      - column: data
        crypto_envelope: acrastruct
        data_type: str
`

func show(rs []*fakepg.Result, err error) string {
	s := fmt.Sprint("err=", err, " ")
	for _, r := range rs {
		s += r.String() + " ["
		for _, row := range r.Rows {
			for _, v := range row {
				if v == nil {
					s += "NULL,"
				} else {
					s += fmt.Sprintf("%q,", *v)
				}
			}
			s += ";"
		}
		s += "] "
	}
	return s
}

func TestProbe(t *testing.T) {
	rd := core.NewRand(1)
	ks := &env.TKS{Clients: map[string]*env.KV{"alice": env.NewKV(rd, 1, 1)}}
	tabs := []fakepg.TableDef{
		{Name: "t1", Cols: []fakepg.Column{{"id", fakepg.Int4}, {"data", fakepg.Bytea}, {"note", fakepg.Text}}},
		{Name: "t2", Cols: []fakepg.Column{{"id", fakepg.Int4}, {"data", fakepg.Bytea}, {"note", fakepg.Text}}},
		{Name: "t3", Cols: []fakepg.Column{{"id", fakepg.Int4}, {"data", fakepg.Bytea}, {"note", fakepg.Text}}},
	}
	w, err := NewWorld(probeYAML, ks, tabs, rd.Bytes(1<<16))
	if err != nil {
		t.Fatal(err)
	}
	defer w.Close()
	a, err := w.Open("alice")
	if err != nil {
		t.Fatal(err)
	}
	b, err := w.Open("bob")
	if err != nil {
		t.Fatal(err)
	}
	q := func(s *Sess, sql string) {
		p0 := w.Rnd.Pos()
		rs, err := s.C.Simple(sql)
		t.Logf("%s\n   => %s (rnd %d)", sql, show(rs, err), w.Rnd.Pos()-p0)
	}
	q(a, "insert into t1 (id, data, note) values (1, 'MARKER000001', 'hello')")
	q(a, "insert into t1 values (2, '\\x4d41524b4552303030303032', 'n2'), (3, 'MARKER000003', 'n3')")
	q(a, "insert into t2 (id, data, note) values (1, 'MARKER000004', 'hello')")
	q(a, "insert into t3 (id, data, note) values (1, 'MARKER000005', 'hello')")
	q(a, "update t1 set data = 'MARKER000006' where id = 3")
	q(a, "select id, data, note from t1")
	q(a, "select * from t1 where id = 2")
	q(b, "select * from t1")
	q(a, "select * from t2")
	q(b, "select * from t2")
	q(a, "select * from t3")
	q(a, "insert into t1 (id, data) values (9, 'MARKER000007') returning data")
	for _, l := range w.DB.Log {
		t.Logf("DB: %s err=%s", l.SQL, l.Err)
	}
	t.Log("db-in contains MARKER:", bytes.Contains(w.DB.In.Bytes(), []byte("MARKER")), bytes.Contains(w.DB.In.Bytes(), []byte("4d41524b4552")))
	// extended
	rs, err := a.C.Extended(fakepg.Ext{Parse: true, Name: "s1", SQL: "insert into t1 (id, data, note) values ($1, $2, $3)", Bind: true, Params: [][]byte{[]byte("11"), []byte("MARKER000008"), []byte("x")}, Execute: true})
	t.Log(show(rs, err))
	rs, err = a.C.Extended(fakepg.Ext{Bind: true, Name: "s1", Params: [][]byte{{0, 0, 0, 12}, []byte("MARKER000009"), []byte("x")}, PFmt: []int16{1}, Execute: true})
	t.Log(show(rs, err))
	rs, err = a.C.Extended(fakepg.Ext{Parse: true, SQL: "select id, data from t1 where id = $1", Bind: true, Params: [][]byte{[]byte("11")}, RFmt: []int16{1}, DescribeP: true, Execute: true})
	t.Log(show(rs, err))
	rs, err = a.C.Extended(fakepg.Ext{Parse: true, SQL: "select id, data from t1 where id = $1", Bind: true, Params: [][]byte{[]byte("12")}, Execute: true})
	t.Log(show(rs, err))
	t.Log("db-in contains MARKER:", bytes.Contains(w.DB.In.Bytes(), []byte("MARKER")), bytes.Contains(w.DB.In.Bytes(), []byte("4d41524b4552")))
}
