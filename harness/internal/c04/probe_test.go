package c04

import (
	"fmt"
	"testing"

	"verifharness/internal/c04/fakepg"
	"verifharness/internal/core"
	env "verifharness/internal/envops"
)

func probeWorld(t *testing.T) (*World, *Sess, Schema) {
	sch := Schema{&Tab{Name: "t0", Configured: true, Cols: []Col{
		{Name: "id", Type: fakepg.Int4},
		{Name: "c0", Type: fakepg.Bytea, Set: &Setting{Kind: "block", DType: "str", Reenc: true}},
		{Name: "c1", Type: fakepg.Bytea, Set: &Setting{Kind: "block", DType: "none", Reenc: true}},
		{Name: "c2", Type: fakepg.Text},
	}}}
	rd := core.NewRand(5)
	kv := env.NewKV(rd, 1, 1)
	ks := &env.TKS{Clients: map[string]*env.KV{"alice": kv}}
	w, err := NewWorld(sch.YAML(), ks, sch.Defs(), rd.Bytes(1<<15))
	if err != nil {
		t.Fatal(err)
	}
	s, err := w.Open("alice")
	if err != nil {
		t.Fatal(err)
	}
	return w, s, sch
}

func show(t *testing.T, w *World, s *Sess, sql string) {
	n0 := len(w.DB.Log)
	rs, err := s.C.Simple(sql)
	fmt.Printf(">> %q\n   err=%v panic=%v\n", sql, err, s.Panic)
	for _, l := range w.DB.Log[n0:] {
		fmt.Printf("   db got: %q err=%q\n", l.SQL, l.Err)
	}
	for _, r := range rs {
		fmt.Printf("   result: tag=%q err=%q %s\n", r.Tag, r.Err, r.ErrMsg)
		for _, row := range r.Rows {
			fmt.Printf("     row %s\n", valsTok(row))
		}
	}
}

func TestProbe(t *testing.T) {
	w, s, _ := probeWorld(t)
	defer w.Close()
	show(t, w, s, `insert into t0 (id, c0, c1, c2) values (1, 'hello-world-1', 'C:\keys\master.pem', 'pub')`)
	show(t, w, s, "insert into t0 (id, c0, c1, c2) values (2, 'hello-world-2', 'line1\nline2', 'pub')")
	show(t, w, s, `insert into t0 (id, c0, c1, c2) values (3, 'hello-world-3', '\xZZ', 'pub')`)
	show(t, w, s, `insert into t0 (id, c0, c1, c2) values (4, 'hello-world-4', '\x', 'pub')`)
	show(t, w, s, "insert into t0 (id, c0, c1, c2) values (5, 'hello-world-5', 'caf\xc3\xa9 \\\\ \\101', 'pub')")
	show(t, w, s, "insert into t0 (id, c0, c1, c2) values (6, 'hello-world-6', 'bad\xff utf', 'pub')")
	show(t, w, s, `select id, c0, c1 from t0`)
	show(t, w, s, `prepare q as select c0 from t0`)
	show(t, w, s, `execute q`)
	show(t, w, s, `deallocate q`)
	show(t, w, s, `prepare q as select id, c1, c0 from t0`)
	show(t, w, s, `execute q`)
	show(t, w, s, `deallocate all`)
	show(t, w, s, `prepare q as select c0, id from t0`)
	show(t, w, s, `execute q`)
	show(t, w, s, `prepare bad as select c0 from missing`)
	show(t, w, s, `prepare bad as select c0, c0 from t0`)
	show(t, w, s, `execute bad`)
	show(t, w, s, `prepare ins as insert into t0 (id, c0) values (7, 'secret-literal-in-prepare')`)
	show(t, w, s, `execute ins`)
	show(t, w, s, `prepare ins2 as insert into t0 (id, c0) values ($1, $2)`)
	show(t, w, s, `execute ins2 (8, 'secret-param-in-execute')`)
	show(t, w, s, `execute nosuch`)
	show(t, w, s, `deallocate nosuch`)
	show(t, w, s, `select id, c0 from t0`)
}
