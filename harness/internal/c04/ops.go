package c04

import (
	"bytes"
	"fmt"
	"strconv"
	"strings"

	"verifharness/internal/c04/fakepg"
	"verifharness/internal/core"
	env "verifharness/internal/envops"
)

// ---- token parsers (the implementation ops receive the same tokens as the model) ----

func splitTok(s, sep string) []string {
	if s == "_" {
		return nil
	}
	return strings.Split(s, sep)
}

func parseSchemaTok(tok string) Schema {
	var sch Schema
	for _, tt := range splitTok(tok, "/") {
		f := strings.Split(tt, ":")
		if len(f) != 3 {
			panic("harness: bad schema token " + tok)
		}
		t := &Tab{Name: f[0], Configured: true}
		enc := map[string]*Setting{}
		var encOrder []string
		for _, e := range splitTok(f[2], "+") {
			kv := strings.Split(e, "=")
			p := strings.Split(kv[1], ".")
			enc[kv[0]] = &Setting{Kind: p[0], DType: p[1], Reenc: p[2] == "1"}
			encOrder = append(encOrder, kv[0])
		}
		cols := splitTok(f[1], ",")
		t.NoColumns = len(cols) == 0
		seen := map[string]bool{}
		for _, c := range cols {
			col := Col{Name: c, Type: fakepg.Text, Set: enc[c]}
			if c == "id" {
				col.Type = fakepg.Int4
			}
			if col.Set != nil {
				col.Type = fakepg.Bytea
			}
			seen[c] = true
			t.Cols = append(t.Cols, col)
		}
		for _, c := range encOrder {
			if !seen[c] {
				t.Cols = append(t.Cols, Col{Name: c, Type: fakepg.Bytea, Set: enc[c]})
			}
		}
		sch = append(sch, t)
	}
	return sch
}

func parseCellTok(s string) Cell {
	switch s[0] {
	case 'L':
		return Cell{K: 'L', B: core.UnHex(s[1:])}
	case 'N':
		return Cell{K: 'N', B: core.UnHex(s[1:])}
	case 'P':
		return Cell{K: 'P', N: core.Atoi(s[1:])}
	case 'Z':
		return Cell{K: 'Z'}
	}
	if s == "O1" {
		return Cell{K: 'V'}
	}
	return Cell{K: 'O'}
}

func parseStmtTok(tok string) *Stmt {
	f := strings.Split(tok, ":")
	switch f[0] {
	case "I":
		s := &Stmt{Kind: 'I', Table: f[1], Cols: splitTok(f[2], ","), Ret: splitTok(f[4], ",")}
		for _, r := range splitTok(f[3], ";") {
			var row []Cell
			for _, c := range splitTok(r, ",") {
				row = append(row, parseCellTok(c))
			}
			s.Rows = append(s.Rows, row)
		}
		if len(f) == 7 {
			for _, x := range splitTok(f[5], ",") {
				kv := strings.SplitN(x, "=", 2)
				s.OnDup = append(s.OnDup, kv[0])
				s.OnDupV = append(s.OnDupV, parseCellTok(kv[1]))
			}
			s.SelSrc = f[6] == "S"
		}
		return s
	case "U":
		s := &Stmt{Kind: 'U', Table: f[1], Ret: splitTok(f[4], ",")}
		if f[2] != "_" {
			s.Alias = f[2]
		}
		for _, x := range splitTok(f[3], ",") {
			kv := strings.SplitN(x, "=", 2)
			s.Sets = append(s.Sets, kv[0])
			s.SetV = append(s.SetV, parseCellTok(kv[1]))
		}
		s.MultiSet = len(f) == 6 && f[5] == "M"
		return s
	case "S":
		s := &Stmt{Kind: 'S', Table: f[1], Ret: splitTok(f[3], ",")}
		if f[2] != "_" {
			s.Alias = f[2]
		}
		return s
	}
	return &Stmt{Kind: 'X', Raw: "select 1"}
}

type param struct {
	bin  bool
	null bool
	data []byte
}

func parseParamsTok(tok string) []param {
	var out []param
	for _, p := range splitTok(tok, ",") {
		x := param{bin: p[0] == 'b'}
		if p[1:] == "Z" {
			x.null = true
		} else {
			x.data = core.UnHex(p[1:])
		}
		out = append(out, x)
	}
	return out
}

func paramsTok(ps []param) string {
	var out []string
	for _, p := range ps {
		f := "t"
		if p.bin {
			f = "b"
		}
		if p.null {
			out = append(out, f+"Z")
		} else {
			out = append(out, f+core.Hex(p.data))
		}
	}
	return orNone(out, ",")
}

func extParams(ps []param) ([][]byte, []int16) {
	var vals [][]byte
	var fm []int16
	for _, p := range ps {
		if p.null {
			vals = append(vals, nil)
		} else {
			vals = append(vals, append([]byte{}, p.data...))
		}
		if p.bin {
			fm = append(fm, 1)
		} else {
			fm = append(fm, 0)
		}
	}
	return vals, fm
}

func valsTok(vs []fakepg.Val) string {
	var out []string
	for _, v := range vs {
		if v == nil {
			out = append(out, "Z")
		} else {
			out = append(out, "V"+core.Hex(*v))
		}
	}
	return orNone(out, ",")
}

func rawValsTok(vs [][]byte) string {
	var out []string
	for _, v := range vs {
		if v == nil {
			out = append(out, "Z")
		} else {
			out = append(out, "V"+core.Hex(v))
		}
	}
	return orNone(out, ",")
}

func parseValsTok(tok string) []fakepg.Val {
	var out []fakepg.Val
	for _, v := range splitTok(tok, ",") {
		if v == "Z" {
			out = append(out, nil)
		} else {
			out = append(out, fakepg.V(core.UnHex(v[1:])))
		}
	}
	return out
}

// miniWorld builds a one-client world from the op's tokens.
func miniWorld(schTok string, kvToks []string, rnd []byte) (*World, *Sess) {
	sch := parseSchemaTok(schTok)
	ks := &env.TKS{Clients: map[string]*env.KV{"alice": env.ParseKV(kvToks)}}
	w, err := NewWorld(sch.YAML(), ks, sch.Defs(), rnd)
	if err != nil {
		panic("harness: world: " + err.Error() + "\n" + sch.YAML())
	}
	s, err := w.Open("alice")
	if err != nil {
		w.Close()
		panic("harness: open: " + err.Error())
	}
	return w, s
}

func init() {
	core.RegisterProp("C04", run)

	// stmt <q|p> schema [kv×4] stmt rnd → the statement as the database received it
	core.Register("C04.stmt", func(a []string) string {
		w, s := miniWorld(a[1], a[2:6], core.UnHex(a[7]))
		defer w.Close()
		sql := parseStmtTok(a[6]).SQL()
		if a[0] == "q" {
			if _, err := s.C.Simple(sql); err != nil {
				return "closed"
			}
		} else {
			var oids []uint32
			if a[0] == "o" { // explicit parameter type OIDs (text) for every placeholder
				for i := 1; strings.Contains(sql, fmt.Sprintf("$%d", i)); i++ {
					oids = append(oids, 25)
				}
			}
			if _, err := s.C.Extended(fakepg.Ext{Parse: true, Name: "s", SQL: sql, ParamOIDs: oids}); err != nil {
				return "closed"
			}
			if len(w.DB.Parses) == 0 {
				return "nothing"
			}
			return "ok " + fakepg.Describe(w.DB.Parses[len(w.DB.Parses)-1])
		}
		if len(w.DB.Log) == 0 {
			return "nothing"
		}
		return "ok " + fakepg.Describe(w.DB.Log[len(w.DB.Log)-1].SQL)
	})

	// bind schema [kv×4] stmt params order rnd → the parameter values as the database received them
	core.Register("C04.bind", func(a []string) string {
		w, s := miniWorld(a[0], a[1:5], core.UnHex(a[8]))
		defer w.Close()
		sql := parseStmtTok(a[5]).SQL()
		if _, err := s.C.Extended(fakepg.Ext{Parse: true, Name: "s", SQL: sql}); err != nil {
			return "closed"
		}
		vals, fm := extParams(parseParamsTok(a[6]))
		if _, err := s.C.Extended(fakepg.Ext{Bind: true, Name: "s", Params: vals, PFmt: fm}); err != nil {
			return "closed"
		}
		if len(w.DB.Binds) == 0 {
			return "nothing"
		}
		return "vals " + rawValsTok(w.DB.Binds[len(w.DB.Binds)-1].Params)
	})

	// plan schema stmt nvalues: which parameters change when every one of them is a text-format 'A'
	core.Register("C04.plan", func(a []string) string {
		kv := env.NewKV(core.NewRand(7), 1, 1)
		w, s := miniWorld(a[0], strings.Fields(kv.Tokens()), core.NewRand(9).Bytes(4096))
		defer w.Close()
		sql := parseStmtTok(a[1]).SQL()
		if _, err := s.C.Extended(fakepg.Ext{Parse: true, Name: "s", SQL: sql}); err != nil {
			return "closed"
		}
		n := core.Atoi(a[2])
		var vals [][]byte
		for i := 0; i < n; i++ {
			vals = append(vals, []byte("A"))
		}
		if _, err := s.C.Extended(fakepg.Ext{Bind: true, Name: "s", Params: vals}); err != nil {
			return "closed"
		}
		if len(w.DB.Binds) == 0 {
			return "nothing"
		}
		var ch []string
		for i, p := range w.DB.Binds[len(w.DB.Binds)-1].Params {
			if !bytes.Equal(p, []byte("A")) {
				ch = append(ch, strconv.Itoa(i))
			}
		}
		// the model distinguishes untouched / error / plan; on the wire all three without changes look the same
		return "changed " + orNone(ch, ",")
	})

	// row schema [kv×4] stmt fmts cols → the DataRow as the client received it
	core.Register("C04.row", func(a []string) string {
		w, s := miniWorld(a[0], a[1:5], core.NewRand(3).Bytes(4096))
		defer w.Close()
		cols := parseValsTok(a[7])
		var rf []int16
		for _, f := range splitTok(a[6], ",") {
			if f == "b" {
				rf = append(rf, 1)
			} else {
				rf = append(rf, 0)
			}
		}
		sql := "select 1"
		if a[5] != "none" {
			sql = parseStmtTok(a[5]).SQL()
		}
		// let a statement with placeholders be parsed; results come from the canned row
		w.DB.Canned = [][]fakepg.Val{cols}
		var rs []*fakepg.Result
		var err error
		if len(rf) == 0 && !strings.Contains(sql, "$") {
			rs, err = s.C.Simple(sql)
		} else {
			n := strings.Count(sql, "$")
			rs, err = s.C.Extended(fakepg.Ext{Parse: true, SQL: sql, Bind: true, Params: make([][]byte, n), RFmt: rf, Execute: true})
		}
		if err != nil {
			return core.Err
		}
		for _, r := range rs {
			if r.Err != "" {
				return core.Err
			}
			if len(r.Rows) == 1 {
				return "ok " + valsTok(r.Rows[0])
			}
		}
		return "ok " + orNone(nil, ",")
	})
}

func fmtsTok(rf []int16) string {
	var out []string
	for _, f := range rf {
		if f == 1 {
			out = append(out, "b")
		} else {
			out = append(out, "t")
		}
	}
	return orNone(out, ",")
}

var _ = fmt.Sprint
