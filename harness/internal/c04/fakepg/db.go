// Package fakepg is an in-process PostgreSQL stand-in for the C04 sessions: a fake database and a
// fake client that speak the wire protocol (pgproto3) over net.Pipe, with the REAL Acra proxy in
// between. The database stores forwarded values literally (after PostgreSQL's own input decoding of
// the column type) and answers SELECT / RETURNING from what it stored. It understands exactly the
// statement shapes the harness generates; anything else is answered with an ErrorResponse.
package fakepg

import (
	"bytes"
	"encoding/binary"
	"encoding/hex"
	"errors"
	"fmt"
	"io"
	"net"
	"strconv"
	"strings"
	"sync"

	pg_query "github.com/cossacklabs/pg_query_go/v5"
	"github.com/jackc/pgx/v5/pgproto3"
)

// ColType is the database-side type of a column.
type ColType int

const (
	Bytea ColType = iota
	Text
	Int4
)

func (t ColType) OID() uint32 {
	switch t {
	case Bytea:
		return 17
	case Text:
		return 25
	default:
		return 23
	}
}

type Column struct {
	Name string
	Type ColType
}

type TableDef struct {
	Name string
	Cols []Column
}

func (t *TableDef) col(name string) int {
	for i, c := range t.Cols {
		if c.Name == name {
			return i
		}
	}
	return -1
}

// Val is a stored value; nil pointer = NULL.
type Val = *[]byte

func V(b []byte) Val { c := append([]byte{}, b...); return &c }

// Stmt is the database's reading of one forwarded statement (canonical form used by the oracles).
type Stmt struct {
	Kind    string     // insert | update | select | other
	Table   string
	Cols    []string   // INSERT: effective column list; UPDATE: SET columns
	Rows    [][]Val    // INSERT: value rows after parameter substitution and input decoding; UPDATE: one row of SET values
	Raw     [][]string // the same cells as the SQL text / parameter had them ("lit:<text>", "param:<n>", "null", "other")
	Where   string
	SQL     string
	Err     string
	Changed int
}

// DB is the fake database.
type DB struct {
	mu     sync.Mutex
	tables map[string]*TableDef
	rows   map[string][][]Val
	// In is every byte received from the proxy (the "database-side packets" of the property)
	In bytes.Buffer
	// Out is every byte sent to the proxy
	Out bytes.Buffer
	// Log of statements executed (simple and extended), in order
	Log []*Stmt
	// Msgs is the list of frontend message type bytes received (diagnostics / frame checks)
	Msgs []string
	// Binds is every Bind message received (parameters as forwarded by the proxy)
	Binds []BindRec
	// Parses is the statement text of every Parse message received
	Parses []string
	// FailNext makes the next executed statement fail with an ErrorResponse (to exercise error paths)
	FailNext bool
	// Canned, when set, is the answer to every row-returning execution: these rows verbatim (one bytea
	// column per value), whatever the statement says
	Canned [][]Val
	// Sent is every DataRow sent (values as on the wire)
	Sent [][]Val
	// EchoErrors makes every ErrorResponse quote the failing statement (Message) and its bound parameter values
	// (Detail), the way a real server quotes values ("invalid input syntax for type integer: \"abc\"",
	// "Key (email)=(…) already exists") – used by C16 to see whether the proxy logs what it relays
	EchoErrors bool
}

func NewDB(defs []TableDef) *DB {
	db := &DB{tables: map[string]*TableDef{}, rows: map[string][][]Val{}}
	for i := range defs {
		d := defs[i]
		db.tables[d.Name] = &d
	}
	return db
}

// Rows returns a copy of the stored rows of a table.
func (db *DB) Rows(table string) [][]Val {
	db.mu.Lock()
	defer db.mu.Unlock()
	return append([][]Val{}, db.rows[table]...)
}

// Put stores a row directly (used to plant values behind the proxy's back).
func (db *DB) Put(table string, row []Val) {
	db.mu.Lock()
	defer db.mu.Unlock()
	db.rows[table] = append(db.rows[table], row)
}

// BindRec is a Bind message as the database received it.
type BindRec struct {
	Stmt   string
	SQL    string
	Params [][]byte
	PFmt   []int16
	RFmt   []int16
}

type recConn struct {
	net.Conn
	db *DB
}

func (c recConn) Read(p []byte) (int, error) {
	n, err := c.Conn.Read(p)
	c.db.mu.Lock()
	c.db.In.Write(p[:n])
	c.db.mu.Unlock()
	return n, err
}
func (c recConn) Write(p []byte) (int, error) {
	c.db.mu.Lock()
	c.db.Out.Write(p)
	c.db.mu.Unlock()
	return c.Conn.Write(p)
}

type prepared struct {
	sql  string
	tree *pg_query.ParseResult
	oids []uint32
}

type portal struct {
	ps      *prepared
	params  [][]byte
	pfmt    []int16
	rfmt    []int16
	pending []pgproto3.BackendMessage // rows not yet delivered (Execute with a row limit)
	started bool
	tag     string
}

type dbError struct{ code, msg string }

func (e *dbError) Error() string { return e.msg }

func errf(code, f string, a ...any) *dbError { return &dbError{code, fmt.Sprintf(f, a...)} }

// Serve runs the backend side of one connection until the peer closes it.
func (db *DB) Serve(conn net.Conn) {
	defer conn.Close()
	rc := recConn{conn, db}
	be := pgproto3.NewBackend(rc, rc)
	if _, err := be.ReceiveStartupMessage(); err != nil {
		return
	}
	be.Send(&pgproto3.AuthenticationOk{})
	be.Send(&pgproto3.ParameterStatus{Name: "server_version", Value: "14.0 (fakepg)"})
	be.Send(&pgproto3.BackendKeyData{ProcessID: 1, SecretKey: 2})
	be.Send(&pgproto3.ReadyForQuery{TxStatus: 'I'})
	if be.Flush() != nil {
		return
	}
	stmts := map[string]*prepared{}
	portals := map[string]*portal{}
	skip := false // extended protocol: after an error, discard until Sync
	var curSQL string       // statement being answered (EchoErrors)
	var curParams [][]byte // its bound parameters
	fail := func(err error) {
		var de *dbError
		if !errors.As(err, &de) {
			de = &dbError{"XX000", err.Error()}
		}
		er := &pgproto3.ErrorResponse{Severity: "ERROR", SeverityUnlocalized: "ERROR", Code: de.code, Message: de.msg}
		if db.EchoErrors {
			er.Message = fmt.Sprintf("%s at or near \"%s\"", de.msg, curSQL)
			var ps []string
			for i, p := range curParams {
				ps = append(ps, fmt.Sprintf("$%d = '%s'", i+1, p))
			}
			if len(ps) > 0 {
				er.Detail = "parameters: " + strings.Join(ps, ", ")
			}
			er.InternalQuery = curSQL
		}
		be.Send(er)
	}
	for {
		msg, err := be.Receive()
		if err != nil {
			return
		}
		switch m := msg.(type) {
		case *pgproto3.Terminate:
			return
		case *pgproto3.Query:
			db.note("Q")
			sql := m.String
			curSQL, curParams = sql, nil
			tree, perr := pg_query.Parse(sql)
			if perr != nil {
				db.logStmt(&Stmt{Kind: "other", SQL: sql, Err: "syntax"})
				fail(errf("42601", "syntax error"))
			} else if len(tree.Stmts) == 0 {
				be.Send(&pgproto3.EmptyQueryResponse{})
			} else {
				for _, raw := range tree.Stmts {
					one := &pg_query.ParseResult{Stmts: []*pg_query.RawStmt{{Stmt: raw.Stmt}}}
					// SQL-level prepared statements: they live in the same name space as the protocol-level ones
					if tag, handled, perr := db.sqlPrepared(sql, raw.Stmt, stmts); handled {
						if perr != nil {
							fail(perr)
							break
						}
						be.Send(&pgproto3.CommandComplete{CommandTag: []byte(tag)})
						continue
					}
					execSQL, execParams := sql, [][]byte(nil)
					if ex := raw.Stmt.GetExecuteStmt(); ex != nil {
						ps, ok := stmts[ex.GetName()]
						if !ok {
							db.logStmt(&Stmt{Kind: "other", SQL: sql, Err: "no such prepared statement"})
							fail(errf("26000", "prepared statement %q does not exist", ex.GetName()))
							break
						}
						var aerr error
						execParams, aerr = executeArgs(ex)
						if aerr != nil {
							db.logStmt(&Stmt{Kind: "other", SQL: sql, Err: aerr.Error()})
							fail(aerr)
							break
						}
						one, execSQL = ps.tree, ps.sql
						curSQL, curParams = sql, execParams
					}
					out, tag, eerr := db.exec(execSQL, one, execParams, nil, nil, true)
					if eerr != nil {
						fail(eerr)
						break
					}
					for _, o := range out {
						be.Send(o)
					}
					be.Send(&pgproto3.CommandComplete{CommandTag: []byte(tag)})
				}
			}
			be.Send(&pgproto3.ReadyForQuery{TxStatus: 'I'})
			if be.Flush() != nil {
				return
			}
		case *pgproto3.Parse:
			db.note("P")
			if skip {
				continue
			}
			db.mu.Lock()
			db.Parses = append(db.Parses, m.Query)
			db.mu.Unlock()
			curSQL, curParams = m.Query, nil
			tree, perr := pg_query.Parse(m.Query)
			if perr != nil || len(tree.Stmts) > 1 {
				db.logStmt(&Stmt{Kind: "other", SQL: m.Query, Err: "syntax"})
				fail(errf("42601", "syntax error"))
				skip = true
				continue
			}
			stmts[m.Name] = &prepared{sql: m.Query, tree: tree, oids: append([]uint32{}, m.ParameterOIDs...)}
			be.Send(&pgproto3.ParseComplete{})
		case *pgproto3.Bind:
			db.note("B")
			if skip {
				continue
			}
			ps, ok := stmts[m.PreparedStatement]
			if !ok {
				fail(errf("26000", "prepared statement does not exist"))
				skip = true
				continue
			}
			p := &portal{ps: ps, pfmt: append([]int16{}, m.ParameterFormatCodes...), rfmt: append([]int16{}, m.ResultFormatCodes...)}
			for _, v := range m.Parameters {
				if v == nil {
					p.params = append(p.params, nil)
				} else {
					p.params = append(p.params, append([]byte{}, v...))
				}
			}
			portals[m.DestinationPortal] = p
			db.mu.Lock()
			db.Binds = append(db.Binds, BindRec{Stmt: m.PreparedStatement, SQL: ps.sql, Params: p.params, PFmt: p.pfmt, RFmt: p.rfmt})
			db.mu.Unlock()
			be.Send(&pgproto3.BindComplete{})
		case *pgproto3.Describe:
			db.note("D")
			if skip {
				continue
			}
			var ps *prepared
			var rf []int16
			if m.ObjectType == 'S' {
				ps = stmts[m.Name]
				if ps != nil {
					n := db.paramCount(ps.tree)
					oids := make([]uint32, n)
					for i := range oids {
						if i < len(ps.oids) && ps.oids[i] != 0 {
							oids[i] = ps.oids[i]
						} else {
							oids[i] = db.paramOID(ps.tree, i)
						}
					}
					be.Send(&pgproto3.ParameterDescription{ParameterOIDs: oids})
				}
			} else if p := portals[m.Name]; p != nil {
				ps, rf = p.ps, p.rfmt
			}
			if ps == nil {
				fail(errf("26000", "does not exist"))
				skip = true
				continue
			}
			if rd := db.describe(ps.tree, rf); rd != nil {
				be.Send(rd)
			} else {
				be.Send(&pgproto3.NoData{})
			}
		case *pgproto3.Execute:
			db.note("E")
			if skip {
				continue
			}
			p, ok := portals[m.Portal]
			if !ok {
				fail(errf("34000", "portal does not exist"))
				skip = true
				continue
			}
			if !p.started {
				curSQL, curParams = p.ps.sql, p.params
				out, tag, eerr := db.exec(p.ps.sql, p.ps.tree, p.params, p.pfmt, p.rfmt, false)
				if eerr != nil {
					fail(eerr)
					skip = true
					continue
				}
				p.started, p.pending, p.tag = true, out, tag
			}
			n := len(p.pending)
			if m.MaxRows > 0 && int(m.MaxRows) < n {
				n = int(m.MaxRows)
			}
			for _, o := range p.pending[:n] {
				be.Send(o)
			}
			p.pending = p.pending[n:]
			if len(p.pending) > 0 {
				be.Send(&pgproto3.PortalSuspended{})
			} else {
				be.Send(&pgproto3.CommandComplete{CommandTag: []byte(p.tag)})
			}
		case *pgproto3.Close:
			db.note("C")
			if skip {
				continue
			}
			if m.ObjectType == 'S' {
				delete(stmts, m.Name)
			} else {
				delete(portals, m.Name)
			}
			be.Send(&pgproto3.CloseComplete{})
		case *pgproto3.Flush:
			db.note("H")
			if be.Flush() != nil {
				return
			}
		case *pgproto3.Sync:
			db.note("S")
			skip = false
			delete(portals, "")
			be.Send(&pgproto3.ReadyForQuery{TxStatus: 'I'})
			if be.Flush() != nil {
				return
			}
		default:
			db.note("?")
		}
	}
}

// sqlPrepared executes `PREPARE name AS stmt` and `DEALLOCATE name | ALL` of the simple protocol against the
// connection's table of prepared statements (`EXECUTE` is expanded by the caller). PostgreSQL refuses to
// PREPARE a name that is in use and to DEALLOCATE a name that is not.
func (db *DB) sqlPrepared(sql string, st *pg_query.Node, stmts map[string]*prepared) (tag string, handled bool, err error) {
	switch {
	case st.GetPrepareStmt() != nil:
		p := st.GetPrepareStmt()
		rec := &Stmt{Kind: "other", SQL: sql}
		db.logStmt(rec)
		if _, ok := stmts[p.GetName()]; ok {
			rec.Err = "duplicate prepared statement"
			return "", true, errf("42P05", "prepared statement %q already exists", p.GetName())
		}
		inner := &pg_query.ParseResult{Stmts: []*pg_query.RawStmt{{Stmt: p.GetQuery()}}}
		text, derr := pg_query.Deparse(inner)
		if derr != nil {
			rec.Err = "deparse"
			return "", true, errf("XX000", "fakepg: cannot deparse the prepared statement")
		}
		// the statement must be one the database can plan: unknown tables / columns are refused at PREPARE time
		if _, _, serr := db.shape(inner); serr != nil {
			rec.Err = serr.Error()
			return "", true, serr
		}
		stmts[p.GetName()] = &prepared{sql: text, tree: inner}
		return "PREPARE", true, nil
	case st.GetDeallocateStmt() != nil:
		name := st.GetDeallocateStmt().GetName()
		rec := &Stmt{Kind: "other", SQL: sql}
		db.logStmt(rec)
		if name == "" { // DEALLOCATE ALL
			for k := range stmts {
				delete(stmts, k)
			}
			return "DEALLOCATE ALL", true, nil
		}
		if _, ok := stmts[name]; !ok {
			rec.Err = "no such prepared statement"
			return "", true, errf("26000", "prepared statement %q does not exist", name)
		}
		delete(stmts, name)
		return "DEALLOCATE", true, nil
	}
	return "", false, nil
}

// executeArgs turns the argument list of `EXECUTE name (args)` into text-format parameter values.
func executeArgs(ex *pg_query.ExecuteStmt) ([][]byte, error) {
	var out [][]byte
	for _, a := range ex.GetParams() {
		data, _, null, _, err := cell(a, nil, nil)
		if err != nil {
			return nil, err
		}
		if null {
			out = append(out, nil)
		} else {
			out = append(out, data)
		}
	}
	return out, nil
}

func (db *DB) note(s string) {
	db.mu.Lock()
	db.Msgs = append(db.Msgs, s)
	db.mu.Unlock()
}

func (db *DB) logStmt(s *Stmt) {
	db.mu.Lock()
	db.Log = append(db.Log, s)
	db.mu.Unlock()
}

// ---------- statement evaluation ----------

// DecodeByteaText is PostgreSQL's bytea input function (hex and escape formats).
func DecodeByteaText(s []byte) ([]byte, error) {
	if len(s) >= 2 && s[0] == '\\' && s[1] == 'x' {
		h := bytes.Map(func(r rune) rune {
			if r == ' ' || r == '\n' || r == '\t' {
				return -1
			}
			return r
		}, s[2:])
		out := make([]byte, hex.DecodedLen(len(h)))
		if _, err := hex.Decode(out, h); err != nil {
			return nil, errf("22P02", "invalid hexadecimal data")
		}
		return out, nil
	}
	var out []byte
	for i := 0; i < len(s); i++ {
		if s[i] != '\\' {
			out = append(out, s[i])
			continue
		}
		if i+1 < len(s) && s[i+1] == '\\' {
			out = append(out, '\\')
			i++
			continue
		}
		if i+3 < len(s) && s[i+1] >= '0' && s[i+1] <= '3' && s[i+2] >= '0' && s[i+2] <= '7' && s[i+3] >= '0' && s[i+3] <= '7' {
			out = append(out, (s[i+1]-'0')<<6|(s[i+2]-'0')<<3|(s[i+3]-'0'))
			i += 3
			continue
		}
		return nil, errf("22P02", "invalid input syntax for type bytea")
	}
	return out, nil
}

// input converts a text- or binary-format input for a column type into the stored bytes.
func input(t ColType, data []byte, binaryFmt bool) ([]byte, error) {
	switch t {
	case Bytea:
		if binaryFmt {
			return append([]byte{}, data...), nil
		}
		return DecodeByteaText(data)
	case Int4:
		if binaryFmt {
			if len(data) != 4 {
				return nil, errf("22P03", "incorrect binary data format")
			}
			return []byte(strconv.Itoa(int(int32(binary.BigEndian.Uint32(data))))), nil
		}
		if _, err := strconv.ParseInt(string(data), 10, 32); err != nil {
			return nil, errf("22P02", "invalid input syntax for type integer")
		}
		return append([]byte{}, data...), nil
	default:
		if bytes.IndexByte(data, 0) >= 0 {
			return nil, errf("22021", "invalid byte sequence")
		}
		return append([]byte{}, data...), nil
	}
}

// Output renders a stored value in the requested wire format.
func Output(t ColType, v []byte, binaryFmt bool) []byte {
	switch t {
	case Bytea:
		if binaryFmt {
			return v
		}
		return []byte("\\x" + hex.EncodeToString(v))
	case Int4:
		if binaryFmt {
			n, _ := strconv.ParseInt(string(v), 10, 32)
			b := make([]byte, 4)
			binary.BigEndian.PutUint32(b, uint32(int32(n)))
			return b
		}
		return v
	default:
		return v
	}
}

func fmtAt(f []int16, i int) bool {
	if len(f) == 0 {
		return false
	}
	if len(f) == 1 {
		return f[0] == 1
	}
	if i < len(f) {
		return f[i] == 1
	}
	return false
}

// cell evaluates a value expression: returns (text-or-binary input, isBinary, isNull, raw description).
func cell(n *pg_query.Node, params [][]byte, pfmt []int16) ([]byte, bool, bool, string, error) {
	if tc := n.GetTypeCast(); tc != nil {
		n = tc.GetArg()
	}
	if c := n.GetAConst(); c != nil {
		switch {
		case c.GetIsnull():
			return nil, false, true, "null", nil
		case c.GetSval() != nil:
			s := c.GetSval().GetSval()
			return []byte(s), false, false, "lit:" + s, nil
		case c.GetIval() != nil:
			s := strconv.Itoa(int(c.GetIval().GetIval()))
			return []byte(s), false, false, "num:" + s, nil
		case c.GetFval() != nil:
			s := c.GetFval().GetFval()
			return []byte(s), false, false, "num:" + s, nil
		case c.Val == nil: // integer 0 is encoded as an A_Const with Ival{} that may come back nil
			return []byte("0"), false, false, "num:0", nil
		}
	}
	if p := n.GetParamRef(); p != nil {
		i := int(p.GetNumber()) - 1
		if i < 0 || i >= len(params) {
			return nil, false, false, "", errf("08P01", "bind message supplies %d parameters, but statement requires %d", len(params), i+1)
		}
		raw := fmt.Sprintf("param:%d", i+1)
		if params[i] == nil {
			return nil, false, true, raw, nil
		}
		return params[i], fmtAt(pfmt, i), false, raw, nil
	}
	return nil, false, false, "other", errf("0A000", "fakepg: unsupported expression")
}

type cond struct {
	col  string
	val  []byte
	null bool
}

func (db *DB) where(n *pg_query.Node, t *TableDef, params [][]byte, pfmt []int16) (*cond, error) {
	if n == nil {
		return nil, nil
	}
	e := n.GetAExpr()
	if e == nil || len(e.GetName()) != 1 || e.GetName()[0].GetString_().GetSval() != "=" || e.GetLexpr().GetColumnRef() == nil {
		return nil, errf("0A000", "fakepg: unsupported WHERE")
	}
	f := e.GetLexpr().GetColumnRef().GetFields()
	name := f[len(f)-1].GetString_().GetSval()
	ci := t.col(name)
	if ci < 0 {
		return nil, errf("42703", "column %q does not exist", name)
	}
	data, bin, null, _, err := cell(e.GetRexpr(), params, pfmt)
	if err != nil {
		return nil, err
	}
	if null {
		return &cond{col: name, null: true}, nil
	}
	v, err := input(t.Cols[ci].Type, data, bin)
	if err != nil {
		return nil, err
	}
	return &cond{col: name, val: v}, nil
}

func (c *cond) match(t *TableDef, row []Val) bool {
	if c == nil {
		return true
	}
	if c.null {
		return false
	}
	v := row[t.col(c.col)]
	return v != nil && bytes.Equal(*v, c.val)
}

type outCol struct {
	name string
	idx  int // column index in the table
}

// targets expands a target list (SELECT list or RETURNING) over one table.
func targets(list []*pg_query.Node, t *TableDef, alias string) ([]outCol, error) {
	var out []outCol
	for _, n := range list {
		rt := n.GetResTarget()
		if rt == nil {
			return nil, errf("0A000", "fakepg: unsupported target")
		}
		if rt.GetVal().GetColumnRef() == nil {
			// any other expression: a constant integer column
			out = append(out, outCol{"?column?", -1})
			continue
		}
		f := rt.GetVal().GetColumnRef().GetFields()
		if len(f) == 2 {
			q := f[0].GetString_().GetSval()
			if q != t.Name && q != alias {
				return nil, errf("42P01", "missing FROM-clause entry for table %q", q)
			}
			if alias != "" && q == t.Name {
				return nil, errf("42P01", "invalid reference to FROM-clause entry for table %q", q)
			}
		}
		last := f[len(f)-1]
		if last.GetAStar() != nil {
			for i, c := range t.Cols {
				out = append(out, outCol{c.Name, i})
			}
			continue
		}
		name := last.GetString_().GetSval()
		ci := t.col(name)
		if ci < 0 {
			return nil, errf("42703", "column %q does not exist", name)
		}
		label := name
		if rt.GetName() != "" {
			label = rt.GetName()
		}
		out = append(out, outCol{label, ci})
	}
	return out, nil
}

func rowDesc(t *TableDef, cols []outCol, rfmt []int16) *pgproto3.RowDescription {
	rd := &pgproto3.RowDescription{}
	for i, c := range cols {
		f := int16(0)
		if fmtAt(rfmt, i) {
			f = 1
		}
		if c.idx < 0 {
			rd.Fields = append(rd.Fields, pgproto3.FieldDescription{Name: []byte(c.name), DataTypeOID: 23, DataTypeSize: 4, TypeModifier: -1, Format: f})
			continue
		}
		rd.Fields = append(rd.Fields, pgproto3.FieldDescription{Name: []byte(c.name), TableOID: 16384, TableAttributeNumber: uint16(c.idx + 1),
			DataTypeOID: t.Cols[c.idx].Type.OID(), DataTypeSize: -1, TypeModifier: -1, Format: f})
	}
	return rd
}

func dataRow(t *TableDef, cols []outCol, row []Val, rfmt []int16) *pgproto3.DataRow {
	dr := &pgproto3.DataRow{}
	for i, c := range cols {
		if c.idx < 0 {
			dr.Values = append(dr.Values, Output(Int4, []byte("2"), fmtAt(rfmt, i)))
			continue
		}
		v := row[c.idx]
		if v == nil {
			dr.Values = append(dr.Values, nil)
			continue
		}
		o := Output(t.Cols[c.idx].Type, *v, fmtAt(rfmt, i))
		if o == nil {
			o = []byte{}
		}
		dr.Values = append(dr.Values, o)
	}
	return dr
}

func relOf(rv *pg_query.RangeVar) (string, string) {
	alias := ""
	if rv.GetAlias() != nil {
		alias = rv.GetAlias().GetAliasname()
	}
	return rv.GetRelname(), alias
}

// shape returns the table and output columns of a statement that produces rows (nil if none).
func (db *DB) shape(tree *pg_query.ParseResult) (*TableDef, []outCol, error) {
	if len(tree.Stmts) == 0 {
		return nil, nil, nil
	}
	st := tree.Stmts[0].Stmt
	var rv *pg_query.RangeVar
	var list []*pg_query.Node
	switch {
	case st.GetSelectStmt() != nil:
		s := st.GetSelectStmt()
		if len(s.GetFromClause()) != 1 || s.GetFromClause()[0].GetRangeVar() == nil {
			return nil, nil, errf("0A000", "fakepg: unsupported FROM")
		}
		rv, list = s.GetFromClause()[0].GetRangeVar(), s.GetTargetList()
	case st.GetInsertStmt() != nil:
		rv, list = st.GetInsertStmt().GetRelation(), st.GetInsertStmt().GetReturningList()
	case st.GetUpdateStmt() != nil:
		rv, list = st.GetUpdateStmt().GetRelation(), st.GetUpdateStmt().GetReturningList()
	case st.GetDeleteStmt() != nil:
		rv, list = st.GetDeleteStmt().GetRelation(), st.GetDeleteStmt().GetReturningList()
	default:
		return nil, nil, nil
	}
	name, alias := relOf(rv)
	t := db.tables[name]
	if t == nil {
		return nil, nil, errf("42P01", "relation %q does not exist", name)
	}
	if len(list) == 0 {
		return t, nil, nil
	}
	cols, err := targets(list, t, alias)
	return t, cols, err
}

func (db *DB) describe(tree *pg_query.ParseResult, rfmt []int16) *pgproto3.RowDescription {
	t, cols, err := db.shape(tree)
	if err != nil || t == nil || len(cols) == 0 {
		return nil
	}
	return rowDesc(t, cols, rfmt)
}

func (db *DB) paramCount(tree *pg_query.ParseResult) int {
	max := 0
	if len(tree.Stmts) == 0 {
		return 0
	}
	pg_query.Walk(func(n *pg_query.Node) (bool, error) {
		if p := n.GetParamRef(); p != nil && int(p.GetNumber()) > max {
			max = int(p.GetNumber())
		}
		return true, nil
	}, tree.Stmts[0].Stmt)
	return max
}

// paramOID infers the type of parameter i (0-based) from its position in INSERT/UPDATE/WHERE.
func (db *DB) paramOID(tree *pg_query.ParseResult, i int) uint32 {
	st := tree.Stmts[0].Stmt
	isParam := func(n *pg_query.Node) bool {
		if tc := n.GetTypeCast(); tc != nil {
			n = tc.GetArg()
		}
		return n.GetParamRef() != nil && int(n.GetParamRef().GetNumber()) == i+1
	}
	oidOf := func(t *TableDef, col string) uint32 {
		if t == nil || t.col(col) < 0 {
			return 25
		}
		return t.Cols[t.col(col)].Type.OID()
	}
	whereOID := func(t *TableDef, w *pg_query.Node) (uint32, bool) {
		if e := w.GetAExpr(); e != nil && e.GetLexpr().GetColumnRef() != nil && isParam(e.GetRexpr()) {
			f := e.GetLexpr().GetColumnRef().GetFields()
			return oidOf(t, f[len(f)-1].GetString_().GetSval()), true
		}
		return 0, false
	}
	switch {
	case st.GetInsertStmt() != nil:
		ins := st.GetInsertStmt()
		t := db.tables[ins.GetRelation().GetRelname()]
		if t == nil {
			return 25
		}
		var cols []string
		for _, c := range ins.GetCols() {
			cols = append(cols, c.GetResTarget().GetName())
		}
		if len(cols) == 0 {
			for _, c := range t.Cols {
				cols = append(cols, c.Name)
			}
		}
		for _, l := range ins.GetSelectStmt().GetSelectStmt().GetValuesLists() {
			for j, it := range l.GetList().GetItems() {
				if isParam(it) && j < len(cols) {
					return oidOf(t, cols[j])
				}
			}
		}
	case st.GetUpdateStmt() != nil:
		u := st.GetUpdateStmt()
		t := db.tables[u.GetRelation().GetRelname()]
		for _, tl := range u.GetTargetList() {
			if isParam(tl.GetResTarget().GetVal()) {
				return oidOf(t, tl.GetResTarget().GetName())
			}
		}
		if o, ok := whereOID(t, u.GetWhereClause()); ok {
			return o
		}
	case st.GetSelectStmt() != nil:
		s := st.GetSelectStmt()
		if len(s.GetFromClause()) == 1 && s.GetFromClause()[0].GetRangeVar() != nil {
			if o, ok := whereOID(db.tables[s.GetFromClause()[0].GetRangeVar().GetRelname()], s.GetWhereClause()); ok {
				return o
			}
		}
	}
	return 25
}

// exec runs one statement; returns the row messages (RowDescription only in the simple protocol), the command tag.
func (db *DB) exec(sql string, tree *pg_query.ParseResult, params [][]byte, pfmt, rfmt []int16, simple bool) ([]pgproto3.BackendMessage, string, error) {
	db.mu.Lock()
	defer db.mu.Unlock()
	rec := &Stmt{Kind: "other", SQL: sql}
	db.Log = append(db.Log, rec)
	bad := func(err error) ([]pgproto3.BackendMessage, string, error) {
		rec.Err = err.Error()
		return nil, "", err
	}
	if db.FailNext {
		db.FailNext = false
		return bad(errf("23505", "fakepg: injected failure"))
	}
	st := tree.Stmts[0].Stmt
	if db.Canned != nil {
		var out []pgproto3.BackendMessage
		if simple && len(db.Canned) > 0 {
			rd := &pgproto3.RowDescription{}
			for i := range db.Canned[0] {
				rd.Fields = append(rd.Fields, pgproto3.FieldDescription{Name: []byte(fmt.Sprintf("c%d", i)), DataTypeOID: 17, DataTypeSize: -1, TypeModifier: -1})
			}
			out = append(out, rd)
		}
		for _, r := range db.Canned {
			dr := &pgproto3.DataRow{}
			for _, v := range r {
				if v == nil {
					dr.Values = append(dr.Values, nil)
				} else {
					dr.Values = append(dr.Values, append([]byte{}, *v...))
				}
			}
			out = append(out, dr)
			db.Sent = append(db.Sent, r)
		}
		return out, fmt.Sprintf("SELECT %d", len(db.Canned)), nil
	}
	t, cols, err := db.shape(tree)
	if err != nil {
		return bad(err)
	}
	var out []pgproto3.BackendMessage
	defer func() {
		for _, o := range out {
			if dr, ok := o.(*pgproto3.DataRow); ok {
				db.Sent = append(db.Sent, copyVals(dr.Values))
			}
		}
	}()
	if len(cols) > 0 && simple {
		out = append(out, rowDesc(t, cols, nil))
	}
	switch {
	case st.GetInsertStmt() != nil:
		ins := st.GetInsertStmt()
		rec.Kind, rec.Table = "insert", t.Name
		var names []string
		for _, c := range ins.GetCols() {
			names = append(names, c.GetResTarget().GetName())
		}
		if len(names) == 0 {
			for _, c := range t.Cols {
				names = append(names, c.Name)
			}
		}
		rec.Cols = names
		sel := ins.GetSelectStmt().GetSelectStmt()
		if sel == nil {
			return bad(errf("0A000", "fakepg: INSERT without VALUES"))
		}
		var tuples [][]*pg_query.Node
		for _, l := range sel.GetValuesLists() {
			tuples = append(tuples, l.GetList().GetItems())
		}
		if len(tuples) == 0 {
			// INSERT … SELECT <expressions>
			if len(sel.GetTargetList()) == 0 || len(sel.GetFromClause()) != 0 {
				return bad(errf("0A000", "fakepg: unsupported INSERT source"))
			}
			var items []*pg_query.Node
			for _, it := range sel.GetTargetList() {
				items = append(items, it.GetResTarget().GetVal())
			}
			tuples = append(tuples, items)
		}
		var newRows [][]Val
		for _, items := range tuples {
			if len(items) > len(names) {
				return bad(errf("42601", "INSERT has more expressions than target columns"))
			}
			row := make([]Val, len(t.Cols))
			var raws []string
			var vals []Val
			for j, it := range items {
				ci := t.col(names[j])
				if ci < 0 {
					return bad(errf("42703", "column %q does not exist", names[j]))
				}
				data, bin, null, raw, err := cell(it, params, pfmt)
				if err != nil {
					return bad(err)
				}
				raws = append(raws, raw)
				if null {
					vals = append(vals, nil)
					continue
				}
				v, err := input(t.Cols[ci].Type, data, bin)
				if err != nil {
					return bad(err)
				}
				row[ci] = V(v)
				vals = append(vals, V(v))
			}
			rec.Rows = append(rec.Rows, vals)
			rec.Raw = append(rec.Raw, raws)
			newRows = append(newRows, row)
		}
		if oc := ins.GetOnConflictClause(); oc != nil && len(oc.GetTargetList()) > 0 {
			// ON CONFLICT (id) DO UPDATE SET …: rows whose id exists update the stored row instead
			k := t.col("id")
			var fresh [][]Val
			for _, nr := range newRows {
				hit := -1
				for i, r := range db.rows[t.Name] {
					if k >= 0 && nr[k] != nil && r[k] != nil && string(*r[k]) == string(*nr[k]) {
						hit = i
					}
				}
				if hit < 0 {
					fresh = append(fresh, nr)
					continue
				}
				upd := append([]Val{}, db.rows[t.Name][hit]...)
				for _, tl := range oc.GetTargetList() {
					rt := tl.GetResTarget()
					ci := t.col(rt.GetName())
					if ci < 0 {
						return bad(errf("42703", "column %q does not exist", rt.GetName()))
					}
					if cr := rt.GetVal().GetColumnRef(); cr != nil && len(cr.GetFields()) == 2 && cr.GetFields()[0].GetString_().GetSval() == "excluded" {
						if xi := t.col(cr.GetFields()[1].GetString_().GetSval()); xi >= 0 {
							upd[ci] = nr[xi]
							continue
						}
					}
					data, bin, null, _, err := cell(rt.GetVal(), params, pfmt)
					if err != nil {
						return bad(err)
					}
					if null {
						upd[ci] = nil
						continue
					}
					v, err := input(t.Cols[ci].Type, data, bin)
					if err != nil {
						return bad(err)
					}
					upd[ci] = V(v)
				}
				db.rows[t.Name][hit] = upd
			}
			newRows = fresh
		}
		db.rows[t.Name] = append(db.rows[t.Name], newRows...)
		rec.Changed = len(newRows)
		for _, r := range newRows {
			if len(cols) > 0 {
				out = append(out, dataRow(t, cols, r, rfmt))
			}
		}
		return out, fmt.Sprintf("INSERT 0 %d", len(newRows)), nil
	case st.GetUpdateStmt() != nil:
		u := st.GetUpdateStmt()
		rec.Kind, rec.Table = "update", t.Name
		type set struct {
			ci int
			v  Val
		}
		var sets []set
		var raws []string
		var vals []Val
		for _, tl := range u.GetTargetList() {
			rt := tl.GetResTarget()
			ci := t.col(rt.GetName())
			if ci < 0 {
				return bad(errf("42703", "column %q does not exist", rt.GetName()))
			}
			rec.Cols = append(rec.Cols, rt.GetName())
			val := rt.GetVal()
			if mr := val.GetMultiAssignRef(); mr != nil {
				// SET (a, b) = (x, y)
				args := mr.GetSource().GetRowExpr().GetArgs()
				if k := int(mr.GetColno()) - 1; k >= 0 && k < len(args) {
					val = args[k]
				}
			}
			data, bin, null, raw, err := cell(val, params, pfmt)
			if err != nil {
				return bad(err)
			}
			raws = append(raws, raw)
			if null {
				sets = append(sets, set{ci, nil})
				vals = append(vals, nil)
				continue
			}
			v, err := input(t.Cols[ci].Type, data, bin)
			if err != nil {
				return bad(err)
			}
			sets = append(sets, set{ci, V(v)})
			vals = append(vals, V(v))
		}
		rec.Rows, rec.Raw = [][]Val{vals}, [][]string{raws}
		c, err := db.where(u.GetWhereClause(), t, params, pfmt)
		if err != nil {
			return bad(err)
		}
		n := 0
		for i, r := range db.rows[t.Name] {
			if !c.match(t, r) {
				continue
			}
			nr := append([]Val{}, r...)
			for _, s := range sets {
				nr[s.ci] = s.v
			}
			db.rows[t.Name][i] = nr
			n++
			if len(cols) > 0 {
				out = append(out, dataRow(t, cols, nr, rfmt))
			}
		}
		rec.Changed = n
		return out, fmt.Sprintf("UPDATE %d", n), nil
	case st.GetSelectStmt() != nil:
		rec.Kind, rec.Table = "select", t.Name
		c, err := db.where(st.GetSelectStmt().GetWhereClause(), t, params, pfmt)
		if err != nil {
			return bad(err)
		}
		n := 0
		for _, r := range db.rows[t.Name] {
			if c.match(t, r) {
				out = append(out, dataRow(t, cols, r, rfmt))
				n++
			}
		}
		return out, fmt.Sprintf("SELECT %d", n), nil
	case st.GetDeleteStmt() != nil:
		rec.Kind, rec.Table = "delete", t.Name
		c, err := db.where(st.GetDeleteStmt().GetWhereClause(), t, params, pfmt)
		if err != nil {
			return bad(err)
		}
		var keep [][]Val
		n := 0
		for _, r := range db.rows[t.Name] {
			if c.match(t, r) {
				n++
				if len(cols) > 0 {
					out = append(out, dataRow(t, cols, r, rfmt))
				}
			} else {
				keep = append(keep, r)
			}
		}
		db.rows[t.Name] = keep
		return out, fmt.Sprintf("DELETE %d", n), nil
	}
	return nil, strings.ToUpper(strings.Fields(sql + " x")[0]), nil
}

var _ = io.EOF
