package fakepg

import (
	"encoding/hex"
	"fmt"
	"strconv"
	"strings"

	pg_query "github.com/cossacklabs/pg_query_go/v5"
)

func hx(b []byte) string {
	if len(b) == 0 {
		return "-"
	}
	return hex.EncodeToString(b)
}

func listOr(l []string, sep string) string {
	if len(l) == 0 {
		return "_"
	}
	return strings.Join(l, sep)
}

func cellToken(n *pg_query.Node) string {
	if tc := n.GetTypeCast(); tc != nil {
		if tc.GetArg().GetAConst() == nil {
			return "O0"
		}
		n = tc.GetArg()
	}
	if c := n.GetAConst(); c != nil {
		switch {
		case c.GetIsnull():
			return "Z"
		case c.GetSval() != nil:
			return "L" + hx([]byte(c.GetSval().GetSval()))
		case c.GetIval() != nil:
			return "N" + hx([]byte(strconv.Itoa(int(c.GetIval().GetIval()))))
		case c.GetFval() != nil:
			return "N" + hx([]byte(c.GetFval().GetFval()))
		case c.Val == nil:
			return "N" + hx([]byte("0"))
		}
		return "O0"
	}
	if p := n.GetParamRef(); p != nil {
		return fmt.Sprintf("P%d", p.GetNumber())
	}
	return "O0"
}

// setToken: a value of ON CONFLICT DO UPDATE SET; `excluded.col` is the value proposed for insertion (O1)
func setToken(n *pg_query.Node) string {
	if cr := n.GetColumnRef(); cr != nil && len(cr.GetFields()) == 2 && cr.GetFields()[0].GetString_().GetSval() == "excluded" {
		return "O1"
	}
	return cellToken(n)
}

func targetTokens(list []*pg_query.Node) string {
	var out []string
	for _, n := range list {
		rt := n.GetResTarget()
		if rt == nil || rt.GetVal().GetColumnRef() == nil {
			out = append(out, "?")
			continue
		}
		var parts []string
		for _, f := range rt.GetVal().GetColumnRef().GetFields() {
			if f.GetAStar() != nil {
				parts = append(parts, "*")
			} else {
				parts = append(parts, f.GetString_().GetSval())
			}
		}
		out = append(out, strings.Join(parts, "."))
	}
	return listOr(out, ",")
}

// Describe parses one statement and renders it in the canonical token form shared with the model
// (see lean/Driver/C04.lean). Statement shapes outside the model's vocabulary give "X".
func Describe(sql string) string {
	tree, err := pg_query.Parse(sql)
	if err != nil || len(tree.Stmts) != 1 {
		return "X"
	}
	st := tree.Stmts[0].Stmt
	aliasOf := func(rv *pg_query.RangeVar) string {
		if rv.GetAlias() != nil {
			return rv.GetAlias().GetAliasname()
		}
		return "_"
	}
	switch {
	case st.GetInsertStmt() != nil:
		ins := st.GetInsertStmt()
		sel := ins.GetSelectStmt().GetSelectStmt()
		if sel == nil {
			return "X"
		}
		var cols, rows []string
		for _, c := range ins.GetCols() {
			cols = append(cols, c.GetResTarget().GetName())
		}
		src := "V"
		for _, l := range sel.GetValuesLists() {
			var cells []string
			for _, it := range l.GetList().GetItems() {
				cells = append(cells, cellToken(it))
			}
			rows = append(rows, listOr(cells, ","))
		}
		if len(sel.GetValuesLists()) == 0 {
			// INSERT … SELECT <expressions>
			if len(sel.GetTargetList()) == 0 || len(sel.GetFromClause()) != 0 {
				return "X"
			}
			src = "S"
			var cells []string
			for _, it := range sel.GetTargetList() {
				cells = append(cells, cellToken(it.GetResTarget().GetVal()))
			}
			rows = append(rows, listOr(cells, ","))
		}
		tok := "I:" + ins.GetRelation().GetRelname() + ":" + listOr(cols, ",") + ":" + listOr(rows, ";") + ":" + targetTokens(ins.GetReturningList())
		if oc := ins.GetOnConflictClause(); oc != nil || src == "S" {
			var sets []string
			for _, tl := range oc.GetTargetList() {
				sets = append(sets, tl.GetResTarget().GetName()+"="+setToken(tl.GetResTarget().GetVal()))
			}
			tok += ":" + listOr(sets, ",") + ":" + src
		}
		return tok
	case st.GetUpdateStmt() != nil:
		u := st.GetUpdateStmt()
		var sets []string
		multi := false
		for _, tl := range u.GetTargetList() {
			v := tl.GetResTarget().GetVal()
			if mr := v.GetMultiAssignRef(); mr != nil {
				// SET (a, b) = (x, y): the value of the n-th target is the n-th field of the row
				multi = true
				args := mr.GetSource().GetRowExpr().GetArgs()
				if k := int(mr.GetColno()) - 1; k >= 0 && k < len(args) {
					v = args[k]
				}
			}
			sets = append(sets, tl.GetResTarget().GetName()+"="+cellToken(v))
		}
		tok := "U:" + u.GetRelation().GetRelname() + ":" + aliasOf(u.GetRelation()) + ":" + listOr(sets, ",") + ":" + targetTokens(u.GetReturningList())
		if multi {
			tok += ":M"
		}
		return tok
	case st.GetSelectStmt() != nil:
		s := st.GetSelectStmt()
		if len(s.GetFromClause()) != 1 || s.GetFromClause()[0].GetRangeVar() == nil {
			return "X"
		}
		rv := s.GetFromClause()[0].GetRangeVar()
		return "S:" + rv.GetRelname() + ":" + aliasOf(rv) + ":" + targetTokens(s.GetTargetList())
	}
	return "X"
}

// WhereOf returns a canonical rendering of the WHERE clause of a statement ("" if none / not supported).
func WhereOf(sql string) string {
	tree, err := pg_query.Parse(sql)
	if err != nil || len(tree.Stmts) != 1 {
		return ""
	}
	st := tree.Stmts[0].Stmt
	var w *pg_query.Node
	switch {
	case st.GetUpdateStmt() != nil:
		w = st.GetUpdateStmt().GetWhereClause()
	case st.GetSelectStmt() != nil:
		w = st.GetSelectStmt().GetWhereClause()
	case st.GetDeleteStmt() != nil:
		w = st.GetDeleteStmt().GetWhereClause()
	}
	if w == nil || w.GetAExpr() == nil || w.GetAExpr().GetLexpr().GetColumnRef() == nil {
		return ""
	}
	f := w.GetAExpr().GetLexpr().GetColumnRef().GetFields()
	return f[len(f)-1].GetString_().GetSval() + "=" + cellToken(w.GetAExpr().GetRexpr())
}
