package fakepg

import (
	"bytes"
	"errors"
	"fmt"
	"net"
	"sync"
	"time"

	"github.com/jackc/pgx/v5/pgproto3"
)

// Result is what the client saw for one statement.
type Result struct {
	Fields    []pgproto3.FieldDescription
	ParamOIDs []uint32
	Rows      [][]Val
	Tag       string
	Err       string // error code of an ErrorResponse ("" if none)
	ErrMsg    string
	Suspended bool
}

type clientConn struct {
	net.Conn
	c *Client
}

func (c clientConn) Read(p []byte) (int, error) {
	n, err := c.Conn.Read(p)
	c.c.mu.Lock()
	c.c.In.Write(p[:n])
	c.c.mu.Unlock()
	return n, err
}
func (c clientConn) Write(p []byte) (int, error) {
	c.c.mu.Lock()
	c.c.Out.Write(p)
	c.c.mu.Unlock()
	return c.Conn.Write(p)
}

// Client is the fake PostgreSQL client.
type Client struct {
	mu   sync.Mutex
	conn net.Conn
	fe   *pgproto3.Frontend
	// In: every byte received from the proxy; Out: every byte sent to it
	In, Out bytes.Buffer
	Timeout time.Duration
}

var ErrTimeout = errors.New("fakepg: timeout waiting for the proxy")

func NewClient(conn net.Conn) *Client {
	c := &Client{conn: conn, Timeout: 5 * time.Second}
	cc := clientConn{conn, c}
	c.fe = pgproto3.NewFrontend(cc, cc)
	return c
}

func (c *Client) recv() (pgproto3.BackendMessage, error) {
	c.conn.SetReadDeadline(time.Now().Add(c.Timeout))
	m, err := c.fe.Receive()
	if err != nil {
		var ne net.Error
		if errors.As(err, &ne) && ne.Timeout() {
			return nil, ErrTimeout
		}
		return nil, err
	}
	return m, nil
}

func (c *Client) flush() error {
	c.conn.SetWriteDeadline(time.Now().Add(c.Timeout))
	return c.fe.Flush()
}

// Startup performs the start-up exchange.
func (c *Client) Startup() error {
	c.fe.Send(&pgproto3.StartupMessage{ProtocolVersion: pgproto3.ProtocolVersionNumber, Parameters: map[string]string{"user": "u", "database": "d"}})
	if err := c.flush(); err != nil {
		return err
	}
	for {
		m, err := c.recv()
		if err != nil {
			return err
		}
		if _, ok := m.(*pgproto3.ReadyForQuery); ok {
			return nil
		}
	}
}

// Marks returns the current lengths of the client's received and sent byte logs.
func (c *Client) Marks() (in, out int) {
	c.mu.Lock()
	defer c.mu.Unlock()
	return c.In.Len(), c.Out.Len()
}

func copyVals(vs [][]byte) []Val {
	out := make([]Val, len(vs))
	for i, v := range vs {
		if v != nil {
			out[i] = V(v)
		}
	}
	return out
}

// collect reads responses until `syncs` ReadyForQuery messages arrived; it splits results at
// CommandComplete / ErrorResponse / EmptyQueryResponse / PortalSuspended.
func (c *Client) collect(syncs int) ([]*Result, error) {
	var out []*Result
	cur := &Result{}
	touched := false
	for syncs > 0 {
		m, err := c.recv()
		if err != nil {
			return out, err
		}
		switch x := m.(type) {
		case *pgproto3.RowDescription:
			cur.Fields = nil
			for _, f := range x.Fields {
				f.Name = append([]byte{}, f.Name...)
				cur.Fields = append(cur.Fields, f)
			}
			touched = true
		case *pgproto3.ParameterDescription:
			cur.ParamOIDs = append([]uint32{}, x.ParameterOIDs...)
			touched = true
		case *pgproto3.DataRow:
			cur.Rows = append(cur.Rows, copyVals(x.Values))
			touched = true
		case *pgproto3.CommandComplete:
			cur.Tag = string(x.CommandTag)
			out = append(out, cur)
			cur, touched = &Result{}, false
		case *pgproto3.EmptyQueryResponse:
			cur.Tag = "EMPTY"
			out = append(out, cur)
			cur, touched = &Result{}, false
		case *pgproto3.PortalSuspended:
			cur.Suspended = true
			out = append(out, cur)
			cur, touched = &Result{}, false
		case *pgproto3.ErrorResponse:
			cur.Err, cur.ErrMsg = x.Code, x.Message
			out = append(out, cur)
			cur, touched = &Result{}, false
		case *pgproto3.ReadyForQuery:
			if touched {
				out = append(out, cur)
				cur, touched = &Result{}, false
			}
			syncs--
		}
	}
	return out, nil
}

// Simple sends one simple-protocol Query and returns the results (one per statement in it).
func (c *Client) Simple(sql string) ([]*Result, error) {
	c.fe.Send(&pgproto3.Query{String: sql})
	if err := c.flush(); err != nil {
		return nil, err
	}
	return c.collect(1)
}

// Ext describes one extended-protocol round: optional Parse, then Bind/Describe/Execute, then Sync.
type Ext struct {
	Parse     bool
	Name      string
	SQL       string
	ParamOIDs []uint32
	Bind      bool
	Portal    string
	Params    [][]byte // nil element = NULL
	PFmt      []int16
	RFmt      []int16
	DescribeS bool
	DescribeP bool
	Execute   bool
	MaxRows   uint32
	ExecTimes int // number of Execute messages (for row-limited portals); 0 = 1
	NoSync    bool
}

// Send queues the messages of a round (no flush, no read).
func (c *Client) Send(e Ext) {
	if e.Parse {
		c.fe.Send(&pgproto3.Parse{Name: e.Name, Query: e.SQL, ParameterOIDs: e.ParamOIDs})
	}
	if e.DescribeS {
		c.fe.Send(&pgproto3.Describe{ObjectType: 'S', Name: e.Name})
	}
	if e.Bind {
		c.fe.Send(&pgproto3.Bind{DestinationPortal: e.Portal, PreparedStatement: e.Name, ParameterFormatCodes: e.PFmt, Parameters: e.Params, ResultFormatCodes: e.RFmt})
	}
	if e.DescribeP {
		c.fe.Send(&pgproto3.Describe{ObjectType: 'P', Name: e.Portal})
	}
	if e.Execute {
		n := e.ExecTimes
		if n == 0 {
			n = 1
		}
		for i := 0; i < n; i++ {
			c.fe.Send(&pgproto3.Execute{Portal: e.Portal, MaxRows: e.MaxRows})
		}
	}
	if !e.NoSync {
		c.fe.Send(&pgproto3.Sync{})
	}
}

// Pipeline sends several rounds at once and then reads all the answers.
func (c *Client) Pipeline(rounds []Ext) ([]*Result, error) {
	syncs := 0
	for _, e := range rounds {
		c.Send(e)
		if !e.NoSync {
			syncs++
		}
	}
	if err := c.flush(); err != nil {
		return nil, err
	}
	return c.collect(syncs)
}

// Extended runs one round and returns its results.
func (c *Client) Extended(e Ext) ([]*Result, error) { return c.Pipeline([]Ext{e}) }

func (c *Client) Close() {
	c.fe.Send(&pgproto3.Terminate{})
	c.flush()
	c.conn.Close()
}

func (r *Result) String() string {
	s := fmt.Sprintf("tag=%q err=%q rows=%d", r.Tag, r.Err, len(r.Rows))
	return s
}
